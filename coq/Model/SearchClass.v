(** C19 — grammar validity of a search program ([wf_prog]), and the decidable
    classification of the inputs on which raven's evaluator (Model/Search.v)
    is known to leave the specification (Spec/Search.v).
    [classify ks mb = None] is the fragment the theorem c19_search_exact covers. *)
From Coq Require Import String Ascii List Bool Arith NArith ZArith.
From Raven Require Import Base.GoStr Model.Search Model.SearchText Spec.Search.
From Raven Require Model.SeqSet Spec.SeqSet.
Import ListNotations.
Local Open Scope Z_scope.

Inductive cls :=
| CUnknownKey      (* unknown keys are skipped, the reply is OK *)
| CNoOther.       (* (no other class is left) *)

Definition cls_eqb (a b : cls) : bool :=
  match a, b with
  | CUnknownKey, CUnknownKey
  | CNoOther, CNoOther => true
  | _, _ => false
  end.

(** ** grammar validity (RFC 3501: number = 32 bit, quoted strings without
    quote / backslash / line break, atoms, dates that exist) *)
Definition two32 : Z := 4294967296.
Definition numeral_ok (d : str) : bool :=
  match d with [] => false | _ => forallb is_digit d && (digits_val d 0 <? two32) end.
(** sequence-set / uid-set: nz-numbers, "*", ranges, comma lists (Spec.SeqSet.wf) *)
Definition set_ok (s : seqset) : bool := Spec.SeqSet.wf s.

Definition backslash : ascii := "\"%char.
Definition qchar_ok (c : ascii) : bool :=
  negb (Ascii.eqb c dq) && negb (Ascii.eqb c backslash) && negb (Ascii.eqb c CR) && negb (Ascii.eqb c LF).
Definition string_ok (v : str) : bool := forallb qchar_ok v.
(** RFC 5322 field-name: printable ASCII except ":" *)
Definition field_name_ok (f : str) : bool :=
  match f with [] => false | _ => forallb (fun c => (32 <? byte_of c)%N && (byte_of c <? 127)%N && negb (Ascii.eqb c colon) && negb (Ascii.eqb c dq) && negb (Ascii.eqb c backslash)) f end.
Definition atom_char (c : ascii) : bool :=
  negb (is_space c) && negb (Ascii.eqb c dq) && negb (Ascii.eqb c lpar) && negb (Ascii.eqb c rpar)
  && negb (Ascii.eqb c backslash) && negb (Ascii.eqb c "{"%char) && negb (Ascii.eqb c "%"%char)
  && negb (Ascii.eqb c star) && (32 <? byte_of c)%N && (byte_of c <? 127)%N.
Definition atom_ok (w : str) : bool := match w with [] => false | _ => forallb atom_char w end.
Definition date_ok (d : sdate) : bool :=
  let '(dd, mon, yyyy) := d in
  forallb is_digit dd && ((length dd =? 1) || (length dd =? 2))%nat
  && forallb is_digit yyyy && (length yyyy =? 4)%nat
  && match sdate_val d with Some _ => true | None => false end.
Definition unknown_ok (name : str) : bool :=
  atom_ok name && negb (Model.SeqSet.is_sequence_set (to_upper name))
  && match kw_of (to_upper name) with None => true | Some _ => false end.

Fixpoint wf_key (k : key) : bool :=
  match k with
  | KAll | KHas _ | KUn _ | KNew => true
  | KKeyword w | KUnkeyword w => atom_ok w
  | KSeq s | KUid s => set_ok s
  | KHdr _ v | KBody v | KText v => string_ok v
  | KHeader f v => field_name_ok f && string_ok v
  | KLarger n | KSmaller n => numeral_ok n
  | KDate _ _ d => date_ok d
  | KNot k' => wf_key k'
  | KOr a b => wf_key a && wf_key b
  | KGroup l => forallb wf_key l && match l with [] => false | _ => true end
  | KUnknown name => unknown_ok name
  end.
Definition wf_prog (ks : list key) : bool := match ks with [] => false | _ => forallb wf_key ks end.

(** the client's view is well formed: a flag is a non-empty word without white space
    (it is what FETCH FLAGS (...) lists between blanks) *)
Definition flag_ok (f : str) : bool := match f with [] => false | _ => forallb (fun c => negb (is_space c)) f end.
(** ... and the listing is in strictly ascending UID order, UIDs positive
    (ORDER BY uid over UNIQUE(mailbox_id, uid); C09) *)
Definition mb_ok (mb : list smsg) : bool :=
  forallb (fun m => forallb flag_ok (s_flags m)) mb
  && Spec.SeqSet.ascendingb (map s_uid mb) && forallb (fun m => 0 <? s_uid m) mb.

(** ** classes *)
(** keys other than NOT / OR / parenthesised lists *)
Definition simple_class (k : key) (mb : list smsg) : option cls :=
  match k with
  | KAll => None
  | KHas _ | KUn _ | KNew | KKeyword _ | KUnkeyword _ => None   (* whole-flag comparison since fix 378938d *)
  | KSeq _ | KUid _ => None                                    (* RFC 3501 sets since fix 32751d9 *)
  | KHdr _ _ | KHeader _ _ | KBody _ | KText _ | KLarger _ | KSmaller _ | KDate _ _ _ => None   (* proved since the header / sent-date fixes *)
  | KUnknown _ => Some CUnknownKey
  | KGroup _ | KNot _ | KOr _ _ => None                        (* see key_class *)
  end.

Definition first_class {A} (f : A -> option cls) : list A -> option cls :=
  fix go (l : list A) : option cls :=
    match l with
    | [] => None
    | x :: l' => match f x with None => go l' | c => c end
    end.

(** NOT and OR take complete keys and a parenthesised list is evaluated (fix
    "NOT and OR take complete search keys"): a compound key has the classes of
    its parts, nothing of its own *)
Fixpoint key_class (k : key) (mb : list smsg) : option cls :=
  match k with
  | KNot k' => key_class k' mb
  | KOr a b => match key_class a mb with None => key_class b mb | c => c end
  | KGroup l => first_class (fun k' => key_class k' mb) l
  | _ => simple_class k mb
  end.

Fixpoint classify (ks : list key) (mb : list smsg) : option cls :=
  match ks with
  | [] => None
  | k :: ks' => match key_class k mb with None => classify ks' mb | c => c end
  end.

(** the command line level: connection.go splits the line with utils.SplitCommandLine
    (fix 2599345: a quoted string is one field, its blanks survive) and
    SearchSelectedMailbox re-joins the fields with single blanks; no class of its own *)
Definition classify_line (ks : list key) (mb : list smsg) : option cls := classify ks mb.
