(** Model of the out-of-line blob logic of raven (C15).

    Go sources mirrored here, statement by statement, bugs included:

      internal/blobstorage/s3.go      S3BlobStorage.Store (HEAD, then PUT), Retrieve (GET)
      internal/db/sqlite.go           StoreBlobWithEncoding, StoreBlobS3WithEncoding,
                                      GetBlob, GetBlobS3BlobID
      internal/delivery/parser/parser.go
                                      StoreMessagePerUserWithSharedDBAndS3 (the part loop:
                                      threshold rule, the S3-ok / DB-error / S3-error /
                                      local-error branches, blobHoldsContent and the
                                      give-back of the reference, fix 573e876),
                                      ReadPartContent (used by ReconstructMessageWithSharedDBAndS3,
                                      writePartContentWithS3 and fetch.go BODY[n]: [read_part])

    Abstractions.  [key enc content] stands for hex(sha256(decodeContentForHashing
    content enc)) — the UNIQUE column blobs.sha256_hash; [okey content] stands
    for hex(sha256(content)) — the object name under "blobs/".  Both are
    section variables: the theorems hold for every pair of functions; the
    correspondence check instantiates them with [hashed_octets] and the
    identity (BlobCodec.v).  The object store and the shared database answer
    each call with one outcome taken from an oracle list (empty list = every
    further call succeeds), exactly as the scripted fake endpoint of
    harness/drv/s3.go consumes its script.  No proofs here. *)
From Coq Require Import String Ascii List Bool Arith NArith.
From Raven Require Import Base.GoStr.
Import ListNotations.

Inductive outcome := OOk | OFail.
Definition oracle := list outcome.
Definition take (o : oracle) : outcome * oracle :=
  match o with [] => (OOk, []) | x :: r => (x, r) end.

(** blobs.storage_type / content / s3_blob_id *)
Inductive form := FLocal (c : str) | FS3 (k : str).
Record blobrow := mkBlob { b_key : str; b_form : form; b_refs : nat }.

(** one element of parsed.Parts as the store loop sees it *)
Record part := mkPart { p_enc : str; p_content : str; p_named : bool (* Filename != "" *) }.

(** one row of message_parts (columns blob_id, text_content,
    content_transfer_encoding).  [r_own] is a GHOST field: the octets the
    part had when it was handed to the store loop; no model function reads it. *)
Record partrow := mkRow { r_blob : option nat; r_text : str; r_enc : str; r_own : str }.

(** requests seen by the object store *)
Inductive req := RHead (k : str) | RPut (k : str) | RGet (k : str).

Record world := mkW {
  w_blobs : list blobrow;          (* id = position + 1 (INTEGER PRIMARY KEY, nothing is ever deleted) *)
  w_objs : list (str * str);       (* bucket: object name -> content *)
  w_msgs : list (list partrow);    (* message_parts, grouped by message, in insertion order *)
  w_log : list req }.

Definition w0 : world := mkW [] [] [] [].

Fixpoint lookup (objs : list (str * str)) (k : str) : option str :=
  match objs with
  | [] => None
  | (k', c) :: r => if str_eqb k' k then Some c else lookup r k
  end.
Definition has_obj objs k : bool := match lookup objs k with Some _ => true | None => false end.
Definition remove_obj (objs : list (str * str)) (k : str) :=
  filter (fun kc => negb (str_eqb (fst kc) k)) objs.
Definition put_obj objs k c := (k, c) :: remove_obj objs k.

(** SELECT id FROM blobs WHERE sha256_hash = ? *)
Fixpoint find_key_from (i : nat) (bl : list blobrow) (k : str) : option nat :=
  match bl with
  | [] => None
  | b :: r => if str_eqb (b_key b) k then Some i else find_key_from (S i) r k
  end.
Definition find_key bl k := find_key_from 1 bl k.

Definition get_blob (bl : list blobrow) (id : nat) : option blobrow :=
  match id with O => None | S i => nth_error bl i end.

(** UPDATE blobs SET reference_count = reference_count + 1 WHERE id = ? *)
Fixpoint incr_ref_from (i : nat) (bl : list blobrow) (id : nat) : list blobrow :=
  match bl with
  | [] => []
  | b :: r => (if Nat.eqb i id then mkBlob (b_key b) (b_form b) (S (b_refs b)) else b)
              :: incr_ref_from (S i) r id
  end.
Definition incr_ref bl id := incr_ref_from 1 bl id.

Section Keyed.
Variable key : str -> str -> str.
Variable okey : str -> str.

(** S3BlobStorage.Store: HEAD; found => done; else PUT.
    Result: object name or error, bucket, rest of the oracle, requests. *)
Definition s3_store (objs : list (str * str)) (content : str) (o : oracle)
  : option str * list (str * str) * oracle * list req :=
  let k := okey content in
  let '(h, o1) := take o in
  if (match h with OOk => has_obj objs k | OFail => false end)
  then (Some k, objs, o1, [RHead k])
  else let '(p, o2) := take o1 in
       match p with
       | OOk => (Some k, put_obj objs k content, o2, [RHead k; RPut k])
       | OFail => (None, objs, o2, [RHead k; RPut k])
       end.

(** StoreBlobWithEncoding ([f] = FLocal content) and StoreBlobS3WithEncoding
    ([f] = FS3 name): hash of the decoded content, select, then increment or
    insert THE FIRST WRITER'S FORM.  [d] = outcome of the database work. *)
Definition store_blob (f : form) (bl : list blobrow) (enc content : str) (d : outcome)
  : option nat * list blobrow :=
  match d with
  | OFail => (None, bl)
  | OOk =>
      match find_key bl (key enc content) with
      | Some id => (Some id, incr_ref bl id)
      | None => (Some (S (length bl)), bl ++ [mkBlob (key enc content) f 1])
      end
  end.

Definition out_of_line (p : part) : bool :=
  Nat.ltb 1024 (length (p_content p)) || p_named p.

Definition inline_row (p : part) : partrow := mkRow None (p_content p) (p_enc p) (p_content p).
Definition blob_row (p : part) (id : nat) : partrow := mkRow (Some id) [] (p_enc p) (p_content p).

(** parser.blobHoldsContent (fixes 573e876, 03ae0ff): does the row that
    StoreBlob* found or created hold exactly the part's octets?
      storedS3ID != "" (the S3 branch stored the row): GetBlobS3BlobID is
        (storedS3ID, "s3");
      else: GetBlob == content, and for an empty content the row must not be
        an S3 row (GetBlob answers "" for every S3 row) — so an S3 row never
        holds a part that was not put into S3 by this store. *)
Definition blob_holds (bl : list blobrow) (id : nat) (content : str) (stored : option str) : bool :=
  match get_blob bl id with
  | None => false
  | Some b =>
      match stored with
      | Some (c0 :: k0) =>
          match b_form b with FS3 k' => str_eqb k' (c0 :: k0) | FLocal _ => false end
      | _ =>
          match b_form b with FLocal c => str_eqb c content | FS3 _ => false end
      end
  end.

(** db.DecrementBlobReference: reference_count - 1 where it is > 0.  (Its
    "delete the row at 0" is not modelled: the reference is only ever given
    back for a row that existed before with a count >= 1, see
    Proof/BlobsInv.v give_back_keeps_row; its database error is ignored by the
    caller and not modelled either.) *)
Fixpoint decr_ref_from (i : nat) (bl : list blobrow) (id : nat) : list blobrow :=
  match bl with
  | [] => []
  | b :: r => (if Nat.eqb i id then mkBlob (b_key b) (b_form b) (Nat.pred (b_refs b)) else b)
              :: decr_ref_from (S i) r id
  end.
Definition decr_ref bl id := decr_ref_from 1 bl id.

(** the tail of the out-of-line branch: keep the blob reference only if the
    blob holds the part's exact octets; otherwise give the reference back and
    keep the part inline *)
Definition link_or_inline (p : part) (r : option nat) (bl : list blobrow) (stored : option str)
  : partrow * list blobrow :=
  match r with
  | Some id => if blob_holds bl id (p_content p) stored then (blob_row p id, bl)
               else (inline_row p, decr_ref bl id)
  | None => (inline_row p, bl)
  end.

(** body of the part loop of StoreMessagePerUserWithSharedDBAndS3.
    [s3on] = s3Storage != nil && s3Storage.IsEnabled() of the WRITER;
    [o] object-store oracle, [d] database oracle (StoreBlob* calls). *)
Definition store_part (s3on : bool) (w : world) (p : part) (o d : oracle)
  : partrow * world * oracle * oracle :=
  if out_of_line p then
    if s3on then
      match s3_store (w_objs w) (p_content p) o with
      | (Some k, objs', o', lg) =>
          let '(d0, d') := take d in
          let '(r, bl') := store_blob (FS3 k) (w_blobs w) (p_enc p) (p_content p) d0 in
          let '(row, bl'') := link_or_inline p r bl' (Some k) in
          (row, mkW bl'' objs' (w_msgs w) (w_log w ++ lg), o', d')
      | (None, objs', o', lg) =>
          let '(d0, d') := take d in
          let '(r, bl') := store_blob (FLocal (p_content p)) (w_blobs w) (p_enc p) (p_content p) d0 in
          let '(row, bl'') := link_or_inline p r bl' None in
          (row, mkW bl'' objs' (w_msgs w) (w_log w ++ lg), o', d')
      end
    else
      let '(d0, d') := take d in
      let '(r, bl') := store_blob (FLocal (p_content p)) (w_blobs w) (p_enc p) (p_content p) d0 in
      let '(row, bl'') := link_or_inline p r bl' None in
      (row, mkW bl'' (w_objs w) (w_msgs w) (w_log w), o, d')
  else (inline_row p, w, o, d).

Fixpoint store_parts (s3on : bool) (w : world) (ps : list part) (o d : oracle) (acc : list partrow)
  : list partrow * world :=
  match ps with
  | [] => (rev acc, w)
  | p :: r => let '(row, w', o', d') := store_part s3on w p o d in
              store_parts s3on w' r o' d' (row :: acc)
  end.

Definition store_msg (s3on : bool) (w : world) (ps : list part) (o d : oracle) : world :=
  let '(rows, w') := store_parts s3on w ps o d [] in
  mkW (w_blobs w') (w_objs w') (w_msgs w' ++ [rows]) (w_log w').

(** parser.ReadPartContent, the one read path used by fetch.go (BODY[n]),
    ReconstructMessageWithSharedDBAndS3 (single part) and writePartContentWithS3:
      blob_id not set: text_content
      GetBlob: error => error; content != "" => content
      GetBlobS3BlobID: type not s3 => "" (an empty local blob);
                       name == "" => error; READER without S3 => error;
                       Retrieve: error (5xx, dropped connection, missing object) => error.
    [None] = the error is returned (FETCH answers NO).
    Result: content or error, rest of the oracle, requests. *)
Definition read_part (s3on : bool) (w : world) (row : partrow) (o : oracle)
  : option str * oracle * list req :=
  match r_blob row with
  | None => (Some (r_text row), o, [])
  | Some id =>
      match get_blob (w_blobs w) id with
      | None => (None, o, [])
      | Some b =>
          match b_form b with
          | FLocal c => (Some c, o, [])
          | FS3 k =>
              match k with
              | [] => (None, o, [])
              | _ =>
                  if s3on then
                    let '(g, o') := take o in
                    match g with
                    | OOk => (lookup (w_objs w) k, o', [RGet k])
                    | OFail => (None, o', [RGet k])
                    end
                  else (None, o, [])
              end
          end
      end
  end.

(** all parts of a message in part order (what one FETCH BODY[] does); the
    first unreadable part fails the whole reconstruction, later parts are not read *)
Fixpoint read_rows (s3on : bool) (w : world) (rows : list partrow) (o : oracle)
  : option (list str) * list req :=
  match rows with
  | [] => (Some [], [])
  | r :: rest =>
      let '(c, o', lg) := read_part s3on w r o in
      match c with
      | None => (None, lg)
      | Some c =>
          let '(cs, lg') := read_rows s3on w rest o' in
          (option_map (cons c) cs, lg ++ lg')
      end
  end.

(** histories *)
Inductive event :=
| EStore (s3on : bool) (o d : oracle) (ps : list part)   (* one message through LMTP or APPEND *)
| ELose (ks : list str).                                 (* objects vanish from the bucket *)

Definition step (w : world) (e : event) : world :=
  match e with
  | EStore s3on o d ps => store_msg s3on w ps o d
  | ELose ks => mkW (w_blobs w) (fold_left remove_obj ks (w_objs w)) (w_msgs w) (w_log w)
  end.

Definition run (evs : list event) : world := fold_left step evs w0.

(** ---- the backend failed for this read: the blob lives in the object
    store and the reader has no S3, or the GET fails, or the object is gone *)
Definition read_failed (s3on : bool) (w : world) (row : partrow) (o : oracle) : bool :=
  match r_blob row with
  | None => false
  | Some id =>
      match get_blob (w_blobs w) id with
      | None => false
      | Some b =>
          match b_form b with
          | FLocal _ => false
          | FS3 k => negb s3on
                     || (match fst (take o) with OFail => true | OOk => false end)
                     || negb (has_obj (w_objs w) k)
          end
      end
  end.

(** the blob's stored form is this part's own text (no finding class is left:
    every row that points at a blob satisfies this, Proof/BlobsInv.v row_ok) *)
Definition form_is_own (f : form) (own : str) : bool :=
  match f with FLocal c => str_eqb c own | FS3 k => str_eqb k (okey own) end.

End Keyed.

