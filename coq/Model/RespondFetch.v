(** C13 — model of message.processFetchForMessage (internal/server/message/
    fetch.go) after fix wave 3: the item list is split once into items
    (parseFetchItems: a tokenizer over the list honouring [...] sections and
    <a.b> ranges), and every item is answered once, under its own name, in
    request order. Each answer contributes an [out] to the response parts of
    Model/Respond.v.

    Inputs that come from the store / from Go's MIME packages are fields of
    [fenv] (the reconstructed message, the stored flag string, the
    BODYSTRUCTURE value, the content of numbered parts).  [None] = the Go
    code panics (C12's subject).  Also HandleFetch's macro expansion and
    UID FETCH's item rewriting. *)
From Coq Require Import String Ascii List Bool Arith NArith ZArith.
From Raven Require Import Base.GoStr Spec.Grammar Model.Respond.
Import ListNotations.
Local Open Scope char_scope.

Record fenv := {
  e_uid : nat;
  e_flags : str;                 (* message_mailbox.flags as stored *)
  e_idate : str;                 (* formatted internal date *)
  e_msg : str;                   (* reconstructed message, CRLF line ends *)
  e_bs : str;                    (* value of BuildBodyStructure after "BODYSTRUCTURE " *)
  e_parts : list (str * str);    (* <part number>[.MIME] -> content of that part / its MIME header *)
  e_mail : list (str * list (str * str))  (* net/mail's reading of the address headers of this message *)
}.

Fixpoint assoc (k : str) (l : list (str * str)) : option str :=
  match l with
  | [] => None
  | (k', v) :: r => if str_eqb k k' then Some v else assoc k r
  end.

Fixpoint assoc_set (k v : str) (l : list (str * str)) : list (str * str) :=
  match l with
  | [] => [(k, v)]
  | (k', v') :: r => if str_eqb k k' then (k, v) :: r else (k', v') :: assoc_set k v r
  end.

(** fmt.Sscanf(spec, "%d.%d", &a, &b) for non-negative numbers:
    (a if scanned, b if scanned) *)
Definition scan_range (spec : str) : option nat * option nat :=
  let '(a, r) := span_digits spec [] in
  match a with
  | [] => (None, None)
  | _ =>
    let av := Z.to_nat (digits_val a 0) in
    match r with
    | c :: r' =>
        if Ascii.eqb c "." then
          let '(b, _) := span_digits r' [] in
          match b with [] => (Some av, None) | _ => (Some av, Some (Z.to_nat (digits_val b 0))) end
        else (Some av, None)
    | [] => (Some av, None)
    end
  end.

(** payload[startPos:endPos] with the clamping of fetch.go *)
Definition clamp_slice (payload : str) (a b : nat) : str :=
  if Nat.ltb a (length payload)
  then firstn (Nat.min (a + b) (length payload) - a) (skipn a payload)
  else [].

(** parsePartNumberPath: dot-separated positive integers *)
Definition part_path_ok (s : str) : bool :=
  match s with
  | [] => false
  | _ => forallb (fun p => match atoi p with Some z => (0 <? z)%Z | None => false end)
                 (split_byte s ".")
  end.

Definition hdr_end (msg : str) : option nat := index msg (crlf ++ crlf).

(** ---- the item list: parseFetchItems / parseFetchItem (fix wave 3) ---- *)

Record pitem := {
  p_name : str;                    (* item name without section, ASCII upper-cased *)
  p_has_sec : bool;
  p_sec : str;                     (* text between the brackets, as written *)
  p_partial : option (nat * nat)   (* a well-formed <start.length> *)
}.

Definition is_item_sep (c : ascii) : bool := Ascii.eqb c SP || Ascii.eqb c LP || Ascii.eqb c RP.

(** the tokens of the item list: split at SP ( ) outside a [...] section.
    [cur] is the current token, reversed. Structural recursion on the text:
    every byte string yields a list. *)
Fixpoint split_items (s : str) (in_sec : bool) (cur : str) : list str :=
  match s with
  | [] => match cur with [] => [] | _ => [rev cur] end
  | c :: r =>
      if in_sec then split_items r (negb (Ascii.eqb c RSB)) (c :: cur)
      else if Ascii.eqb c LSB then split_items r true (c :: cur)
      else if is_item_sep c
           then match cur with [] => split_items r false [] | _ => rev cur :: split_items r false [] end
           else split_items r false (c :: cur)
  end.

(** fmt.Sscanf(spec, "%d.%d") with both numbers scanned, unsigned *)
Definition scan_range2 (spec : str) : option (nat * nat) :=
  match scan_range spec with
  | (Some a, Some b) => Some (a, b)
  | _ => None
  end.

Definition parse_item (tok : str) : pitem :=
  match index_byte tok LSB with
  | None => Build_pitem (to_upper tok) false [] None
  | Some o =>
      let rest := skipn (S o) tok in
      match index_byte rest RSB with
      | None => Build_pitem (to_upper (firstn o tok)) true rest None
      | Some e =>
          let rng := skipn (S e) rest in
          let part :=
            match rng with
            | c :: _ =>
                if Ascii.eqb c "<" && Nat.leb 2 (length rng) && Ascii.eqb (last rng " ") ">"
                then scan_range2 (firstn (length rng - 2) (skipn 1 rng))
                else None
            | [] => None
            end in
          Build_pitem (to_upper (firstn o tok)) true (firstn e rest) part
      end
  end.

Definition parse_items (items : str) : list pitem := map parse_item (split_items items false []).

(** ---- BODY[HEADER.FIELDS (...)] ---- *)
Definition default_fields : list str :=
  [S_ "FROM"; S_ "TO"; S_ "CC"; S_ "BCC"; S_ "SUBJECT"; S_ "DATE"; S_ "MESSAGE-ID"; S_ "PRIORITY";
   S_ "X-PRIORITY"; S_ "REFERENCES"; S_ "NEWSGROUPS"; S_ "IN-REPLY-TO"; S_ "CONTENT-TYPE"; S_ "REPLY-TO"].

(** the loop over the header lines: (map, currentHeader) *)
Fixpoint hf_lines (lines : list str) (req : list str) (m : list (str * str)) (cur : str)
  : list (str * str) :=
  match lines with
  | [] => m
  | line :: rest =>
    match line with
    | [] => m                                              (* end of headers *)
    | c :: _ =>
      if Ascii.eqb c SP || Ascii.eqb c TAB then
        match cur with
        | [] => hf_lines rest req m cur
        | _ => let old := match assoc cur m with Some v => v | None => [] end in
               hf_lines rest req (assoc_set cur (old ++ crlf ++ line) m) cur
        end
      else
        match index line [":"] with
        | Some i =>
            let name := to_upper (trim_space (firstn i line)) in
            if existsb (str_eqb name) req
            then hf_lines rest req (assoc_set name line m) name
            else hf_lines rest req m cur
        | None => hf_lines rest req m cur
        end
    end
  end.

(** headerFieldNames *)
Definition header_field_names (section : str) : list str :=
  match index_byte section LP with
  | None => default_fields
  | Some o =>
      let fs := skipn (S o) section in
      match index_byte fs RP with
      | Some cp => match fields (firstn cp fs) with
                   | [] => default_fields
                   | l => map to_upper l
                   end
      | None => default_fields
      end
  end.

(** selectHeaderFields *)
Definition select_header_fields (msg : str) (req : list str) : str :=
  let m := hf_lines (split msg crlf) req [] [] in
  let hl := flat_map (fun h => match assoc h m with Some v => [v] | None => [] end) req in
  let hs := join hl crlf in
  (match hs with [] => [] | _ => hs ++ crlf end) ++ crlf.

(** addSection: the item's own range selects the octets, its origin is announced *)
Definition section_out (label : str) (it : pitem) (data : str) : out :=
  match p_partial it with
  | Some (a, b) => Lit (label ++ ["<"] ++ dec a ++ [">"]) (clamp_slice data a b)
  | None => Lit label data
  end.

(** what one item contributes (at most one response part); [None] = Go panics *)
Definition answer (it : pitem) (e : fenv) : option (list out) :=
  let msg := e_msg e in
  let hdrs := match hdr_end msg with Some i => firstn (i + 4) msg | None => msg end in
  let body := match hdr_end msg with Some i => skipn (i + 4) msg | None => [] end in
  let nm := p_name it in
  if p_has_sec it then
    if str_eqb nm (S_ "BODY") || str_eqb nm (S_ "BODY.PEEK") then
      let su := to_upper (p_sec it) in
      match su with
      | [] => Some [section_out (S_ "BODY[]") it msg]
      | c0 :: _ =>
        if str_eqb su (S_ "TEXT") then Some [section_out (S_ "BODY[TEXT]") it body]
        else if str_eqb su (S_ "HEADER") then Some [section_out (S_ "BODY[HEADER]") it hdrs]
        else if str_eqb su (S_ "HEADER.FIELDS") || has_prefix su (S_ "HEADER.FIELDS ")
                || has_prefix su (S_ "HEADER.FIELDS(") then
          let req := header_field_names (p_sec it) in
          Some [section_out (S_ "BODY[HEADER.FIELDS (" ++ join req [SP] ++ S_ ")]") it
                            (select_header_fields msg req)]
        else if is_digit c0 then
          let spec := p_sec it in
          let partNum := match index su (S_ ".MIME") with Some i => firstn i spec | None => spec end in
          if part_path_ok partNum then
            (* the content depends on the part number and on .MIME only: [e_parts] is keyed by
               <part number>[.MIME] *)
            let key := partNum ++ (if contains su (S_ ".MIME") then S_ ".MIME" else []) in
            let payload0 := match assoc key (e_parts e) with Some p => p | None => [] end in
            let label0 := S_ "BODY[" ++ spec ++ ["]"] in
            let '(label, payload) :=
              match p_partial it with
              | Some (a, b) => (label0 ++ ["<"] ++ dec a ++ [">"], clamp_slice payload0 a b)
              | None => (label0, payload0)
              end in
            Some [match payload with [] => Inline label NIL | _ => Lit label payload end]
          else Some []
        else Some []
      end
    else Some []
  else if str_eqb nm (S_ "UID") then Some [Inline (S_ "UID") (dec (e_uid e))]
  else if str_eqb nm (S_ "FLAGS") then Some [Inline (S_ "FLAGS") ([LP] ++ e_flags e ++ [RP])]
  else if str_eqb nm (S_ "INTERNALDATE") then Some [Inline (S_ "INTERNALDATE") ([DQ] ++ e_idate e ++ [DQ])]
  else if str_eqb nm (S_ "RFC822.SIZE") then Some [Inline (S_ "RFC822.SIZE") (dec (length msg))]
  else if str_eqb nm (S_ "ENVELOPE") then
    match envelope_value (mail_table (e_mail e)) msg with Some v => Some [Inline (S_ "ENVELOPE") v] | None => None end
  else if str_eqb nm (S_ "BODYSTRUCTURE") then Some [Inline (S_ "BODYSTRUCTURE") (e_bs e)]
  else if str_eqb nm (S_ "BODY") then Some [Inline (S_ "BODY") (e_bs e)]
  else if str_eqb nm (S_ "RFC822.HEADER") then Some [Lit (S_ "RFC822.HEADER") hdrs]
  else if str_eqb nm (S_ "RFC822.TEXT") then Some [Lit (S_ "RFC822.TEXT") body]
  else if str_eqb nm (S_ "RFC822") || str_eqb nm (S_ "RFC822.PEEK") then Some [Lit (S_ "BODY[]") msg]
  else Some [].

Definition out_label (o : out) : str := fst (pair_of o).

(** the [answered] map of the Go loop: an item whose label was already
    answered contributes nothing *)
Fixpoint collect (its : list pitem) (e : fenv) (seen : list str) : option (list out) :=
  match its with
  | [] => Some []
  | it :: rest =>
      match answer it e with
      | None => None
      | Some outs =>
          let fresh := filter (fun o => negb (existsb (str_eqb (out_label o)) seen)) outs in
          match collect rest e (map out_label fresh ++ seen) with
          | Some r => Some (fresh ++ r)
          | None => None
          end
      end
  end.

Definition fetch_plan (items : str) (e : fenv) : option (list out) :=
  collect (parse_items items) e [].

(** HandleFetch: macros, else strings.Trim(items, "()") *)
Definition fetch_items (arg : str) : str :=
  let u := to_upper (trim_space arg) in
  if str_eqb u (S_ "ALL") then S_ "FLAGS INTERNALDATE RFC822.SIZE ENVELOPE"
  else if str_eqb u (S_ "FAST") then S_ "FLAGS INTERNALDATE RFC822.SIZE"
  else if str_eqb u (S_ "FULL") then S_ "FLAGS INTERNALDATE RFC822.SIZE ENVELOPE BODY"
  else trim arg [LP; RP].

(** handleUIDFetch adds "UID " in front unless the text contains "UID";
    HandleFetchForUIDs adds it unless UID is an ITEM of the list *)
Definition uid_fetch_items (arg : str) : str :=
  let a1 := if contains (to_upper arg) (S_ "UID") then arg else S_ "UID " ++ arg in
  if existsb (fun it => str_eqb (p_name it) (S_ "UID") && negb (p_has_sec it)) (parse_items a1)
  then a1 else S_ "UID " ++ a1.

(** the untagged FETCH response for one message *)
Definition fetch_response (seq : nat) (items : str) (e : fenv) : option str :=
  option_map (fetch_line seq) (fetch_plan items e).

(** ---- requests as a client writes them (RFC 3501 fetch-att) ---- *)
Inductive section :=
| S_All | S_Text | S_Header
| S_Fields (names : list str)
| S_Part (path : str) (mime : bool).

Inductive fitem :=
| I_Simple (name : str)     (* UID FLAGS INTERNALDATE RFC822.SIZE ENVELOPE BODYSTRUCTURE BODY RFC822 RFC822.HEADER RFC822.TEXT *)
| I_Sec (peek : bool) (sec : section) (partial : option (nat * nat)).

Definition sec_text (s : section) : str :=
  match s with
  | S_All => []
  | S_Text => S_ "TEXT"
  | S_Header => S_ "HEADER"
  | S_Fields ns => S_ "HEADER.FIELDS (" ++ join ns [SP] ++ [RP]
  | S_Part p m => p ++ (if m then S_ ".MIME" else [])
  end.

Definition render_item (it : fitem) : str :=
  match it with
  | I_Simple n => n
  | I_Sec peek s part =>
      (if peek then S_ "BODY.PEEK[" else S_ "BODY[") ++ sec_text s ++ ["]"] ++
      match part with Some (a, b) => ["<"] ++ dec a ++ ["."] ++ dec b ++ [">"] | None => [] end
  end.

(** the name under which RFC 3501 requires the item to be answered *)
Definition expected_name (it : fitem) : str :=
  match it with
  | I_Simple n => n
  | I_Sec _ s part =>
      S_ "BODY[" ++ to_upper (sec_text s) ++ ["]"] ++
      match part with Some (a, _) => ["<"] ++ dec a ++ [">"] | None => [] end
  end.

Definition render_req (req : list fitem) : str :=
  [LP] ++ join (map render_item req) [SP] ++ [RP].

Definition count_name (n : str) (plan : list out) : nat :=
  length (filter (fun o => str_eqb (to_upper (fst (pair_of o))) (to_upper n)) plan).

(** every requested item is contributed exactly once under its own name *)
Definition answered (req : list fitem) (plan : list out) : bool :=
  forallb (fun it => Nat.eqb (count_name (expected_name it) plan) 1) req.

Definition is_simple (n : string) (it : fitem) : bool :=
  match it with I_Simple m => str_eqb m (S_ n) | _ => false end.

(** the one request shape that is still answered under another name *)
Definition classify_req (req : list fitem) : option finding :=
  if existsb (is_simple "RFC822") req then Some rfc822_renamed else None.
