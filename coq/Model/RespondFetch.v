(** C13 — model of the item recognition of message.processFetchForMessage
    (internal/server/message/fetch.go), statement by statement: every data
    item is recognised by SUBSTRING tests on the upper-cased item text, in
    a fixed order of handlers; each handler contributes an [out] to the
    response parts of Model/Respond.v.

    Inputs that come from the store / from Go's MIME packages are fields of
    [fenv] (the reconstructed message, the stored flag string, the
    BODYSTRUCTURE value, the content of numbered parts).  [None] = the Go
    code panics (slice out of range) — C12's subject, not C13's.
    Also HandleFetch's macro expansion and UID FETCH's item rewriting. *)
From Coq Require Import String Ascii List Bool Arith NArith ZArith.
From Raven Require Import Base.GoStr Spec.Grammar Model.Respond.
Import ListNotations.
Local Open Scope char_scope.

Record fenv := {
  e_uid : nat;
  e_flags : str;                 (* message_mailbox.flags as stored *)
  e_idate : str;                 (* formatted internal date *)
  e_msg : str;                   (* reconstructed message, CRLF line ends *)
  e_bs : str;                    (* value of BuildBodyStructure after "BODYSTRUCTURE " *)
  e_parts : list (str * str)     (* section spec (as requested) -> content of that part *)
}.

Fixpoint assoc (k : str) (l : list (str * str)) : option str :=
  match l with
  | [] => None
  | (k', v) :: r => if str_eqb k k' then Some v else assoc k r
  end.

Fixpoint assoc_set (k v : str) (l : list (str * str)) : list (str * str) :=
  match l with
  | [] => [(k, v)]
  | (k', v') :: r => if str_eqb k k' then (k, v) :: r else (k', v') :: assoc_set k v r
  end.

(** fmt.Sscanf(spec, "%d.%d", &a, &b) for non-negative numbers:
    (a if scanned, b if scanned) *)
Definition scan_range (spec : str) : option nat * option nat :=
  let '(a, r) := span_digits spec [] in
  match a with
  | [] => (None, None)
  | _ =>
    let av := Z.to_nat (digits_val a 0) in
    match r with
    | c :: r' =>
        if Ascii.eqb c "." then
          let '(b, _) := span_digits r' [] in
          match b with [] => (Some av, None) | _ => (Some av, Some (Z.to_nat (digits_val b 0))) end
        else (Some av, None)
    | [] => (Some av, None)
    end
  end.

(** payload[startPos:endPos] with the clamping of fetch.go *)
Definition clamp_slice (payload : str) (a b : nat) : str :=
  if Nat.ltb a (length payload)
  then firstn (Nat.min (a + b) (length payload) - a) (skipn a payload)
  else [].

(** parsePartNumberPath: dot-separated positive integers *)
Definition part_path_ok (s : str) : bool :=
  match s with
  | [] => false
  | _ => forallb (fun p => match atoi p with Some z => (0 <? z)%Z | None => false end)
                 (split_byte s ".")
  end.

Definition hdr_end (msg : str) : option nat := index msg (crlf ++ crlf).

(** ---- numeric sections: BODY[1], BODY.PEEK[1.2], BODY[2.MIME]<0.10> ---- *)
Fixpoint numeric_loop (fuel : nat) (orig upper : str) (parts : list (str * str)) (pos : nat)
  : list out :=
  match fuel with
  | O => []
  | S fuel' =>
    let rest := skipn pos upper in
    let idxPeek := index rest (S_ "BODY.PEEK[") in
    let idxBody := index rest (S_ "BODY[") in
    let sel :=
      match idxPeek, idxBody with
      | None, None => None
      | Some p, None => Some (pos + p, 10)
      | Some p, Some b => if Nat.ltb p b then Some (pos + p, 10) else Some (pos + b, 5)
      | None, Some b => Some (pos + b, 5)
      end in
    match sel with
    | None => []
    | Some (offset, plen) =>
      let start := offset + plen in
      match index (skipn start upper) ["]"] with
      | None => []
      | Some e =>
        let end_ := start + e in
        let spec := firstn e (skipn start orig) in
        let specU := to_upper spec in
        let numeric := match spec with c :: _ => is_digit c | [] => false end in
        if numeric then
          let wantMIME := contains specU (S_ ".MIME") in
          let partNum := match index specU (S_ ".MIME") with
                         | Some i => firstn i spec
                         | None => spec end in
          if part_path_ok partNum then
            let payload0 := match assoc spec parts with Some p => p | None => [] end in
            let after := S end_ in
            let '(payload, pstart, end2) :=
              match nth_error upper after with
              | Some c =>
                  if Ascii.eqb c "<" then
                    match index (skipn after upper) [">"] with
                    | Some close =>
                        let rs := firstn (close - 1) (skipn (S after) upper) in
                        match scan_range rs with
                        | (Some a, Some b) => (clamp_slice payload0 a b, Some a, after + close)
                        | _ => (payload0, None, after + close)
                        end
                    | None => (payload0, None, end_)
                    end
                  else (payload0, None, end_)
              | None => (payload0, None, end_)
              end in
            let name := S_ "BODY[" ++ spec ++ ["]"] in
            let o := match payload with
                     | [] => Inline name NIL
                     | _ => match pstart with
                            | Some a => Lit (name ++ ["<"] ++ dec a ++ [">"]) payload
                            | None => Lit name payload
                            end
                     end in
            o :: numeric_loop fuel' orig upper parts (S end2)
          else numeric_loop fuel' orig upper parts (S end_)
        else numeric_loop fuel' orig upper parts (S end_)
      end
    end
  end.

(** ---- BODY[HEADER.FIELDS (...)] ---- *)
Definition default_fields : list str :=
  [S_ "FROM"; S_ "TO"; S_ "CC"; S_ "BCC"; S_ "SUBJECT"; S_ "DATE"; S_ "MESSAGE-ID"; S_ "PRIORITY";
   S_ "X-PRIORITY"; S_ "REFERENCES"; S_ "NEWSGROUPS"; S_ "IN-REPLY-TO"; S_ "CONTENT-TYPE"; S_ "REPLY-TO"].

(** the loop over the header lines: (map, currentHeader) *)
Fixpoint hf_lines (lines : list str) (req : list str) (m : list (str * str)) (cur : str)
  : list (str * str) :=
  match lines with
  | [] => m
  | line :: rest =>
    match line with
    | [] => m                                              (* end of headers *)
    | c :: _ =>
      if Ascii.eqb c SP || Ascii.eqb c TAB then
        match cur with
        | [] => hf_lines rest req m cur
        | _ => let old := match assoc cur m with Some v => v | None => [] end in
               hf_lines rest req (assoc_set cur (old ++ crlf ++ line) m) cur
        end
      else
        match index line [":"] with
        | Some i =>
            let name := to_upper (trim_space (firstn i line)) in
            if existsb (str_eqb name) req
            then hf_lines rest req (assoc_set name line m) name
            else hf_lines rest req m cur
        | None => hf_lines rest req m cur
        end
    end
  end.

Definition header_fields (items iu : str) (msg : str) : option out :=
  let isPeek := contains iu (S_ "BODY.PEEK[HEADER.FIELDS") in
  let start := match index iu (S_ "BODY.PEEK[HEADER.FIELDS") with
               | Some i => Some i
               | None => index iu (S_ "BODY[HEADER.FIELDS") end in
  match start with
  | None => None
  | Some st_ =>
    let prefixLen := if isPeek then 25 else 20 in
    (* 182d3e8: a truncated item (no room for a field list) uses the default set *)
    match Some (match slice_from items (Z.of_nat (st_ + prefixLen)) with
                | Some f => f | None => [] end) with
    | None => None
    | Some fieldsStr =>
      let req :=
        match index fieldsStr [RP] with
        | Some cp => match fields (firstn cp fieldsStr) with
                     | [] => default_fields
                     | fs => map (fun f => to_upper (trim_space f)) fs
                     end
        | None => default_fields
        end in
      let m := hf_lines (split msg crlf) req [] [] in
      let hl := flat_map (fun h => match assoc h m with Some v => [v] | None => [] end) req in
      let hs := join hl crlf in
      let hs' := (match hs with [] => [] | _ => hs ++ crlf end) ++ crlf in
      Some (Lit (S_ "BODY[HEADER.FIELDS (" ++ join req [SP] ++ S_ ")]") hs')
    end
  end.

(** partialAfter (f502b8a): the range <a.b> written directly after the first
    of the given item names *)
Fixpoint partial_after (iu : str) (names : list str) : option (nat * nat) :=
  match names with
  | [] => None
  | name :: rest_names =>
      match index iu (name ++ ["<"]) with
      | None => partial_after iu rest_names
      | Some idx =>
          let rest := skipn (idx + length name + 1) iu in
          match index rest [">"] with
          | None => partial_after iu rest_names
          | Some e =>
              match scan_range (firstn e rest) with
              | (Some a, Some b) => Some (a, b)
              | _ => partial_after iu rest_names
              end
          end
      end
  end.

(** label and data of BODY[HEADER] / BODY[]: cut and announced with <start> when
    the item carries a range *)
Definition ranged (iu : str) (peek_name name : str) (data : str) : out :=
  match partial_after iu [peek_name; name] with
  | Some (a, b) => Lit (name ++ ["<"] ++ dec a ++ [">"]) (clamp_slice data a b)
  | None => Lit name data
  end.

(** ---- the handlers in the order of the Go function ---- *)
Definition opt_out (b : bool) (o : out) : list out := if b then [o] else [].

Definition fetch_plan (items : str) (e : fenv) : option (list out) :=
  let iu := to_upper items in
  let has k := contains iu (S_ k) in
  let msg := e_msg e in
  (* 06b4a58: the header section includes the blank line *)
  let hdrs := match hdr_end msg with Some i => firstn (i + 4) msg | None => msg end in
  let body := match hdr_end msg with Some i => skipn (i + 4) msg | None => [] end in
  let env_part :=
    if has "ENVELOPE"%string then
      match envelope_value msg with
      | Some v => Some [Inline (S_ "ENVELOPE") v]
      | None => None
      end
    else Some [] in
  let hf_part :=
    if has "BODY.PEEK[HEADER.FIELDS"%string || has "BODY[HEADER.FIELDS"%string then
      match header_fields items iu msg with
      | Some o => Some [o]
      | None => None
      end
    else Some [] in
  let text_body :=
    if has "<"%string && has ">"%string then
      match index iu ["<"], index iu [">"] with
      | Some si, Some ei =>
          if Nat.ltb si ei then
            let spec := firstn (ei - si - 1) (skipn (S si) iu) in
            let '(a, b) := scan_range spec in
            let a' := match a with Some x => x | None => 0 end in
            let b' := match b with Some x => x | None => length body end in
            clamp_slice body a' b'
          else body
      | _, _ => body
      end
    else body in
  match env_part, hf_part with
  | Some envp, Some hfp =>
    Some (
      opt_out (has "UID"%string) (Inline (S_ "UID") (dec (e_uid e)))
   ++ opt_out (has "FLAGS"%string) (Inline (S_ "FLAGS") ([LP] ++ e_flags e ++ [RP]))
   ++ opt_out (has "INTERNALDATE"%string) (Inline (S_ "INTERNALDATE") ([DQ] ++ e_idate e ++ [DQ]))
   ++ opt_out (has "RFC822.SIZE"%string) (Inline (S_ "RFC822.SIZE") (dec (length msg)))
   ++ envp
   ++ opt_out (has "BODYSTRUCTURE"%string) (Inline (S_ "BODYSTRUCTURE") (e_bs e))
   ++ opt_out (has "BODY"%string && negb (has "BODY["%string) && negb (has "BODY.PEEK"%string)
               && negb (has "BODYSTRUCTURE"%string)) (Inline (S_ "BODY") (e_bs e))
   ++ (if has "BODY["%string || has "BODY.PEEK["%string
       then numeric_loop (S (length items)) items iu (e_parts e) 0 else [])
   ++ hfp
   ++ opt_out (has "BODY.PEEK[TEXT]"%string || has "BODY[TEXT]"%string) (Lit (S_ "BODY[TEXT]") text_body)
   ++ opt_out ((has "BODY.PEEK[HEADER]"%string || has "BODY[HEADER]"%string)
               && negb (has "HEADER.FIELDS"%string))
              (ranged iu (S_ "BODY.PEEK[HEADER]") (S_ "BODY[HEADER]") hdrs)
   ++ opt_out (has "RFC822.HEADER"%string) (Lit (S_ "RFC822.HEADER") hdrs)
   ++ opt_out (has "RFC822.TEXT"%string) (Lit (S_ "RFC822.TEXT") body)
   ++ opt_out (has "BODY[]"%string || has "BODY.PEEK[]"%string || has "RFC822.PEEK"%string
               || (has "RFC822"%string && negb (has "RFC822.SIZE"%string)
                   && negb (has "RFC822.HEADER"%string) && negb (has "RFC822.TEXT"%string)
                   && negb (has "RFC822.PEEK"%string)))
              (ranged iu (S_ "BODY.PEEK[]") (S_ "BODY[]") msg))
  | _, _ => None
  end.

(** HandleFetch: macros, else strings.Trim(items, "()") *)
Definition fetch_items (arg : str) : str :=
  let u := to_upper (trim_space arg) in
  if str_eqb u (S_ "ALL") then S_ "FLAGS INTERNALDATE RFC822.SIZE ENVELOPE"
  else if str_eqb u (S_ "FAST") then S_ "FLAGS INTERNALDATE RFC822.SIZE"
  else if str_eqb u (S_ "FULL") then S_ "FLAGS INTERNALDATE RFC822.SIZE ENVELOPE BODY"
  else trim arg [LP; RP].

(** handleUIDFetch: UID is added in front unless the text contains "UID" *)
Definition uid_fetch_items (arg : str) : str :=
  if contains (to_upper arg) (S_ "UID") then arg else S_ "UID " ++ arg.

(** the untagged FETCH response for one message *)
Definition fetch_response (seq : nat) (items : str) (e : fenv) : option str :=
  option_map (fetch_line seq) (fetch_plan items e).

(** the known violations met by this request on this message *)
Definition classify_fetch (items : str) (e : fenv) : option finding :=
  match fetch_plan items e with
  | None => None
  | Some plan =>
      if contains (to_upper items) (S_ "ENVELOPE") then classify_headers (e_msg e) else None
  end.

(** ---- requests as a client writes them (RFC 3501 fetch-att) ---- *)
Inductive section :=
| S_All | S_Text | S_Header
| S_Fields (names : list str)
| S_Part (path : str) (mime : bool).

Inductive fitem :=
| I_Simple (name : str)     (* UID FLAGS INTERNALDATE RFC822.SIZE ENVELOPE BODYSTRUCTURE BODY RFC822 RFC822.HEADER RFC822.TEXT *)
| I_Sec (peek : bool) (sec : section) (partial : option (nat * nat)).

Definition sec_text (s : section) : str :=
  match s with
  | S_All => []
  | S_Text => S_ "TEXT"
  | S_Header => S_ "HEADER"
  | S_Fields ns => S_ "HEADER.FIELDS (" ++ join ns [SP] ++ [RP]
  | S_Part p m => p ++ (if m then S_ ".MIME" else [])
  end.

Definition render_item (it : fitem) : str :=
  match it with
  | I_Simple n => n
  | I_Sec peek s part =>
      (if peek then S_ "BODY.PEEK[" else S_ "BODY[") ++ sec_text s ++ ["]"] ++
      match part with Some (a, b) => ["<"] ++ dec a ++ ["."] ++ dec b ++ [">"] | None => [] end
  end.

(** the name under which RFC 3501 requires the item to be answered *)
Definition expected_name (it : fitem) : str :=
  match it with
  | I_Simple n => n
  | I_Sec _ s part =>
      S_ "BODY[" ++ to_upper (sec_text s) ++ ["]"] ++
      match part with Some (a, _) => ["<"] ++ dec a ++ [">"] | None => [] end
  end.

Definition render_req (req : list fitem) : str :=
  [LP] ++ join (map render_item req) [SP] ++ [RP].

Definition count_name (n : str) (plan : list out) : nat :=
  length (filter (fun o => str_eqb (to_upper (fst (pair_of o))) (to_upper n)) plan).

(** every requested item is contributed exactly once under its own name *)
Definition answered (req : list fitem) (plan : list out) : bool :=
  forallb (fun it => Nat.eqb (count_name (expected_name it) plan) 1) req.

Definition is_simple (n : string) (it : fitem) : bool :=
  match it with I_Simple m => str_eqb m (S_ n) | _ => false end.
Definition has_partial (it : fitem) : bool :=
  match it with I_Sec _ _ (Some _) => true | _ => false end.
Definition is_fields (it : fitem) : bool :=
  match it with I_Sec _ (S_Fields _) _ => true | _ => false end.

Definition sec_kind (it : fitem) : nat :=
  match it with
  | I_Sec _ S_All _ => 1 | I_Sec _ S_Text _ => 2 | I_Sec _ S_Header _ => 3 | _ => 0
  end.

(** request shapes with a known answer defect *)
Definition classify_req (req : list fitem) : option finding :=
  let bodyish it := match it with
                    | I_Sec _ _ _ => true
                    | I_Simple m => str_eqb m (S_ "BODYSTRUCTURE") end in
  if existsb (is_simple "BODY") req && existsb bodyish req then Some item_suppressed
  else if existsb (is_simple "RFC822") req
          && existsb (fun it => is_simple "RFC822.SIZE" it || is_simple "RFC822.HEADER" it
                                || is_simple "RFC822.TEXT" it) req then Some item_suppressed
  else if existsb (fun it => match it with I_Sec _ S_Header _ => true | _ => false end) req
          && existsb is_fields req then Some item_suppressed
  else if Nat.ltb 1 (length (filter is_fields req)) then Some item_suppressed
  else if existsb (fun k => Nat.ltb 1 (length (filter (fun it => Nat.eqb (sec_kind it) k) req))) [1; 2; 3]
       then Some item_suppressed     (* the same section twice: each handler answers once *)
  else if existsb (is_simple "RFC822") req then Some rfc822_renamed
  else if existsb has_partial req then Some partial_range
  else None.
