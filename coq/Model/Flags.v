(** Model of the flag algebra of raven (property C10).

    Go sources mirrored here, statement by statement:
      internal/server/message/message.go   CalculateNewFlags, parseFlagsToSet,
                                           removeFlagFromSet, flagSetToString
      internal/server/utils/flags.go       CalculateNewFlags (a verbatim copy)
      internal/server/uid/uid.go           parseFlagsToSet, removeFlagFromSet (copies)

    Representation.  A Go [map[string]bool] used as a set is modelled as a
    duplicate-free list in first-insertion order; Go's map iteration order is
    unspecified, therefore the string the Go code produces is
    [strings.Join(p, " ")] for SOME permutation [p] of the model's list, and the
    correspondence check compares [strings.Fields] of that string with the
    model's list as sets.  A stored flag string is represented by its atoms,
    [strings.Fields s] (see [Proof/FlagQueries.v], [contains_join], for why the
    substring tests of the Go code can be evaluated atom by atom).
    No proofs in this file. *)
From Coq Require Import String Ascii List Bool Arith ZArith.
From Raven Require Import Base.GoStr.
Import ListNotations.

Definition RECENT : str := S_ "\Recent".
Definition JUNK : str := S_ "Junk".
Definition NONJUNK : str := S_ "NonJunk".
Definition IT_FLAGS : str := S_ "FLAGS".
Definition IT_ADD : str := S_ "+FLAGS".
Definition IT_DEL : str := S_ "-FLAGS".

(** flagMap[f] (membership) *)
Definition mem (f : str) (m : list str) : bool := existsb (str_eqb f) m.
(** flagMap[f] = true *)
Definition set_add (f : str) (m : list str) : list str := if mem f m then m else m ++ [f].
(** delete(flagMap, f) *)
Definition set_del (f : str) (m : list str) : list str := filter (fun g => negb (str_eqb f g)) m.

(** for _, flag := range strings.Fields(currentFlags) { flagMap[flag] = true }
    ([atoms] = strings.Fields currentFlags; the guard [currentFlags != ""] is
    redundant because Fields "" = []) *)
Definition to_set (atoms : list str) : list str := fold_left (fun m f => set_add f m) atoms [].

(** parseFlagsToSet (exact spelling: used for the Junk/NonJunk detection) *)
Definition parse_flags_to_set (s : str) : list str := to_set (fields s).

(** removeFlagFromSet *)
Definition remove_flag_from_set (m : list str) (f : str) : list str := set_del f m.

(** ---- case-insensitive set of CalculateNewFlags (fix 06) ---- *)
(** strings.EqualFold (ASCII) *)
Definition eqf (a b : str) : bool := equal_fold a b.
Arguments eqf : simpl never.
Definition mem_ci (f : str) (m : list str) : bool := existsb (eqf f) m.
(** setFlag: add unless present in another spelling *)
Definition set_add_ci (f : str) (m : list str) : list str := if mem_ci f m then m else m ++ [f].
(** clearFlag: remove every spelling *)
Definition set_del_ci (f : str) (m : list str) : list str := filter (fun g => negb (eqf g f)) m.
(** for _, flag := range strings.Fields(currentFlags) { setFlag(flagMap, flag) } *)
Definition to_set_ci (atoms : list str) : list str := fold_left (fun m f => set_add_ci f m) atoms [].

(** for _, flag := range newFlags { if !strings.EqualFold(flag, "\\Recent") { setFlag(flagMap, flag) } } *)
Definition add_all (new : list str) (m : list str) : list str :=
  fold_left (fun m f => if eqf f RECENT then m else set_add_ci f m) new m.
(** for _, flag := range newFlags { if !strings.EqualFold(flag, "\\Recent") { clearFlag(flagMap, flag) } } *)
Definition del_all (new : list str) (m : list str) : list str :=
  fold_left (fun m f => if eqf f RECENT then m else set_del_ci f m) new m.

(** CalculateNewFlags(currentFlags, newFlags, operation) with
    [cur] = strings.Fields currentFlags; result = the key set of flagMap.
    At most one spelling of a flag is ever in the map, so which spelling is
    kept does not depend on Go's map iteration order: the first one. *)
Definition calculate_new_flags (cur : list str) (new : list str) (item : str) : list str :=
  let m := to_set_ci cur in
  if str_eqb item IT_FLAGS then add_all new []
  else if str_eqb item IT_ADD then add_all new m
  else if str_eqb item IT_DEL then del_all new m
  else m.

(** message.ValidFlag: an RFC 3501 flag = an atom, optionally preceded by one
    backslash; atom = one or more 7-bit characters other than CTL, SP and
    ( ) { % * DQUOTE \ ]   (fix 07) *)
Definition atom_specials : str := S_ "(){%*""\]".
Definition atom_char (c : ascii) : bool :=
  let n := byte_of c in negb (n <=? 32)%N && negb (127 <=? n)%N && negb (in_set atom_specials c).
Definition valid_flag (f : str) : bool :=
  match trim_prefix f (S_ "\") with
  | [] => false
  | a => forallb atom_char a
  end.
Definition flags_valid (l : list str) : bool := forallb valid_flag l.

(** the same function on the stored string *)
Definition calculate_new_flags_str (cur : str) (new : list str) (item : str) : list str :=
  calculate_new_flags (fields cur) new item.

(** set comparison used by the correspondence check (both sides duplicate-free) *)
Definition incl_b (a b : list str) : bool := forallb (fun f => mem f b) a.
Definition set_eqb (a b : list str) : bool :=
  incl_b a b && incl_b b a && Nat.eqb (length a) (length b).
