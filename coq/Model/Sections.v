(** Model of the FETCH section logic of internal/server/message/fetch.go
    (processFetchForMessage, mapIMAPPartPathToDBPart) and of the part writer
    of internal/delivery/parser/parser.go (writePartContentWithS3, and the
    row numbering of parseMultipart + StoreMessagePerUserWithSharedDBAndS3).

    [raw] is the text returned by loadRawMsg() (the reconstructed message);
    every attribute of one FETCH is computed from the same [raw].
    The part table is the list of message_parts rows of the message in id
    order (db.GetMessageParts), with the content already resolved
    (blob content if blob_id is set, text_content otherwise).

    Not modelled here: extractBodySectionByPath (sections that name a
    multipart CONTAINER; the property speaks about leaves), [n.MIME],
    HEADER.FIELDS.  No proofs in this file. *)
From Coq Require Import String Ascii List Bool Arith Lia.
From Raven Require Import Base.GoStr.
Import ListNotations.

(** ---- header / text split:  headerEnd := strings.Index(msg, "\r\n\r\n") ---- *)

Definition sep4 : str := crlf ++ crlf.

(** BODY[HEADER], RFC822.HEADER:  msg[:headerEnd+4] (the header section with
    the blank line that ends it), the whole msg if -1 *)
Definition header_of (msg : str) : str :=
  match index msg sep4 with
  | Some i => firstn (i + 4) msg
  | None => msg
  end.

(** BODY[TEXT], RFC822.TEXT:  msg[headerEnd+4:], "" if -1 *)
Definition text_of (msg : str) : str :=
  match index msg sep4 with
  | Some i => skipn (i + 4) msg
  | None => []
  end.

(** loadRawMsg: the reconstructed text is used as it is; only a text without
    any CRLF has its LFs turned into CRLF
      if !strings.Contains(rawMsg, "\r\n") { rawMsg = strings.ReplaceAll(rawMsg, "\n", "\r\n") }
    Every reconstruction writes its header lines with CRLF, so part content
    (bare LF, lone CR included) reaches BODY[] byte for byte. *)
Definition load_raw (recon : str) : str :=
  if contains recon crlf then recon else replace_byte recon LF crlf.

(** RFC822.SIZE: len(msg) *)
Definition size_of (msg : str) : nat := length msg.

(** partial <o.n>: slicePartial(data, start, length) (fetch.go, since 2d014e0;
    both slicing sites call it).  start and length are unsigned here: a range
    with a minus sign is answered BAD before any message is processed.
      if start >= len(data) { return "" }
      if length > len(data)-start { length = len(data)-start }
      return data[start : start+length] *)
Definition partial_cut (p : str) (o n : nat) : str :=
  if length p <=? o then []
  else let n' := if length p - o <? n then length p - o else n in
       firstn n' (skipn o p).

(** ---- the part table ---- *)

Record row := mkRow {
  rid : nat;              (* message_parts.id *)
  rpn : nat;              (* part_number (relative to the parent) *)
  rpar : option nat;      (* parent_part_id *)
  rct : str;              (* content_type *)
  renc : str;             (* content_transfer_encoding *)
  rcontent : str          (* blob content / text_content *)
}.

Definition has_par (q : nat) (r : row) : bool :=
  match rpar r with Some p => Nat.eqb p q | None => false end.
Definition no_par (r : row) : bool :=
  match rpar r with Some _ => false | None => true end.

(** sort.Slice(children, part_number <): stable insertion sort (what Go's
    pdqsort does for <= 12 elements; for distinct keys any sort gives this
    result) *)
Fixpoint insert_pn (r : row) (l : list row) : list row :=
  match l with
  | [] => [r]
  | x :: l' => if rpn x <? rpn r then x :: insert_pn r l' else r :: l
  end.
Fixpoint sort_pn (l : list row) : list row :=
  match l with
  | [] => []
  | r :: l' => insert_pn r (sort_pn l')
  end.

(** getChildren(parentDBID) *)
Definition children (rows : list row) (q : nat) : list row :=
  sort_pn (filter (has_par q) rows).

(** 1-based indexing with the guard  i <= 0 || i > len(l)  -> nil *)
Definition nth1 {A} (l : list A) (i : nat) : option A :=
  match i with O => None | S j => nth_error l j end.

(** the loop  for i := 1; i < len(partPath); i++ *)
Fixpoint walk (rows : list row) (cur : row) (p : list nat) : option row :=
  match p with
  | [] => Some cur
  | i :: p' =>
      match nth1 (children rows (rid cur)) i with
      | None => None
      | Some r => walk rows r p'
      end
  end.

Definition multipart_pfx : str := S_ "multipart/".

(** mapIMAPPartPathToDBPart *)
Definition map_path (rows : list row) (p : list nat) : option row :=
  match p with
  | [] => None
  | i :: p' =>
      let top0 := sort_pn (filter no_par rows) in
      let top :=
        match top0 with
        | [r] => if has_prefix (to_lower (rct r)) multipart_pfx
                 then children rows (rid r) else top0
        | _ => top0
        end in
      match nth1 top i with
      | None => None
      | Some r => walk rows r p'
      end
  end.

(** what a numeric section BODY[p] resolves to *)
Inductive sec_result :=
| SNil                       (* no such part: payload "" -> "BODY[p] NIL" *)
| SLeaf (payload : str)      (* blob / text_content of the row *)
| SContainer (r : row).      (* multipart row: extractBodySectionByPath, not modelled *)

Definition section_of (rows : list row) (p : list nat) : sec_result :=
  match map_path rows p with
  | None => SNil
  | Some r => if has_prefix (rct r) multipart_pfx then SContainer r else SLeaf (rcontent r)
  end.

(** ---- one FETCH data item ---- *)

Inductive section := SecAll | SecHeader | SecText | SecPath (p : list nat).

(** payload returned for  BODY[sec]<o.n>  ([part] = None: no partial); every
    section applies slicePartial to its payload *)
Definition cut (x : str) (part : option (nat * nat)) : str :=
  match part with None => x | Some (o, n) => partial_cut x o n end.

Definition fetch_item (raw : str) (rows : list row) (s : section) (part : option (nat * nat)) : option str :=
  match s with
  | SecAll => Some (cut raw part)
  | SecHeader => Some (cut (header_of raw) part)
  | SecText => Some (cut (text_of raw) part)
  | SecPath p =>
      match section_of rows p with
      | SNil => Some []
      | SLeaf c => Some (cut c part)
      | SContainer _ => None
      end
  end.

(** ---- the writer of a leaf body: writePartContentWithS3 ----
    The stored content is written as it is, followed by the CRLF that belongs
    to the next boundary delimiter (always; no re-wrapping of base64 text):
      buf.WriteString(content); buf.WriteString("\r\n") *)
Definition written_content (enc content : str) : str := content ++ crlf.

(** ---- trees and the rows the store derives from them ---- *)

Inductive tree :=
| Leaf (ct enc content : str)
| Multi (ct : str) (kids : forest)
with forest :=
| FNil
| FCons (t : tree) (f : forest).

Fixpoint size (t : tree) : nat :=
  match t with
  | Leaf _ _ _ => 1
  | Multi _ ks => S (size_f ks)
  end
with size_f (f : forest) : nat :=
  match f with
  | FNil => 0
  | FCons t f' => size t + size_f f'
  end.

Definition root_row (t : tree) (par : option nat) (pn next : nat) : row :=
  match t with
  | Leaf ct enc c => mkRow next pn par ct enc c
  | Multi ct _ => mkRow next pn par ct [] []
  end.

(** parseMultipart appends a container before its children (preorder);
    the store gives ids in that order and numbers each part relative to its
    parent, starting at 1. *)
Fixpoint flat (t : tree) (par : option nat) (pn next : nat) : list row :=
  match t with
  | Leaf ct enc c => [mkRow next pn par ct enc c]
  | Multi ct ks => mkRow next pn par ct [] [] :: flat_f ks next 1 (S next)
  end
with flat_f (f : forest) (par pn next : nat) : list row :=
  match f with
  | FNil => []
  | FCons t f' => flat t (Some par) pn next ++ flat_f f' par (S pn) (next + size t)
  end.

Definition rows_of (t : tree) (base : nat) : list row := flat t None 1 base.

(** ---- what BODYSTRUCTURE announces for a leaf row, given what the reader
    returns for the written body ([strip] = removal of the CRLF before the
    delimiter): writePartHeaders writes the type and (if non-blank) the
    encoding as stored, "7bit" for text/* without one; buildPartStructure
    upper-cases them and defaults the encoding to 7BIT. *)
Definition announced_enc (enc : str) : str :=
  match trim_space enc with
  | [] => S_ "7BIT"
  | e => to_upper e
  end.

Definition announced_leaf (strip : str -> str) (r : row) : str * str * nat :=
  (to_upper (rct r), announced_enc (renc r), length (strip (written_content (renc r) (rcontent r)))).

(** a message that is not multipart (BuildBodyStructure, single-part branch):
    the size is that of rawMsg[headerEnd+4:] *)
Definition single_body (raw : str) : str :=
  match index raw sep4 with
  | Some i => skipn (i + 4) raw
  | None => match index raw [LF; LF] with
            | Some i => skipn (i + 2) raw      (* bare LF: separator of 2 (3b9f4c2) *)
            | None => []
            end
  end.

Definition announced_single (raw : str) (r : row) : str * str * nat :=
  (to_upper (rct r), announced_enc (renc r), length (single_body raw)).
