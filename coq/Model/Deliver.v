(** C01 — the LMTP delivery path, from the end-of-data of a transaction to the
    per-recipient replies, over a world of per-user / per-role stores.

    Mirrors, statement by statement (bugs included):

      internal/delivery/lmtp/session.go     Session.handleDATA
          (from "Parse message" on: ParseMessage / ValidateMessage failure ->
           rejectMessage: one 554 PER recipient, nothing attempted (raven aeac4b2;
           before that commit: ONE 554 for the whole transaction); else
           DeliverToMultipleRecipients
           and the reply loop "for _, recipient := range s.recipients" reading
           the result MAP — one entry per distinct recipient string)
      internal/delivery/storage/storage.go  Storage.DeliverToMultipleRecipients
          (one DeliverMessage per position of the RCPT list, duplicates
           included; results[recipient] is overwritten: last attempt wins)
      internal/delivery/storage/storage.go  Storage.DeliverMessage
          (determineTargetFolder -> ExtractLocalPart/ExtractDomain -> role
           lookup by e-mail | get-or-create user -> store of the target ->
           get-or-create mailbox -> parser.ParseMIMEMessage -> store message,
           headers, parts -> db.AddMessageToMailboxPerUser LAST)
      internal/delivery/parser/parser.go    ParseMIMEMessage (outcome only),
          StoreMessagePerUserWithSharedDBAndS3 (rows written),
          ReconstructMessageWithSharedDBAndS3 ("no message parts found")

    net/mail, mime and mime/multipart are NOT re-implemented: the submitted
    message enters as a record [parsed] of what those libraries answer for it
    (computed by construction in the generator of checks/c01.py and tied to the
    implementation on every run through the replies and the stored row counts).

    The per-store mailbox/UID state is the shared model of C03 (Model/Store.v,
    Model/Ops.v); this file adds the table of stored messages (header rows,
    part rows) and the multi-store world.  No proofs in this file. *)
From Coq Require Import String Ascii List Bool ZArith.
From Raven Require Import Base.GoStr Model.Store Model.Ops.
Import ListNotations.
Local Open Scope Z_scope.

(** ---- what the Go libraries say about the submitted bytes -------------------- *)

Inductive shape :=
| Single                    (* root media type is not multipart/* (or unparsable Content-Type) *)
| MultiB (n : nat)          (* multipart/*; boundary=b, the reader walks the body to the end:
                               n part rows below the root container (nested ones included) *)
| MultiNoBoundary           (* multipart/* whose boundary parameter is missing or empty: one part row *)
| MultiBroken.              (* multipart/*; boundary=b, multipart.Reader.NextPart fails *)

Record parsed := mkParsed {
  p_ok : bool;       (* mail.ReadMessage succeeds, From non-empty, To/Cc/Bcc give >= 1
                        address, size <= MaxSize: ParseMessage and ValidateMessage pass *)
  p_spam : bool;     (* isSpamByHeaders *)
  p_hdrs : nat;      (* len(extractAllHeaders(raw)) *)
  p_shape : shape;
  p_big : nat;       (* part rows stored OUT OF LINE: a file name, or more than 1024 octets *)
  p_blob_fail : bool (* environment, not message: writes to shared.db's blobs table fail while this
                        message is stored (another connection holds the write lock longer than the
                        busy timeout, I/O fault); reads of shared.db and the per-user store work *)
}.

(** number of message_parts rows ParseMIMEMessage produces; [None] = error *)
Definition parts_of (sh : shape) : option nat :=
  match sh with
  | Single => Some 1%nat
  | MultiB n => Some (S n)          (* the root container row + n rows *)
  | MultiNoBoundary => Some 1%nat   (* stored as an ordinary single part with its raw body (raven f7e0490;
                                       before: Parts stayed nil, zero rows, still linked and answered 250) *)
  | MultiBroken => None
  end.

(** ---- a store with its table of messages --------------------------------------- *)

(** where the octets of an out-of-line part end up.  StoreMessagePerUserWithSharedDBAndS3:
    "id, err = db.StoreBlobWithEncoding(...); if err == nil { blobID = id; part.TextContent = "" }"
    — the inline copy is cleared only AFTER the blob row is known to exist, so a failed blob
    write leaves the part inline (the deliberate fallback).  [clear_first = true] is the
    variant that clears before knowing (seeded C01-3): the octets are nowhere. *)
Inductive place := InBlob | Inline | Lost.
Definition store_part (clear_first blob_ok : bool) : place :=
  if blob_ok then InBlob else if clear_first then Lost else Inline.

(** a row of [messages] with its rows of message_headers / message_parts: how many
    header rows, part rows, part rows read from a blob, part rows whose octets are
    neither inline nor in a blob *)
Record msgrec := mkMsgL { m_id : Z; m_hdrs : nat; m_parts : nat; m_blob : nat; m_lost : nat }.

Definition stored_rec_gen (clear_first : bool) (id : Z) (p : parsed) (np : nat) : msgrec :=
  let pl := store_part clear_first (negb (p_blob_fail p)) in
  mkMsgL id (p_hdrs p) np
         (match pl with InBlob => p_big p | _ => 0%nat end)
         (match pl with Lost => p_big p | _ => 0%nat end).
(** what the tree writes *)
Definition stored_rec : Z -> parsed -> nat -> msgrec := stored_rec_gen false.

Record ustore := mkU { us : store; umsgs : list msgrec }.

(** SELECT ... FROM message_parts / message_headers WHERE message_id = ? *)
Definition msg_of (u : ustore) (id : Z) : option msgrec :=
  find (fun r => m_id r =? id) (umsgs u).

(** parser.ReconstructMessageWithSharedDBAndS3 succeeds ("no message parts
    found" otherwise; FETCH BODY[] then sends an empty literal) *)
Definition reconstructs (u : ustore) (id : Z) : bool :=
  match msg_of u id with
  | Some r => (0 <? m_parts r)%nat
  | None => false
  end.

Inductive key := KUser (local domain : str) | KRole (email : str).

Definition key_eqb (a b : key) : bool :=
  match a, b with
  | KUser l d, KUser l' d' => str_eqb l l' && str_eqb d d'
  | KRole e, KRole e' => str_eqb e e'
  | _, _ => false
  end.

Record world := mkW {
  w_roles : list str;                 (* role_mailboxes.email, enabled *)
  w_stores : list (key * ustore)      (* the store files that exist *)
}.

Definition get (w : world) (k : key) : option ustore :=
  option_map snd (find (fun e => key_eqb (fst e) k) (w_stores w)).

(** DBManager.GetUserDB / GetRoleMailboxDB: open, or create with the five
    default mailboxes (clock reading [t]) *)
Definition getd (w : world) (k : key) (t : Z) : ustore :=
  match get w k with
  | Some u => u
  | None => mkU (init t) []
  end.

Fixpoint put_assoc (l : list (key * ustore)) (k : key) (u : ustore) : list (key * ustore) :=
  match l with
  | [] => [(k, u)]
  | (k', u') :: r => if key_eqb k' k then (k', u) :: r else (k', u') :: put_assoc r k u
  end.

Definition put (w : world) (k : key) (u : ustore) : world :=
  mkW (w_roles w) (put_assoc (w_stores w) k u).

(** ---- Storage.DeliverMessage ----------------------------------------------------- *)

Definition AT : ascii := "@"%char.

(** parser.ExtractLocalPart + parser.ExtractDomain: strings.Split(email, "@")
    must give exactly two pieces *)
Definition split_addr (r : str) : option (str * str) :=
  match split_byte r AT with
  | [a; b] => Some (a, b)
  | _ => None
  end.

Definition target_folder (folder : str) (p : parsed) : str :=
  if p_spam p then SPAM else folder.

(** db.GetRoleMailboxByEmail(recipient) succeeds -> the role's store, else
    GetOrCreateUserInitialized(local, domain) -> that user's store *)
Definition key_of (w : world) (r : str) : option key :=
  match split_addr r with
  | None => None
  | Some (l, d) => Some (if existsb (str_eqb r) (w_roles w) then KRole r else KUser l d)
  end.

(** DeliverMessage from "Get or create the target mailbox" on, inside the
    target's store.  Statement order: mailbox, ParseMIMEMessage, CreateMessage +
    headers + parts, AddMessageToMailboxPerUser.  The boolean is [err == nil]. *)
Definition deliver_store (u : ustore) (target : str) (p : parsed) (t : Z) : ustore * bool :=
  let s := us u in
  let '(s1, mb) :=
    match find_name s target with
    | Some m => (s, Some (mb_id m))
    | None => match create_mailbox_row s target t with
              | Some (s', id) => (s', Some id)
              | None => (s, None)
              end
    end in
  match mb with
  | None => (mkU s1 (umsgs u), false)               (* "failed to create mailbox" *)
  | Some id =>
    match parts_of (p_shape p) with
    | None => (mkU s1 (umsgs u), false)             (* "failed to parse message" *)
    | Some np =>
      let '(s2, msg) := store_message s1 in
      let msgs' := umsgs u ++ [stored_rec msg p np] in
      let '(s3, ok) := add_message s2 msg id [] in
      (mkU s3 msgs', ok)                            (* "failed to add message to mailbox" *)
    end
  end.

Definition deliver_message (w : world) (folder : str) (r : str) (p : parsed) (t : Z) : world * bool :=
  match key_of w r with
  | None => (w, false)                              (* "failed to extract username" *)
  | Some k =>
    let '(u', ok) := deliver_store (getd w k t) (target_folder folder p) p t in
    (put w k u', ok)
  end.

(** ---- Storage.DeliverToMultipleRecipients ------------------------------------------ *)

(** the Go map results[recipient]: the newest binding shadows the older ones *)
Definition rmap := list (str * bool).
Definition rlookup (m : rmap) (r : str) : option bool :=
  option_map snd (find (fun e => str_eqb (fst e) r) m).

(** one entry per position: world before the attempt, world after it, the
    recipient string, the attempt's outcome *)
Record attempt := mkAtt { a_before : world; a_after : world; a_rcpt : str; a_ok : bool }.

Fixpoint deliver_all (w : world) (folder : str) (rs : list str) (p : parsed) (clk : nat -> Z) (i : nat)
  : world * list attempt :=
  match rs with
  | [] => (w, [])
  | r :: rest =>
    let '(w1, ok) := deliver_message w folder r p (clk i) in
    let '(w2, atts) := deliver_all w1 folder rest p clk (S i) in
    (w2, mkAtt w w1 r ok :: atts)
  end.

Definition results_of (atts : list attempt) : rmap :=
  fold_left (fun m a => (a_rcpt a, a_ok a) :: m) atts [].

(** ---- Session.handleDATA ------------------------------------------------------------- *)

Inductive reply := R250 | R550 | R552 | R554.
Definition is_2xx (c : reply) : bool := match c with R250 => true | _ => false end.

Definition reply_for (m : rmap) (r : str) : reply :=
  match rlookup m r with
  | Some false => R550
  | _ => R250                       (* results[recipient] == nil *)
  end.

Definition lmtp_data (w : world) (folder : str) (rs : list str) (p : parsed) (clk : nat -> Z)
  : world * list reply * list attempt :=
  if negb (p_ok p) then (w, map (fun _ => R554) rs, map (fun r => mkAtt w w r false) rs)   (* rejectMessage: nothing attempted *)
  else
    let '(w', atts) := deliver_all w folder rs p clk 0 in
    (w', map (reply_for (results_of atts)) rs, atts).

(** ---- handleDATA under a configuration ------------------------------------------------ *)

(** the configuration fields handleDATA reads (config.Config: LMTP.MaxSize,
    Delivery.DefaultFolder, Delivery.QuotaEnabled; Delivery.QuotaLimit enters
    through [over_quota]).  MaxRecipients, AllowedDomains, RejectUnknownUser act
    at RCPT time: they decide which recipients are in [rs] at all. *)
Record cfg := mkCfg { c_folder : str; c_max_size : Z; c_quota_enabled : bool }.


(** the quota pass of handleDATA (raven 57171c2): for every recipient, when
    quota is enabled, CheckRecipientQuota is evaluated on the mailboxes as they
    are when the message arrives, BEFORE any delivery of the transaction; a
    recipient whose check fails with ErrQuotaExceeded is left out of the list
    handed to DeliverToMultipleRecipients and is answered "552 5.2.2 mailbox
    full" in its own position.  [over_quota r] stands for "CheckRecipientQuota(r,
    size, limit) returned ErrQuotaExceeded" — a function of the recipient string
    (usage of the store DeliverMessage would file into + size > limit; measured
    by checks/c01.py from the databases; C17's Model/Policy.v defines it). *)
Definition skipped (c : cfg) (over_quota : str -> bool) (r : str) : bool :=
  c_quota_enabled c && over_quota r.
Definition deliver_to (c : cfg) (over_quota : str -> bool) (rs : list str) : list str :=
  filter (fun r => negb (skipped c over_quota r)) rs.

(** DeliverToMultipleRecipients on [deliver_to], told per position of [rs]: a
    skipped position is an attempt that does nothing (ghost entry, so that the
    attempts stay aligned with the reply positions); [i] counts the real
    deliveries (clock index) *)
Fixpoint deliver_all_q (skip : str -> bool) (w : world) (folder : str) (rs : list str) (p : parsed)
         (clk : nat -> Z) (i : nat) : world * list attempt :=
  match rs with
  | [] => (w, [])
  | r :: rest =>
    if skip r then
      let '(w2, atts) := deliver_all_q skip w folder rest p clk i in
      (w2, mkAtt w w r false :: atts)
    else
      let '(w1, ok) := deliver_message w folder r p (clk i) in
      let '(w2, atts) := deliver_all_q skip w1 folder rest p clk (S i) in
      (w2, mkAtt w w1 r ok :: atts)
  end.

(** the result map holds the delivered recipients only *)
Definition results_q (skip : str -> bool) (atts : list attempt) : rmap :=
  results_of (filter (fun a => negb (skip (a_rcpt a))) atts).

(** handleDATA from the end of data on: ReadDataCommand over the size limit ->
    rejectMessage(552) (one reply per recipient, nothing attempted, raven
    d9a1abb + aeac4b2); ParseMessage/ValidateMessage failure -> 554 per recipient;
    else the quota pass, the deliveries, and the reply loop over [rs]: 552 for a
    skipped recipient, else the result map *)
Definition handle_data (c : cfg) (over_quota : str -> bool) (w : world) (rs : list str)
           (p : parsed) (size : Z) (clk : nat -> Z) : world * list reply * list attempt :=
  if c_max_size c <? size then (w, map (fun _ => R552) rs, map (fun r => mkAtt w w r false) rs)
  else if negb (p_ok p) then (w, map (fun _ => R554) rs, map (fun r => mkAtt w w r false) rs)
  else
    let skip := skipped c over_quota in
    let '(w', atts) := deliver_all_q skip w (c_folder c) rs p clk 0 in
    let m := results_q skip atts in
    (w', map (fun r => if skip r then R552 else reply_for m r) rs, atts).

(** ---- IMAP operations on a world (prior histories) ----------------------------------- *)

(** one IMAP/LMTP state-machine operation of Model/Ops.v on the store of [k]
    (the login / first touch creates the store, clock [t]) *)
Definition wstep (w : world) (k : key) (t : Z) (o : op) : world :=
  let u := getd w k t in
  put w k (mkU (fst (step (us u) o)) (umsgs u)).

Inductive wop :=
| WImap (k : key) (t : Z) (o : op)
| WLmtp (folder : str) (rs : list str) (p : parsed) (clk : nat -> Z).

Definition wapply (w : world) (o : wop) : world :=
  match o with
  | WImap k t o => wstep w k t o
  | WLmtp f rs p clk => fst (fst (lmtp_data w f rs p clk))
  end.

Definition wrun (h : list wop) (w : world) : world := fold_left wapply h w.

(** the world before anything happened: no store file, the given role addresses *)
Definition w0 (roles : list str) : world := mkW roles [].
