(** C12 — cost of SEARCH key nesting (message.go, evaluateTokens / searchKeyLength).

    Only the SHAPE of a token matters for the length of a search key:
      NOT k            1 + |k|
      OR k1 k2         1 + |k1| + |k2|
      HEADER f s       3
      keys with one argument (FROM x, LARGER n, ...)   2
      everything else (plain keys, sequence sets, a parenthesised list)   1
    and a key that would start after the last token counts as 1.

    [klen]  = searchKeyLength(tokens, i) on the suffix that starts at i (the code up to
              db1cde2: recursive, re-done by NOT and OR at every nesting level);
    [lens]  = searchKeyLengths(tokens) of fix c12-8: the table filled from the last token
              to the first, one step per token;
    [kcost] = activations of searchKeyLength for one call;
    [ecost] = activations of searchKeyLength during one evaluateTokens of the OLD code when
              no key returns early (worst case: every operand is evaluated).
    No proofs in this file. *)
From Coq Require Import List Arith.
Import ListNotations.

Inductive kind : Type := KNot | KOr | KHdr | KArg | KPlain.

Fixpoint klen_f (f : nat) (l : list kind) : nat :=
  match f with
  | O => 1
  | S f' =>
      match l with
      | [] => 1
      | KNot :: r => 1 + klen_f f' r
      | KOr :: r => let n1 := klen_f f' r in 1 + n1 + klen_f f' (skipn n1 r)
      | KHdr :: _ => 3
      | KArg :: _ => 2
      | KPlain :: _ => 1
      end
  end.
Definition klen (l : list kind) : nat := klen_f (S (length l)) l.

(** fix c12-8: keyLen[i] from keyLen[i+1..]; [nth n t 1] is keyLengthAt *)
Fixpoint lens (l : list kind) : list nat :=
  match l with
  | [] => []
  | k :: r =>
      let t := lens r in
      (match k with
       | KNot => 1 + nth 0 t 1
       | KOr => let n1 := nth 0 t 1 in 1 + n1 + nth n1 t 1
       | KHdr => 3
       | KArg => 2
       | KPlain => 1
       end) :: t
  end.

Fixpoint kcost_f (f : nat) (l : list kind) : nat :=
  match f with
  | O => 1
  | S f' =>
      match l with
      | KNot :: r => 1 + kcost_f f' r
      | KOr :: r => 1 + kcost_f f' r + kcost_f f' (skipn (klen r) r)
      | _ => 1
      end
  end.
Definition kcost (l : list kind) : nat := kcost_f (S (length l)) l.

(** old evaluateTokens over a list of keys, worst case *)
Fixpoint ecost_f (f : nat) (l : list kind) : nat :=
  match f with
  | O => 0
  | S f' =>
      match l with
      | [] => 0
      | KNot :: r =>
          let n := klen r in
          kcost r + ecost_f f' (firstn n r) + ecost_f f' (skipn n r)
      | KOr :: r =>
          let n1 := klen r in
          let r2 := skipn n1 r in
          let n2 := klen r2 in
          kcost r + kcost r2 + ecost_f f' (firstn n1 r) + ecost_f f' (firstn n2 r2) + ecost_f f' (skipn n2 r2)
      | KHdr :: r => ecost_f f' (skipn 2 r)
      | KArg :: r => ecost_f f' (skipn 1 r)
      | KPlain :: r => ecost_f f' r
      end
  end.
Definition ecost (l : list kind) : nat := ecost_f (S (length l)) l.

(** new code: one table cell per token, at most two table reads per NOT/OR token *)
Definition new_cost (l : list kind) : nat :=
  length l + 2 * length (filter (fun k => match k with KNot | KOr => true | _ => false end) l).

Definition not_chain (n : nat) : list kind := repeat KNot n ++ [KPlain].
Fixpoint or_not_chain (n : nat) : list kind :=
  match n with O => [KPlain] | S m => KOr :: KNot :: or_not_chain m ++ [KPlain] end.
