(** Model of raven's two authentication front ends, statement by statement.

    IMAP  internal/server/connection.go  handleClient (line -> parts, dispatch)
          internal/server/auth/auth.go   HandleLogin, HandleAuthenticate,
                                         authenticateUser
          internal/server/server.go      ExtractUsername, GetUserDomain
    SASL  internal/sasl/server.go        handleConnection (one scanned line),
                                         handleAuth, handlePlain, handleLogin,
                                         authenticate

    The HTTP exchange with the authentication backend is a parameter
    ([outcome]): what client.Do returned.  EnsureUserAndMailboxes and
    IsPasswordInitialized are two boolean parameters of the accepting path.
    Bugs included; no proofs in this file. *)
From Coq Require Import String Ascii List Bool Arith NArith ZArith.
From Raven Require Import Base.GoStr Base.GoStrB64 Base.GoStrJson Model.CmdTokenizer.
Import ListNotations.
Local Open Scope char_scope.

Definition AT : ascii := "@".
Definition TAB : ascii := ascii_of_nat 9.
Definition NUL : ascii := ascii_of_nat 0.
Definition DQ : ascii := """".

(** what the HTTP client saw *)
Inductive outcome :=
| Status (code : Z)      (* a well-formed HTTP response with this status *)
| Timeout                (* no response within the client's patience *)
| Refused                (* connection refused / unreachable *)
| Garbage                (* bytes that are not an HTTP response *)
| Dropped.               (* connection closed without a response *)

Definition accepted (b : outcome) : bool :=
  match b with Status c => Z.eqb c 200 | _ => false end.

(** ---- shared: e-mail address and request body ---- *)

(** if strings.Contains(username, "@") { email = username } else { email = username + "@" + domain } *)
Definition email_of (d u : str) : str :=
  if contains_byte u AT then u else u ++ AT :: d.

(** json.Marshal(struct{ Email string `json:"email"`; Password string `json:"password"` }{email, password}) *)
Definition build_body (email p : str) : str :=
  S_ "{""email"":""" ++ json_escape email ++ S_ """,""password"":""" ++ json_escape p ++ S_ """}".

(** strings.Count(username, "@") > 1 *)
Definition multi_at (u : str) : bool := Nat.ltb 1 (count_byte u AT).

(** IMAPServer.ExtractUsername *)
Definition extract_username (u : str) : str :=
  if contains_byte u AT then hd [] (split_byte u AT) else u.

(** IMAPServer.GetUserDomain; [d] is cfg.Domain *)
Definition get_user_domain (d u : str) : str :=
  let dflt := match d with [] => S_ "localhost" | _ => d end in
  if contains_byte u AT then
    match split_byte u AT with
    | [_; dom] => dom
    | _ => dflt
    end
  else dflt.

(** ---- IMAP ---- *)

Inductive reply := R_OK | R_NO | R_BAD | R_NONE.

Record auth_out := mk_out {
  sent : list str;              (* request bodies handed to the HTTP client *)
  answer : reply;               (* class of the tagged reply *)
  bound : option (str * str)    (* (users.username, domains.domain) the session is bound to *)
}.

(** IMAPServer.EnsureUserAndMailboxes(username, domain) as seen by its caller:
    [Some row] = it returned the id of the users row [row] = (users.username,
    domains.domain); [None] = it returned an error.  The database layer
    (GetOrCreateDomain, GetOrCreateUserInitialized, GetUserDB) is a parameter
    of the model; what the property needs from it is [ensure_sound] in
    Spec/AuthSpec.v: the row returned is the row of the pair it was called with. *)
Definition ensure_fn := str -> str -> option (str * str).

(** auth.authenticateUser; [ens] = EnsureUserAndMailboxes,
    [init] = users.password_initialized of the row it returned *)
Definition authenticate_user (d u p : str) (b : outcome) (ens : ensure_fn) (init : bool) : auth_out :=
  match d with
  | [] => mk_out [] R_NO None
  | _ =>
    if multi_at u then mk_out [] R_NO None else     (* refused before the backend is contacted *)
    let body := build_body (email_of d u) p in
    if accepted b then
      match ens (extract_username u) (get_user_domain d u) with
      | Some row =>
          (* state.UserID = the id returned: the session acts on that row's store *)
          if init then mk_out [body] R_OK (Some row)
          else mk_out [body] R_NO None
      | None => mk_out [body] R_NO None
      end
    else mk_out [body] R_NO None
  end.

Inductive creds :=
| Creds (u p : str)        (* authenticateUser is called with these *)
| Direct (r : reply).      (* answered without consulting the backend *)

(** handleClient + HandleLogin on one line as read (terminator included);
    [authed] = state.Authenticated when the line arrives.
    [Direct R_NONE]: the line is not dispatched to HandleLogin. *)
Definition login_creds (authed tls : bool) (line : str) : creds :=
  let parts := split_command_line (trim_space line) in
  match parts with
  | _ :: cmd :: rest =>
      if str_eqb (to_upper cmd) (S_ "LOGIN") then
        match rest with
        | a :: b :: _ =>
            if authed then Direct R_BAD      (* "BAD Already authenticated" *)
            else if tls then Creds (parse_quoted a) (parse_quoted b) else Direct R_NO
        | _ => Direct R_BAD
        end
      else Direct R_NONE
  | _ => Direct R_NONE
  end.

(** HandleAuthenticate, mechanism PLAIN, on the bytes read after "+ " *)
Definition plain_fields (decoded : str) : option (str * str) :=
  match split_byte decoded NUL with
  | _ :: u :: p :: _ => Some (u, p)
  | [u; p] => Some (u, p)
  | _ => None
  end.

Definition authplain_creds (authed tls : bool) (data : str) : creds :=
  if authed then Direct R_BAD else      (* "BAD Already authenticated", before "+ " *)
  if negb tls then Direct R_NO else
  let a := trim_space data in
  if str_eqb a (S_ "*") then Direct R_BAD else
  let decoded := match b64_decode a with Some x => x | None => a end in
  match plain_fields decoded with
  | Some (u, p) =>
      match u, p with
      | [], _ => Direct R_NO
      | _, [] => Direct R_NO
      | _, _ => Creds u p
      end
  | None => Direct R_NO
  end.

Definition run_creds (d : str) (c : creds) (b : outcome) (ens : ensure_fn) (init : bool) : auth_out :=
  match c with
  | Creds u p => authenticate_user d u p b ens init
  | Direct r => mk_out [] r None
  end.

(** ---- SASL (Dovecot auth protocol) ---- *)

Record sasl_out := mk_sasl {
  s_sent : list str;     (* request bodies handed to the HTTP client *)
  s_wrote : str          (* bytes written to the connection *)
}.

(** Server.authenticate: (request bodies, result) *)
Definition sasl_email (domain u : str) : str :=
  if negb (contains_byte u AT) then u ++ AT :: domain else u.

Definition sasl_authenticate (domain u p : str) (b : outcome) : list str * bool :=
  if multi_at u then ([], false)
  else ([build_body (sasl_email domain u) p], accepted b).

(** strings.ContainsAny(username, "\t\r\n") *)
Definition sasl_user_bad (u : str) : bool :=
  contains_byte u TAB || contains_byte u CR || contains_byte u LF.

(** the loop over parts[3:] in handleAuth: (resp, respProvided) *)
Fixpoint sasl_params (ps : list str) (resp : str) (given : bool) : str * bool :=
  match ps with
  | [] => (resp, given)
  | x :: ps' =>
      if has_prefix x (S_ "service=") then sasl_params ps' resp given
      else if has_prefix x (S_ "resp=") then sasl_params ps' (trim_prefix x (S_ "resp=")) true
      else sasl_params ps' resp given
  end.

Definition sasl_line1 (verb id rest : str) : str := verb ++ TAB :: id ++ TAB :: rest ++ [LF].

(** handlePlain up to the call of authenticate: credentials or the reply *)
Definition sasl_plain_creds (id resp : str) (given : bool) : str + (str * str) :=
  if negb given then inl (sasl_line1 (S_ "CONT") id [])
  else match resp with
  | [] => inl (sasl_line1 (S_ "FAIL") id (S_ "reason=Invalid credentials format"))
  | _ =>
    match b64_decode resp with
    | None => inl (sasl_line1 (S_ "FAIL") id (S_ "reason=Invalid encoding"))
    | Some decoded =>
      match plain_fields decoded with
      | Some up => inr up
      | None => inl (sasl_line1 (S_ "FAIL") id (S_ "reason=Invalid credentials format"))
      end
    end
  end.

Definition sasl_plain (domain id resp : str) (given : bool) (b : outcome) : sasl_out :=
  match sasl_plain_creds id resp given with
  | inl w => mk_sasl [] w
  | inr (u, p) =>
      if sasl_user_bad u
      then mk_sasl [] (sasl_line1 (S_ "FAIL") id (S_ "reason=Invalid credentials format"))
      else
      let '(bodies, ok) := sasl_authenticate domain u p b in
      if ok
      then mk_sasl bodies (sasl_line1 (S_ "OK") id (S_ "user=" ++ u))
      else mk_sasl bodies (sasl_line1 (S_ "FAIL") id (S_ "user=" ++ u ++ TAB :: S_ "reason=Invalid credentials"))
  end.

Definition sasl_login (id resp : str) : sasl_out :=
  match resp with
  | [] => mk_sasl [] (sasl_line1 (S_ "CONT") id (S_ "Username:"))
  | _ => mk_sasl [] (sasl_line1 (S_ "FAIL") id (S_ "reason=LOGIN not fully implemented, use PLAIN"))
  end.

(** handleAuth *)
Definition sasl_auth (domain : str) (parts : list str) (b : outcome) : sasl_out :=
  match parts with
  | _ :: id :: mech :: ps =>
      let '(resp, given) := sasl_params ps [] false in
      let m := to_upper mech in
      if str_eqb m (S_ "PLAIN") then sasl_plain domain id resp given b
      else if str_eqb m (S_ "LOGIN") then sasl_login id resp
      else mk_sasl [] (sasl_line1 (S_ "FAIL") id (S_ "reason=Unsupported mechanism"))
  | _ => mk_sasl [] []
  end.

(** bufio.ScanLines: one trailing CR is dropped *)
Definition drop_cr (line : str) : str :=
  if has_suffix line [CR] then firstn (length line - 1) line else line.

(** one iteration of the loop in handleConnection; [raw] is the line without
    its LF *)
Definition sasl_line (domain : str) (raw : str) (b : outcome) : sasl_out :=
  let line := drop_cr raw in
  let parts := split_byte line TAB in
  match parts with
  | cmd :: _ :: _ =>
      if str_eqb cmd (S_ "VERSION") then mk_sasl [] (S_ "VERSION" ++ TAB :: S_ "1" ++ TAB :: S_ "2" ++ [LF])
      else if str_eqb cmd (S_ "CPID") then
        mk_sasl [] (S_ "MECH" ++ TAB :: S_ "PLAIN" ++ TAB :: S_ "plaintext" ++ LF ::
                    S_ "MECH" ++ TAB :: S_ "LOGIN" ++ TAB :: S_ "plaintext" ++ LF :: S_ "DONE" ++ [LF])
      else if str_eqb cmd (S_ "AUTH") then sasl_auth domain parts b
      else mk_sasl [] []
  | _ => mk_sasl [] []
  end.

(** ---- a session: a sequence of attempts on one connection ---- *)

Inductive entry :=
| E_login (tls : bool) (line : str)         (* a command line dispatched by handleClient *)
| E_authplain (tls : bool) (data : str).    (* AUTHENTICATE PLAIN and the bytes after "+ " *)

Definition entry_creds (authed : bool) (e : entry) : creds :=
  match e with
  | E_login tls line => login_creds authed tls line
  | E_authplain tls data => authplain_creds authed tls data
  end.

Record attempt := mk_attempt {
  a_domain : str; a_entry : entry; a_backend : outcome; a_ens : ensure_fn; a_init : bool }.

Record sess := mk_sess { authed : bool; who : option (str * str) }.

Definition run_attempt (au : bool) (a : attempt) : auth_out :=
  run_creds (a_domain a) (entry_creds au (a_entry a)) (a_backend a) (a_ens a) (a_init a).

Definition sess_step (s : sess) (a : attempt) : sess :=
  let r := run_attempt (authed s) a in
  match answer r with
  | R_OK => mk_sess true (bound r)
  | _ => s
  end.

Definition run_session (l : list attempt) : sess := fold_left sess_step l (mk_sess false None).

(** ---- concurrent logins: N sessions, one authentication backend ---- *)

(** authenticateUser in two steps, as the scheduler may interleave them with the
    steps of other sessions: [Render i] -- session i builds the request body
    from ITS OWN user name and password into ITS OWN variable (requestBody is a
    local of authenticateUser; nothing is shared between sessions) or refuses
    locally; [Send i] -- the HTTP client hands that body to the backend and the
    session finishes with the backend's answer to it.  The backend is a
    function from the body it receives to its outcome. *)
Record csession := mk_csession {
  cs_d : str; cs_u : str; cs_p : str; cs_ens : ensure_fn; cs_init : bool }.

(** the request of a session: a function of that session's credentials only *)
Definition request_of (s : csession) : option str :=
  match cs_d s with
  | [] => None
  | _ => if multi_at (cs_u s) then None else Some (build_body (email_of (cs_d s) (cs_u s)) (cs_p s))
  end.

Definition finish (s : csession) (o : outcome) : auth_out :=
  authenticate_user (cs_d s) (cs_u s) (cs_p s) o (cs_ens s) (cs_init s).

Inductive cev := Render (i : nat) | Send (i : nat).

Record cstate := mk_cstate {
  pend : nat -> option (option str);   (* per session: rendered? the body (None: refused locally) *)
  recv : list str;                     (* bodies received by the backend, in order *)
  outs : nat -> option auth_out        (* per session: how it finished *)
}.

Definition upd {A} (f : nat -> A) (i : nat) (v : A) : nat -> A :=
  fun j => if Nat.eqb j i then v else f j.

Definition cstep (sess : nat -> csession) (bk : str -> outcome) (st : cstate) (e : cev) : cstate :=
  match e with
  | Render i => mk_cstate (upd (pend st) i (Some (request_of (sess i)))) (recv st) (outs st)
  | Send i =>
      match pend st i with
      | Some (Some body) =>
          mk_cstate (pend st) (recv st ++ [body]) (upd (outs st) i (Some (finish (sess i) (bk body))))
      | Some None => mk_cstate (pend st) (recv st) (upd (outs st) i (Some (finish (sess i) Refused)))
      | None => st                      (* nothing rendered yet: not a step of the program *)
      end
  end.

Definition cinit : cstate := mk_cstate (fun _ => None) [] (fun _ => None).
Definition run_sched (sess : nat -> csession) (bk : str -> outcome) (sched : list cev) : cstate :=
  fold_left (cstep sess bk) sched cinit.

(** contrast (NOT raven's code): one buffer shared by all sessions *)
Definition cstep_shared (sess : nat -> csession) (bk : str -> outcome)
    (st : option str * list str * (nat -> option auth_out)) (e : cev) :=
  let '(buf, rc, out) := st in
  match e with
  | Render i => (request_of (sess i), rc, out)
  | Send i => match buf with
              | Some body => (buf, rc ++ [body], upd out i (Some (finish (sess i) (bk body))))
              | None => st
              end
  end.
