(** C20 — the SASL scanner loop (internal/sasl/server.go handleConnection) with
    TIME: the read deadline is an absolute instant, so which lines re-arm it
    decides how long a client that keeps SENDING can hold its connection — and
    Server.Shutdown, which waits for every connection.

      conn.SetReadDeadline(now + 30 s)                      [arm]
      for scanner.Scan() {
          parts := strings.Split(line, "\t")
          if len(parts) < 2 { continue }                    (no arm, no shutdown check)
          switch parts[0] { ... replies ... }
          select { case <-s.shutdown: return; default: }    [shutdown check]
          conn.SetReadDeadline(now + 30 s)                  [arm]
      }

    The loop is parameterised by what the `continue` path does, so that the
    statements can say exactly what they depend on:
      [rearm_malformed]  a line of fewer than two fields re-arms the deadline
                         (false on the tree; true is the seeded change C20-2)
      [check_malformed]  such a line also passes the shutdown check
                         (false on the tree; true with fixes/C20-7)
    One event = the next COMPLETE line, [dt] ms after the previous event; bytes
    that do not complete a line (partial lines, silence) are just time passing.
    If the deadline comes first, scanner.Scan fails and the handler returns.
    No proofs here. *)
From Coq Require Import List Bool NArith Arith.
From Raven Require Import Base.GoStr Model.Lifecycle.
Import ListNotations.

Record loopcfg := mk_loop { rearm_malformed : bool; check_malformed : bool }.

Definition tree_loop : loopcfg := mk_loop false false.      (* /repo as it is *)
Definition strict_loop : loopcfg := mk_loop false true.     (* with fixes/C20-7 *)
Definition seeded_loop : loopcfg := mk_loop true false.     (* seeded change C20-2 *)

Definition read_timeout : N := 30000%N.

Record tstate := mk_t { t_done : bool; t_left : N }.        (* time left until the armed deadline *)
Definition t_init : tstate := mk_t false read_timeout.

Inductive line_kind := KTooLong | KMalformed | KCommand.
Definition kind_of (l : str) : line_kind :=
  if (max_token <=? N.of_nat (length l))%N then KTooLong
  else if (length (split_tab l) <? 2) then KMalformed else KCommand.

(** one line arriving [dt] ms after the previous event; result: new state,
    time the handler stayed alive during this step, deadline armed? *)
Definition tstep (c : loopcfg) (shut : bool) (s : tstate) (dt : N) (l : str) : tstate * N * bool :=
  if t_done s then (s, 0%N, false)
  else if (t_left s <=? dt)%N then (mk_t true 0, t_left s, false)          (* the deadline fires first *)
  else match kind_of l with
       | KTooLong => (mk_t true 0, dt, false)                              (* bufio.ErrTooLong *)
       | KMalformed =>
           if (shut && check_malformed c)%bool then (mk_t true 0, dt, false)
           else if rearm_malformed c then (mk_t false read_timeout, dt, true)
           else (mk_t false (t_left s - dt), dt, false)
       | KCommand =>
           if shut then (mk_t true 0, dt, false)                           (* answered, then the shutdown check *)
           else (mk_t false read_timeout, dt, true)
       end.

(** total time alive and number of deadline arms over a list of (gap, line) *)
Fixpoint trun (c : loopcfg) (shut : bool) (s : tstate) (ls : list (N * str)) : tstate * N * nat :=
  match ls with
  | [] => (s, 0%N, 0)
  | (dt, l) :: ls' =>
      let '(s1, a, armed) := tstep c shut s dt l in
      let '(s2, a2, n2) := trun c shut s1 ls' in
      (s2, (a + a2)%N, (if armed then 1 else 0) + n2)
  end.

(** arms the recording pipe must have seen for a session of complete lines
    (shutdown not begun, gaps irrelevant as long as the deadline never fires):
    the initial one plus one per line that re-arms *)
Definition arms_of (c : loopcfg) (ls : list str) : nat :=
  S (snd (trun c false t_init (map (fun l => (0%N, l)) ls))).
