(** Model of the message_mailbox rows ("links") of one user store under the
    commands C10 speaks about.  Go sources mirrored, statement by statement:

      internal/server/message/message.go  HandleStore, MoveMessageToMailbox,
                                          HandleAppendWithReader (flag part), HandleExpunge
      internal/server/uid/uid.go          handleUIDStore, handleUIDCopy
      internal/server/utils/parser.go     ParseSequenceSetWithDB, ParseUIDSequenceSetWithDB
                                          (well-formed sets only: numbers, ranges, "*")
      internal/server/selection/selection.go  HandleSelect ([UNSEEN n]), HandleClose
      internal/db/user_schema.go          AddMessageToMailboxPerUser, IncrementUIDNextPerUser,
                                          GetUnseenCountPerUser; UNIQUE(mailbox_id, uid)
      internal/server/message/message.go  evaluateTokens: flag keys of SEARCH

    A row is (message_id, mailbox_id, uid, flags); [lk_flags] holds the atoms
    (strings.Fields) of the stored flag string, see Model/Flags.v (every writer
    - APPEND, STORE, COPY, the Junk move - stores the atoms joined by one
    blank).  SQL statements are list operations; the UNIQUE(mailbox_id, uid)
    constraint is the explicit check in [insert].

    State of the code modelled: /repo after the fix wave (fixes/01..05, and
    02d2f67: COPY / UID COPY / the Junk move take UIDs from uid_next; a240138:
    plain COPY works):
    ClientState.ReadOnly ([ro]) is honoured by STORE / UID STORE / EXPUNGE /
    CLOSE; plain STORE resolves its sequence numbers to UIDs before the loop and
    then runs the loop body of UID STORE; rows are updated / moved by
    (mailbox_id, uid); MoveMessageToMailbox reports "not moved" when the
    message already is in the destination; flags are compared as whole words
    (hasFlag, instr(' '||lower(flags)||' ', ' \seen ')), without regard to
    ASCII case (fixes/06; CalculateNewFlags likewise, see Model/Flags.v).
    No proofs in this file. *)
From Coq Require Import String Ascii List Bool Arith ZArith.
From Raven Require Import Base.GoStr Model.Flags.
Import ListNotations.
Local Open Scope Z_scope.

Record link := mkLink { lk_msg : Z; lk_mbox : Z; lk_uid : Z; lk_flags : list str }.
(** [nexts]: (mailbox id, uid_next) of every mailbox; [spam]: id of the mailbox
    that is named "Spam" at the moment ([None] after RENAME Spam x / DELETE Spam) *)
Record st := mkSt { links : list link; nexts : list (Z * Z); next_msg : Z; spam : option Z }.
(** id of the mailbox named "INBOX" (it can be neither deleted nor renamed away) *)
Record env := mkEnv { inbox_id : Z }.

Definition in_mbox (mb : Z) (l : link) : bool := lk_mbox l =? mb.
Definition has_key (mb u : Z) (l : link) : bool := (lk_mbox l =? mb) && (lk_uid l =? u).
Definition set_flags (l : link) (fl : list str) : link := mkLink (lk_msg l) (lk_mbox l) (lk_uid l) fl.

(** ORDER BY uid ASC *)
Fixpoint ins_uid (x : link) (l : list link) : list link :=
  match l with
  | [] => [x]
  | y :: l' => if lk_uid x <=? lk_uid y then x :: l else y :: ins_uid x l'
  end.
Definition sort_uid (l : list link) : list link := fold_right ins_uid [] l.

(** SELECT ... FROM message_mailbox WHERE mailbox_id = ? ORDER BY uid *)
Definition mbox_links (ls : list link) (mb : Z) : list link := sort_uid (filter (in_mbox mb) ls).

(** ... LIMIT 1 OFFSET n-1 *)
Definition nth_link (ls : list link) (mb n : Z) : option link :=
  if n <? 1 then None else nth_error (mbox_links ls mb) (Z.to_nat (n - 1)).

(** SELECT ... WHERE mailbox_id = ? AND uid = ? *)
Definition find_key (ls : list link) (mb u : Z) : option link := find (has_key mb u) ls.

(** SELECT COALESCE(MAX(uid), 0) FROM message_mailbox WHERE mailbox_id = ? *)
Definition max_uid (ls : list link) (mb : Z) : Z :=
  fold_left Z.max (map lk_uid (filter (in_mbox mb) ls)) 0.

(** INSERT INTO message_mailbox ...; [None] = UNIQUE(mailbox_id, uid) violated *)
Definition insert (ls : list link) (l : link) : option (list link) :=
  if existsb (has_key (lk_mbox l) (lk_uid l)) ls then None else Some (ls ++ [l]).

(** ---- sequence sets (already tokenised: (lo, hi), [None] = "*") ---- *)
Definition seqset := list (option Z * option Z).
Definition star (v : Z) (x : option Z) : Z := match x with Some n => n | None => v end.
Definition zrange (lo hi : Z) : list Z :=
  map (fun i => lo + Z.of_nat i) (seq 0 (Z.to_nat (hi - lo + 1))).

(** ParseSequenceSetWithDB *)
Definition expand_seq (ls : list link) (mb : Z) (s : seqset) : list Z :=
  let total := Z.of_nat (length (filter (in_mbox mb) ls)) in
  if total =? 0 then []
  else flat_map (fun '(a, b) =>
         let a := star total a in let b := star total b in
         if (a >? 0) && (b >? 0)
         then zrange (Z.min a b) (Z.min (Z.max a b) total) else []) s.

(** ParseUIDSequenceSetWithDB *)
Definition expand_uid (ls : list link) (mb : Z) (s : seqset) : list Z :=
  let mx := max_uid ls mb in
  if mx =? 0 then []
  else flat_map (fun '(a, b) =>
         let a := star mx a in let b := star mx b in
         let lo := Z.min a b in let hi := Z.max a b in
         map lk_uid (filter (fun l => (lo <=? lk_uid l) && (lk_uid l <=? hi)) (mbox_links ls mb))) s.

(** mailboxes.uid_next *)
Definition next_of (nx : list (Z * Z)) (mb : Z) : Z :=
  match find (fun p => fst p =? mb) nx with Some p => snd p | None => 1 end.
(** UPDATE mailboxes SET uid_next = uid_next + 1 WHERE id = ? *)
Definition bump (nx : list (Z * Z)) (mb : Z) : list (Z * Z) :=
  map (fun p => if fst p =? mb then (fst p, snd p + 1) else p) nx.
(** UPDATE mailboxes SET uid_next = ? WHERE id = ? *)
Definition set_next (nx : list (Z * Z)) (mb v : Z) : list (Z * Z) :=
  map (fun p => if fst p =? mb then (fst p, v) else p) nx.

Definition with_links (s : st) (ls : list link) : st := mkSt ls (nexts s) (next_msg s) (spam s).

(** ---- MoveMessageToMailbox(messageID, source mailbox, source UID, ...): one
    transaction; the new UID is the destination's uid_next, which is advanced.
    [dest] = SELECT id FROM mailboxes WHERE name = ?: [None] when no mailbox
    has the destination's name ("destination mailbox not found", an error).
    Result [None] = (false, nil) "already in the destination" or an error: in
    both cases nothing changed and the caller goes on to the in-place UPDATE ---- *)
Definition move (s : st) (msg src u : Z) (dest : option Z) (fl : list str) : option st :=
  match dest with
  | None => None
  | Some dest =>
    if src =? dest then None
    else
      let nu := next_of (nexts s) dest in
      match insert (links s) (mkLink msg dest nu fl) with
      | None => None
      | Some ls' => Some (mkSt (filter (fun l => negb (has_key src u l)) ls')   (* DELETE ... WHERE mailbox_id = ? AND uid = ? *)
                               (set_next (nexts s) dest (nu + 1)) (next_msg s) (spam s))
      end
  end.

(** UPDATE message_mailbox SET flags = ? WHERE mailbox_id = ? AND uid = ?   (HandleStore and handleUIDStore) *)
Definition upd_uid (mb u : Z) (ls : list link) (fl : list str) : list link :=
  map (fun l => if has_key mb u l then set_flags l fl else l) ls.

Definition junk_added (cur upd : list str) : bool := negb (mem JUNK (to_set cur)) && mem JUNK (to_set upd).
Definition nonjunk_added (cur upd : list str) : bool := negb (mem NONJUNK (to_set cur)) && mem NONJUNK (to_set upd).

(** body of the per-message loop of HandleStore / handleUIDStore after the row [l0] was read *)
Definition store_row (e : env) (s : st) (mb : Z) (l0 : link) (item : str) (new : list str) : st :=
  let cur := lk_flags l0 in
  let upd := calculate_new_flags cur new item in
  let u := lk_uid l0 in
  if junk_added cur upd then
    match move s (lk_msg l0) mb u (spam s) (remove_flag_from_set (to_set upd) NONJUNK) with
    | Some s' => s'                                    (* moved: "continue", no UPDATE *)
    | None => with_links s (upd_uid mb u (links s) upd)
    end
  else if nonjunk_added cur upd then
    match move s (lk_msg l0) mb u (Some (inbox_id e)) (remove_flag_from_set (to_set upd) JUNK) with
    | Some s' => s'
    | None => with_links s (upd_uid mb u (links s) upd)
    end
  else with_links s (upd_uid mb u (links s) upd).

(** SELECT ... WHERE mailbox_id = ? AND uid = ?, then the loop body *)
Definition store_uid_one (e : env) (mb : Z) (item : str) (new : list str) (s : st) (u : Z) : st :=
  match find_key (links s) mb u with
  | None => s
  | Some l0 => store_row e s mb l0 item new
  end.

(** HandleStore: mailboxUIDs[seq-1] for every expanded sequence number, taken
    before the loop *)
Definition seq_targets (ls : list link) (mb : Z) (q : seqset) : list Z :=
  flat_map (fun n => match nth_link ls mb n with Some l => [lk_uid l] | None => [] end) (expand_seq ls mb q).
Definition store_seq (e : env) (s : st) (mb : Z) (q : seqset) (item : str) (new : list str) : st :=
  fold_left (store_uid_one e mb item new) (seq_targets (links s) mb q) s.
(** handleUIDStore *)
Definition store_uid (e : env) (s : st) (mb : Z) (q : seqset) (item : str) (new : list str) : st :=
  fold_left (store_uid_one e mb item new) (expand_uid (links s) mb q) s.

(** COPY / UID COPY: one transaction; UIDs are taken from the destination's
    uid_next, which is written back at the end; any error rolls everything back *)
Definition copy_flags (fl : list str) : list str :=
  if mem_ci RECENT fl then fl else fl ++ [RECENT].
(** handleUIDCopy: a UID that is not there is skipped *)
Fixpoint copy_loop (ls : list link) (mb dest nu : Z) (uids : list Z) : option (list link * Z) :=
  match uids with
  | [] => Some (ls, nu)
  | u :: us =>
      match find_key ls mb u with
      | None => copy_loop ls mb dest nu us
      | Some l0 =>
          match insert ls (mkLink (lk_msg l0) dest nu (copy_flags (lk_flags l0))) with
          | None => None
          | Some ls' => copy_loop ls' mb dest (nu + 1) us
          end
      end
  end.
(** HandleCopy: rows are read by position (LIMIT 1 OFFSET n-1) inside the
    transaction; a position that is not there ends the command with NO *)
Fixpoint copy_seq_loop (ls : list link) (mb dest nu : Z) (ns : list Z) : option (list link * Z) :=
  match ns with
  | [] => Some (ls, nu)
  | n :: ns' =>
      match nth_link ls mb n with
      | None => None
      | Some l0 =>
          match insert ls (mkLink (lk_msg l0) dest nu (copy_flags (lk_flags l0))) with
          | None => None
          | Some ls' => copy_seq_loop ls' mb dest (nu + 1) ns'
          end
      end
  end.
Definition copy_finish (s : st) (dest : Z) (r : option (list link * Z)) : st :=
  match r with
  | Some (ls', nu') => mkSt ls' (set_next (nexts s) dest nu') (next_msg s) (spam s)
  | None => s
  end.
Definition copy_uid (s : st) (mb : Z) (q : seqset) (dest : Z) : st :=
  match expand_uid (links s) mb q with
  | [] => s                                              (* OK, nothing done *)
  | uids => copy_finish s dest (copy_loop (links s) mb dest (next_of (nexts s) dest) uids)
  end.
Definition copy_seq (s : st) (mb : Z) (q : seqset) (dest : Z) : st :=
  match expand_seq (links s) mb q with
  | [] => s                                              (* BAD Invalid sequence set *)
  | ns => copy_finish s dest (copy_seq_loop (links s) mb dest (next_of (nexts s) dest) ns)
  end.

(** APPEND: message row first, then IncrementUIDNextPerUser, then the INSERT *)
Definition append (s : st) (mb : Z) (fl : list str) : st :=
  let u := next_of (nexts s) mb in
  match insert (links s) (mkLink (next_msg s) mb u fl) with
  | Some ls' => mkSt ls' (bump (nexts s) mb) (next_msg s + 1) (spam s)
  | None => mkSt (links s) (bump (nexts s) mb) (next_msg s + 1) (spam s)
  end.

(** hasFlag(flags, q) (strings.EqualFold);  instr(' ' || lower(flags) || ' ', ' lower(q) ') > 0 *)
Definition has_flag (fl : list str) (q : str) : bool := mem_ci q fl.
Definition DELETED : str := S_ "\Deleted".
Definition SEEN : str := S_ "\Seen".
(** HandleExpunge / HandleClose *)
Definition expunge (ls : list link) (mb : Z) : list link :=
  filter (fun l => negb (in_mbox mb l && has_flag (lk_flags l) DELETED)) ls.

(** ---- operations of a history ---- *)
Inductive op :=
| OStore (ro silent : bool) (mb : Z) (q : seqset) (item : str) (new : list str)
| OUidStore (ro silent : bool) (mb : Z) (q : seqset) (item : str) (new : list str)
| OUidCopy (mb : Z) (q : seqset) (dest : Z)
| OCopy (mb : Z) (q : seqset) (dest : Z)
| OAppend (mb : Z) (fl : list str)
| OExpunge (ro : bool) (mb : Z)
| ODropSpam (delete : bool)      (* DELETE Spam  /  RENAME Spam <a new name> *)
| OCreateSpam (id : Z).          (* CREATE Spam; [id] = the id the new mailbox gets *)

(** RENAME keeps the mailbox row (id, messages, uid_next) under another name;
    DELETE removes the row and its message_mailbox rows (DeleteMailboxPerUser);
    both answer NO when no mailbox is named Spam *)
Definition drop_spam (s : st) (delete : bool) : st :=
  match spam s with
  | None => s
  | Some d =>
      if delete
      then mkSt (filter (fun l => negb (in_mbox d l)) (links s))
                (filter (fun p => negb (fst p =? d)) (nexts s)) (next_msg s) None
      else mkSt (links s) (nexts s) (next_msg s) None
  end.
(** CREATE answers NO when the name is taken *)
Definition create_spam (s : st) (id : Z) : st :=
  match spam s with
  | Some _ => s
  | None => mkSt (links s) (nexts s ++ [(id, 1)]) (next_msg s) (Some id)
  end.

(** [ro]: state.ReadOnly, set by EXAMINE: NO [READ-ONLY] / CLOSE without expunge;
    a named flag that is not an RFC 3501 flag: BAD Invalid flag, nothing changes *)
Definition step (e : env) (s : st) (o : op) : st :=
  match o with
  | OStore ro _ mb q item new => if ro || negb (flags_valid new) then s else store_seq e s mb q item new
  | OUidStore ro _ mb q item new => if ro || negb (flags_valid new) then s else store_uid e s mb q item new
  | OUidCopy mb q dest => copy_uid s mb q dest
  | OCopy mb q dest => copy_seq s mb q dest
  | OAppend mb fl => if flags_valid fl then append s mb fl else s     (* BAD Invalid flag *)
  | OExpunge ro mb => if ro then s else with_links s (expunge (links s) mb)
  | ODropSpam delete => drop_spam s delete
  | OCreateSpam id => create_spam s id
  end.

Fixpoint run (e : env) (s : st) (h : list op) : st :=
  match h with [] => s | o :: h' => run e (step e s o) h' end.

(** ---- what the read commands report (functions of the table only) ---- *)
Definition view (ls : list link) (mb : Z) : list (Z * list str) :=
  map (fun l => (lk_uid l, lk_flags l)) (mbox_links ls mb).


Inductive skey := KHas (q : str) | KNot (q : str) | KNew.
Definition key_holds (k : skey) (fl : list str) : bool :=
  match k with
  | KHas q => has_flag fl q
  | KNot q => negb (has_flag fl q)
  | KNew => has_flag fl RECENT && negb (has_flag fl SEEN)
  end.

Fixpoint positions {A} (p : A -> bool) (i : Z) (l : list A) : list Z :=
  match l with [] => [] | x :: l' => if p x then i :: positions p (i + 1) l' else positions p (i + 1) l' end.

Definition search (ls : list link) (mb : Z) (k : skey) : list Z :=
  positions (fun l => key_holds k (lk_flags l)) 1 (mbox_links ls mb).
(** GetUnseenCountPerUser *)
Definition unseen_count (ls : list link) (mb : Z) : Z :=
  Z.of_nat (length (filter (fun l => negb (has_flag (lk_flags l) SEEN)) (filter (in_mbox mb) ls))).
(** [UNSEEN n] of SELECT/EXAMINE *)
Definition first_unseen (ls : list link) (mb : Z) : option Z :=
  hd_error (positions (fun l => negb (has_flag (lk_flags l) SEEN)) 1 (mbox_links ls mb)).

(** ---- the read commands as the handlers see them: session state + table ----
    ClientState carries, next to the selection, the counters LastMessageCount /
    LastRecentCount that SELECT, NOOP and CHECK refresh (they exist for NOOP's
    EXISTS/RECENT notices).  HandleStatus, HandleSearch and HandleFetch do not
    read them: every answer is computed from the table.  [sess] makes that
    explicit: the counters are an argument that no function below looks at. *)
Record sess := mkSess { ss_selected : Z; ss_read_only : bool; ss_last_count : Z; ss_last_recent : Z }.

(** STATUS mb (UNSEEN) / (RECENT): db.GetUnseenCountPerUser, also when [mb] is the selected mailbox *)
Definition status_unseen (ss : sess) (s : st) (mb : Z) : Z := unseen_count (links s) mb.
(** STATUS mb (MESSAGES): db.GetMessageCountPerUser *)
Definition status_messages (ss : sess) (s : st) (mb : Z) : Z :=
  Z.of_nat (length (filter (in_mbox mb) (links s))).
(** SEARCH <flag key> and FETCH 1:* (UID FLAGS) in the selected mailbox *)
Definition sess_search (ss : sess) (s : st) (k : skey) : list Z := search (links s) (ss_selected ss) k.
Definition sess_fetch (ss : sess) (s : st) : list (Z * list str) := view (links s) (ss_selected ss).
