(** C03 — APPEND at statement level, interleaved with complete commands of other
    writers (message.HandleAppendWithReader after the literal was read and the
    target mailbox row [mb] was found; db.AddMessageToMailboxPerUser):

      S  parser.StoreMessagePerUser...        new row in [messages]      (msg)
      U  UPDATE mailboxes SET uid_next = uid_next + 1 ... RETURNING ...   (uid)
      I  INSERT INTO message_mailbox (msg, mb, uid, flags)
      R  SELECT uid_validity, uid_next FROM mailboxes WHERE id = mb       (v)
      Q  SELECT uid FROM message_mailbox WHERE message_id = msg AND mailbox_id = mb   (u)
      reply  OK [APPENDUID v u]

    Every statement is an autocommit statement; between two of them any number of
    complete commands of other sessions may commit ([e1] before U, [e2] between U
    and I, [e3] between I and R, [e4] between R and Q).  No proofs here. *)
From Coq Require Import String Ascii List Bool ZArith.
From Raven Require Import Base.GoStr Model.Store Model.Ops Spec.UidSpec Model.UidView.
Import ListNotations.
Local Open Scope Z_scope.

(** the commands of the other writers of the property text: delivery, APPEND,
    COPY, UID COPY, and UID STORE issued with ANOTHER mailbox selected (its
    Junk/NonJunk move may add to [mb]; it removes nothing from [mb]) *)
Definition writer_ok (mb : Z) (o : op) : bool :=
  match o with
  | ODeliver _ _ | OAppend _ _ | OUidCopy _ _ _ | OCopy _ _ _ => true
  | OUidStore sel _ _ _ => negb (sel =? mb)
  | _ => false
  end.

Definition own (msg mb : Z) (l : link) : bool := (lk_msg l =? msg) && (lk_mbox l =? mb).

(** how the reply's UID is obtained from the state at Q (and the uid_next read at R) *)
Definition announce_tree (msg mb : Z) (next_at_R : Z) (sQ : store) : Z :=
  match find (own msg mb) (links sQ) with Some l => lk_uid l | None => 1 end.
(** the rejected variant "one read of the mailbox row gives both": uid_next - 1 *)
Definition announce_uidnext (msg mb : Z) (next_at_R : Z) (sQ : store) : Z := next_at_R - 1.

(** result, and (uid, ghost instance) of the row inserted by I *)
Definition append_sched_gen (announce : Z -> Z -> Z -> store -> Z)
    (s : store) (mb : Z) (fl : list str) (e1 e2 e3 e4 : list op) : store * result * option (Z * Z) :=
  let '(s0, msg) := store_message s in
  let s1 := run e1 s0 in
  match alloc_uid s1 mb with
  | None => (s1, RNo, None)
  | Some (s2, uid) =>
    let s2' := run e2 s2 in
    match insert_link s2' msg mb uid fl with
    | None => (s2', RNo, None)
    | Some s3 =>
      let s3' := run e3 s3 in
      let '(v, nx) := match find_id s3' mb with
                      | Some m => (mb_validity m, mb_next m) | None => (1, 2) end in
      let s4 := run e4 s3' in
      (s4, RAppendUid v (announce msg mb nx s4), Some (uid, gser s2'))
    end
  end.

Definition append_sched_full := append_sched_gen announce_tree.
Definition append_sched (s : store) (mb : Z) (fl : list str) (e1 e2 e3 e4 : list op) : store * result :=
  fst (append_sched_full s mb fl e1 e2 e3 e4).

(** evaluation of one case of the suite "sched": the prepared account (four
    messages in Trash, one in INBOX), the held APPEND to INBOX (row 1) with the
    other writers' commands at the hold points, commands that ran afterwards,
    and the observed reply + tables *)
Definition sched_prep : list op :=
  [OAppend (S_ "Trash") []; OAppend (S_ "Trash") []; OAppend (S_ "Trash") []; OAppend (S_ "Trash") [];
   OAppend (S_ "INBOX") []].

Definition eval_sched (c : store * list op * list op * list op * list op * list op * obs_step) : bool :=
  let '(s0, e1, e2, e3, e4, late, o) := c in
  let '(s1, r) := append_sched (run sched_prep s0) 1 [] e1 e2 e3 e4 in
  step_agrees (run late s1, r) o.
