(** C07 — every operation as the list of its ATOMIC DURABLE MICRO-STEPS.

    One micro-step = one autocommit SQL statement or one committed
    transaction on one per-user SQLite file (user_db_<id>.db).  A crash of the
    process leaves the file in the state after some PREFIX of the micro-steps
    issued so far (SQLite's per-statement / per-transaction atomicity and
    durability against process death is the hypothesis of this model, see
    Properties/C07.v); on restart the file is reopened by

      internal/db/db_manager.go   DBManager.GetUserDB   (initUserDB runs at EVERY first use of a
                                  store in a process; all its statements are idempotent — repaired code,
                                  fixes/store-init-idempotent.patch; before, it was skipped when the file existed)

    The operations, in the statement order of the Go code:

      COpen       db_manager.go GetUserDB + initUserDB (10 CREATE TABLE, 16 CREATE
                  INDEX, all IF NOT EXISTS, each autocommit) + sqlite.go
                  createDefaultMailboxes (SELECT COUNT; only if the table is
                  empty: on one dedicated connection BEGIN IMMEDIATE, SELECT COUNT
                  again under the write lock, the 5 INSERTs, COMMIT — raven
                  c479b34; sequentially the second count is the first one, and a
                  crash inside the transaction leaves nothing of it).  It is the first
                  use of the store in a process: a LOGIN, or the GetUserDB at the
                  head of the first delivery to that user.
      CDeliver    delivery/storage/storage.go DeliverMessage after GetUserDB:
                  get-or-create mailbox, parser.StoreMessagePerUserWithSharedDBAndS3
                  (INSERT messages; n x INSERT message_headers; INSERT addresses;
                  per part [blob in shared.db] INSERT message_parts),
                  db.AddMessageToMailboxPerUser (UPDATE uid_next ... RETURNING;
                  INSERT message_mailbox), RecordDeliveryPerUser
      CAppend     server/message/message.go HandleAppendWithReader (same, no delivery row)
      CBase o     the operations of Model/Ops.v that do not store a message:
                  UID COPY / COPY / move = one transaction (incl. the uid_next write-back, raven 02d2f67); UID STORE = one UPDATE
                  (or one move transaction) per message; EXPUNGE / CLOSE = one
                  DELETE per message; CREATE = one INSERT per missing parent + one;
                  DELETE = one transaction; RENAME = parent INSERTs + one
                  transaction; RENAME INBOX = INSERT, then one transaction (uid_next + re-parent, raven 30e4be8)
      CSubscribe / CUnsubscribe   user_schema.go SubscribeToMailboxPerUser / Unsubscribe...

    The mailbox / link tables are the [store] of Model/Store.v (shared with
    C03); this file adds the existence of the file, the schema statements
    committed so far, the rows of [messages] with the number of their header /
    address / part rows, subscriptions and delivery records.

    Operations other than [COpen] on a store whose essential tables are missing
    ([ready] = false) do nothing and fail (in raven they are preceded by the
    [COpen] of their session / delivery, which completes the store).

    No proofs in this file. *)
From Coq Require Import String Ascii List Bool ZArith Arith.
From Raven Require Import Base.GoStr Model.Store Model.Ops.
Import ListNotations.
Local Open Scope Z_scope.

(** what StoreMessage will write for a parsed message: number of header rows,
    address rows, and per part whether its content goes to a blob (shared.db) *)
Record shape := mkShape { sh_hdr : nat; sh_adr : nat; sh_parts : list bool }.

(** a row of [messages] + the count of its rows in message_headers, addresses,
    message_parts; [m_want] is ghost (what the writer intends to write) *)
Record msgrec := mkMsg { m_id : Z; m_hdr : nat; m_adr : nat; m_parts : nat; m_want : shape }.

Definition complete (m : msgrec) : bool :=
  Nat.eqb (m_hdr m) (sh_hdr (m_want m)) && Nat.eqb (m_adr m) (sh_adr (m_want m))
  && Nat.eqb (m_parts m) (length (sh_parts (m_want m))).

Record dstore := mkD {
  d_file : bool;            (* user_db_<id>.db exists *)
  d_schema : nat;           (* schema statements committed, in order: 0..26 *)
  d_st : store;             (* tables mailboxes, message_mailbox (+ C03's ghosts) *)
  d_msgs : list msgrec;     (* table messages *)
  d_subs : list str;        (* table subscriptions *)
  d_deliv : nat             (* rows of table deliveries *)
}.

Definition NSCHEMA : nat := 27.
(** statements 1..10 create the tables every LMTP/IMAP path needs (mailboxes,
    uid_validity_seq (raven da328ca; second statement of the same Exec string,
    its own autocommit statement), aliases, messages, subscriptions, addresses,
    message_parts, deliveries, message_mailbox, message_headers);
    11 = outbound_queue, 12..27 indexes *)
Definition NTABLES : nat := 10.

Definition absent : dstore := mkD false 0 empty_store [] [] 0.

Definition ready (d : dstore) : bool := d_file d && (NTABLES <=? d_schema d)%nat.

Definition with_st (d : dstore) (s : store) : dstore :=
  mkD (d_file d) (d_schema d) s (d_msgs d) (d_subs d) (d_deliv d).
Definition with_msgs (d : dstore) (l : list msgrec) : dstore :=
  mkD (d_file d) (d_schema d) (d_st d) l (d_subs d) (d_deliv d).

(** ---- micro-steps ------------------------------------------------------------ *)

Inductive mstep :=
| MCreateFile                                   (* sql.Open + PRAGMA foreign_keys: an empty file appears *)
| MSchema (i : nat)                             (* the i-th (0-based) CREATE ... IF NOT EXISTS *)
| MAllocV (name : str) (t : Z)                  (* nextUIDValidityPerUser: INSERT INTO uid_validity_seq ... ON CONFLICT DO UPDATE ... RETURNING
                                                   — hands out max(clock t, high-water mark + 1) for mailbox [name] (raven da328ca) *)
| MInsMailbox (name : str) (v : Z)              (* INSERT INTO mailboxes, with the stamp [v] just handed out *)
| MTxDefaults (t1 t2 t3 t4 t5 : Z)              (* BEGIN IMMEDIATE; SELECT COUNT again; 5 x INSERT INTO mailboxes; COMMIT
                                                   (raven c479b34) — only issued when the table looked empty *)
| MInsMessage (want : shape)                    (* INSERT INTO messages *)
| MInsHeader (msg : Z)                          (* INSERT INTO message_headers *)
| MInsAddress (msg : Z)                         (* INSERT INTO addresses *)
| MBlob                                         (* shared.db: INSERT INTO blobs / UPDATE blobs SET reference_count *)
| MInsPart (msg : Z)                            (* INSERT INTO message_parts *)
| MBump (mb : Z)                                (* UPDATE mailboxes SET uid_next = uid_next + 1 ... RETURNING uid_next - 1 *)
| MInsLink (msg mb uid : Z) (flags : list str)  (* INSERT INTO message_mailbox *)
| MInsDelivery                                  (* INSERT INTO deliveries *)
| MTxUidCopy (sel dest : Z) (uids : list Z) (next : Z)   (* BEGIN; INSERT message_mailbox *; COMMIT *)
| MTxCopy (sel dest : Z) (seqs : list Z) (next : Z)
| MStoreOne (sel : Z) (mode : smode) (new : list str) (u : Z)  (* UPDATE flags, or the move transaction *)
| MDelLink (id : Z)                             (* DELETE FROM message_mailbox WHERE id = ? *)
| MTxDelete (mb : Z)                            (* BEGIN; DELETE message_mailbox; DELETE mailboxes; COMMIT *)
| MTxRename (mb : Z) (old new : str) (ps : list str) (t : Z)
                                                (* BEGIN; INSERT INTO mailboxes (missing parents [ps]) *; UPDATE mailboxes SET name *; COMMIT
                                                   - ONE transaction since raven 0c3ee23 *)
| MTxReparent (old new nx : Z)                  (* BEGIN; UPDATE mailboxes SET uid_next = MAX(uid_next, nx) (raven 8552cfb);
                                                   UPDATE message_mailbox SET mailbox_id; COMMIT *)
| MSubscribe (name : str)                       (* INSERT OR IGNORE INTO subscriptions *)
| MUnsubscribe (name : str).                    (* DELETE FROM subscriptions *)

Definition upd_msg (f : msgrec -> msgrec) (id : Z) (l : list msgrec) : list msgrec :=
  map (fun m => if m_id m =? id then f m else m) l.
Definition add_hdr (m : msgrec) := mkMsg (m_id m) (S (m_hdr m)) (m_adr m) (m_parts m) (m_want m).
Definition add_adr (m : msgrec) := mkMsg (m_id m) (m_hdr m) (S (m_adr m)) (m_parts m) (m_want m).
Definition add_part (m : msgrec) := mkMsg (m_id m) (m_hdr m) (m_adr m) (S (m_parts m)) (m_want m).

Definition opt_st (d : dstore) (o : option store) : dstore :=
  match o with Some s => with_st d s | None => d end.

(** CreateMailboxPerUser is two statements (autocommit each unless the caller
    passed a transaction): the allocator advances the high-water mark of the
    store's UIDVALIDITY stamps ([gused], whose maximum is [vhigh]) ... *)
Definition alloc_validity (s : store) (n : str) (t : Z) : store :=
  mkStore (mboxes s) (links s) (next_msg s) (glog s) (gused s ++ [(n, next_validity s t)]) (gser s).
(** ... and the INSERT adds the row with that stamp; [None] = UNIQUE(user_id, name)
    (or the empty name, which the Go code refuses before any statement) *)
Definition insert_mailbox_row (s : store) (n : str) (v : Z) : option store :=
  match n with
  | [] => None
  | _ => match find_name s n with
         | Some _ => None
         | None => Some (mkStore (mboxes s ++ [mkMbox (fresh_id (map mb_id (mboxes s))) n v 1])
                                 (links s) (next_msg s) (glog s) (gused s) (gser s))
         end
  end.
(** the two statements of one CreateMailboxPerUser call started in state [s] *)
Definition create_steps (s : store) (n : str) (t : Z) : list mstep :=
  [MAllocV n t; MInsMailbox n (next_validity s t)].

(** createDefaultMailboxes on an empty table (stamps t1', t1'+1, ... : each
    default takes its own stamp inside the transaction) *)
Definition default_rows (s : store) (t1 t2 t3 t4 t5 : Z) : store :=
  fold_left (fun s' nt => match create_mailbox_row s' (fst nt) (snd nt) with
                          | Some (s'', _) => s'' | None => s' end)
            [(INBOX, t1); (S_ "Sent", t2); (S_ "Drafts", t3); (S_ "Trash", t4); (SPAM, t5)] s.

(** the missing parents of CREATE / RENAME, created one by one *)
Definition after_parents (s : store) (ps : list str) (t : Z) : store :=
  fold_left (fun s' p => match find_name s' p with
                         | Some _ => s'
                         | None => match create_mailbox_row s' p t with
                                   | Some (s'', _) => s'' | None => s' end
                         end) ps s.

(** the transaction of RenameMailboxPerUser (raven 0c3ee23, 9ad3652): missing
    parents [ps] of the new name are created INSIDE the transaction, the
    hierarchical children are collected BEFORE the mailbox itself is renamed,
    then the row and its children are renamed; [None] = a statement failed and
    the whole transaction (parents included) is rolled back *)
Definition rename_tx7 (s : store) (mb : Z) (old new : str) (ps : list str) (t : Z) : option store :=
  let s1 := after_parents s ps t in
  let cs := children s1 old in
  match rename_row s1 mb new with
  | None => None
  | Some s2 =>
    fold_left (fun acc c => match acc with
                            | None => None
                            | Some s' => rename_row s' (mb_id c) (new ++ skipn (length old) (mb_name c))
                            end) cs (Some s2)
  end.

(** the transaction of renameInboxPerUser: the target keeps the larger of its
    own uid_next and INBOX's [nx], then the links are re-parented *)
Definition reparent_max (s : store) (old new nx : Z) : option store :=
  let cur := match find_id s new with Some mt => mb_next mt | None => 1 end in
  reparent (set_next s new (Z.max cur nx)) old new.

(** a statement that fails (constraint, missing table) changes nothing *)
Definition exec (d : dstore) (st : mstep) : dstore :=
  match st with
  | MCreateFile => mkD true 0 empty_store [] [] 0      (* a new, empty database file *)
  | MSchema i =>
      if d_file d && Nat.eqb i (d_schema d) && (i <? NSCHEMA)%nat
      then mkD true (S i) (d_st d) (d_msgs d) (d_subs d) (d_deliv d) else d
  | MAllocV n t =>
      if d_file d && (2 <=? d_schema d)%nat then with_st d (alloc_validity (d_st d) n t) else d
  | MInsMailbox n v =>
      if d_file d && (1 <=? d_schema d)%nat then opt_st d (insert_mailbox_row (d_st d) n v) else d
  | MTxDefaults t1 t2 t3 t4 t5 =>
      if d_file d && (1 <=? d_schema d)%nat
      then match mboxes (d_st d) with
           | [] => with_st d (default_rows (d_st d) t1 t2 t3 t4 t5)
           | _ => d
           end
      else d
  | MInsMessage sh =>
      let '(s', id) := store_message (d_st d) in
      mkD (d_file d) (d_schema d) s' (d_msgs d ++ [mkMsg id 0 0 0 sh]) (d_subs d) (d_deliv d)
  | MInsHeader id => with_msgs d (upd_msg add_hdr id (d_msgs d))
  | MInsAddress id => with_msgs d (upd_msg add_adr id (d_msgs d))
  | MBlob => d
  | MInsPart id => with_msgs d (upd_msg add_part id (d_msgs d))
  | MBump mb => with_st d (bump (d_st d) mb)
  | MInsLink msg mb uid fl => opt_st d (insert_link (d_st d) msg mb uid fl)
  | MInsDelivery => mkD (d_file d) (d_schema d) (d_st d) (d_msgs d) (d_subs d) (S (d_deliv d))
  | MTxUidCopy sel dest uids next => opt_st d (uidcopy_loop (d_st d) sel dest uids next)
  | MTxCopy sel dest seqs next => opt_st d (copy_loop (d_st d) sel dest seqs next)
  | MStoreOne sel mode new u => with_st d (uidstore_one (d_st d) sel mode new u)
  | MDelLink id => with_st d (delete_links (d_st d) (fun l => lk_id l =? id))
  | MTxDelete mb =>
      let s1 := delete_links (d_st d) (in_mbox mb) in
      with_st d (set_mboxes s1 (filter (fun m' => negb (mb_id m' =? mb)) (mboxes s1)))
  | MTxRename mb old new ps t =>
      if d_file d && (1 <=? d_schema d)%nat then opt_st d (rename_tx7 (d_st d) mb old new ps t) else d
  | MTxReparent old new nx => opt_st d (reparent_max (d_st d) old new nx)
  | MSubscribe n =>
      if existsb (str_eqb n) (d_subs d) then d
      else mkD (d_file d) (d_schema d) (d_st d) (d_msgs d) (d_subs d ++ [n]) (d_deliv d)
  | MUnsubscribe n =>
      mkD (d_file d) (d_schema d) (d_st d) (d_msgs d)
          (filter (fun x => negb (str_eqb n x)) (d_subs d)) (d_deliv d)
  end.

Definition run_steps (d : dstore) (l : list mstep) : dstore := fold_left exec l d.

(** ---- operations ----------------------------------------------------------------- *)

Inductive cop :=
| COpen (t1 t2 t3 t4 t5 : Z)           (* first use of the store in a process; clock readings of the 5 defaults *)
| CDeliver (folder : str) (t : Z) (sh : shape)
| CAppend (folder : str) (flags : list str) (sh : shape)
| CBase (o : op)                        (* an operation of Model/Ops.v other than ODeliver / OAppend *)
| CSubscribe (name : str)
| CUnsubscribe (name : str).

Definition DEFAULTS : list str := [INBOX; S_ "Sent"; S_ "Drafts"; S_ "Trash"; SPAM].

(** the state GetUserDB starts from: the file as it is, or a new empty one *)
Definition fresh : dstore := mkD true 0 empty_store [] [] 0.
Definition file_of (d : dstore) : dstore := if d_file d then d else fresh.

(** GetUserDB: (create the file,) ALL 26 schema statements (no-ops where the
    object exists), and the default mailboxes if the table is empty *)
Definition open_steps (d : dstore) (t1 t2 t3 t4 t5 : Z) : list mstep :=
  (if d_file d then [] else [MCreateFile]) ++ map MSchema (seq 0 NSCHEMA)
  ++ match mboxes (d_st (file_of d)) with
     | [] => [MTxDefaults t1 t2 t3 t4 t5]
     | _ => []
     end.

(** StoreMessagePerUserWithSharedDBAndS3 for the message that gets row id [id] *)
Definition msg_steps (id : Z) (sh : shape) : list mstep :=
  MInsMessage sh :: repeat (MInsHeader id) (sh_hdr sh) ++ repeat (MInsAddress id) (sh_adr sh)
  ++ flat_map (fun b : bool => (if b then [MBlob] else []) ++ [MInsPart id]) (sh_parts sh).

(** AddMessageToMailboxPerUser (raven 807484f): ONE statement
    "UPDATE mailboxes SET uid_next = uid_next + 1 WHERE id = ? RETURNING uid_next - 1"
    hands out the UID and advances the counter (no row: the statement is issued,
    changes nothing, and the caller returns the error), then INSERT message_mailbox *)
Definition add_steps (s : store) (msg mb : Z) (fl : list str) : list mstep :=
  match find_id s mb with
  | None => [MBump mb]
  | Some m => [MBump mb; MInsLink msg mb (mb_next m) fl]
  end.
(** does that INSERT succeed (UNIQUE(mailbox_id, uid))? *)
Definition add_ok (s : store) (mb : Z) : bool :=
  match find_id s mb with
  | None => false
  | Some m => negb (existsb (at_uid mb (mb_next m)) (links s))
  end.

Definition deliver_steps (s : store) (f : str) (t : Z) (sh : shape) : list mstep :=
  let '(pre, s1, mb) :=
    match find_name s f with
    | Some m => ([], s, Some (mb_id m))
    | None => match create_mailbox_row s f t with
              | Some (s', id) => (create_steps s f t, s', Some id)
              | None => ([], s, None)
              end
    end in
  match mb with
  | None => []
  | Some id =>
      pre ++ msg_steps (next_msg s1) sh ++ add_steps s1 (next_msg s1) id []
      ++ (if add_ok s1 id then [MInsDelivery] else [])
  end.

Definition append_steps (s : store) (f : str) (fl : list str) (sh : shape) : list mstep :=
  match find_name s f with
  | None => []
  | Some m => msg_steps (next_msg s) sh ++ add_steps s (next_msg s) (mb_id m) fl
  end.

(** the parents CREATE / RENAME insert one by one (autocommit), as in op_create *)
Fixpoint parent_steps (s : store) (ps : list str) (t : Z) : list mstep :=
  match ps with
  | [] => []
  | p :: r =>
    match find_name s p with
    | Some _ => parent_steps s r t
    | None => match create_mailbox_row s p t with
              | Some (s', _) => create_steps s p t ++ parent_steps s' r t
              | None => parent_steps s r t
              end
    end
  end.
(** createParentMailboxesPerUser / the parent loop of HandleCreate: the paths
    above [name], without the empty path (a name that starts with "/") and
    without case variants of INBOX (raven 3de38ea, 59c8bd8) *)
Definition skip_parent (p : str) : bool := match p with [] => true | _ => equal_fold p INBOX end.
Definition parents_of (name : str) : list str :=
  filter (fun p => negb (skip_parent p)) (if contains_byte name SLASH then parent_paths name else []).

(** EXPUNGE: "SELECT id, uid ... instr(' '||flags||' ', ' \Deleted ') ORDER BY uid", then one DELETE per row id *)
Definition expunge_ids (s : store) (sel : Z) : list Z :=
  map lk_id (filter is_deleted (links_sorted s sel)).

Definition base_steps (s : store) (o : op) : list mstep :=
  match o with
  | ODeliver _ _ | OAppend _ _ => []          (* use CDeliver / CAppend *)
  | OUidCopy sel set dest =>
      match resolve_uids s sel set with
      | [] => []
      | uids => match find_name s dest with
                | None => []
                | Some d => [MTxUidCopy sel (mb_id d) uids (mb_next d)]
                end
      end
  | OCopy sel set dest =>
      match resolve_seqs s sel set with
      | [] => []
      | seqs => match find_name s dest with
                | None => []
                | Some d => [MTxCopy sel (mb_id d) seqs (mb_next d)]
                end
      end
  | OUidStore sel set mode new => map (MStoreOne sel mode new) (resolve_uids s sel set)
  | OExpunge sel | OClose sel => map MDelLink (expunge_ids s sel)
  | OCreate name0 t =>
      let name := trim_suffix name0 [SLASH] in
      match name with
      | [] => []
      | _ =>
        if str_eqb (to_upper name) INBOX then [] else
        if is_role_ns name then [] else
        match find_name s name with
        | Some _ => []
        | None =>
          let ps := parents_of name in
          parent_steps s ps t ++
          (match create_mailbox_row (after_parents s ps t) name t with
           | Some _ => create_steps (after_parents s ps t) name t | None => [] end)
        end
      end
  | ODelete name =>
      match name with
      | [] => []
      | _ =>
        if str_eqb (to_upper name) INBOX then [] else
        match find_name s name with
        | None => []
        | Some m =>
          match children s name with
          | _ :: _ => []
          | [] => if existsb (str_eqb name) [S_ "Sent"; S_ "Drafts"; S_ "Trash"] then []
                  else [MTxDelete (mb_id m)]
          end
        end
      end
  | ORename old new t =>
      match old, new with
      | [], _ | _, [] => []
      | _, _ =>
        if is_role_ns new then [] else
        if str_eqb (to_upper new) INBOX then [] else
        if str_eqb (to_upper old) INBOX then
          match find_name s new with
          | Some _ => []
          | None =>
            match find_name s INBOX with
            | None => []
            | Some ib =>
              let ps := parents_of new in
              parent_steps s ps t ++
              match create_mailbox_row (after_parents s ps t) new t with
              | None => []
              | Some (_, nid) => create_steps (after_parents s ps t) new t ++ [MTxReparent (mb_id ib) nid (mb_next ib)]
              end
            end
          end
        else
        match find_name s old with
        | None => []
        | Some m =>
          match find_name s new with
          | Some _ => []
          | None =>
            [MTxRename (mb_id m) old new (parents_of new) t]
          end
        end
      end
  end.

(** the micro-steps operation [o] issues when started in durable state [d] *)
Definition micro (d : dstore) (o : cop) : list mstep :=
  match o with
  | COpen t1 t2 t3 t4 t5 => open_steps d t1 t2 t3 t4 t5
  | CDeliver f t sh => if ready d then deliver_steps (d_st d) f t sh else []
  | CAppend f fl sh => if ready d then append_steps (d_st d) f fl sh else []
  | CBase o' => if ready d then base_steps (d_st d) o' else []
  | CSubscribe n => if ready d then [MSubscribe n] else []
  | CUnsubscribe n => if ready d then [MUnsubscribe n] else []
  end.

(** ---- big-step semantics (what Model/Ops.v says) ------------------------------ *)

Definition done_msg (id : Z) (sh : shape) : msgrec :=
  mkMsg id (sh_hdr sh) (sh_adr sh) (length (sh_parts sh)) sh.

(** the store after GetUserDB ran to completion *)
Definition opened (d : dstore) (t1 t2 t3 t4 t5 : Z) : dstore :=
  let d' := file_of d in
  mkD true (Nat.max NSCHEMA (d_schema d'))
      (match mboxes (d_st d') with
       | [] => default_rows (d_st d') t1 t2 t3 t4 t5
       | _ => d_st d'
       end)
      (d_msgs d') (d_subs d') (d_deliv d').

Definition base_ok (o : op) : bool :=
  match o with ODeliver _ _ | OAppend _ _ => false | _ => true end.

(** result + state: the message-storing operations add one complete [messages]
    row whenever Model/Ops.v's [store_message] ran *)
Definition big (d : dstore) (o : cop) : dstore * result :=
  match o with
  | COpen t1 t2 t3 t4 t5 => (opened d t1 t2 t3 t4 t5, ROk)
  | CDeliver f t sh =>
      if ready d then
        let '(s', r) := op_deliver (d_st d) f t in
        let stored := negb (next_msg s' =? next_msg (d_st d)) in
        (mkD (d_file d) (d_schema d) s'
             (if stored then d_msgs d ++ [done_msg (next_msg (d_st d)) sh] else d_msgs d)
             (d_subs d)
             (match r with ROk => S (d_deliv d) | _ => d_deliv d end), r)
      else (d, RNo)
  | CAppend f fl sh =>
      if ready d then
        let '(s', r) := op_append (d_st d) f fl in
        let stored := negb (next_msg s' =? next_msg (d_st d)) in
        (mkD (d_file d) (d_schema d) s'
             (if stored then d_msgs d ++ [done_msg (next_msg (d_st d)) sh] else d_msgs d)
             (d_subs d) (d_deliv d), r)
      else (d, RNo)
  | CBase o' =>
      if ready d && base_ok o' then let '(s', r) := step (d_st d) o' in (with_st d s', r) else (d, RNo)
  | CSubscribe n => if ready d then (exec d (MSubscribe n), ROk) else (d, RNo)
  | CUnsubscribe n =>
      if ready d then (exec d (MUnsubscribe n), if existsb (str_eqb n) (d_subs d) then ROk else RNo)
      else (d, RNo)
  end.

(** ---- workloads, crash points, recovery ------------------------------------------ *)

(** all micro-steps of a workload, in order (each operation starts in the
    state the previous ones left) *)
Fixpoint all_steps (d : dstore) (h : list cop) : list mstep :=
  match h with
  | [] => []
  | o :: r => let p := micro d o in p ++ all_steps (run_steps d p) r
  end.

Definition run_all (d : dstore) (h : list cop) : dstore :=
  fold_left (fun d' o => run_steps d' (micro d' o)) h d.

(** the durable state after a crash at point [k]: the first [k] micro-steps *)
Definition crash_at (d : dstore) (h : list cop) (k : nat) : dstore :=
  run_steps d (firstn k (all_steps d h)).

(** restart: the process state (connection cache) is gone, the file is what it
    is; the next session / delivery starts with GetUserDB ([COpen]) *)
Definition recover_and (d : dstore) (o : cop) : dstore * result := big d o.

(** ---- SQL labels of the micro-steps (for the statement-trace tie) ---------------- *)

Definition SCHEMA_OBJS : list str :=
  map S_ ["T mailboxes"; "T uid_validity_seq"; "T aliases"; "T messages"; "T subscriptions"; "T addresses";
          "T message_parts"; "T deliveries"; "T message_mailbox"; "T message_headers";
          "T outbound_queue";
          "X idx_mailboxes_user"; "X idx_mailboxes_parent"; "X idx_messages_date";
          "X idx_messages_thread"; "X idx_addresses_message"; "X idx_addresses_email";
          "X idx_message_parts_message"; "X idx_message_parts_blob";
          "X idx_message_mailbox_mailbox"; "X idx_message_mailbox_message";
          "X idx_message_mailbox_uid"; "X idx_message_headers_message";
          "X idx_deliveries_message"; "X idx_deliveries_status"; "X idx_outbound_status";
          "X idx_subscriptions_user"]%string.

Definition L_BEGIN := S_ "BEGIN".
Definition L_COMMIT := S_ "COMMIT".
Definition L_ROLLBACK := S_ "ROLLBACK".
Definition L_INS_LINK := S_ "I message_mailbox".

(** labels of the INSERTs of the copy loops, up to the first failing one *)
Fixpoint uidcopy_labels (s : store) (sel dest : Z) (uids : list Z) (next : Z) : list str :=
  match uids with
  | [] => [S_ "U mailboxes"]
  | u :: r =>
    match find_link s sel u with
    | None => uidcopy_labels s sel dest r next
    | Some l =>
      L_INS_LINK ::
      match insert_link s (lk_msg l) dest next (add_recent (lk_flags l)) with
      | None => []
      | Some s' => uidcopy_labels s' sel dest r (next + 1)
      end
    end
  end.

Fixpoint copy_labels (s : store) (sel dest : Z) (seqs : list Z) (next : Z) : list str :=
  match seqs with
  | [] => [S_ "U mailboxes"]
  | n :: r =>
    match nth_error (links_sorted s sel) (Z.to_nat (n - 1)) with
    | None => []
    | Some l =>
      L_INS_LINK ::
      match insert_link s (lk_msg l) dest next (add_recent (lk_flags l)) with
      | None => []
      | Some s' => copy_labels s' sel dest r (next + 1)
      end
    end
  end.

(** one "I mailboxes" per parent that is actually created *)
Fixpoint run_create_labels (s : store) (ps : list str) (t : Z) : list str :=
  match ps with
  | [] => []
  | p :: r =>
    match find_name s p with
    | Some _ => run_create_labels s r t
    | None => match create_mailbox_row s p t with
              | Some (s', _) => S_ "I uid_validity_seq" :: S_ "I mailboxes" :: run_create_labels s' r t
              | None => run_create_labels s r t
              end
    end
  end.

Definition tx_end (ok : bool) : list str := [if ok then L_COMMIT else L_ROLLBACK].
Definition is_some {A} (o : option A) : bool := match o with Some _ => true | None => false end.

(** the SQL statements (kind + table) a micro-step issues, in state [d];
    SELECT and PRAGMA are not listed *)
Definition labels (d : dstore) (st : mstep) : list str :=
  let s := d_st d in
  match st with
  | MCreateFile => []
  | MSchema i => [nth i SCHEMA_OBJS []]
  | MAllocV _ _ => [S_ "I uid_validity_seq"]
  | MInsMailbox _ _ => [S_ "I mailboxes"]
  | MTxDefaults _ _ _ _ _ =>
      S_ "BEGIN IMMEDIATE" :: flat_map (fun _ : nat => [S_ "I uid_validity_seq"; S_ "I mailboxes"]) (seq 0 5) ++ [L_COMMIT]
  | MInsMessage _ => [S_ "I messages"]
  | MInsHeader _ => [S_ "I message_headers"]
  | MInsAddress _ => [S_ "I addresses"]
  | MBlob => [S_ "W blobs"]
  | MInsPart _ => [S_ "I message_parts"]
  | MBump _ => [S_ "U mailboxes"]
  | MInsLink _ _ _ _ => [L_INS_LINK]
  | MInsDelivery => [S_ "I deliveries"]
  | MTxUidCopy sel dest uids next =>
      L_BEGIN :: uidcopy_labels s sel dest uids next ++ tx_end (is_some (uidcopy_loop s sel dest uids next))
  | MTxCopy sel dest seqs next =>
      L_BEGIN :: copy_labels s sel dest seqs next ++ tx_end (is_some (copy_loop s sel dest seqs next))
  | MStoreOne sel mode new u =>
      match find_link s sel u with
      | None => []
      | Some l =>
        let cur := lk_flags l in
        let upd := calc_flags cur new mode in
        let mv (destname : str) :=
          match find_name s destname with
          | None => [S_ "U message_mailbox"]
          | Some dm =>
            if mb_id dm =? sel then [S_ "U message_mailbox"]
            else match insert_link s (lk_msg l) (mb_id dm) (mb_next dm) [] with
                 | Some _ => [L_BEGIN; L_INS_LINK; S_ "U mailboxes"; S_ "D message_mailbox"; L_COMMIT]
                 | None => [L_BEGIN; L_INS_LINK; L_ROLLBACK; S_ "U message_mailbox"]
                 end
          end in
        if negb (fmem JUNK cur) && fmem JUNK upd then mv SPAM
        else if negb (fmem NONJUNK cur) && fmem NONJUNK upd then mv INBOX
        else [S_ "U message_mailbox"]
      end
  | MDelLink _ => [S_ "D message_mailbox"]
  | MTxDelete _ => [L_BEGIN; S_ "D message_mailbox"; S_ "D mailboxes"; L_COMMIT]
  | MTxRename mb old new ps t =>
      let s1 := after_parents s ps t in
      L_BEGIN :: run_create_labels s ps t
      ++ match rename_row s1 mb new with
         | None => [S_ "U mailboxes"; L_ROLLBACK]
         | Some _ => S_ "U mailboxes" :: repeat (S_ "U mailboxes") (length (children s1 old))
                     ++ tx_end (is_some (rename_tx7 s mb old new ps t))
         end
  | MTxReparent old new nx =>
      [L_BEGIN; S_ "U mailboxes"; S_ "U message_mailbox"] ++ tx_end (is_some (reparent_max s old new nx))
  | MSubscribe _ => [S_ "I subscriptions"]
  | MUnsubscribe _ => [S_ "D subscriptions"]
  end.

Fixpoint run_labels (d : dstore) (l : list mstep) : list str :=
  match l with
  | [] => []
  | st :: r => labels d st ++ run_labels (exec d st) r
  end.
