(** C12 — a mutex as a resource: a goroutine that tries to take a sync.Mutex / sync.RWMutex it already
    holds never gets it (Go's locks are not re-entrant; RLock inside Lock, Lock inside RLock and
    Lock inside Lock block for ever; RLock inside RLock blocks as soon as a writer waits).  There is
    no panic, so no recover() helps, and the lock is never released: every later caller blocks too.

    Facts (regenerated from the Go AST into Gen/FactsC12.v by harness/extract_c12):
      [hold]   a function that takes a mutex field of its receiver, with the same-package functions it
               calls — directly or through others — while it holds it (plain calls f(...) and calls
               r.m(...) on its own receiver; up to the explicit Unlock, or to the end of the function
               when the Unlock is deferred), each with one call path;
      [locker] a function whose own body takes that mutex.
    Which of the callees run depends on the inputs (an error path, say): a [trace] is any sequence
    of callees of the region.  No proofs in this file. *)
From Coq Require Import List Bool.
From Raven Require Import Base.GoStr.
Import ListNotations.

Record hold : Type := mk_hold {
  h_site : str; h_fn : str; h_mutex : str; h_write : bool;
  h_callees : list (str * str)          (* callee, call path "A > B > C" *)
}.
Record locker : Type := mk_locker { l_fn : str; l_mutex : str; l_write : bool }.

Definition takes (ls : list locker) (mutex fn : str) : bool :=
  existsb (fun l => str_eqb (l_fn l) fn && str_eqb (l_mutex l) mutex) ls.

(** the callees of a held region that take the held mutex again *)
Definition reacquired (ls : list locker) (h : hold) : list (str * str) :=
  filter (fun c => takes ls (h_mutex h) (fst c)) (h_callees h).

Definition locks_ok (ls : list locker) (hs : list hold) : bool :=
  forallb (fun h => match reacquired ls h with [] => true | _ => false end) hs.

(** running a held region: [Some n] = n callees ran and the region went on to its Unlock;
    [None] = a callee blocked on the mutex its caller holds — the function never returns *)
Fixpoint run_region (ls : list locker) (mutex : str) (trace : list str) : option nat :=
  match trace with
  | [] => Some 0
  | c :: r => if takes ls mutex c then None
              else match run_region ls mutex r with Some n => Some (S n) | None => None end
  end.

Definition trace_of (h : hold) (trace : list str) : Prop :=
  forall c, In c trace -> In c (map fst (h_callees h)).
