(** C20 — extension.HandleIdle's poll loop as ROUNDS, with the outcome of the
    store queries as an input:

      for {
          time.Sleep(500 ms)
          count, _ := db.GetMessageCountPerUser(...)     \  the poll: may fail (unusable handle, I/O error,
          unseen, _ := db.GetUnseenCountPerUser(...)     /  damaged schema, lock held past the busy timeout)
          ... untagged notices ...
          conn.SetReadDeadline(now + 50 ms); n, err := conn.Read(buf)      the read
          DONE -> tagged OK, return;  non-timeout error -> return
          now > idleUntil -> "* BYE Autologout", conn.Close(), return      the autologout test
      }

    On the tree the errors of the two queries are discarded and the round goes
    on. The loop is parameterised by [skip_on_fail]: a failing poll skips the
    REST of the round (the seeded change C20-4: `if err != nil { continue }`).
    One list entry = one round: the poll's outcome, how long the round took
    (sleep + queries incl. any busy timeout + read, ms) and what the client is
    doing when the read happens. No proofs here. *)
From Coq Require Import List Bool NArith Arith.
Import ListNotations.

Inductive poll := POk | PFail.
Inductive client := Silent | Gone | SaysDone | SaysOther.     (* SaysOther: bytes that are not DONE *)
Inductive exit := XDone | XGone | XAutologout.

Definition is_fail (p : poll) : bool := match p with PFail => true | POk => false end.

(** one round; [elapsed] = time since IDLE began, at the autologout test *)
Definition idle_round (skip_on_fail : bool) (timeout elapsed : N) (p : poll) (c : client) : option exit :=
  if (skip_on_fail && is_fail p)%bool then None
  else match c with
       | SaysDone => Some XDone
       | Gone => Some XGone
       | Silent | SaysOther => if (timeout <? elapsed)%N then Some XAutologout else None
       end.

Fixpoint idle_run (skip_on_fail : bool) (timeout elapsed : N) (rounds : list (poll * N * client)) : option (exit * N) :=
  match rounds with
  | [] => None                                   (* still idling after all these rounds *)
  | (p, d, c) :: rest =>
      let e := (elapsed + d)%N in
      match idle_round skip_on_fail timeout e p c with
      | Some x => Some (x, e)
      | None => idle_run skip_on_fail timeout e rest
      end
  end.

Definition durations (rounds : list (poll * N * client)) : N := fold_right (fun r a => (snd (fst r) + a)%N) 0%N rounds.
