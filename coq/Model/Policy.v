(** Model of raven's LMTP delivery policy, statement by statement, bugs included.

    Go sources (at /repo):
      internal/delivery/lmtp/session.go      parseRcptTo, handleRCPT, handleDATA
      internal/delivery/parser/parser.go     ExtractLocalPart, ExtractDomain,
                                             ReadDataCommand / ValidateMessage (size rule),
                                             ParseMessage (the header map: first value per canonical key)
      internal/delivery/storage/storage.go   isSpamByHeaders, determineTargetFolder, DeliverMessage,
                                             DeliverToMultipleRecipients, CheckRecipientExists,
                                             CheckUserExists, CheckQuota, GetUserQuota
      internal/delivery/config/config.go     Validate
      internal/db/sqlite.go                  GetRoleMailboxByEmail, GetUserByUsername,
                                             GetOrCreateUserInitialized (UNIQUE(username, domain_id))
      net/textproto                          CanonicalMIMEHeaderKey (for keys made of token bytes / blanks)

    The database is seen through the view [db]: user rows, role-mailbox rows
    and the message links (store, folder, size). Domains are all enabled
    (raven has no code path that disables one). No proofs here. *)
From Coq Require Import String Ascii List Bool Arith ZArith.
From Raven Require Import Base.GoStr.
Import ListNotations.
Local Open Scope Z_scope.

(* ------------------------------------------------------------------ *)
(** * parser.ExtractLocalPart / ExtractDomain : strings.Split(email,"@"), exactly two parts *)

Definition at_sign : ascii := "@"%char.

Definition extract_parts (email : str) : option (str * str) :=
  match split_byte email at_sign with
  | [a; b] => Some (a, b)
  | _ => None
  end.
Definition extract_local_part (email : str) : option str := option_map fst (extract_parts email).
Definition extract_domain (email : str) : option str := option_map snd (extract_parts email).

(* ------------------------------------------------------------------ *)
(** * Session.parseRcptTo *)

Definition parse_rcpt_to (args : str) : option str :=
  let args := trim_space args in
  if (length args <? 3)%nat || negb (equal_fold (firstn 3 args) (S_ "TO:")) then None
  else
    let args := trim_space (skipn 3 args) in
    (* the address ends at the closing bracket; ESMTP parameters may follow it *)
    let args := if has_prefix args (S_ "<")
                then match index args (S_ ">") with
                     | Some e => firstn (S e) args
                     | None => args
                     end
                else args in
    let args := trim_prefix args (S_ "<") in
    let args := trim_suffix args (S_ ">") in
    Some args.

(* ------------------------------------------------------------------ *)
(** * configuration *)

Record config := mkConfig {
  default_folder : str;
  quota_enabled : bool;
  quota_limit : Z;
  allowed_domains : list str;
  reject_unknown_user : bool;
  max_size : Z;
  max_recipients : Z }.

(** the remaining fields read by Config.Validate *)
Record full_config := mkFull {
  fc_unix_socket : str; fc_tcp_address : str; fc_timeout : Z; fc_db_path : str;
  fc_log_level : str; fc_log_format : str; fc : config }.

Definition validate (c : full_config) : bool :=
  if (match fc_unix_socket c, fc_tcp_address c with [], [] => true | _, _ => false end) then false
  else if (max_size (fc c) <=? 0) then false
  else if (fc_timeout c <=? 0) then false
  else if (max_recipients (fc c) <=? 0) then false
  else if (match fc_db_path c with [] => true | _ => false end) then false
  else if (match default_folder (fc c) with [] => true | _ => false end) then false
  else if (quota_enabled (fc c) && (quota_limit (fc c) <=? 0)) then false
  else if negb (existsb (str_eqb (fc_log_level c)) [S_ "debug"; S_ "info"; S_ "warn"; S_ "error"]) then false
  else if negb (existsb (str_eqb (fc_log_format c)) [S_ "text"; S_ "json"]) then false
  else true.

(* ------------------------------------------------------------------ *)
(** * the database view *)

Record user := mkUser { u_name : str; u_domain : str; u_enabled : bool }.
Record role := mkRole { r_email : str; r_enabled : bool }.

Inductive store := UserStore (name domain : str) | RoleStore (email : str).

Definition store_eqb (a b : store) : bool :=
  match a, b with
  | UserStore n d, UserStore n' d' => str_eqb n n' && str_eqb d d'
  | RoleStore e, RoleStore e' => str_eqb e e'
  | _, _ => false
  end.

Record filed := mkFiled { f_store : store; f_folder : str; f_size : Z }.

Record db := mkDb { users : list user; roles : list role; msgs : list filed }.

Definition user_is (n dom : str) (u : user) : bool := str_eqb (u_name u) n && str_eqb (u_domain u) dom.

(** SELECT COUNT( * ) FROM users WHERE username = ?   (any domain, enabled or not) *)
Definition check_user_exists (d : db) (username : str) : bool :=
  existsb (fun u => str_eqb (u_name u) username) (users d).

(** db.GetUserByUsername: ... WHERE username = ? AND domain_id = ? AND enabled = true *)
Definition get_user_by_username (d : db) (n dom : str) : bool :=
  existsb (fun u => user_is n dom u && u_enabled u) (users d).

(** the UNIQUE(username, domain_id) test of the INSERT *)
Definition user_row_exists (d : db) (n dom : str) : bool := existsb (user_is n dom) (users d).

(** db.GetRoleMailboxByEmail: ... WHERE email = ? AND enabled = true *)
Definition get_role_mailbox_by_email (d : db) (email : str) : bool :=
  existsb (fun r => str_eqb (r_email r) email && r_enabled r) (roles d).

(** db.RoleMailboxExists: the same WHERE clause *)
Definition role_mailbox_exists (d : db) (email : str) : bool := get_role_mailbox_by_email d email.

(** Storage.CheckRecipientExists: [None] = error return. An enabled role
    mailbox address, or an enabled user of that name in that domain (one
    query joining users and domains; domains are all enabled in the view). *)
Definition check_recipient_exists (d : db) (recipient : str) : option bool :=
  match extract_local_part recipient with
  | None => None
  | Some username =>
      match extract_domain recipient with
      | None => None
      | Some domain =>
          if role_mailbox_exists d recipient then Some true
          else Some (get_user_by_username d username domain)
      end
  end.

Definition add_user (d : db) (n dom : str) : db :=
  mkDb (users d ++ [mkUser n dom true]) (roles d) (msgs d).
Definition add_msg (d : db) (f : filed) : db := mkDb (users d) (roles d) (msgs d ++ [f]).

Definition usage_of (d : db) (st : store) : Z :=
  fold_right (fun f acc => if store_eqb (f_store f) st then f_size f + acc else acc) 0 (msgs d).

(** Storage.CheckRecipientQuota: usage of the store DeliverMessage would file
    into — the role mailbox if the address is an enabled role address
    (GetRoleMailboxByEmail), else the store of the enabled user local@domain
    (GetUserByEmail); nothing found (no such user yet, disabled, no "@"): 0.
    [true] = ErrQuotaExceeded *)
Definition recipient_usage (d : db) (recipient : str) : Z :=
  if get_role_mailbox_by_email d recipient then usage_of d (RoleStore recipient)
  else match extract_parts recipient with
       | Some (n, dom) => if get_user_by_username d n dom then usage_of d (UserStore n dom) else 0
       | None => 0
       end.

Definition check_recipient_quota (d : db) (recipient : str) (size limit : Z) : bool :=
  limit <? recipient_usage d recipient + size.

(* ------------------------------------------------------------------ *)
(** * messages, header map, spam routing *)

Record message := mkMsg {
  m_size : Z;                       (* len(rawMessage) after dot-unstuffing *)
  m_headers : list (str * str);     (* header fields in order: name as written, unfolded value *)
  m_parse_ok : bool }.              (* parser.ParseMessage succeeded *)

(** textproto.CanonicalMIMEHeaderKey for names made of token bytes; a name
    containing a blank is kept as it is (names with other bytes make
    mail.ReadMessage fail, i.e. [m_parse_ok = false]). *)
Definition dash : ascii := "-"%char.
Fixpoint canon_aux (upper : bool) (s : str) : str :=
  match s with
  | [] => []
  | c :: s' => (if upper then upper_c c else lower_c c) :: canon_aux (Ascii.eqb c dash) s'
  end.
Definition canonical_key (s : str) : str :=
  if contains_byte s " "%char then s else canon_aux true s.

(** ParseMessage: headers[key] = values[0] for every canonical key *)
Definition header_map (hs : list (str * str)) (key : str) : option str :=
  option_map snd (find (fun kv => str_eqb (canonical_key (fst kv)) key) hs).

Definition K_action : str := S_ "X-Rspamd-Action".
Definition K_status : str := S_ "X-Spam-Status".
Definition Spam : str := S_ "Spam".

(** storage.isSpamByHeaders *)
Definition is_spam_by_headers (headers : str -> option str) : bool :=
  let by_action :=
    match headers K_action with
    | Some action =>
        let a := to_lower (trim_space action) in
        str_eqb a (S_ "reject") || str_eqb a (S_ "rewrite subject") || str_eqb a (S_ "add header")
    | None => false
    end in
  if by_action then true
  else match headers K_status with
       | Some status => has_prefix (to_lower (trim_space status)) (S_ "yes")
       | None => false
       end.

(** storage.determineTargetFolder *)
Definition determine_target_folder (headers : str -> option str) (default : str) : str :=
  if is_spam_by_headers headers then Spam else default.

(* ------------------------------------------------------------------ *)
(** * Session.handleRCPT (after MAIL FROM) *)

Inductive rcpt_reply := RC250 | RC452 | RC501 | RC550_invalid | RC550_relay | RC450 | RC550_unknown
  | RC503.   (* RCPT before MAIL (session level only) *)

Definition rcpt_ok (r : rcpt_reply) : bool := match r with RC250 => true | _ => false end.

Definition handle_rcpt_addr (cfg : config) (d : db) (recipients : list str) (to : str)
  : rcpt_reply * list str :=
  let dom_verdict :=
    match allowed_domains cfg with
    | [] => None
    | _ => match extract_domain to with
           | None => Some RC550_invalid
           | Some domain => if existsb (str_eqb domain) (allowed_domains cfg) then None else Some RC550_relay
           end
    end in
  match dom_verdict with
  | Some r => (r, recipients)
  | None =>
      let usr_verdict :=
        if reject_unknown_user cfg then
          match check_recipient_exists d to with
          | None => Some RC450
          | Some false => Some RC550_unknown
          | Some true => None
          end
        else None in
      match usr_verdict with
      | Some r => (r, recipients)
      | None => (RC250, recipients ++ [to])
      end
  end.

Definition handle_rcpt (cfg : config) (d : db) (recipients : list str) (args : str)
  : rcpt_reply * list str :=
  if (max_recipients cfg <=? Z.of_nat (length recipients)) then (RC452, recipients)
  else match parse_rcpt_to args with
       | None => (RC501, recipients)
       | Some to => handle_rcpt_addr cfg d recipients to
       end.

Fixpoint handle_rcpts (cfg : config) (d : db) (recipients : list str) (lines : list str)
  : list rcpt_reply * list str :=
  match lines with
  | [] => ([], recipients)
  | a :: rest =>
      let '(r, recipients') := handle_rcpt cfg d recipients a in
      let '(rs, final) := handle_rcpts cfg d recipients' rest in
      (r :: rs, final)
  end.

(* ------------------------------------------------------------------ *)
(** * Storage.DeliverMessage / DeliverToMultipleRecipients *)

Inductive deliver_result := D_ok (st : store) (folder : str) | D_err.

Definition result_ok (r : deliver_result) : bool := match r with D_ok _ _ => true | D_err => false end.

(** mailbox lookup / creation, message storage, link *)
Definition file_into (d : db) (st : store) (folder : str) (m : message) : deliver_result * db :=
  match folder with
  | [] => (D_err, d)                       (* CreateMailboxPerUser: "mailbox name cannot be empty" *)
  | _ => (D_ok st folder, add_msg d (mkFiled st folder (m_size m)))
  end.

Definition deliver_message (d : db) (recipient : str) (m : message) (folder : str)
  : deliver_result * db :=
  let target_folder := determine_target_folder (header_map (m_headers m)) folder in
  match extract_local_part recipient with
  | None => (D_err, d)
  | Some username =>
      match extract_domain recipient with
      | None => (D_err, d)
      | Some domain =>
          if get_role_mailbox_by_email d recipient
          then file_into d (RoleStore recipient) target_folder m
          else if get_user_by_username d username domain
               then file_into d (UserStore username domain) target_folder m
               else if user_row_exists d username domain
                    then (D_err, d)       (* INSERT fails on UNIQUE, the re-SELECT finds no enabled row *)
                    else file_into (add_user d username domain) (UserStore username domain) target_folder m
      end
  end.

Fixpoint deliver_to_multiple (d : db) (recipients : list str) (m : message) (folder : str)
  : list (str * deliver_result) * db :=
  match recipients with
  | [] => ([], d)
  | r :: rest =>
      let '(res, d1) := deliver_message d r m folder in
      let '(more, d2) := deliver_to_multiple d1 rest m folder in
      ((r, res) :: more, d2)
  end.

(** results[recipient]: the map keeps the LAST value written for a key *)
Fixpoint results_get (results : list (str * deliver_result)) (r : str) : option deliver_result :=
  match results with
  | [] => None
  | (k, v) :: rest =>
      match results_get rest r with
      | Some v' => Some v'
      | None => if str_eqb k r then Some v else None
      end
  end.

(* ------------------------------------------------------------------ *)
(** * Session.handleDATA *)

Inductive data_reply :=
| DR503                                   (* no recipients *)
| DR_refused (code : Z) (n : nat)         (* Session.rejectMessage: read / parse / validate failure,
                                            one reply of that code per accepted recipient *)
| DR_per (replies : list bool).           (* per recipient: true = 250, false = 550 *)

Record data_out := mkDataOut {
  do_reply : data_reply;
  do_deliveries : list (str * deliver_result);   (* what DeliverMessage did, in order *)
  do_over_quota : list bool;                     (* per accepted recipient: refused 552 5.2.2, not delivered *)
  do_db : db }.

(** the overQuota map of handleDATA: computed for every recipient on the
    database as it is before any delivery of this transaction *)
Definition over_quota (cfg : config) (d : db) (m : message) (r : str) : bool :=
  quota_enabled cfg && check_recipient_quota d r (m_size m) (quota_limit cfg).

Definition handle_data (cfg : config) (d : db) (recipients : list str) (m : message) : data_out :=
  match recipients with
  | [] => mkDataOut DR503 [] [] d
  | _ =>
      if (max_size cfg <? m_size m) then mkDataOut (DR_refused 552 (length recipients)) [] [] d   (* ReadDataCommand: ErrMessageTooLarge *)
      else if negb (m_parse_ok m) then mkDataOut (DR_refused 554 (length recipients)) [] [] d   (* ParseMessage *)
      else if (max_size cfg <? m_size m) then mkDataOut (DR_refused 554 (length recipients)) [] [] d   (* ValidateMessage *)
      else
        let over := over_quota cfg d m in
        let deliver_to := filter (fun r => negb (over r)) recipients in
        let '(results, d') := deliver_to_multiple d deliver_to m (default_folder cfg) in
        let replies := map (fun r => if over r then false          (* 552 5.2.2 mailbox full *)
                                     else match results_get results r with
                                          | Some D_err => false
                                          | _ => true          (* nil error (also for a missing key) *)
                                          end) recipients in
        mkDataOut (DR_per replies) results (map over recipients) d'
  end.

(* ------------------------------------------------------------------ *)
(** * one transaction: MAIL, RCPT*, DATA *)

Record txn_out := mkTxnOut {
  to_rcpt : list rcpt_reply;
  to_accepted : list str;
  to_data : data_out }.

Definition run_txn (cfg : config) (d : db) (lines : list str) (m : message) : txn_out :=
  let '(rs, recipients) := handle_rcpts cfg d [] lines in
  mkTxnOut rs recipients (handle_data cfg d recipients m).

(** The same with the RCPT arguments already parsed (addresses). *)
Fixpoint handle_rcpts_addr (cfg : config) (d : db) (recipients : list str) (addrs : list str)
  : list rcpt_reply * list str :=
  match addrs with
  | [] => ([], recipients)
  | a :: rest =>
      let '(r, recipients') :=
        if (max_recipients cfg <=? Z.of_nat (length recipients)) then (RC452, recipients)
        else handle_rcpt_addr cfg d recipients a in
      let '(rs, final) := handle_rcpts_addr cfg d recipients' rest in
      (r :: rs, final)
  end.

Definition run_txn_addr (cfg : config) (d : db) (addrs : list str) (m : message) : txn_out :=
  let '(rs, recipients) := handle_rcpts_addr cfg d [] addrs in
  mkTxnOut rs recipients (handle_data cfg d recipients m).

(** number of reply lines after the end of data *)
Definition reply_count (r : data_reply) : nat :=
  match r with DR503 => 0%nat | DR_refused _ n => n | DR_per replies => length replies end.

(** observable outcome per RCPT line *)
Inductive moutcome := MRefused | MFiled (st : store) (folder : str) | MInconsistent.

(** combine the reply (250/550) and what the delivery did *)
Definition outcome_of (reply_ok : bool) (res : deliver_result) : moutcome :=
  match res, reply_ok with
  | D_ok st f, true => MFiled st f
  | D_err, false => MRefused
  | _, _ => MInconsistent        (* filed but reported failed, or reported ok and not filed *)
  end.

(** walk the accepted recipients: one over quota has no delivery (and must have
    been answered with a refusal), the others take the next delivery *)
Fixpoint zip_outcomes (overs replies : list bool) (dels : list (str * deliver_result)) : list moutcome :=
  match overs, replies with
  | true :: overs', b :: replies' =>
      (if b then MInconsistent else MRefused) :: zip_outcomes overs' replies' dels
  | false :: overs', b :: replies' =>
      match dels with
      | (_, res) :: dels' => outcome_of b res :: zip_outcomes overs' replies' dels'
      | [] => []
      end
  | _, _ => []
  end.

Definition data_outcomes (n : nat) (o : data_out) : list moutcome :=
  match do_reply o with
  | DR_per replies => zip_outcomes (do_over_quota o) replies (do_deliveries o)
  | _ => repeat MRefused n
  end.

(** merge: a line refused at RCPT time is MRefused, an accepted one takes the
    next outcome of the DATA phase (no DATA reply for it: not accepted) *)
Fixpoint merge_outcomes (rs : list rcpt_reply) (dos : list moutcome) : list moutcome :=
  match rs with
  | [] => []
  | r :: rs' =>
      if rcpt_ok r then
        match dos with
        | o :: dos' => o :: merge_outcomes rs' dos'
        | [] => MRefused :: merge_outcomes rs' []
        end
      else MRefused :: merge_outcomes rs' dos
  end.

Definition txn_outcomes (o : txn_out) : list moutcome :=
  merge_outcomes (to_rcpt o) (data_outcomes (length (to_accepted o)) (to_data o)).

(* ------------------------------------------------------------------ *)
(** * the session: several transactions on one connection (after LHLO)

    Session fields mailSeen / recipients; handleMAIL, handleRCPT, handleDATA,
    handleRSET, rejectMessage. Every way out of handleDATA after the message
    has been read (delivery, rejectMessage 552 / 554 / 554) resets the state;
    the two 503 exits before the 354 do not. *)

Record sstate := mkS { mail_seen : bool; s_rcpts : list str }.
Definition s_reset : sstate := mkS false [].

Inductive cmd := C_MAIL | C_RCPT (args : str) | C_DATA (m : message) | C_RSET.

Inductive sreply :=
| SR_mail (ok : bool)            (* 250 / 503 "Sender already specified" *)
| SR_rcpt (r : rcpt_reply)
| SR_data (o : data_out)
| SR_rset.

Definition step (cfg : config) (st : sstate * db) (c : cmd) : sreply * (sstate * db) :=
  let '(s, d) := st in
  match c with
  | C_MAIL =>
      if mail_seen s then (SR_mail false, st)
      else (SR_mail true, (mkS true (s_rcpts s), d))
  | C_RCPT args =>
      if negb (mail_seen s) then (SR_rcpt RC503, st)
      else let '(r, rec') := handle_rcpt cfg d (s_rcpts s) args in
           (SR_rcpt r, (mkS (mail_seen s) rec', d))
  | C_DATA m =>
      if negb (mail_seen s) then (SR_data (mkDataOut DR503 [] [] d), st)
      else match s_rcpts s with
           | [] => (SR_data (mkDataOut DR503 [] [] d), st)
           | _ => let o := handle_data cfg d (s_rcpts s) m in
                  (SR_data o, (s_reset, do_db o))
           end
  | C_RSET => (SR_rset, (s_reset, d))
  end.

Fixpoint run_session (cfg : config) (st : sstate * db) (cs : list cmd) : list sreply * (sstate * db) :=
  match cs with
  | [] => ([], st)
  | c :: rest =>
      let '(r, st1) := step cfg st c in
      let '(rs, st2) := run_session cfg st1 rest in
      (r :: rs, st2)
  end.

(** one transaction as commands *)
Definition block_cmds (b : list str * message) : list cmd :=
  C_MAIL :: map C_RCPT (fst b) ++ [C_DATA (snd b)].
