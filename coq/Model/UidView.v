(** Evaluation support for the correspondence suite "uidhist" of C03: the
    canonical view of a store that is compared with the implementation's dump
    (tables mailboxes and message_mailbox), and the per-scenario evaluator whose
    result is printed as plain numbers for the Python side.  No proofs. *)
From Coq Require Import String Ascii List Bool ZArith.
From Raven Require Import Base.GoStr Model.Store Model.Ops Spec.UidSpec.
Import ListNotations.
Local Open Scope Z_scope.

Definition mview := (Z * str * Z * Z)%type.               (* id, name, uid_validity, uid_next *)
Definition lview := (Z * Z * Z * Z * list str)%type.      (* id, message_id, mailbox_id, uid, flags *)
Definition obs_step := (result * list mview * list lview)%type.

Definition mview_of (m : mbox) : mview := (mb_id m, mb_name m, mb_validity m, mb_next m).
Definition lview_of (l : link) : lview := (lk_id l, lk_msg l, lk_mbox l, lk_uid l, lk_flags l).

Definition mview_eqb (a b : mview) : bool :=
  let '(i, n, v, x) := a in let '(i', n', v', x') := b in
  (i =? i') && str_eqb n n' && (v =? v') && (x =? x').
Definition subset_b (a b : list str) : bool := forallb (fun f => fmem f b) a.
Definition lview_eqb (a b : lview) : bool :=
  let '(i, m, mb, u, f) := a in let '(i', m', mb', u', f') := b in
  (i =? i') && (m =? m') && (mb =? mb') && (u =? u') && subset_b f f' && subset_b f' f.

Definition same_set {A} (eqb : A -> A -> bool) (a b : list A) : bool :=
  Nat.eqb (length a) (length b) && forallb (fun x => existsb (eqb x) b) a
  && forallb (fun y => existsb (fun x => eqb x y) a) b.

Definition result_eqb (a b : result) : bool :=
  match a, b with
  | ROk, ROk | RNo, RNo | RBad, RBad => true
  | RAppendUid v u, RAppendUid v' u' => (v =? v') && (u =? u')
  | _, _ => false
  end.

Definition step_agrees (sr : store * result) (o : obs_step) : bool :=
  let '(r, ms, ls) := o in
  result_eqb (snd sr) r
  && same_set mview_eqb (map mview_of (mboxes (fst sr))) ms
  && same_set lview_eqb (map lview_of (links (fst sr))) ls.

Fixpoint first_false (i : Z) (l : list bool) : Z :=
  match l with
  | [] => -1
  | b :: r => if b then first_false (i + 1) r else i
  end.

Fixpoint zip_with {A B C} (f : A -> B -> C) (a : list A) (b : list B) : list C :=
  match a, b with
  | x :: a', y :: b' => f x y :: zip_with f a' b'
  | _, _ => []
  end.

Definition class_code (c : fclass) : Z :=
  match c with CSameSecond => 5 end.

(** (index of the first step where model and implementation differ or -1,
     index of the first step in a finding class or -1, its class code or 0,
     1 if the history is in the hierarchy-free scope,
     index of the first step after which the MODEL violates [spec_b] or -1) *)
Definition eval_scenario (sc : store * list op * list obs_step) : Z * Z * Z * Z * Z :=
  let '(s0, h, obs) := sc in
  let tr := trace s0 h in
  let d := first_false 0 (zip_with step_agrees tr obs) in
  let '(ci, cc) := match classify_from 0 s0 h with
                   | Some (i, c) => (Z.of_nat i, class_code c)
                   | None => (-1, 0)
                   end in
  (d, ci, cc, if flat_from s0 h then 1 else 0,
   first_false 0 (map (fun sr => spec_b (fst sr)) tr)).
