(** C20 — the WRITE side: a client that keeps its connection open but stops
    reading. Every reply write has an outcome [WOk | WBlocked]; what a blocked
    write does depends on the write deadline of the service:

      LMTP  Session.Handle arms conn.SetDeadline (reads AND writes) before the
            greeting and after every command: the blocked Flush fails when it
            runs out, the error is sticky in the bufio.Writer (later replies
            fail at once, nothing blocks again), the loop goes on reading.
      IMAP  IMAPServer.sendResponse: SetWriteDeadline(5 min) per reply; a reply
            that cannot be written closes the connection (fix C20-5).
      SASL  replyConn.Write: SetWriteDeadline(30 s) per reply; failure closes
            the connection (fix C20-6).
    After the server closed the connection itself (also: "* BYE Autologout" in
    IDLE, marker [RClose]) every later read of the handler fails at once:
    the closed-aware runners replace the remaining events by [ReadErr].
    [cost] is the time (ms) the handler spends blocked: reads that end in
    [Timeout] cost the read deadline of the mode, a blocked write costs the
    write deadline, everything else is immediate. No proofs here. *)
From Coq Require Import List Bool ZArith NArith Arith.
From Raven Require Import Base.GoStr Model.Lifecycle.
Import ListNotations.

Inductive wout := WOk | WBlocked.

Inductive service := SImap | SLmtp | SSasl.

(** write deadline in force when a reply is written; [None] would mean that
    conn.Write may block for ever *)
Definition write_deadline (k : service) (cf : lconf) : option N :=
  match k with
  | SImap => Some 300000%N            (* writeTimeout = 5 * time.Minute *)
  | SLmtp => Some (lc_timeout_ms cf)  (* SetDeadline(now + lmtp.timeout) *)
  | SSasl => Some 30000%N
  end.

Definition is_close (r : reply) : bool := match r with RClose => true | _ => false end.
Definition is_blocked (w : wout) : bool := match w with WBlocked => true | WOk => false end.
Definition writes {A} (r : list A) : bool := match r with [] => false | _ => true end.
Definition real_replies (r : list reply) : list reply := filter (fun x => negb (is_close x)) r.

Definition read_cost (d : option N) (e : event) : N :=
  match e, d with Timeout, Some d => d | _, _ => 0%N end.

(** IMAP: state, "the server has closed the connection", time spent blocked *)
Fixpoint irun_w (closed : bool) (s : istate) (es : list (event * wout)) : istate * N :=
  match es with
  | [] => (s, 0%N)
  | (e, w) :: es' =>
      if imode_eqb (i_mode s) IDone then (s, 0%N) else
      let e' := if closed then ReadErr else e in
      let '(s1, r) := istep s e' in
      let blocked := (negb closed && writes (real_replies r) && is_blocked w)%bool in
      let closed' := (closed || existsb is_close r || blocked)%bool in
      let c := (read_cost (ideadline (i_mode s)) e' + (if blocked then 300000 else 0))%N in
      let '(s2, c2) := irun_w closed' s1 es' in (s2, (c + c2)%N)
  end.

(** LMTP: state, sticky error of the bufio.Writer, time spent blocked *)
Fixpoint lrun_w (cf : lconf) (werr : bool) (s : lstate) (es : list (event * wout)) : lstate * N :=
  match es with
  | [] => (s, 0%N)
  | (e, w) :: es' =>
      match l_mode s with LDone => (s, 0%N) | _ =>
      let '(s1, r) := lstep cf s e in
      let blocked := (negb werr && writes r && is_blocked w)%bool in
      let c := (read_cost (ldeadline cf (l_mode s)) e + (if blocked then lc_timeout_ms cf else 0))%N in
      let '(s2, c2) := lrun_w cf (werr || blocked)%bool s1 es' in (s2, (c + c2)%N)
      end
  end.

(** SASL *)
Fixpoint srun_w (shut closed : bool) (m : smode) (es : list (event * wout)) : smode * N :=
  match es with
  | [] => (m, 0%N)
  | (e, w) :: es' =>
      match m with SDone => (m, 0%N) | SCmd =>
      let e' := if closed then ReadErr else e in
      let '(m1, n) := sstep shut m e' in
      let blocked := (negb closed && negb (Nat.eqb n 0) && is_blocked w)%bool in
      let c := (read_cost (sdeadline m) e' + (if blocked then 30000 else 0))%N in
      let '(m2, c2) := srun_w shut (closed || blocked)%bool m1 es' in (m2, (c + c2)%N)
      end
  end.
