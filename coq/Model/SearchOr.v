(** C12, function layer: the OR case of message.evaluateTokens
    (internal/server/message/message.go l.332-352) — the cursor arithmetic
    over the token slice.  [None] = index out of range.

      case "OR":
        if i+2 >= len(tokens) { return false }
        i++
        key1Tokens := []string{tokens[i]}
        if i+1 < len(tokens) && requiresArgument(ToUpper(tokens[i])) { i++; key1Tokens = append(key1Tokens, tokens[i]) }
        i++
        if i >= len(tokens) { return false }                   // fix c12-6
        key2Tokens := []string{tokens[i]}
        if i+1 < len(tokens) && requiresArgument(ToUpper(tokens[i])) { i++; key2Tokens = append(key2Tokens, tokens[i]) }
        ... i++

    Result: Some None = the arity guard answered false; Some (Some (k1, k2, i'))
    = the two sub-keys and the cursor after the OR.  No proofs here. *)
From Coq Require Import String Ascii List Bool Arith.
From Raven Require Import Base.GoStr Model.Slicers.
Import ListNotations.

Definition requires_argument (t : str) : bool :=
  existsb (str_eqb t)
    (map S_ ["BCC"; "CC"; "FROM"; "SUBJECT"; "TO"; "BODY"; "TEXT"; "KEYWORD"; "UNKEYWORD"; "LARGER"; "SMALLER"; "UID";
             "BEFORE"; "ON"; "SINCE"; "SENTBEFORE"; "SENTON"; "SENTSINCE"; "HEADER"]%string).

(** one sub-key starting at cursor i: the key's tokens and the cursor of its last token *)
Definition take_key (tokens : list str) (i : nat) : option (list str * nat) :=
  ' t <- nth_error tokens i ;;
  if (i + 1 <? length tokens) && requires_argument (to_upper t)
  then ' a <- nth_error tokens (i + 1) ;; Some ([t; a], i + 1)
  else Some ([t], i).

Definition or_step (tokens : list str) (i : nat) : option (option (list str * list str * nat)) :=
  if (length tokens <=? i + 2) then Some None
  else
    ' (k1, i1) <- take_key tokens (i + 1) ;;
    if (length tokens <=? i1 + 1) then Some None              (* fix c12-6: if i >= len(tokens) { return false } *)
    else
      ' (k2, i2) <- take_key tokens (i1 + 1) ;;
      Some (Some (k1, k2, i2 + 1)).
