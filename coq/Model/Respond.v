(** C13 — model of the response builders of raven's IMAP server.

    Go sources mirrored here, statement by statement, bugs included:
      internal/server/response/envelope.go   QuoteOrNIL, extractHeader,
                                             parseAddressList, BuildEnvelope
      internal/server/response/bodystructure.go  buildParamList and the
                                             Sprintf formats of the leaf /
                                             multipart structures (the MIME
                                             parsing by Go's mime / multipart
                                             packages is an input here)
      internal/server/mailbox/mailbox.go     the LIST / LSUB / STATUS lines
      internal/server/message/fetch.go       processFetchForMessage: the
                                             assembly of the response parts
                                             (since the F14 fix every literal
                                             is part of its item's part)
    The recognition of the requested items by substring tests is in
    Model/RespondFetch.v.  No proofs in this file. *)
From Coq Require Import String Ascii List Bool Arith NArith ZArith.
From Raven Require Import Base.GoStr Spec.Grammar.
Import ListNotations.
Local Open Scope char_scope.

(** fmt "%d" of a non-negative int (fuel = the number itself + 1) *)
Fixpoint dec_aux (fuel : nat) (n : N) (acc : str) : str :=
  match fuel with
  | O => acc
  | S f => let d := ascii_of_N (48 + n mod 10) in
           if (n <? 10)%N then d :: acc else dec_aux f (n / 10)%N (d :: acc)
  end.
Definition dec (n : nat) : str := dec_aux (S n) (N.of_nat n) [].

(** ---- QuoteOrNIL ---- *)
Definition escape (s : str) : str :=
  replace_byte (replace_byte s BSL [BSL; BSL]) DQ [BSL; DQ].

Definition NIL : str := S_ "NIL".

(** a literal: {n}CRLF followed by the n octets *)
Definition lit_text (p : str) : str := [LB] ++ dec (length p) ++ [RB] ++ crlf ++ p.

Definition clean (s : str) : bool :=
  forallb (fun c => negb (Ascii.eqb c CR) && negb (Ascii.eqb c LF)) s.

(** since fix wave 3 a value with CR or LF (a header value with a bare CR) is
    sent as a literal: a quoted string cannot carry it *)
Definition quote_or_nil (s : str) : str :=
  match s with
  | [] => NIL
  | _ => if clean s then DQ :: escape s ++ [DQ] else lit_text s
  end.

(** utils.QuoteString (F15 fix): always a quoted string, never NIL *)
Definition quote_string (s : str) : str := DQ :: escape s ++ [DQ].

(** ---- extractHeader ---- *)
Definition TAB : ascii := ascii_of_nat 9.

(** loop body over the physical lines; state = (value so far, inHeader) *)
Fixpoint extract_lines (lines : list str) (nameU : str) (value : str) (inh : bool) : str :=
  match lines with
  | [] => value
  | l0 :: rest =>
      let line := trim_right l0 [CR] in
      match line with
      | [] => value                                       (* break *)
      | c :: _ =>
          if Ascii.eqb c SP || Ascii.eqb c TAB then
            if inh then extract_lines rest nameU (value ++ [SP] ++ trim_space line) inh
            else extract_lines rest nameU value inh
          else
            match index line [":"] with
            | Some i =>
                let cur := trim_space (firstn i line) in
                if str_eqb (to_upper cur) nameU
                then extract_lines rest nameU (value ++ trim_space (skipn (S i) line)) true
                else extract_lines rest nameU value false
            | None => extract_lines rest nameU value inh
            end
      end
  end.

Definition extract_header (raw name : str) : str :=
  extract_lines (split_byte raw LF) (to_upper name) [] false.

(** ---- parseAddressList ([None] = the Go slice expression panics; since fix
    e2cd37d the slice bounds are always ordered; regression example
    [c13_address_stray_gt] in Properties/C13.v) ---- *)
Definition split_at_first (s : str) (c : ascii) : str * str :=
  match index_byte s c with
  | Some i => (firstn i s, skipn (S i) s)
  | None => (s, [])
  end.

Definition addr_struct (addr : str) : option str :=
  (* e2cd37d: the closing ">" is searched in addr[start:], after the "<" *)
  let ne :=
    match index addr ["<"] with
    | Some st_ =>
        match index (skipn st_ addr) [">"] with
        | Some e =>
            match slice addr (Z.of_nat st_ + 1) (Z.of_nat (e + st_)) with
            | Some email => Some (trim (trim_space (firstn st_ addr)) [DQ], email)
            | None => None
            end
        | None => Some ([], addr)
        end
    | None => Some ([], addr)
    end in
  match ne with
  | None => None
  | Some (name, email) =>
      let '(mailbox, host) :=
        if contains email ["@"] then split_at_first email "@" else (email, []) in
      Some ([LP] ++ quote_or_nil name ++ S_ " NIL " ++ quote_or_nil mailbox ++ [SP]
                 ++ quote_or_nil host ++ [RP])
  end.

Fixpoint addr_structs (addrs : list str) : option (list str) :=
  match addrs with
  | [] => Some []
  | a :: rest =>
      let a' := trim_space a in
      match a' with
      | [] => addr_structs rest
      | _ => match addr_struct a' with
             | None => None
             | Some s => option_map (cons s) (addr_structs rest)
             end
      end
  end.

(** strings.LastIndex(a, "@") split: (a[:at], a[at+1:]) or (a, "") *)
Definition split_at_last (s : str) (c : ascii) : str * str :=
  match index_byte (rev s) c with
  | Some i => let at_ := length s - S i in (firstn at_ s, skipn (S at_) s)
  | None => (s, [])
  end.

(** the address structures built from net/mail's reading of the header (bd5007f):
    [(display name after mime.QEncoding.Encode, address)] *)
Definition mail_structs (l : list (str * str)) : list str :=
  map (fun na => let '(mailbox, host) := split_at_last (snd na) "@" in
                 [LP] ++ quote_or_nil (fst na) ++ S_ " NIL " ++ quote_or_nil mailbox ++ [SP]
                      ++ quote_or_nil host ++ [RP]) l.

(** [mail_parse] is Go's net/mail.ParseAddressList with every display name passed
    through mime.QEncoding.Encode("utf-8", .): [None] = error or empty list. It is
    a PARAMETER of the model (library code); the theorems hold for every function. *)
Definition parse_address_list (mail_parse : str -> option (list (str * str))) (addresses : str) : option str :=
  match addresses with
  | [] => Some NIL
  | _ =>
    match mail_parse addresses with
    | Some (x :: l) => Some ([LP] ++ join (mail_structs (x :: l)) [SP] ++ [RP])
    | _ =>
      match addr_structs (split_byte addresses ",") with
      | None => None
      | Some [] => Some NIL
      | Some l => Some ([LP] ++ join l [SP] ++ [RP])
      end
    end
  end.

(** ---- BuildEnvelope ---- *)
Definition env_headers : list str :=
  [S_ "Date"; S_ "Subject"; S_ "From"; S_ "Sender"; S_ "Reply-To"; S_ "To"; S_ "Cc"; S_ "Bcc";
   S_ "In-Reply-To"; S_ "Message-ID"].

Definition opt_list {A} (l : list (option A)) : option (list A) :=
  fold_right (fun o acc => match o, acc with Some x, Some r => Some (x :: r) | _, _ => None end)
             (Some []) l.

(** the ten fields of the ENVELOPE, from the ten extracted header values *)
Definition envelope_fields (mp : str -> option (list (str * str)))
           (date subject from sender replyto to cc bcc inreplyto msgid : str)
  : option (list str) :=
  let parse_address_list := parse_address_list mp in
  let sender' := match sender with [] => from | _ => sender end in
  let replyto' := match replyto with [] => from | _ => replyto end in
  opt_list [Some (quote_or_nil date); Some (quote_or_nil subject);
            parse_address_list from; parse_address_list sender';
            parse_address_list replyto'; parse_address_list to;
            parse_address_list cc; parse_address_list bcc;
            Some (quote_or_nil inreplyto); Some (quote_or_nil msgid)].

Definition envelope_value (mp : str -> option (list (str * str))) (raw : str) : option str :=
  let h n := extract_header raw n in
  match envelope_fields mp (h (S_ "Date")) (h (S_ "Subject")) (h (S_ "From")) (h (S_ "Sender"))
                        (h (S_ "Reply-To")) (h (S_ "To")) (h (S_ "Cc")) (h (S_ "Bcc"))
                        (h (S_ "In-Reply-To")) (h (S_ "Message-ID")) with
  | Some fs => Some ([LP] ++ join fs [SP] ++ [RP])
  | None => None
  end.

Definition build_envelope (mp : str -> option (list (str * str))) (raw : str) : option str :=
  option_map (fun v => S_ "ENVELOPE " ++ v) (envelope_value mp raw).

(** net/mail's results as a finite table (what the correspondence run observed) *)
Fixpoint mail_table (t : list (str * list (str * str))) (a : str) : option (list (str * str)) :=
  match t with
  | [] => None
  | (k, v) :: r => if str_eqb a k then Some v else mail_table r a
  end.

(** ---- BODYSTRUCTURE formats (fields already parsed by Go's mime package) ---- *)

(** buildParamList; [params] in the order of Go's sort.Strings(keys) *)
Definition build_param_list (params : list (str * str)) : str :=
  match params with
  | [] => NIL
  | _ => [LP] ++ join (map (fun kv => quote_or_nil (to_upper (fst kv)) ++ [SP] ++ quote_or_nil (snd kv)) params) [SP] ++ [RP]
  end.

(** the first six fields common to every leaf format + size (+ lines for TEXT) *)
Definition leaf_head (mainT subT : str) (params : list (str * str)) (cid cdesc enc : str)
           (size lines : nat) : list str :=
  [quote_or_nil mainT; quote_or_nil subT; build_param_list params; quote_or_nil cid;
   quote_or_nil cdesc; quote_or_nil enc; dec size]
  ++ (if str_eqb mainT (S_ "TEXT") then [dec lines] else []).

(** BuildBodyStructure, non-multipart branch (value after "BODYSTRUCTURE ") *)
Definition single_structure mainT subT params cid cdesc enc size lines : str :=
  [LP] ++ join (leaf_head mainT subT params cid cdesc enc size lines ++ [NIL; NIL; NIL]) [SP] ++ [RP].

(** BuildBodyStructure, non-multipart branch: everything after the parameter
    list, computed from the raw message as the Go code does (extractHeader for
    Content-ID / Content-Description / Content-Transfer-Encoding, default
    "7BIT", upper-cased; body after the first CRLFCRLF, or LFLF since 3b9f4c2;
    line count for TEXT). *)
Definition bs_body (raw : str) : str :=
  match index raw (crlf ++ crlf) with
  | Some i => skipn (i + 4) raw
  | None => match index raw [LF; LF] with
            | Some i => skipn (i + 2) raw
            | None => []
            end
  end.

Definition bs_encoding (raw : str) : str :=
  to_upper (match extract_header raw (S_ "Content-Transfer-Encoding") with
            | [] => S_ "7BIT" | e => e end).

Definition single_tail (raw : str) (is_text : bool) : list str :=
  [quote_or_nil (extract_header raw (S_ "Content-ID"));
   quote_or_nil (extract_header raw (S_ "Content-Description"));
   quote_or_nil (bs_encoding raw);
   dec (length (bs_body raw))]
  ++ (if is_text then [dec (count_byte (bs_body raw) LF)] else [])
  ++ [NIL; NIL; NIL].

(** disposition list of buildPartStructure: NIL or (TYPE params); a
    Content-Disposition that mime.ParseMediaType rejects arrives here as
    [Some ([], _)] and is NIL since fix c1eb865 (it used to be printed (NIL NIL)) *)
Definition disp_list (disp : option (str * list (str * str))) : str :=
  match disp with
  | None => NIL
  | Some ([], _) => NIL
  | Some (t, ps) => [LP] ++ quote_or_nil (to_upper t) ++ [SP] ++ build_param_list ps ++ [RP]
  end.

(** buildPartStructure, leaf branch *)
Definition part_structure mainT subT params cid cdesc enc size lines disp : str :=
  [LP] ++ join (leaf_head mainT subT params cid cdesc enc size lines ++ [NIL; disp_list disp; NIL]) [SP] ++ [RP].

(** buildMultipartBodyStructure: (part1 part2 ... "SUBTYPE" ("BOUNDARY" b) NIL NIL) *)
Definition multipart_structure (parts : list str) (subT boundary : str) : str :=
  [LP] ++ join parts [SP] ++ [SP] ++ quote_or_nil subT ++ [SP]
       ++ build_param_list [(S_ "BOUNDARY", boundary)] ++ S_ " NIL NIL)".

(** buildFallbackBodyStructure *)
Definition fallback_structure (mainT subT : str) : str :=
  [LP] ++ quote_or_nil mainT ++ [SP] ++ quote_or_nil subT ++ S_ " NIL NIL NIL ""7BIT"" 0)".

(** ---- LIST / LSUB / STATUS lines (mailbox.go; the name goes through
    utils.QuoteString since the F15 fix) ---- *)
Definition list_line (kw attrs name : str) : str :=
  S_ "* " ++ kw ++ S_ " (" ++ attrs ++ S_ ") ""/"" " ++ quote_string name.

Definition status_line (name : str) (items : list (str * nat)) : str :=
  S_ "* STATUS " ++ quote_string name ++ S_ " (" ++
  join (map (fun kv => fst kv ++ [SP] ++ dec (snd kv)) items) [SP] ++ [RP].

(** ---- processFetchForMessage: assembly of the response ---- *)

(** what one handler contributes: one element of responseParts *)
Inductive out :=
| Inline (name value : str)      (* "name value" *)
| Lit (name payload : str).      (* literalPart(name, data) = "name {n}CRLF data" *)

Definition part_text (o : out) : str :=
  match o with
  | Inline n v => n ++ [SP] ++ v
  | Lit n p => n ++ [SP] ++ lit_text p
  end.

Definition fetch_line (seq : nat) (plan : list out) : str :=
  match plan with
  | [] => S_ "* " ++ dec seq ++ S_ " FETCH (FLAGS ())"
  | _ => S_ "* " ++ dec seq ++ S_ " FETCH (" ++ join (map part_text plan) [SP] ++ [RP]
  end.

(** sendResponse appends CRLF *)
Definition send (resp : str) : str := resp ++ crlf.

(** the pair a strict client must read for each contribution *)
Definition pair_of (o : out) : str * str :=
  match o with
  | Inline n v => (n, v)
  | Lit n p => (n, lit_text p)
  end.

(** ---- classification of the known violations of C13 ---- *)
Inductive finding :=
| rfc822_renamed.    (* RFC822 is answered under the name BODY[] (raven's own test suite asserts it) *)

(** bytes a flag may consist of (RFC 3501 atom bytes, plus the leading backslash) *)
Definition flag_byte (c : ascii) : bool :=
  negb (Ascii.eqb c LP) && negb (Ascii.eqb c RP) && negb (Ascii.eqb c LB)
  && negb (Ascii.eqb c DQ) && negb (Ascii.eqb c CR) && negb (Ascii.eqb c LF).

(** the stored flag string consists of flag bytes and blanks; since fix e64d29e
    STORE / UID STORE / APPEND refuse anything else (message.ValidFlag), so this
    is an invariant of the store, no longer a finding class *)
Definition flags_plain (flags : str) : bool := forallb flag_byte flags.
