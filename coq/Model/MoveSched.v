(** C03 — the multi-statement writers that allocate UIDs inside a transaction,
    at statement level, interleaved with complete commands of other sessions:

    message.MoveMessageToMailbox (Junk -> Spam, NonJunk -> INBOX; called from the
    loop of STORE / UID STORE after the entry's row was read):
        L  SELECT id FROM mailboxes WHERE name = ? AND user_id = ?     (autocommit)
        B  BEGIN
        R  SELECT uid_next FROM mailboxes WHERE id = ?                 (in the transaction)
        I  INSERT INTO message_mailbox (.., uid = uid_next, ..)
        U  UPDATE mailboxes SET uid_next = uid_next' WHERE id = ?
        D  DELETE FROM message_mailbox WHERE mailbox_id = src AND uid = srcuid
        C  COMMIT
    uid.handleUIDCopy / message.HandleCopy:
        Q..  the set is resolved against the selected mailbox             (autocommit reads)
        L  SELECT id FROM mailboxes WHERE name = ? ..                   (autocommit)
        B  BEGIN;  R  SELECT uid_next ..;  per entry: Q read the row, I INSERT;
        U  UPDATE uid_next;  C  COMMIT

    SQLite (rollback journal, no WAL) serialises: from the first statement of the
    transaction (R) to C no other writer can commit (it waits on the busy
    handler), so other sessions' complete commands fit in only BEFORE L ([e0])
    and between L and the transaction's first statement ([e1]); the transaction
    is one atomic step — or it fails as a whole ("database is locked" when the
    read transaction cannot upgrade behind a concurrent writer; then nothing is
    assigned and STORE stores the flags in place: [busy = true]).

    [..._stale]: the rejected variant "read uid_next together with the
    destination id before BEGIN, write it back as an absolute value" (seeded
    change C03-4).  No proofs in this file. *)
From Coq Require Import String Ascii List Bool ZArith.
From Raven Require Import Base.GoStr Model.Store Model.Ops Spec.UidSpec Model.UidView.
Import ListNotations.
Local Open Scope Z_scope.

(** the transaction of MoveMessageToMailbox on the destination ROW [d] *)
Definition move_tx (s : store) (msg src srcuid d : Z) (fl : list str) : store * bool :=
  match find_id s d with
  | None => (s, false)                                  (* R finds no row *)
  | Some m =>
    match insert_link s msg d (mb_next m) fl with
    | None => (s, false)                                (* rollback *)
    | Some s1 => (delete_links (set_next s1 d (mb_next m + 1)) (at_uid src srcuid), true)
    end
  end.

Definition move_sched (s : store) (msg src srcuid : Z) (dest : str) (fl : list str)
    (e0 e1 : list op) (busy : bool) : store * bool :=
  let s0 := run e0 s in
  let s1 := run e1 s0 in
  match find_name s0 dest with
  | None => (s1, false)
  | Some d =>
    if mb_id d =? src then (s1, false) else
    if busy then (s1, false) else move_tx s1 msg src srcuid (mb_id d) fl
  end.

(** seeded C03-4: (id, uid_next) read at L; the transaction inserts with that
    value and writes it back + 1 *)
Definition move_sched_stale (s : store) (msg src srcuid : Z) (dest : str) (fl : list str)
    (e0 e1 : list op) : store * bool :=
  let s0 := run e0 s in
  let s1 := run e1 s0 in
  match find_name s0 dest with
  | None => (s1, false)
  | Some d =>
    if mb_id d =? src then (s1, false) else
    match insert_link s1 msg (mb_id d) (mb_next d) fl with
    | None => (s1, false)
    | Some s2 => (delete_links (set_next s2 (mb_id d) (mb_next d + 1)) (at_uid src srcuid), true)
    end
  end.

(** one entry of UID STORE (uidstore_one) with its move at statement level; the
    entry's row is read in [s] *)
Definition uidstore1_sched_gen (mv : store -> Z -> Z -> Z -> str -> list str -> store * bool)
    (skip : store -> store)      (* the other sessions' commands alone, when there is no move *)
    (s : store) (sel : Z) (mode : smode) (new : list str) (u : Z) : store :=
  match find_link s sel u with
  | None => skip s
  | Some l =>
    let cur := lk_flags l in
    let upd := calc_flags cur new mode in
    let junk_added := negb (fmem JUNK cur) && fmem JUNK upd in
    let nonjunk_added := negb (fmem NONJUNK cur) && fmem NONJUNK upd in
    if junk_added then
      let '(s1, ok) := mv s (lk_msg l) sel u SPAM (fremove NONJUNK upd) in
      if ok then s1 else set_flags s1 sel u upd
    else if nonjunk_added then
      let '(s1, ok) := mv s (lk_msg l) sel u INBOX (fremove JUNK upd) in
      if ok then s1 else set_flags s1 sel u upd
    else set_flags (skip s) sel u upd
  end.

Definition uidstore1_sched (s : store) (sel : Z) (mode : smode) (new : list str) (u : Z)
    (e0 e1 : list op) (busy : bool) : store :=
  uidstore1_sched_gen (fun s' msg src su d fl => move_sched s' msg src su d fl e0 e1 busy)
                      (fun s' => run e1 (run e0 s')) s sel mode new u.
Definition uidstore1_sched_stale (s : store) (sel : Z) (mode : smode) (new : list str) (u : Z)
    (e0 e1 : list op) : store :=
  uidstore1_sched_gen (fun s' msg src su d fl => move_sched_stale s' msg src su d fl e0 e1)
                      (fun s' => run e1 (run e0 s')) s sel mode new u.

(** UID COPY: the set is resolved in [s]; [e0] before L, [e1] between L and the
    transaction, which reads uid_next of the destination row itself *)
Definition uidcopy_sched (s : store) (sel : Z) (set : list uspec) (dest : str)
    (e0 e1 : list op) (busy : bool) : store * result :=
  match resolve_uids s sel set with
  | [] => (run e1 (run e0 s), ROk)
  | uids =>
    let s0 := run e0 s in
    let s1 := run e1 s0 in
    match find_name s0 dest with
    | None => (s1, RNo)
    | Some d =>
      if busy then (s1, RNo) else
      match find_id s1 (mb_id d) with
      | None => (s1, RNo)
      | Some m =>
        match uidcopy_loop s1 sel (mb_id d) uids (mb_next m) with
        | Some s2 => (s2, ROk)
        | None => (s1, RNo)
        end
      end
    end
  end.

(** db.renameInboxPerUser (RENAME INBOX x) at statement level:
      N  is there a mailbox x?          N  id of INBOX            (autocommit reads)
      parents, V + M: the target row (CreateMailboxPerUser)        (autocommit)
      B  BEGIN
      U  UPDATE mailboxes SET uid_next = MAX(uid_next, (SELECT uid_next FROM mailboxes WHERE id = inbox))
                              WHERE id = target          -- counters read INSIDE the transaction
      P  UPDATE message_mailbox SET mailbox_id = target WHERE mailbox_id = inbox
      C  COMMIT
    [e1]: the other sessions' complete commands between the creation of the target
    row and the transaction (nothing can commit inside it). *)
Definition rename_inbox_sched (s : store) (new : str) (t : Z) (e1 : list op) : store * result :=
  match find_name s new with
  | Some _ => (run e1 s, RNo)
  | None =>
    match find_name s INBOX with
    | None => (run e1 s, RNo)
    | Some ib =>
      let '(s0, ok) := create_parents s new t in
      if negb ok then (run e1 s0, RNo) else
      match create_mailbox_row s0 new t with
      | None => (run e1 s0, RNo)
      | Some (s1, nid) =>
        let s2 := run e1 s1 in
        match find_id s2 (mb_id ib) with
        | None => (s2, RNo)
        | Some ib' =>
          let cur := match find_id s2 nid with Some mt => mb_next mt | None => 1 end in
          match reparent (set_next s2 nid (Z.max cur (mb_next ib'))) (mb_id ib) nid with
          | Some s3 => (s3, ROk)
          | None => (s2, RNo)
          end
        end
      end
    end
  end.

(** before raven 8552cfb: the target's counter was overwritten with INBOX's (read
    inside the transaction) even when it was smaller than the target's own *)
Definition rename_inbox_sched_overwrite (s : store) (new : str) (t : Z) (e1 : list op) : store * result :=
  match find_name s new with
  | Some _ => (run e1 s, RNo)
  | None =>
    match find_name s INBOX with
    | None => (run e1 s, RNo)
    | Some ib =>
      let '(s0, ok) := create_parents s new t in
      if negb ok then (run e1 s0, RNo) else
      match create_mailbox_row s0 new t with
      | None => (run e1 s0, RNo)
      | Some (s1, nid) =>
        let s2 := run e1 s1 in
        match find_id s2 (mb_id ib) with
        | None => (s2, RNo)
        | Some ib' =>
          match reparent (set_next s2 nid (mb_next ib')) (mb_id ib) nid with
          | Some s3 => (s3, ROk)
          | None => (s2, RNo)
          end
        end
      end
    end
  end.

(** seeded C08-5: INBOX's uid_next is read up front (with the INBOX id) and
    written into the target later *)
Definition rename_inbox_sched_stale (s : store) (new : str) (t : Z) (e1 : list op) : store * result :=
  match find_name s new with
  | Some _ => (run e1 s, RNo)
  | None =>
    match find_name s INBOX with
    | None => (run e1 s, RNo)
    | Some ib =>
      let '(s0, ok) := create_parents s new t in
      if negb ok then (run e1 s0, RNo) else
      match create_mailbox_row s0 new t with
      | None => (run e1 s0, RNo)
      | Some (s1, nid) =>
        let s2 := run e1 s1 in
        match reparent (set_next s2 nid (mb_next ib)) (mb_id ib) nid with
        | Some s3 => (s3, ROk)
        | None => (s2, RNo)
        end
      end
    end
  end.

(** ---- evaluation of the suite "sched2" --------------------------------------- *)

(** prepared account: INBOX 2 messages, Trash 4, Spam 2 *)
Definition sched2_prep : list op :=
  [OAppend INBOX []; OAppend INBOX [];
   OAppend (S_ "Trash") []; OAppend (S_ "Trash") []; OAppend (S_ "Trash") []; OAppend (S_ "Trash") [];
   OAppend SPAM []; OAppend SPAM []].

Inductive holder := HMove | HUidCopy | HRenameInbox (t : Z).

(** holder, slot (0: other commands before L, 1: between L and the transaction),
    the other commands, commands that ran after the holder, observed tables *)
Definition eval_sched2 (c : store * holder * Z * list op * list op * list mview * list lview) : bool :=
  let '(s0, h, slot, env, late, ms, ls) := c in
  let s := run sched2_prep s0 in
  let e0 := if slot =? 0 then env else [] in
  let e1 := if slot =? 0 then [] else env in
  let s1 := match h with
            | HMove => uidstore1_sched s 1 SAdd [JUNK] 1 e0 e1 false
            | HUidCopy => fst (uidcopy_sched s 1 [URange 1 2] SPAM e0 e1 false)
            | HRenameInbox t => fst (rename_inbox_sched s (S_ "R1") t env)
            end in
  let s2 := run late s1 in
  same_set mview_eqb (map mview_of (mboxes s2)) ms && same_set lview_eqb (map lview_of (links s2)) ls.
