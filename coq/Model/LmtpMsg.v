(** Approximate model of the two message checks handleDATA applies between
    reading and delivering: parser.ParseMessage (net/mail.ReadMessage, From
    and To/Cc/Bcc present) and parser.ValidateMessage.

    This is NOT part of what the C16 theorems rest on (they quantify over an
    arbitrary verdict function [accepts]).  It instantiates [accepts] when the
    session model is run against the implementation; the correspondence check
    validates it separately against the real functions on the generator's
    message menu and on every line-suffix of the generated bodies (suite
    "verdict").  Mirrors net/mail.readHeader: the header block ends at the
    first empty line or at the end of the data; the first line must not start
    with a blank; a line starting with a blank continues the previous one;
    every other line needs a colon; keys are compared case-insensitively;
    Header.Get returns the FIRST value of a key. *)
From Coq Require Import String Ascii List Bool ZArith.
From Raven Require Import Base.GoStr Model.Lmtp.
Import ListNotations.

Definition TAB : ascii := ascii_of_nat 9.
Definition is_blank (c : ascii) : bool := Ascii.eqb c " "%char || Ascii.eqb c TAB.

(** remove one final [x] (linear; GoStr.trim_suffix reverses the string) *)
Fixpoint chop (x : ascii) (l : str) : str :=
  match l with
  | [] => []
  | [c] => if Ascii.eqb c x then [] else [c]
  | c :: l' => c :: chop x l'
  end.
Definition strip_eol (l : str) : str := chop CR (chop LF l).

(** first value of From / To / Cc / Bcc seen so far *)
Record hdrs := { h_from : option str; h_to : option str; h_cc : option str; h_bcc : option str }.

Definition first_set (o : option str) (v : str) : option str :=
  match o with Some _ => o | None => Some v end.

Definition add_header (h : hdrs) (k v : str) : hdrs :=
  if equal_fold k (S_ "From") then {| h_from := first_set (h_from h) v; h_to := h_to h; h_cc := h_cc h; h_bcc := h_bcc h |}
  else if equal_fold k (S_ "To") then {| h_from := h_from h; h_to := first_set (h_to h) v; h_cc := h_cc h; h_bcc := h_bcc h |}
  else if equal_fold k (S_ "Cc") then {| h_from := h_from h; h_to := h_to h; h_cc := first_set (h_cc h) v; h_bcc := h_bcc h |}
  else if equal_fold k (S_ "Bcc") then {| h_from := h_from h; h_to := h_to h; h_cc := h_cc h; h_bcc := first_set (h_bcc h) v |}
  else h.

(** [None] = mail.ReadMessage fails *)
Fixpoint read_header (first : bool) (h : hdrs) (ls : list str) : option hdrs :=
  match ls with
  | [] => if first then None else Some h
  | l :: ls' =>
      match strip_eol l with
      | [] => Some h
      | (c :: _) as sl =>
          if is_blank c then (if first then None else read_header false h ls')
          else match index_byte sl ":"%char with
               | None => None
               | Some i =>
                   let k := firstn i sl in
                   let v := trim_left_f is_blank (trim_right_f is_blank (skipn (S i) sl)) in
                   read_header false (add_header h k v) ls'
               end
      end
  end.

Definition nonempty_val (o : option str) : bool :=
  match o with Some (_ :: _) => true | _ => false end.
(** extractRecipients on one header value: at least one address (or, when
    mail.ParseAddressList fails, one non-blank comma-separated piece) *)
Definition has_addr (o : option str) : bool :=
  match o with
  | Some v => existsb (fun c => negb (is_space c || Ascii.eqb c ","%char)) v
  | None => false
  end.

Definition msg_ok (max : Z) (d : str) : bool :=
  match read_header true {| h_from := None; h_to := None; h_cc := None; h_bcc := None |} (fst (split_lines d)) with
  | None => false
  | Some h => nonempty_val (h_from h) && (has_addr (h_to h) || has_addr (h_cc h) || has_addr (h_bcc h))
              && (len d <=? max)%Z
  end.
