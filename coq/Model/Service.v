(** C12, service layer: one server process, many connections.

    Go facts modelled (cmd/server/main.go, internal/delivery/lmtp/server.go,
    internal/sasl/server.go): every accepted connection is served by its own
    goroutine started with a [go] statement; a panic that reaches the top of
    a goroutine terminates the WHOLE process unless the goroutine's entry
    function has a deferred call to recover().  Which entry functions exist
    and whether they recover is NOT written here: it is regenerated from the
    Go AST on every run into Gen/FactsC12.v (type [entry] below).

    A connection is a list of commands; [h : handler] is what the service
    computes for one command ([None] = the command's handler panics, e.g.
    one of the functions of Model/Slicers.v).  Connections are served one
    after the other (interleavings of goroutines are outside the model).
    No proofs in this file. *)
From Coq Require Import String Ascii List Bool Arith.
From Raven Require Import Base.GoStr.
Import ListNotations.

Inductive service : Type := Imap | Lmtp | Sasl | OtherSvc.

Definition service_eqb (a b : service) : bool :=
  match a, b with
  | Imap, Imap | Lmtp, Lmtp | Sasl, Sasl | OtherSvc, OtherSvc => true
  | _, _ => false
  end.

(** one [go] statement of the code base *)
Record entry : Type := mk_entry {
  e_site : str;          (* file:line of the go statement *)
  e_callee : str;        (* function it starts ("func literal" for closures) *)
  e_service : service;
  e_conn : bool;         (* serves a connection: has a net.Conn parameter or sits in an Accept loop *)
  e_resolved : bool;     (* the translator found the callee's body *)
  e_recovers : bool      (* a top-level deferred closure/function of the callee calls recover() *)
}.

(** an entry point is safe if it does not touch connection input, or recovers *)
Definition recovers (e : entry) : bool := e_resolved e && e_recovers e.
Definition entry_safe (e : entry) : bool := negb (e_conn e) || recovers e.

Definition serves (sv : service) (e : entry) : bool := e_conn e && service_eqb (e_service e) sv.

(** the regenerated table is acceptable: all three listeners were found and
    every connection goroutine recovers *)
Definition facts_ok (t : list entry) : bool :=
  forallb entry_safe t && existsb (serves Imap) t && existsb (serves Lmtp) t && existsb (serves Sasl) t.

Definition unsafe_entries (t : list entry) : list entry := filter (fun e => negb (entry_safe e)) t.

(** ---- behaviour ---- *)
Definition cmd := str.
Definition reply := list str.
Definition handler := cmd -> option reply.

(** what one connection observes *)
Record conn_obs : Type := mk_obs {
  o_replies : list reply;     (* replies to the commands served, in order *)
  o_closed : bool;            (* connection closed by the server before the end of its commands *)
  o_unserved : nat            (* commands never looked at *)
}.

(** the command loop of one connection on its own: serve commands until one
    panics; returns the observation and whether a panic escaped the loop *)
Fixpoint conn_loop (h : handler) (cmds : list cmd) : list reply * bool * nat :=
  match cmds with
  | [] => ([], false, 0)
  | c :: rest =>
      match h c with
      | Some r => let '(rs, p, n) := conn_loop h rest in (r :: rs, p, n)
      | None => ([], true, length rest)
      end
  end.

Record conn_event : Type := mk_event {
  ev_entry : entry;
  ev_handler : handler;
  ev_cmds : list cmd
}.

(** the observation the property demands for a connection, whatever the other
    connections do: every command before the offending one is answered, the
    offending command gets its connection closed *)
Definition alone (ev : conn_event) : conn_obs :=
  let '(rs, p, n) := conn_loop (ev_handler ev) (ev_cmds ev) in mk_obs rs p n.

(** the process: [alive = false] after an unrecovered panic; a dead process
    serves nothing *)
Definition step (alive : bool) (ev : conn_event) : bool * conn_obs :=
  if alive then
    let '(rs, p, n) := conn_loop (ev_handler ev) (ev_cmds ev) in
    if p then
      if recovers (ev_entry ev) then (true, mk_obs rs true n)        (* recovered: this connection only *)
      else (false, mk_obs rs true n)                                  (* process dies *)
    else (true, mk_obs rs false n)
  else (false, mk_obs [] true (length (ev_cmds ev))).

Fixpoint run (alive : bool) (evs : list conn_event) : bool * list conn_obs :=
  match evs with
  | [] => (alive, [])
  | ev :: rest =>
      let '(a1, o) := step alive ev in
      let '(a2, os) := run a1 rest in (a2, o :: os)
  end.
