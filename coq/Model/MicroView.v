(** Evaluation support for the correspondence suites of C07 (statement trace,
    crash replay): canonical views of a [dstore] that are compared with the
    implementation's dump, and the per-scenario evaluators whose results are
    printed as plain numbers for the Python side.  No proofs. *)
From Coq Require Import String Ascii List Bool ZArith Arith.
From Raven Require Import Base.GoStr Model.Store Model.Ops Model.UidView Model.Micro Spec.Crash.
Import ListNotations.
Local Open Scope Z_scope.

(** observed store: schema objects (-1: no file), mailboxes (id, name, uid_next),
    links, messages (id, header rows, part rows), subscriptions *)
Definition mv3 := (Z * str * Z)%type.
Definition gv := (Z * Z * Z)%type.
Record oview := mkOV { ov_schema : Z; ov_mb : list mv3; ov_lk : list lview; ov_msg : list gv; ov_sub : list str }.

Definition mv3_eqb (a b : mv3) : bool :=
  let '(i, n, x) := a in let '(i', n', x') := b in (i =? i') && str_eqb n n' && (x =? x').
Definition gv_eqb (a b : gv) : bool :=
  let '(i, h, p) := a in let '(i', h', p') := b in (i =? i') && (h =? h') && (p =? p').

Definition view_agrees (d : dstore) (o : oview) : bool :=
  (if d_file d then ov_schema o =? Z.of_nat (d_schema d) else ov_schema o =? -1)
  && same_set mv3_eqb (map (fun m => (mb_id m, mb_name m, mb_next m)) (mboxes (d_st d))) (ov_mb o)
  && same_set lview_eqb (map lview_of (links (d_st d))) (ov_lk o)
  && same_set gv_eqb (map (fun m => (m_id m, Z.of_nat (m_hdr m), Z.of_nat (m_parts m))) (d_msgs d)) (ov_msg o)
  && same_set str_eqb (d_subs d) (ov_sub o).

Fixpoint strs_eqb (a b : list str) : bool :=
  match a, b with
  | [], [] => true
  | x :: a', y :: b' => str_eqb x y && strs_eqb a' b'
  | _, _ => false
  end.

Definition res_code (r : result) : Z := match r with ROk | RAppendUid _ _ => 0 | RNo => 1 | RBad => 2 end.

(** ([ov_schema] = -3: no store observation for this operation — the [COpen]
    at the head of a first delivery.)
    one executed operation: the model op, the observed SQL labels, the observed
    reply class (0 OK, 1 NO, 2 BAD, -1 not compared), the observed store after it *)
Definition ostep := (cop * list str * Z * oview)%type.

(** trace suite: (first op whose labels differ or -1, first op whose reply
    differs or -1, first op after which the store differs or -1, number of
    micro-steps of the whole workload, 1 if all ops are in [op_plain]-free scope) *)
Fixpoint eval_trace_from (i : Z) (d : dstore) (l : list ostep) (a b c : Z) (n : nat) : Z * Z * Z * Z :=
  match l with
  | [] => (a, b, c, Z.of_nat n)
  | (o, labs, rc, ov) :: r =>
    let p := micro d o in
    let d' := run_steps d p in
    let a' := if (a <? 0) && negb (strs_eqb (run_labels d p) labs) then i else a in
    let b' := if (b <? 0) && (0 <=? rc) && negb (res_code (snd (big d o)) =? rc) then i else b in
    let c' := if (c <? 0) && negb (ov_schema ov =? -3) && negb (view_agrees d' ov) then i else c in
    eval_trace_from (i + 1) d' r a' b' c' (n + length p)
  end.
Definition eval_trace (l : list ostep) : Z * Z * Z * Z := eval_trace_from 0 absent l (-1) (-1) (-1) 0.

(** the labels the model expects for every op (diagnostics) *)
Fixpoint expected_labels (d : dstore) (h : list cop) : list (list str) :=
  match h with
  | [] => []
  | o :: r => let p := micro d o in run_labels d p :: expected_labels (run_steps d p) r
  end.

(** crash replay: all crash points [k] whose model state agrees with the
    recovered store, with 0 if the model says that state is reopened usable (always, by c07_every_crash_state_reopens), else 1; and the number of
    micro-steps after each operation of the workload *)
Definition prefix_states (d : dstore) (l : list mstep) : list dstore :=
  d :: (fix go (d : dstore) (l : list mstep) : list dstore :=
          match l with [] => [] | st :: r => let d' := exec d st in d' :: go d' r end) d l.

(** [ov]: the recovered store before anything opened it; [ov2]: the store
    after the restarted server's first GetUserDB for it ([ov_schema] = -3: not
    observed).  Result per matching crash point: (k, 0 if the model reopens it
    usable else 1, 1 if the model's state after [COpen] agrees with [ov2] else 0) *)
Fixpoint matching_from (k : Z) (ds : list dstore) (ov ov2 : oview) : list (Z * Z * Z) :=
  match ds with
  | [] => []
  | d :: r =>
    (if view_agrees d ov
     then [(k, if reopen_ok_b d 0 then 0 else 1,
            if (ov_schema ov2 =? -3) || view_agrees (fst (big d (COpen 0 0 0 0 0))) ov2 then 1 else 0)]
     else []) ++ matching_from (k + 1) r ov ov2
  end.

Fixpoint cum_steps (d : dstore) (h : list cop) (n : Z) : list Z :=
  match h with
  | [] => []
  | o :: r => let p := micro d o in
              let n' := n + Z.of_nat (length p) in n' :: cum_steps (run_steps d p) r n'
  end.

Definition eval_crash (h : list cop) (ov ov2 : oview) : list (Z * Z * Z) * list Z :=
  (matching_from 0 (prefix_states absent (all_steps absent h)) ov ov2, cum_steps absent h 0).

(** ---- the property's own verdict on a recovered store --------------------------------- *)

Definition obs_of_view (ov : oview) : obs :=
  mkObs (map (fun t => let '(i, n, _) := t in (i, n)) (ov_mb ov))
        (map (fun t => let '(_, m, mb, u, _) := t in (mb, u, m)) (ov_lk ov))
        (ov_msg ov).

(** [a] = number of acknowledged operations of this store (a prefix of [h]),
    [j] = number of operations of the one client command in flight.
    Result: (lost links, lost messages, lost mailboxes, phantom links,
    incomplete listed messages) — all empty iff [crash_spec_b]. *)
Definition eval_spec (h : list cop) (a j : nat) (ov : oview)
  : list okey * list Z * list Z * list okey * list Z :=
  let dA := run_all absent (firstn a h) in
  let cands := map (fun i => run_all absent (firstn (a + i) h)) (seq 0 (S j)) in
  let dL := last cands dA in
  let o := obs_of_view ov in
  (lost_links dA dL o, lost_msgs dA dL o, lost_mailboxes dA dL o, phantom cands o, incomplete dL o).

(** consistency of the spec with the model: every crash state of the model,
    observed, satisfies it (checked for concrete workloads by [vm_compute]) *)
Fixpoint spec_on_model_from (d : dstore) (h : list cop) : bool :=
  match h with
  | [] => crash_spec_b d d [d] (obs_of d)
  | o :: r =>
    let p := micro d o in
    let dL := run_steps d p in
    forallb (fun k => crash_spec_b d dL [d; dL] (obs_of (run_steps d (firstn k p)))) (seq 0 (S (length p)))
    && spec_on_model_from dL r
  end.
