(** Model of the boundary generation in parser.go: reconstructPartDFS
      subtype := strings.TrimPrefix(strings.ToLower(contentType), "multipart/")
      subtype  = strings.ToUpper(subtype[:1]) + subtype[1:]
      boundary := fmt.Sprintf("----=_Part_%s_%d", subtype, time.Now().UnixNano())
    and of the Content-Type line written for a container. [clock] is the value
    time.Now().UnixNano() returned at that moment. *)
From Coq Require Import String Ascii List Bool Arith NArith ZArith.
From Raven Require Import Base.GoStr Base.GoStrMime.
Import ListNotations.

Definition gen_boundary (content_type : str) (clock : Z) : str :=
  let sub := trim_prefix (to_lower content_type) (S_ "multipart/") in
  let sub' := match sub with [] => [] | c :: r => upper_c c :: r end in
  S_ "----=_Part_" ++ sub' ++ S_ "_" ++ itoa clock.

Definition container_ct_line (content_type : str) (clock : Z) : str :=
  S_ "Content-Type: " ++ content_type ++ S_ "; boundary=""" ++ gen_boundary content_type clock ++ S_ """" ++ crlf.
