(** Model of the boundary generation in parser.go (as of fix C02-2):
      subtype := strings.TrimPrefix(strings.ToLower(contentType), "multipart/")
      subtype  = strings.ToUpper(subtype[:1]) + subtype[1:]
      boundary := partBoundary(subtype, messageID, node.Part["id"])
               =  fmt.Sprintf("----=_Part_%s_%d_%d", subtype, messageID, partID)
    and of the Content-Type line written for a container.  The boundary is a
    function of the stored rows only: no clock is read. *)
From Coq Require Import String Ascii List Bool Arith NArith ZArith.
From Raven Require Import Base.GoStr Base.GoStrMime.
Import ListNotations.

Definition gen_boundary (content_type : str) (message_id part_id : Z) : str :=
  let sub := trim_prefix (to_lower content_type) (S_ "multipart/") in
  let sub' := match sub with [] => [] | c :: r => upper_c c :: r end in
  S_ "----=_Part_" ++ sub' ++ S_ "_" ++ itoa message_id ++ S_ "_" ++ itoa part_id.

Definition container_ct_line (content_type : str) (message_id part_id : Z) : str :=
  S_ "Content-Type: " ++ content_type ++ S_ "; boundary=""" ++ gen_boundary content_type message_id part_id ++ S_ """" ++ crlf.

(** the boundary the code took before the fix: [clock] = time.Now().UnixNano() *)
Definition old_gen_boundary (content_type : str) (clock : Z) : str :=
  let sub := trim_prefix (to_lower content_type) (S_ "multipart/") in
  let sub' := match sub with [] => [] | c :: r => upper_c c :: r end in
  S_ "----=_Part_" ++ sub' ++ S_ "_" ++ itoa clock.
