(** Model of internal/server/utils/pattern.go (LIST/LSUB wildcard matching).

    [wm] is the recursive backtracking matcher the pinned tree shipped
    (doWildcardMatch before the fix F18); it is kept as an executable
    reference.  [dp_match] mirrors the row-by-row matcher that replaced it
    ("fix: make LIST wildcard matching polynomial"), statement by statement:
    one boolean row over the suffixes of the text, rewritten once per pattern
    byte from the last byte backwards.  No proofs in this file. *)
From Coq Require Import String Ascii List Bool Arith.
From Raven Require Import Base.GoStr.
Import ListNotations.
Local Open Scope char_scope.

Definition star : ascii := "*".
Definition pct : ascii := "%".
Definition delim : ascii := "/".

(** ---- reference: the recursive matcher ---- *)

Fixpoint any_suffix (f : str -> bool) (t : str) : bool :=
  f t || match t with [] => false | _ :: t' => any_suffix f t' end.

Fixpoint any_suffix_nd (f : str -> bool) (t : str) : bool :=
  f t || match t with
         | [] => false
         | c :: t' => if Ascii.eqb c delim then false else any_suffix_nd f t'
         end.

Fixpoint no_delim (t : str) : bool :=
  match t with [] => true | c :: t' => negb (Ascii.eqb c delim) && no_delim t' end.

Fixpoint wm (p : str) : str -> bool :=
  match p with
  | [] => fun t => match t with [] => true | _ => false end
  | c :: p' =>
    if Ascii.eqb c star then
      match p' with [] => fun _ => true | _ => fun t => any_suffix (wm p') t end
    else if Ascii.eqb c pct then
      match p' with [] => fun t => no_delim t | _ => fun t => any_suffix_nd (wm p') t end
    else fun t => match t with [] => false | d :: t' => Ascii.eqb d c && wm p' t' end
  end.

(** ---- the row-by-row matcher (doWildcardMatch after F18) ---- *)

(** row of the empty pattern: only the empty suffix matches.
    Go: row := make([]bool, n+1); row[n] = true *)
Fixpoint row_init (t : str) : list bool :=
  match t with [] => [true] | _ :: t' => false :: row_init t' end.

(** case '*':  for i := n-1; i >= 0; i-- { row[i] = row[i] || row[i+1] } *)
Fixpoint step_star (r : list bool) : list bool :=
  match r with
  | [] => []
  | b :: r' => let r'' := step_star r' in (b || hd false r'') :: r''
  end.

(** case '%':  row[i] = row[i] || (row[i+1] && !HasPrefix(text[i:], "/")) *)
Fixpoint step_pct (t : str) (r : list bool) : list bool :=
  match r with
  | [] => []
  | b :: r' =>
      match t with
      | [] => [b]
      | c :: t' => let r'' := step_pct t' r' in
                   (b || (hd false r'' && negb (Ascii.eqb c delim))) :: r''
      end
  end.

(** default:  for i := 0; i < n; i++ { row[i] = text[i] == c && row[i+1] }; row[n] = false *)
Fixpoint step_chr (c : ascii) (t : str) (r : list bool) : list bool :=
  match t, r with
  | d :: t', _ :: r' => (Ascii.eqb d c && hd false r') :: step_chr c t' r'
  | [], _ => [false]
  | _ :: _, [] => []
  end.

Definition row_step (c : ascii) (t : str) (r : list bool) : list bool :=
  if Ascii.eqb c star then step_star r
  else if Ascii.eqb c pct then step_pct t r
  else step_chr c t r.

(** for p := len(pattern)-1; p >= 0; p-- { ... } *)
Definition row (p t : str) : list bool := fold_right (fun c r => row_step c t r) (row_init t) p.

(** return row[0] *)
Definition dp_match (t p : str) : bool := hd false (row p t).

(** instrumented twin: number of row cells written (the loop-body count) *)
Definition row_cost (p t : str) : nat :=
  fold_right (fun c n => n + (if Ascii.eqb c star then length t
                              else if Ascii.eqb c pct then length t
                              else S (length t))) (S (length t)) p.

(** activations of the recursive matcher (for the record of the defect F18) *)
Fixpoint sum_suffix (f : str -> nat) (t : str) : nat :=
  f t + match t with [] => 0 | _ :: t' => sum_suffix f t' end.
Fixpoint sum_suffix_nd (f : str -> nat) (t : str) : nat :=
  f t + match t with [] => 0 | c :: t' => if Ascii.eqb c delim then 0 else sum_suffix_nd f t' end.
(** upper bound of activations when no branch succeeds early (worst case) *)
Fixpoint wm_calls (p : str) : str -> nat :=
  match p with
  | [] => fun _ => 1
  | c :: p' =>
    if Ascii.eqb c star then
      match p' with [] => fun _ => 1 | _ => fun t => 1 + sum_suffix (wm_calls p') t end
    else if Ascii.eqb c pct then
      match p' with [] => fun _ => 1 | _ => fun t => 1 + sum_suffix_nd (wm_calls p') t end
    else fun t => match t with [] => 1 | d :: t' => if Ascii.eqb d c then wm_calls p' t' else 1 end
  end.

(** ---- MatchWildcard: INBOX normalisation of whole text / whole pattern ---- *)
Definition INBOX : str := S_ "INBOX".

Definition match_wildcard (text pattern : str) : bool :=
  let text' := if str_eqb (to_upper text) INBOX then INBOX else text in
  let pattern' := if str_eqb (to_upper pattern) INBOX then INBOX else pattern in
  dp_match text' pattern'.

(** ---- BuildCanonicalPattern (delimiter "/") ---- *)
Definition build_canonical_pattern (reference pattern : str) : str :=
  if has_prefix pattern [delim] then pattern
  else match reference with
       | [] => pattern
       | _ => if negb (has_suffix reference [delim]) && negb (has_prefix pattern [delim])
              then reference ++ [delim] ++ pattern
              else reference ++ pattern
       end.

(** ---- FilterMailboxes ---- *)
Definition filter_mailboxes (mailboxes : list str) (reference pattern : str) : list str :=
  let canon := build_canonical_pattern reference pattern in
  let matches := filter (fun m => match_wildcard m canon) mailboxes in
  if match_wildcard INBOX (to_upper canon)
  then if existsb (fun m => str_eqb (to_upper m) INBOX) matches then matches
       else matches ++ [INBOX]
  else matches.

(** ---- LSUB: the names HandleLsub answers for the personal store ----
    Real subscriptions go through FilterMailboxes; when the pattern contains
    '%', every proper ancestor (prefix up to a hierarchy delimiter) of a
    subscribed name that is not itself subscribed and matches reference+pattern
    is answered with \Noselect. *)
Fixpoint ancestors_aux (pre m : str) : list str :=
  match m with
  | [] => []
  | c :: m' => (if Ascii.eqb c delim then [rev pre] else []) ++ ancestors_aux (c :: pre) m'
  end.
Definition ancestors (m : str) : list str := ancestors_aux [] m.

Definition mem_str (x : str) (l : list str) : bool := existsb (str_eqb x) l.

Definition lsub_implied (subs : list str) (reference pattern : str) : list str :=
  if existsb (Ascii.eqb pct) pattern then
    let canon := build_canonical_pattern reference pattern in
    filter (fun c => negb (mem_str c subs) && match_wildcard c canon) (flat_map ancestors subs)
  else [].

(** (names answered with \Noselect — a set in the implementation —, names answered as subscribed) *)
Definition lsub_names (subs : list str) (reference pattern : str) : list str * list str :=
  (lsub_implied subs reference pattern,
   (* FilterMailboxes adds INBOX whenever the pattern matches it; HandleLsub keeps
      it only if a case variant of INBOX is subscribed (92c7b86) *)
   let ms := filter_mailboxes subs reference pattern in
   if existsb (fun m => str_eqb (to_upper m) INBOX) subs then ms
   else filter (fun m => negb (str_eqb m INBOX)) ms).

(** ---- role mailboxes in LIST / LSUB ----
    For a user with assigned role mailboxes both handlers build the paths
    Roles/<address>/<mailbox> of every mailbox of every assigned role store,
    Roles/<address> for every role and the top-level name Roles, pass them
    through FilterMailboxes with the SAME reference and pattern, and answer
    those that start with "Roles"; names with at most one delimiter are
    answered \Noselect \HasChildren. *)
Definition ROLES : str := S_ "Roles".

Definition role_paths (roles : list (str * list str)) : list str :=
  flat_map (fun eb => map (fun b => ROLES ++ [delim] ++ fst eb ++ [delim] ++ b) (snd eb)
                      ++ [ROLES ++ [delim] ++ fst eb]) roles ++ [ROLES].

Definition role_names (roles : list (str * list str)) (reference pattern : str) : list str :=
  filter (fun m => has_prefix m ROLES) (filter_mailboxes (role_paths roles) reference pattern).

Definition count_delim (s : str) : nat := length (filter (Ascii.eqb delim) s).
Definition role_noselect (n : str) : bool := Nat.leb (count_delim n) 1.
