(** Model of raven's SEARCH evaluator, statement by statement, bugs included.

    Go sources mirrored here
      internal/server/message/message.go :
        HandleSearch / SearchSelectedMailbox (argument handling only: CHARSET, criteria string),
        evaluateSearchCriteria, parseSearchTokens, matchesSearchCriteria,
        evaluateTokens (isSequenceSet, matchesSequenceSet, matchesUIDSet: Model/SeqSet.v),
        unquote, requiresArgument, matchesDate, parseIMAPDate
      (the keys that read the message text are in Model/SearchText.v)
      internal/server/uid/uid.go : handleUIDSearch   -- delegates to message.SearchSelectedMailbox
      internal/server/connection.go : handleClient's  parts := strings.Fields(line)

    [option] results: [None] is a Go run-time panic.  Since fix bb43d4f (guard before the
    second OR key) no branch of the evaluator produces it any more; the type is kept.  No proofs in this file. *)
From Coq Require Import String Ascii List Bool Arith NArith ZArith.
From Raven Require Import Base.GoStr.
From Raven Require Model.SeqSet.
Import ListNotations.
Local Open Scope Z_scope.

(** calendar date (year, month 1..12, day): what [t.Year(), t.Month(), t.Day()] give,
    i.e. the date IN THE ZONE THE time.Time CARRIES (for a parsed Date: field the date as
    written, whatever the offset and the time of day) — never the UTC day of the instant.
    matchesDate rebuilds both dates at 00:00 UTC from these triples, so the comparison
    is the comparison of the triples. *)
Definition date := (Z * Z * Z)%type.

(** message.messageInfo, plus the text parser.ReconstructMessage... returns for it *)
Record msg := mk_msg {
  m_seq : Z; m_uid : Z; m_flags : str; m_text : str; m_idate : date;
  m_maxseq : Z;   (* messageInfo.maxSeqNum: highest sequence number in the mailbox *)
  m_maxuid : Z }. (* messageInfo.maxUID: highest UID in the mailbox *)

Definition dq : ascii := """"%char.
Definition sp : ascii := " "%char.
Definition tab : ascii := ascii_of_nat 9.
Definition lpar : ascii := "("%char.
Definition rpar : ascii := ")"%char.
Definition colon : ascii := ":"%char.
Definition star : ascii := "*"%char.

(** ** parseSearchTokens: [cur] is the strings.Builder (reversed) *)
Fixpoint pst (s : str) (cur : str) (inq : bool) (inp : Z) : list str :=
  match s with
  | [] => match cur with [] => [] | _ => [rev cur] end
  | ch :: s' =>
      if Ascii.eqb ch dq then pst s' (ch :: cur) (negb inq) inp
      else if Ascii.eqb ch lpar then pst s' (ch :: cur) inq (if inq then inp else inp + 1)
      else if Ascii.eqb ch rpar then pst s' (ch :: cur) inq (if inq then inp else inp - 1)
      else if Ascii.eqb ch sp || Ascii.eqb ch tab then
        if inq || (0 <? inp) then pst s' (ch :: cur) inq inp
        else match cur with
             | [] => pst s' [] inq inp
             | _ => rev cur :: pst s' [] inq inp
             end
      else pst s' (ch :: cur) inq inp
  end.
Definition parse_search_tokens (criteria : str) : list str := pst criteria [] false 0.

(** ** isSequenceSet / matchesSequenceSet / matchesUIDSet: since fix 32751d9 the
    set matcher is the ONE definition of Model/SeqSet.v (C09):
    [Model.SeqSet.is_sequence_set], [Model.SeqSet.matches_sequence_set num set largest] *)

(** ** unquote *)
Definition unquote (s : str) : str :=
  let t := trim_space s in
  match t with
  | q :: r =>
      match rev r with
      | q2 :: mid_rev => if Ascii.eqb q dq && Ascii.eqb q2 dq then rev mid_rev else t
      | [] => t
      end
  | [] => t
  end.

(** ** the strings of [switch token] in evaluateTokens and requiresArgument *)
Inductive kw :=
| KwALL | KwANSWERED | KwDELETED | KwDRAFT | KwFLAGGED | KwNEW | KwOLD | KwRECENT | KwSEEN
| KwUNANSWERED | KwUNDELETED | KwUNDRAFT | KwUNFLAGGED | KwUNSEEN
| KwNOT | KwOR
| KwBCC | KwCC | KwFROM | KwSUBJECT | KwTO | KwBODY | KwTEXT
| KwHEADER | KwKEYWORD | KwUNKEYWORD | KwLARGER | KwSMALLER | KwUID
| KwBEFORE | KwON | KwSINCE | KwSENTBEFORE | KwSENTON | KwSENTSINCE.

Definition kw_table : list (str * kw) :=
  [ (S_ "ALL", KwALL); (S_ "ANSWERED", KwANSWERED); (S_ "DELETED", KwDELETED); (S_ "DRAFT", KwDRAFT);
    (S_ "FLAGGED", KwFLAGGED); (S_ "NEW", KwNEW); (S_ "OLD", KwOLD); (S_ "RECENT", KwRECENT);
    (S_ "SEEN", KwSEEN); (S_ "UNANSWERED", KwUNANSWERED); (S_ "UNDELETED", KwUNDELETED);
    (S_ "UNDRAFT", KwUNDRAFT); (S_ "UNFLAGGED", KwUNFLAGGED); (S_ "UNSEEN", KwUNSEEN);
    (S_ "NOT", KwNOT); (S_ "OR", KwOR);
    (S_ "BCC", KwBCC); (S_ "CC", KwCC); (S_ "FROM", KwFROM); (S_ "SUBJECT", KwSUBJECT);
    (S_ "TO", KwTO); (S_ "BODY", KwBODY); (S_ "TEXT", KwTEXT);
    (S_ "HEADER", KwHEADER); (S_ "KEYWORD", KwKEYWORD); (S_ "UNKEYWORD", KwUNKEYWORD);
    (S_ "LARGER", KwLARGER); (S_ "SMALLER", KwSMALLER); (S_ "UID", KwUID);
    (S_ "BEFORE", KwBEFORE); (S_ "ON", KwON); (S_ "SINCE", KwSINCE);
    (S_ "SENTBEFORE", KwSENTBEFORE); (S_ "SENTON", KwSENTON); (S_ "SENTSINCE", KwSENTSINCE) ].

Fixpoint kw_lookup (t : str) (tbl : list (str * kw)) : option kw :=
  match tbl with
  | [] => None
  | (n, k) :: tbl' => if str_eqb t n then Some k else kw_lookup t tbl'
  end.
Definition kw_of (t : str) : option kw := kw_lookup t kw_table.

(** requiresArgument *)
Definition requires_argument (token : str) : bool :=
  match kw_of token with
  | Some (KwBCC | KwCC | KwFROM | KwSUBJECT | KwTO | KwBODY | KwTEXT
         | KwKEYWORD | KwUNKEYWORD | KwLARGER | KwSMALLER | KwUID
         | KwBEFORE | KwON | KwSINCE | KwSENTBEFORE | KwSENTON | KwSENTSINCE | KwHEADER) => true
  | _ => false
  end.

(** ** matchesDate on calendar triples; parseIMAPDate (layout "2-Jan-2006"; the
    second layout "02-Jan-2006" accepts a subset of the first) *)
Definition month_names : list str :=
  [S_ "JAN"; S_ "FEB"; S_ "MAR"; S_ "APR"; S_ "MAY"; S_ "JUN"; S_ "JUL"; S_ "AUG"; S_ "SEP"; S_ "OCT"; S_ "NOV"; S_ "DEC"].

Fixpoint month_lookup (m : str) (l : list str) (i : Z) : option Z :=
  match l with
  | [] => None
  | n :: l' => if str_eqb (to_upper m) n then Some i else month_lookup m l' (i + 1)
  end.
Definition month_of (m : str) : option Z := month_lookup m month_names 1.

Definition is_leap (y : Z) : bool := (y mod 4 =? 0) && (negb (y mod 100 =? 0) || (y mod 400 =? 0)).
Definition days_in (m y : Z) : Z :=
  if m =? 2 then (if is_leap y then 29 else 28)
  else if (m =? 4) || (m =? 6) || (m =? 9) || (m =? 11) then 30 else 31.

Definition mk_date (dd mon yyyy : str) : option date :=
  match month_of mon with
  | Some m =>
      let d := digits_val dd 0 in
      let y := digits_val yyyy 0 in
      if (1 <=? d) && (d <=? days_in m y) then Some (y, m, d) else None
  | None => None
  end.

Definition minus : ascii := "-"%char.

Definition parse_imap_date (s : str) : option date :=
  match s with
  | d1 :: r1 =>
      if is_digit d1 then
        let '(dd, r2) := match r1 with
                         | d2 :: r2' => if is_digit d2 then ([d1; d2], r2') else ([d1], r1)
                         | [] => ([d1], r1)
                         end in
        match r2 with
        | h1 :: a :: b :: c :: h2 :: y1 :: y2 :: y3 :: y4 :: [] =>
            if Ascii.eqb h1 minus && Ascii.eqb h2 minus && forallb is_digit [y1; y2; y3; y4]
            then mk_date dd [a; b; c] [y1; y2; y3; y4] else None
        | _ => None
        end
      else None
  | [] => None
  end.

Definition date_cmp (a b : date) : comparison :=
  let '(ya, ma, da) := a in let '(yb, mb, db) := b in
  match ya ?= yb with
  | Eq => match ma ?= mb with Eq => da ?= db | c => c end
  | c => c
  end.

(** comparison: 0 BEFORE, 1 ON, 2 SINCE *)
Inductive dcmp := CBefore | COn | CSince.
Definition matches_date (internal : date) (date_str : str) (c : dcmp) : bool :=
  match parse_imap_date date_str with
  | None => false
  | Some target =>
      match c, date_cmp internal target with
      | CBefore, Lt => true
      | COn, Eq => true
      | CSince, (Eq | Gt) => true
      | _, _ => false
      end
  end.

(** ** shared by the text keys (Model/SearchText.v) and the field semantics (Spec/Search.v) *)

(** the header lines: strings.Split(raw, "\n"), each TrimRight(line, "\r"), up to the first empty one *)
Fixpoint header_lines (lines : list str) : list str :=
  match lines with
  | [] => []
  | l :: ls => match trim_right l [CR] with
               | [] => []
               | line => line :: header_lines ls
               end
  end.

(** [line[strings.Index(line, ":")+1:]] *)
Definition value_after_colon (line : str) : str :=
  match index line [colon] with
  | Some i => skipn (S i) line
  | None => line
  end.

(** net/mail.ParseDate, modelled on its canonical domain: RFC 5322 date-time
    [ day-of-week "," ] day month year hour ":" minute [ ":" second ] zone
    with blank-separated parts, one- or two-digit day and hour, four-digit
    year, zone = sign and four digits or an alphabetic zone of three letters /
    four ending in T / "UT".  The result is the calendar date AS WRITTEN.
    (Go additionally accepts two-digit years, comments and text after the
    zone; those forms are outside the model and are not generated.) *)
Definition day_names : list str := [S_ "SUN"; S_ "MON"; S_ "TUE"; S_ "WED"; S_ "THU"; S_ "FRI"; S_ "SAT"].
Definition two_digits_below (a b : ascii) (lim : Z) : bool :=
  is_digit a && is_digit b && (digits_val [a; b] 0 <? lim).
Definition zone_ok (z : str) : bool :=
  match z with
  | [s; a; b; c; d] =>
      ((Ascii.eqb s "+"%char || Ascii.eqb s minus) && forallb is_digit [a; b; c; d]
         && (digits_val [a; b] 0 <=? 24) && (digits_val [c; d] 0 <? 60))
  | [a; b; c] => forallb is_upper [a; b; c]
  | [a; b; c; d] => forallb is_upper [a; b; c; d] && Ascii.eqb d "T"%char
  | [a; b] => Ascii.eqb a "U"%char && Ascii.eqb b "T"%char
  | _ => false
  end.
Definition time_ok (t : str) : bool :=
  let hms (h : str) (r : str) : bool :=
    match h with
    | [h1] => is_digit h1
    | [h1; h2] => two_digits_below h1 h2 24
    | _ => false
    end &&
    match r with
    | [m1; m2] => two_digits_below m1 m2 60
    | [m1; m2; c; s1; s2] => two_digits_below m1 m2 60 && Ascii.eqb c colon && two_digits_below s1 s2 60
    | _ => false
    end in
  match t with
  | h1 :: c :: r => if Ascii.eqb c colon then hms [h1] r
                    else match r with c2 :: r' => if Ascii.eqb c2 colon then hms [h1; c] r' else false | [] => false end
  | _ => false
  end.
Definition dow_token (w : str) : bool :=
  match w with
  | [a; b; c; d] => existsb (str_eqb (to_upper [a; b; c])) day_names && Ascii.eqb d ","%char
  | _ => false
  end.
(** blank-separated parts; [sep] says what a blank is *)
Fixpoint fields_by_aux (sep : ascii -> bool) (s : str) (cur : str) : list str :=
  match s with
  | [] => match cur with [] => [] | _ => [rev cur] end
  | c :: s' =>
      if sep c
      then match cur with [] => fields_by_aux sep s' [] | _ => rev cur :: fields_by_aux sep s' [] end
      else fields_by_aux sep s' (c :: cur)
  end.
Definition fields_by (sep : ascii -> bool) (s : str) : list str := fields_by_aux sep s [].

Definition mail_date_by (sep : ascii -> bool) (v : str) : option date :=
  let toks := fields_by sep v in
  let toks := match toks with w :: rest => if dow_token w then rest else toks | [] => [] end in
  match toks with
  | [dd; mon; yyyy; tm; zone] =>
      if forallb is_digit dd && ((length dd =? 1) || (length dd =? 2))%nat
         && forallb is_digit yyyy && (length yyyy =? 4)%nat && (length mon =? 3)%nat
         && time_ok tm && zone_ok zone
      then mk_date dd mon yyyy else None
  | _ => None
  end.
(** net/mail.ParseDate hands the parts to time.Parse, whose layouts are
    separated by SPACE only: a horizontal tab between the parts (RFC 5322 FWS
    allows it, e.g. a Date: field folded with a tab) makes the parse fail *)
Definition mail_date (v : str) : option date := mail_date_by (fun c => Ascii.eqb c sp) v.
(** [strings.ReplaceAll(value, "\t", " ")] (fix "a Date: field folded with a tab"): RFC 5322 folding
    white space is SP or HTAB *)
Definition wsp_to_sp (v : str) : str := map (fun c => if Ascii.eqb c tab then sp else c) v.

(** ** the keys that need the message text (Model/SearchText.v instantiates them) *)
Record text_ops := mk_text_ops {
  t_header_or_body : msg -> kw -> str -> bool;   (* matchesHeaderOrBody *)
  t_header : msg -> str -> str -> bool;          (* matchesHeader *)
  t_size : msg -> Z -> bool -> bool;             (* matchesSize *)
  t_sent_date : msg -> str -> dcmp -> bool       (* matchesSentDate *) }.

Definition flag_answered := S_ "\Answered".
Definition flag_deleted := S_ "\Deleted".
Definition flag_draft := S_ "\Draft".
Definition flag_flagged := S_ "\Flagged".
Definition flag_recent := S_ "\Recent".
Definition flag_seen := S_ "\Seen".

(** message.hasFlag (fix 378938d): the flag string is split with strings.Fields
    and whole flags are compared.  [flag_eqb] is the comparison of that loop —
    ONE definition: [f == flag] in 378938d, [strings.EqualFold(f, flag)] since
    d007c6d (ASCII model of EqualFold: equal after upper-casing a-z). *)
Definition flag_eqb (f flag : str) : bool := equal_fold f flag.
Definition has_flag_go (flags flag : str) : bool := existsb (fun f => flag_eqb f flag) (fields flags).

(** [if !c { return false }; i++; continue] *)
Definition andk (c : bool) (k : option bool) : option bool := if c then k else Some false.
(** NOT: [if evaluateTokens(next) { return false }] *)
Definition notk (r : option bool) (k : option bool) : option bool :=
  match r with None => None | Some true => Some false | Some false => k end.
(** OR: [if !eval(k1) && !eval(k2) { return false }] (short circuit) *)
Definition ork (r1 r2 : option bool) (k : option bool) : option bool :=
  match r1 with
  | None => None
  | Some true => k
  | Some false => match r2 with None => None | Some true => k | Some false => Some false end
  end.

(** ** searchKeyLength (fix "NOT and OR take complete search keys"): the number of
    tokens of the search key that starts the list; [fuel] bounds the recursion,
    every call is on a strict suffix, so [S (length toks)] is always enough *)
Fixpoint key_len (fuel : nat) (toks : list str) : nat :=
  match fuel with
  | O => 1
  | S f =>
      match toks with
      | [] => 1
      | t :: rest =>
          match kw_of (to_upper t) with
          | Some KwNOT => 1 + key_len f rest
          | Some KwOR => let n1 := key_len f rest in 1 + n1 + key_len f (skipn n1 rest)
          | Some KwHEADER => 3
          | _ => if requires_argument (to_upper t) then 2 else 1
          end
      end
  end.
Definition search_key_length (toks : list str) : nat := key_len (S (length toks)) toks.

(** [len(token) >= 2 && token[0] == '(' && token[len(token)-1] == ')'] *)
Definition is_group (token : str) : bool :=
  match token with
  | c :: r => match rev r with
              | c2 :: _ => Ascii.eqb c lpar && Ascii.eqb c2 rpar
              | [] => false
              end
  | [] => false
  end.
(** [tokens[i][1 : len(tokens[i])-1]] *)
Definition group_inner (t : str) : str := match t with _ :: r => removelast r | [] => [] end.

(** list: [if !evaluateTokens(inner) { return false }] *)
Definition seqk (r : option bool) (k : option bool) : option bool :=
  match r with None => None | Some true => k | Some false => Some false end.

(** ** evaluateTokens / evaluateKeys (fix "SEARCH measures nested NOT/OR keys once"):
    the lengths of the keys that start at every token are computed once per token
    list (searchKeyLengths, right to left) and a nested key is evaluated with the
    matching part of that table.  Here the table is not materialised: [ctx] is what
    follows the current slice in the list the table was computed for, so that the
    entry for the position of [rest] is [search_key_length (rest ++ ctx)]
    (C12's lens_correct: the table holds searchKeyLength(tokens, i) at every i).
    The loop over [tokens[i:]].  The Go function recurses on
    the slices of NOT / OR and on the re-tokenised contents of a parenthesised
    list; [fuel] bounds loop iterations plus nesting and [None] is "out of
    fuel" (the code has no run-time failure).  [eval_tokens] supplies a fuel
    that is enough for every input (Proof/SearchTotal.v). *)
Section Eval.
Variable T : text_ops.
Variable m : msg.

Fixpoint eval_loop (fuel : nat) (tokens : list str) (ctx : list str) {struct fuel} : option bool :=
  match fuel with
  | O => None
  | S fu =>
  match tokens with
  | [] => Some true
  | t :: rest =>
      let token := to_upper t in
      (* parenthesised list: one token; every key of the list must match *)
      if is_group token then seqk (eval_loop fu (parse_search_tokens (group_inner t)) []) (eval_loop fu rest ctx)
      else if Model.SeqSet.is_sequence_set token
      then andk (Model.SeqSet.matches_sequence_set (m_seq m) token (m_maxseq m)) (eval_loop fu rest ctx)
      else
        match kw_of token with
        | Some KwALL => eval_loop fu rest ctx
        | Some KwANSWERED => andk (has_flag_go (m_flags m) flag_answered) (eval_loop fu rest ctx)
        | Some KwDELETED => andk (has_flag_go (m_flags m) flag_deleted) (eval_loop fu rest ctx)
        | Some KwDRAFT => andk (has_flag_go (m_flags m) flag_draft) (eval_loop fu rest ctx)
        | Some KwFLAGGED => andk (has_flag_go (m_flags m) flag_flagged) (eval_loop fu rest ctx)
        | Some KwNEW => andk (has_flag_go (m_flags m) flag_recent && negb (has_flag_go (m_flags m) flag_seen)) (eval_loop fu rest ctx)
        | Some KwOLD => andk (negb (has_flag_go (m_flags m) flag_recent)) (eval_loop fu rest ctx)
        | Some KwRECENT => andk (has_flag_go (m_flags m) flag_recent) (eval_loop fu rest ctx)
        | Some KwSEEN => andk (has_flag_go (m_flags m) flag_seen) (eval_loop fu rest ctx)
        | Some KwUNANSWERED => andk (negb (has_flag_go (m_flags m) flag_answered)) (eval_loop fu rest ctx)
        | Some KwUNDELETED => andk (negb (has_flag_go (m_flags m) flag_deleted)) (eval_loop fu rest ctx)
        | Some KwUNDRAFT => andk (negb (has_flag_go (m_flags m) flag_draft)) (eval_loop fu rest ctx)
        | Some KwUNFLAGGED => andk (negb (has_flag_go (m_flags m) flag_flagged)) (eval_loop fu rest ctx)
        | Some KwUNSEEN => andk (negb (has_flag_go (m_flags m) flag_seen)) (eval_loop fu rest ctx)
        | Some KwNOT =>
            (* NOT <search-key>: the complete key; its length is read from the table *)
            let n := search_key_length (rest ++ ctx) in
            if (length rest <? n)%nat then Some false
            else notk (eval_loop fu (firstn n rest) (skipn n rest ++ ctx)) (eval_loop fu (skipn n rest) ctx)
        | Some KwOR =>
            (* OR <search-key1> <search-key2>: two complete keys *)
            let n1 := search_key_length (rest ++ ctx) in
            let n2 := search_key_length (skipn n1 (rest ++ ctx)) in
            if (length rest <? n1 + n2)%nat then Some false
            else ork (eval_loop fu (firstn n1 rest) (skipn n1 rest ++ ctx))
                     (eval_loop fu (firstn n2 (skipn n1 rest)) (skipn (n1 + n2) rest ++ ctx))
                     (eval_loop fu (skipn (n1 + n2) rest) ctx)
        | Some ((KwBCC | KwCC | KwFROM | KwSUBJECT | KwTO | KwBODY | KwTEXT) as k) =>
            match rest with
            | [] => Some false
            | a :: rest1 => andk (t_header_or_body T m k (unquote a)) (eval_loop fu rest1 ctx)
            end
        | Some KwHEADER =>
            match rest with
            | f :: rest1 =>
                match rest1 with
                | s :: rest2 => andk (t_header T m (unquote f) (unquote s)) (eval_loop fu rest2 ctx)
                | [] => Some false
                end
            | [] => Some false
            end
        | Some KwKEYWORD =>
            match rest with
            | [] => Some false
            | a :: rest1 => andk (has_flag_go (m_flags m) (unquote a)) (eval_loop fu rest1 ctx)
            end
        | Some KwUNKEYWORD =>
            match rest with
            | [] => Some false
            | a :: rest1 => andk (negb (has_flag_go (m_flags m) (unquote a))) (eval_loop fu rest1 ctx)
            end
        | Some KwLARGER =>
            match rest with
            | [] => Some false
            | a :: rest1 =>
                andk (match atoi a with Some size => t_size T m size true | None => false end) (eval_loop fu rest1 ctx)
            end
        | Some KwSMALLER =>
            match rest with
            | [] => Some false
            | a :: rest1 =>
                andk (match atoi a with Some size => t_size T m size false | None => false end) (eval_loop fu rest1 ctx)
            end
        | Some KwUID =>
            match rest with
            | [] => Some false
            | a :: rest1 => andk (Model.SeqSet.matches_sequence_set (m_uid m) a (m_maxuid m)) (eval_loop fu rest1 ctx)
            end
        | Some KwBEFORE =>
            match rest with [] => Some false
            | a :: rest1 => andk (matches_date (m_idate m) (unquote a) CBefore) (eval_loop fu rest1 ctx) end
        | Some KwON =>
            match rest with [] => Some false
            | a :: rest1 => andk (matches_date (m_idate m) (unquote a) COn) (eval_loop fu rest1 ctx) end
        | Some KwSINCE =>
            match rest with [] => Some false
            | a :: rest1 => andk (matches_date (m_idate m) (unquote a) CSince) (eval_loop fu rest1 ctx) end
        | Some KwSENTBEFORE =>
            match rest with [] => Some false
            | a :: rest1 => andk (t_sent_date T m (unquote a) CBefore) (eval_loop fu rest1 ctx) end
        | Some KwSENTON =>
            match rest with [] => Some false
            | a :: rest1 => andk (t_sent_date T m (unquote a) COn) (eval_loop fu rest1 ctx) end
        | Some KwSENTSINCE =>
            match rest with [] => Some false
            | a :: rest1 => andk (t_sent_date T m (unquote a) CSince) (eval_loop fu rest1 ctx) end
        | None => eval_loop fu rest ctx                                (* default: unknown key, i++ *)
        end
  end
  end.
End Eval.

(** every token costs its length plus one: bounds iterations and nesting *)
Definition tokens_measure (toks : list str) : nat := fold_right (fun t n => S (length t) + n)%nat O toks.
Definition eval_tokens (T : text_ops) (m : msg) (tokens : list str) : option bool :=
  eval_loop T m (S (tokens_measure tokens)) tokens [].

(** matchesSearchCriteria *)
Definition matches_search_criteria (T : text_ops) (m : msg) (tokens : list str) : option bool :=
  match tokens with [] => Some true | _ => eval_tokens T m tokens end.

(** evaluateSearchCriteria: the matching entries of the listing, in listing
    order (a panicking evaluation would end the command: [None]) *)
Fixpoint collect_seq (T : text_ops) (tokens : list str) (msgs : list msg) : option (list msg) :=
  match msgs with
  | [] => Some []
  | m :: ms =>
      match matches_search_criteria T m tokens with
      | None => None
      | Some b =>
          match collect_seq T tokens ms with
          | None => None
          | Some l => Some (if b then m :: l else l)
          end
      end
  end.

Definition all_str := S_ "ALL".
Definition evaluate_search_criteria (T : text_ops) (msgs : list msg) (criteria : str) : option (list msg) :=
  let criteria := match trim_space criteria with [] => all_str | _ => criteria end in
  collect_seq T (parse_search_tokens criteria) msgs.

(** ** message.SearchSelectedMailbox (fix "UID SEARCH runs the SEARCH evaluator"):
    SEARCH and UID SEARCH on the selected mailbox of an authenticated session.
    [args] = the words after the command name; [by_uid] = report UIDs instead
    of sequence numbers. *)
Inductive reply := RBad | RNo | ROk (l : list Z) | RPanic.

(** [for i := range messages { messages[i].maxSeqNum = len(messages); messages[i].maxUID = messages[len-1].uid }] *)
Definition fill_max (msgs : list msg) : list msg :=
  let n := Z.of_nat (length msgs) in
  let mu := m_uid (last msgs (mk_msg 0 0 [] [] (0, 0, 0) 0 0)) in
  map (fun m => mk_msg (m_seq m) (m_uid m) (m_flags m) (m_text m) (m_idate m) n mu) msgs.

Definition search_selected (T : text_ops) (args : list str) (by_uid : bool) (msgs : list msg) : reply :=
  if (length args <? 1)%nat then RBad
  else
    let with_charset := (1 <? length args)%nat && str_eqb (to_upper (nth 0 args [])) (S_ "CHARSET") in
    let charset := if with_charset then to_upper (nth 1 args []) else S_ "US-ASCII" in
    let start := if with_charset then 2%nat else 0%nat in
    if with_charset && negb (str_eqb charset (S_ "US-ASCII")) && negb (str_eqb charset (S_ "UTF-8")) then RNo
    else if (length args <=? start)%nat then RBad
    else
      match evaluate_search_criteria T (fill_max msgs) (join (skipn start args) [sp]) with
      | None => RPanic
      | Some l => ROk (map (if by_uid then m_uid else m_seq) l)
      end.

(** HandleSearch: [parts] = strings.Fields(line) = tag :: "SEARCH" :: args *)
Definition handle_search (T : text_ops) (parts : list str) (msgs : list msg) : reply :=
  search_selected T (skipn 2 parts) false msgs.

(** uid.handleUIDSearch: [parts] = tag :: "UID" :: "SEARCH" :: args — the same
    evaluation, UIDs reported *)
Definition handle_uid_search (T : text_ops) (parts : list str) (msgs : list msg) : reply :=
  search_selected T (skipn 3 parts) true msgs.
