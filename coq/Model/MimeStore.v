(** Tree-level model of what raven does to a message between submission
    (LMTP DATA / IMAP APPEND) and FETCH BODY[]:

      internal/delivery/parser/parser.go
        ParseMIMEMessage, parseMultipart            -> [parse_msg], [seg]
        StoreMessagePerUserWithSharedDBAndS3        -> [store_parts], [store]
        ReconstructMessageWithSharedDBAndS3,
        reconstructPartDFS, writePartHeaders,
        writePartContentWithS3                      -> [fetch], [build], [emit_leaf]
      internal/db/sqlite.go
        decodeContentForHashing, StoreBlobWithEncoding, GetBlob
                                                    -> [decode_for_hashing], [store_blob], [get_blob]

    Go's net/mail, mime.ParseMediaType and mime/multipart.Reader are NOT
    modelled at octet level: the model starts from the tree those parsers
    deliver for a message of the grammar (Spec/Mime.v, [serialize]); the
    correspondence check compares, on every run, the model's prediction with
    what the implementation returns for the serialised octets.
    sha256 is the Section variable [hash]; database ids are positions (row ids
    increase in insertion order).  Bugs are modelled as they are.
    Code as of the fixes C02-1 .. C02-6 and of 84a3070 / eb5748f (parts are written
    as stored, followed by the CRLF of the delimiter; no base64 re-wrap) and 12a5042. *)
From Coq Require Import String Ascii List Bool Arith NArith ZArith.
From Raven Require Import Base.GoStr Base.GoStrMime Spec.Mime Model.MimeHeaders.
Import ListNotations.

Section Store.
Variable hash : str -> str.

(** ---- blobs table of the shared database: (sha256_hash, content), id = position *)
Definition blobs := list (str * str).

(** db.decodeContentForHashing + the fall-back of StoreBlobWithEncoding *)
Definition decode_for_hashing (content encoding : str) : str :=
  let e := to_lower (trim_space encoding) in
  if str_eqb e s_base64 then
    match b64_decode content with Some d => d | None => content end
  else if str_eqb e s_qp then
    match qp_decode content with Some d => d | None => content end
  else content.

Fixpoint find_key (k : str) (bs : blobs) (i : nat) : option nat :=
  match bs with
  | [] => None
  | (k', _) :: r => if str_eqb k' k then Some i else find_key k r (S i)
  end.

(** db.StoreBlobWithEncoding: an existing row with the same hash of the DECODED
    content is reused, whatever encoded form it holds *)
Definition store_blob (bs : blobs) (content encoding : str) : blobs * nat :=
  let k := hash (decode_for_hashing content encoding) in
  match find_key k bs 0 with
  | Some i => (bs, i)
  | None => (bs ++ [(k, content)], length bs)
  end.

(** db.GetBlob. Since 12a5042 (parser.ReadPartContent) a blob row that cannot be
    read makes the rebuild fail (FETCH answers NO) instead of reading as empty. The
    model has no deletion of blob rows, and [c02_blobs_invisible] shows that every id
    a stored row holds is a row of the table at any later time: the [None] case below
    is unreachable from [store], so the two behaviours do not differ here (blob
    faults are property C15). *)
Definition get_blob (bs : blobs) (id : nat) : str :=
  match nth_error bs id with Some (_, c) => c | None => [] end.

(** ---- parsed parts (parser.MessagePart) and stored rows (message_parts) *)
Record ppart := mk_pp {
  pp_parent : option nat;     (* index into the parts slice *)
  pp_type : str; pp_disp : str; pp_cte : str; pp_charset : str;
  pp_filename : str; pp_cid : str; pp_text : str }.

Record row := mk_row {
  r_pn : nat;                 (* part_number: relative, 1-based *)
  r_parent : option nat;      (* parent_part_id *)
  r_part : ppart;             (* text_content cleared when a blob is used *)
  r_blob : option nat }.

Record stored := mk_stored { s_hdrs : list header; s_rows : list row }.

Definition s_multipart_ := S_ "multipart/".
Definition is_multipart_type (t : str) : bool := has_prefix (to_lower t) s_multipart_.
Definition s_text_ := S_ "text/".

(** one leaf inside parseMultipart: multipart.Reader.NextPart decodes
    quoted-printable itself and deletes the header; a read error drops the part;
    the file name is Part.FileName() (Content-Disposition) or else the name
    parameter of Content-Type (C02-5) *)
Definition parse_leaf (parent : option nat) (l : leaf) : option ppart :=
  let qp := equal_fold (l_cte l) s_qp in
  match (if qp then qp_decode (l_body l) else Some (l_body l)) with
  | None => None
  | Some content =>
      Some (mk_pp parent (to_lower (eff_type l)) (l_disp l) (if qp then [] else l_cte l)
                  (eff_charset l) (match l_filename l with [] => l_ctname l | f => f end) (l_cid l) content)
  end.

Definition container_part (parent : option nat) (subtype : str) : ppart :=
  mk_pp parent (s_multipart_ ++ to_lower subtype) [] [] [] [] [] [].

(** parseMultipart: pre-order flattening; [k] = len(allParts) on entry *)
Fixpoint seg (p : option nat) (k : nat) (t : mime) {struct t} : list ppart :=
  match t with
  | Leaf l => match parse_leaf p l with Some x => [x] | None => [] end
  | Multi st ks =>
      container_part p st ::
      (fix segs (k' : nat) (l : list mime) {struct l} : list ppart :=
         match l with
         | [] => []
         | t' :: r => let s := seg (Some k) k' t' in s ++ segs (k' + length s) r
         end) (S k) ks
  end.

Fixpoint segs (parent : nat) (k' : nat) (l : list mime) : list ppart :=
  match l with
  | [] => []
  | t' :: r => let s := seg (Some parent) k' t' in s ++ segs parent (k' + length s) r
  end.

(** first header field with the given (lower-case) name: mail.Header.Get *)
Fixpoint header_get (hs : list header) (lname : str) : str :=
  match hs with
  | [] => []
  | (n, v) :: r => if str_eqb (to_lower (trim_space n)) lname then trim_space v else header_get r lname
  end.

Definition media_type_of (ct : str) : str :=
  match index_byte ct ";"%char with
  | Some i => to_lower (trim_space (firstn i ct))
  | None => to_lower (trim_space ct)
  end.

Definition s_cte_name := S_ "content-transfer-encoding".
Definition s_mime_version := S_ "mime-version".
Definition is_cte_name (n : str) : bool := str_eqb (to_lower (trim_space n)) s_cte_name.

(** ParseMIMEMessage: headers + parts slice *)
Definition parse_msg (m : msg) : list header * list ppart :=
  match m_body m with
  | Single body =>
      let hs := map hdr_store (m_hdrs m) in
      let ct := header_get (m_hdrs m) s_content_type in
      let mt := match ct with [] => S_ "text/plain" | _ => media_type_of ct end in
      let charset := match ct with [] => S_ "us-ascii" | _ => [] end in
        (* with a stored Content-Type the charset column is never read back *)
      (* C02-1: multipart/* without boundary is an ordinary single part. (A [Single]
         body under a multipart/* type WITH boundary is not a message of the grammar.) *)
      (hs, [mk_pp None mt [] (header_get (m_hdrs m) s_cte_name) charset [] [] body])
  | Multipart st ks =>
      (map hdr_store (m_hdrs m ++ [(S_ "Content-Type", S_ " multipart/" ++ st)]),
       container_part None st :: segs 0 1 ks)
  end.

Definition opt_nat_eqb (a b : option nat) : bool :=
  match a, b with
  | Some x, Some y => Nat.eqb x y
  | None, None => true
  | _, _ => false
  end.

Definition out_of_line (p : ppart) : bool :=
  (1024 <? N.of_nat (length (pp_text p)))%N || nonempty (pp_filename p).

(** the loop of StoreMessagePerUserWithSharedDBAndS3 over parsed.Parts.
    [faults]: one boolean per out-of-line part, in order ([true] = the write to the
    blobs table of the shared database fails: StoreBlob(S3)WithEncoding returns an
    error — database locked past the busy timeout, I/O fault, UNIQUE race — while the
    per-user store stays writable). A failed blob store leaves the blob table as it
    is and the part keeps its content in line; the store call still succeeds. *)
Fixpoint store_parts (faults : list bool) (bs : blobs) (done todo : list ppart) (rows : list row) : blobs * list row :=
  match todo with
  | [] => (bs, rows)
  | p :: rest =>
      let '(faults', bs', blob, text) :=
        if out_of_line p
        then
          if hd false faults then (tl faults, bs, None, pp_text p)      (* blob store failed *)
          else
          let '(b, id) := store_blob bs (pp_text p) (pp_cte p) in
             (* C02-6 blobHoldsContent: the row must hold exactly these octets, else the
                part stays inline (the reference count is not modelled) *)
             if str_eqb (get_blob b id) (pp_text p) then (tl faults, b, Some id, []) else (tl faults, b, None, pp_text p)
        else (faults, bs, None, pp_text p) in
      let parent_db := match pp_parent p with
                       | Some j => if j <? length done then Some j else None
                       | None => None
                       end in
      let pn := S (length (filter (fun q => opt_nat_eqb (pp_parent q) (pp_parent p)) done)) in
      let p' := mk_pp (pp_parent p) (pp_type p) (pp_disp p) (pp_cte p) (pp_charset p)
                      (pp_filename p) (pp_cid p) text in
      store_parts faults' bs' (done ++ [p]) rest (rows ++ [mk_row pn parent_db p' blob])
  end.

Definition store (faults : list bool) (bs : blobs) (m : msg) : blobs * stored :=
  let '(hs, parts) := parse_msg m in
  let '(bs', rows) := store_parts faults bs [] parts [] in
  (bs', mk_stored hs rows).

(** ---- rebuild *)
Definition row_content (bs : blobs) (r : row) : str :=
  match r_blob r with Some id => get_blob bs id | None => pp_text (r_part r) end.

(** writePartContentWithS3 (84a3070, eb5748f): the content as it is stored, then the
    CRLF that belongs to the following delimiter — always, also after content that
    itself ends in CRLF; no re-wrapping of base64 text *)
Definition written_content (content : str) : str := content ++ crlf.

(** writePartHeaders + writePartContentWithS3, read back as a leaf *)
Definition emit_leaf (bs : blobs) (r : row) : leaf :=
  let p := r_part r in
  let is_text := has_prefix (to_lower (pp_type p)) s_text_ in
  let cte := if negb (is_blank (pp_cte p)) then pp_cte p else if is_text then S_ "7bit" else [] in
  let cid := if negb (is_blank (pp_cid p)) then pp_cid p else [] in
  let has_fn := negb (is_blank (pp_filename p)) in
  let '(disp, fname) :=
    if negb (is_blank (pp_disp p)) then
      (if has_fn && negb (contains (to_lower (pp_disp p)) (S_ "filename="))
       then pp_disp p ++ S_ "; filename=" ++ q (pp_filename p) else pp_disp p,
       if has_fn || contains (to_lower (pp_disp p)) (S_ "filename=") then pp_filename p else [])
    else if negb is_text && has_fn
         then (S_ "attachment; filename=" ++ q (pp_filename p), pp_filename p)
         else ([], []) in
  let ctname := if is_blank (pp_disp p) && has_fn then pp_filename p else [] in   (* C02-5 *)
  mk_leaf (pp_type p) (pp_charset p) ctname cte disp fname cid
          (drop_final_crlf (written_content (row_content bs r))).

Definition indexed {A} (l : list A) : list (nat * A) := combine (seq 0 (length l)) l.

(** sort.Slice(children, part_number ascending); sibling part numbers are
    distinct, so the order does not depend on Go's map iteration order *)
Fixpoint insert_pn (x : nat * row) (l : list (nat * row)) : list (nat * row) :=
  match l with
  | [] => [x]
  | y :: l' => if r_pn (snd y) <=? r_pn (snd x) then y :: insert_pn x l' else x :: l
  end.
Definition sort_pn (l : list (nat * row)) : list (nat * row) := fold_right insert_pn [] l.

Definition children (rows : list row) (i : nat) : list (nat * row) :=
  sort_pn (filter (fun jr => opt_nat_eqb (r_parent (snd jr)) (Some i)) (indexed rows)).

Definition nonempty_l {A} (l : list A) : bool := match l with [] => false | _ => true end.

(** reconstructPartDFS *)
Fixpoint build (fuel : nat) (bs : blobs) (rows : list row) (i : nat) (r : row) : mime :=
  match fuel with
  | O => Leaf (emit_leaf bs r)
  | S f =>
      (* C02-1: a multipart/* row without children is a leaf with content *)
      if is_multipart_type (pp_type (r_part r)) && nonempty_l (children rows i)
      then Multi (skipn 10 (pp_type (r_part r)))
                 (map (fun jr => build f bs rows (fst jr) (snd jr)) (children rows i))
      else Leaf (emit_leaf bs r)
  end.

Definition is_mime_hdr (n : str) : bool :=
  let l := to_lower (trim_space n) in
  str_eqb l s_content_type || str_eqb l s_mime_version || str_eqb l s_cte_name.

Definition out_hdr (h : header) : header := (fst h, S_ " " ++ snd h).

(** ReconstructMessageWithSharedDBAndS3, read back as a message. [None]: the
    function returns an error (FETCH then sends an empty literal), or a branch
    this model does not cover (see NOTES/C02.md): header fall-back from the
    addresses tables when no header row is left, several root rows. *)
Definition fetch (bs : blobs) (st : stored) : option msg :=
  match s_rows st with
  | [] => None
  | [r] =>
      match s_hdrs st with
      | [] => None
      | _ =>
          let p := r_part r in
          let extra :=
            if existsb (fun h => is_ct_name (fst h)) (s_hdrs st) then []
            else (S_ "Content-Type",
                  S_ " " ++ pp_type p ++ (match pp_charset p with [] => [] | c => S_ "; charset=" ++ c end))
                 :: (if existsb (fun h => is_cte_name (fst h)) (s_hdrs st) then []     (* C02-4 *)
                     else match pp_cte p with [] => [] | e => [(S_ "Content-Transfer-Encoding", S_ " " ++ e)] end) in
          Some (mk_msg (map out_hdr (s_hdrs st) ++ extra) (Single (row_content bs r)))
      end
  | _ =>
      let hs := filter (fun h => negb (is_mime_hdr (fst h))) (s_hdrs st) in
      match hs, filter (fun jr => opt_nat_eqb (r_parent (snd jr)) None) (indexed (s_rows st)) with
      | _ :: _, [(i, r)] =>
          if is_multipart_type (pp_type (r_part r)) && nonempty_l (children (s_rows st) i)
          then Some (mk_msg (map out_hdr hs ++ [(S_ "MIME-Version", S_ " 1.0")])
                            (Multipart (skipn 10 (pp_type (r_part r)))
                               (map (fun jr => build (length (s_rows st)) bs (s_rows st) (fst jr) (snd jr))
                                    (children (s_rows st) i))))
          else None
      | _, _ => None
      end
  end.

(** submission followed by a fetch at any later time ([later] = blobs added
    by messages stored in between) *)
Definition roundtrip (faults : list bool) (bs : blobs) (m : msg) (later : blobs) : option msg :=
  let '(bs', st) := store faults bs m in fetch (bs' ++ later) st.

End Store.
