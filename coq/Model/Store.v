(** Shared mailbox/UID state model: one per-user SQLite store of raven.

    Mirrors the tables [mailboxes] and [message_mailbox] of
    internal/db/user_schema.go + internal/db/sqlite.go (createMessageMailboxTable)
    and the row-level primitives every IMAP/LMTP operation is built from:
      CreateMailboxPerUser, GetMailboxByNamePerUser, IncrementUIDNextPerUser,
      AddMessageToMailboxPerUser, "SELECT COALESCE(MAX(uid),0)+1", the UNIQUE
      constraints UNIQUE(user_id,name) and UNIQUE(mailbox_id,uid).
    One store = one user (user_id is constant inside a per-user database, so
    UNIQUE(user_id,name) is UNIQUE(name)).  A multi-user world is a map of
    stores; every operation touches exactly one store.

    Conventions (model the code that exists, bugs included):
    - rowids: all three tables are [INTEGER PRIMARY KEY] WITHOUT AUTOINCREMENT,
      so a new row gets max(rowid)+1 and the id of a deleted top row is REUSED
      ([fresh_id]).  [messages] rows are never deleted: a counter ([next_msg]).
    - a failing SQL statement leaves the store as it was before THAT statement;
      a rolled-back transaction leaves it as it was before BEGIN.  Functions
      return [option] ([None] = the statement failed with a constraint error).
    - flags are kept as the list [strings.Fields flags]; every reader of the
      column in the modelled code either splits on white space or does a
      substring/LIKE test with a needle that contains no blank.
    - the clock (time.Now().Unix(), seconds) is an explicit argument [t].

    GHOST state (no counterpart in the database, never read by an operation's
    control flow, only appended to):
    - [lk_gid]  : identity of a message *instance* (one link insertion); row ids
                  cannot serve because SQLite reuses them.
    - [gser]    : next unused instance number.
    - [glog]    : every (mailbox name, UIDVALIDITY, UID, instance) that was ever
                  visible to a client: appended when a link is inserted and when
                  links come under a new name (RENAME) — the "assigned" log of C03.
    - [gused]   : every (name, UIDVALIDITY) pair a mailbox row ever carried (its
                  maximum UIDVALIDITY models the row of table uid_validity_seq).

    No proofs in this file. *)
From Coq Require Import String Ascii List Bool ZArith.
From Raven Require Import Base.GoStr.
Import ListNotations.
Local Open Scope Z_scope.

Record mbox := mkMbox { mb_id : Z; mb_name : str; mb_validity : Z; mb_next : Z }.
Record link := mkLink { lk_id : Z; lk_msg : Z; lk_mbox : Z; lk_uid : Z;
                        lk_flags : list str; lk_gid : Z (* ghost *) }.
Record gentry := mkGe { ge_name : str; ge_validity : Z; ge_uid : Z; ge_gid : Z }.

Record store := mkStore {
  mboxes : list mbox;          (* table mailboxes, in rowid order *)
  links : list link;           (* table message_mailbox, in insertion order *)
  next_msg : Z;                (* next rowid of table messages *)
  glog : list gentry;          (* ghost *)
  gused : list (str * Z);      (* ghost *)
  gser : Z                     (* ghost *)
}.

Definition world := store.

Definition set_mboxes (s : store) (m : list mbox) : store :=
  mkStore m (links s) (next_msg s) (glog s) (gused s) (gser s).
Definition set_links (s : store) (l : list link) : store :=
  mkStore (mboxes s) l (next_msg s) (glog s) (gused s) (gser s).

(** ---- SQLite helpers ---------------------------------------------------- *)

(** rowid of a row inserted into a table whose rowids are [ids] *)
Definition fresh_id (ids : list Z) : Z := 1 + fold_right Z.max 0 ids.

(** SQLite [text LIKE pattern] (default settings): [%] any sequence, [_] any
    single character, other characters compared case-insensitively for ASCII
    letters; no ESCAPE.  Bytes stand for characters (ASCII domain). *)
Definition c_pct : ascii := "%"%char.
Definition c_und : ascii := "_"%char.
Fixpoint sql_like (p : str) : str -> bool :=
  match p with
  | [] => fun t => match t with [] => true | _ => false end
  | c :: p' =>
      if Ascii.eqb c c_pct then
        (fix any (t : str) : bool :=
           sql_like p' t || match t with [] => false | _ :: t' => any t' end)
      else if Ascii.eqb c c_und then
        fun t => match t with [] => false | _ :: t' => sql_like p' t' end
      else
        fun t => match t with
                 | [] => false
                 | d :: t' => Ascii.eqb (upper_c c) (upper_c d) && sql_like p' t'
                 end
  end.

Definition SLASH : ascii := "/"%char.
Definition INBOX : str := S_ "INBOX".
Definition SP : str := [" "%char].

(** ---- queries ------------------------------------------------------------ *)

(** SELECT id FROM mailboxes WHERE name = ? (GetMailboxByNamePerUser) *)
Definition find_name (s : store) (n : str) : option mbox :=
  find (fun m => str_eqb (mb_name m) n) (mboxes s).
(** SELECT ... FROM mailboxes WHERE id = ? *)
Definition find_id (s : store) (i : Z) : option mbox :=
  find (fun m => mb_id m =? i) (mboxes s).

Definition in_mbox (mb : Z) (l : link) : bool := lk_mbox l =? mb.
Definition links_in (s : store) (mb : Z) : list link := filter (in_mbox mb) (links s).

(** SELECT COALESCE(MAX(uid),0) FROM message_mailbox WHERE mailbox_id = ? *)
Definition max_uid (s : store) (mb : Z) : Z :=
  fold_right Z.max 0 (map lk_uid (links_in s mb)).

Definition at_uid (mb u : Z) (l : link) : bool := (lk_mbox l =? mb) && (lk_uid l =? u).
(** SELECT ... WHERE mailbox_id = ? AND uid = ? *)
Definition find_link (s : store) (mb u : Z) : option link := find (at_uid mb u) (links s).

(** ORDER BY uid ASC (insertion sort; uids of one mailbox are distinct) *)
Fixpoint ins_by_uid (l : link) (ls : list link) : list link :=
  match ls with
  | [] => [l]
  | x :: r => if lk_uid l <=? lk_uid x then l :: ls else x :: ins_by_uid l r
  end.
Definition sort_by_uid (ls : list link) : list link := fold_right ins_by_uid [] ls.
Definition links_sorted (s : store) (mb : Z) : list link := sort_by_uid (links_in s mb).

(** ---- row-level primitives ---------------------------------------------- *)

(** db.nextUIDValidityPerUser (fixes/c03-uidvalidity-seq.patch): the clock reading
    [t], but strictly above every UIDVALIDITY this store has handed out before.
    The one-row table uid_validity_seq holds that high-water mark; in the model it
    is the maximum over [gused] (which therefore is no longer purely ghost: its
    maximum is real state; a store without a row starts from MAX(uid_validity) of
    its mailboxes, and every mailbox's pair is in [gused]). *)
Definition vhigh (s : store) : Z := fold_right Z.max 0 (map snd (gused s)).
Definition next_validity (s : store) (t : Z) : Z := Z.max t (vhigh s + 1).

(** db.CreateMailboxPerUser: empty name -> error; UNIQUE(user_id,name) ->
    "mailbox already exists"; else a row (validity = next_validity, uid_next = 1).
    Returns the new store and the new rowid.  (In the Go code the stamp is taken
    before the INSERT, so a UNIQUE failure burns a stamp; every modelled caller
    checks the name first, so that branch is reachable only under concurrency.) *)
Definition create_mailbox_row (s : store) (name : str) (t : Z) : option (store * Z) :=
  match name with
  | [] => None
  | _ =>
    match find_name s name with
    | Some _ => None
    | None =>
      let id := fresh_id (map mb_id (mboxes s)) in
      let v := next_validity s t in
      Some (mkStore (mboxes s ++ [mkMbox id name v 1]) (links s) (next_msg s)
                    (glog s) (gused s ++ [(name, v)]) (gser s), id)
    end
  end.

(** UPDATE mailboxes SET uid_next = uid_next + 1 WHERE id = ? *)
Definition bump_row (mb : Z) (m : mbox) : mbox :=
  if mb_id m =? mb then mkMbox (mb_id m) (mb_name m) (mb_validity m) (mb_next m + 1) else m.
Definition bump (s : store) (mb : Z) : store := set_mboxes s (map (bump_row mb) (mboxes s)).

(** UPDATE mailboxes SET uid_next = ? WHERE id = ? *)
Definition next_row (mb n : Z) (m : mbox) : mbox :=
  if mb_id m =? mb then mkMbox (mb_id m) (mb_name m) (mb_validity m) n else m.
Definition set_next (s : store) (mb n : Z) : store := set_mboxes s (map (next_row mb n) (mboxes s)).

(** ghost: log entries for a link (to be) stored in mailbox row [mb] *)
Definition log_for (s : store) (mb uid gid : Z) : list gentry :=
  match find_id s mb with
  | Some m => [mkGe (mb_name m) (mb_validity m) uid gid]
  | None => []
  end.

(** INSERT INTO message_mailbox (message_id, mailbox_id, uid, flags, ...);
    [None] = UNIQUE(mailbox_id, uid) constraint failed. *)
Definition insert_link (s : store) (msg mb uid : Z) (flags : list str) : option store :=
  if existsb (at_uid mb uid) (links s) then None
  else Some (mkStore (mboxes s)
                     (links s ++ [mkLink (fresh_id (map lk_id (links s))) msg mb uid flags (gser s)])
                     (next_msg s)
                     (glog s ++ log_for s mb uid (gser s))
                     (gused s) (gser s + 1)).

(** db.IncrementUIDNextPerUser (raven: ONE statement, "UPDATE mailboxes SET
    uid_next = uid_next + 1 WHERE id = ? RETURNING uid_next - 1"): the UID handed
    out and the store with the counter advanced; [None] = no such row.
    [add_message] below is [alloc_uid] followed by the INSERT. *)
Definition alloc_uid (s : store) (mb : Z) : option (store * Z) :=
  match find_id s mb with
  | None => None
  | Some m => Some (bump s mb, mb_next m)
  end.

(** db.IncrementUIDNextPerUser + INSERT = db.AddMessageToMailboxPerUser:
    two autocommit statements.  If the mailbox row does not exist the SELECT
    fails and nothing happens; if the INSERT hits UNIQUE the increment stays. *)
Definition add_message (s : store) (msg mb : Z) (flags : list str) : store * bool :=
  match find_id s mb with
  | None => (s, false)
  | Some m =>
    let s1 := bump s mb in
    match insert_link s1 msg mb (mb_next m) flags with
    | Some s2 => (s2, true)
    | None => (s1, false)
    end
  end.

(** parser.StoreMessagePerUserWithSharedDBAndS3, as far as this model goes: a
    new row in [messages]; returns its id. *)
Definition store_message (s : store) : store * Z :=
  (mkStore (mboxes s) (links s) (next_msg s + 1) (glog s) (gused s) (gser s), next_msg s).

(** DELETE FROM message_mailbox WHERE <p> *)
Definition delete_links (s : store) (p : link -> bool) : store :=
  set_links s (filter (fun l => negb (p l)) (links s)).

(** ghost: the links of row [mb] become visible under (name, validity) *)
Definition relog (s : store) (mb : Z) (name : str) (validity : Z) : list gentry :=
  map (fun l => mkGe name validity (lk_uid l) (lk_gid l)) (links_in s mb).

(** UPDATE mailboxes SET name = ? WHERE id = ?; [None] = UNIQUE(user_id,name). *)
Definition rename_row (s : store) (mb : Z) (newname : str) : option store :=
  match find_id s mb with
  | None => Some s
  | Some m =>
    if existsb (fun m' => str_eqb (mb_name m') newname && negb (mb_id m' =? mb)) (mboxes s)
    then None
    else Some (mkStore
                 (map (fun m' => if mb_id m' =? mb
                                 then mkMbox (mb_id m') newname (mb_validity m') (mb_next m')
                                 else m') (mboxes s))
                 (links s) (next_msg s)
                 (glog s ++ relog s mb newname (mb_validity m))
                 (gused s ++ [(newname, mb_validity m)]) (gser s))
  end.

(** UPDATE message_mailbox SET mailbox_id = new WHERE mailbox_id = old;
    [None] = UNIQUE(mailbox_id, uid). *)
Definition reparent (s : store) (old new : Z) : option store :=
  if old =? new then Some s else
  if existsb (fun l => existsb (at_uid new (lk_uid l)) (links s)) (links_in s old) then None
  else
    let moved := match find_id s new with
                 | Some m => relog s old (mb_name m) (mb_validity m)
                 | None => []
                 end in
    Some (mkStore (mboxes s)
                  (map (fun l => if in_mbox old l
                                 then mkLink (lk_id l) (lk_msg l) new (lk_uid l) (lk_flags l) (lk_gid l)
                                 else l) (links s))
                  (next_msg s) (glog s ++ moved) (gused s) (gser s)).

(** ---- flags --------------------------------------------------------------- *)

Definition fmem (f : str) (fl : list str) : bool := existsb (str_eqb f) fl.
Fixpoint fdedup (fl : list str) : list str :=
  match fl with
  | [] => []
  | f :: r => if fmem f r then fdedup r else f :: fdedup r
  end.
Definition fremove (f : str) (fl : list str) : list str := filter (fun g => negb (str_eqb f g)) fl.
Definition RECENT : str := S_ "\Recent".
Definition DELETED_FLAG : str := S_ "\Deleted".
Definition JUNK : str := S_ "Junk".
Definition NONJUNK : str := S_ "NonJunk".
Definition SPAM : str := S_ "Spam".

(** instr(' ' || flags || ' ', ' \Deleted ') > 0 on the stored string (flags are
    stored single-blank separated): the whole flag \Deleted, exact case
    (raven 378938d; before that: flags LIKE '%\Deleted%') *)
Definition is_deleted (l : link) : bool := fmem DELETED_FLAG (lk_flags l).

(** ---- initial store --------------------------------------------------------- *)

(** a new per-user database, and db.createDefaultMailboxes on it: five mailbox
    rows, each stamped by the allocator (nextUIDValidityPerUser) with its own
    clock reading — the same steps as five calls of CreateMailboxPerUser *)
Definition empty_store : store := mkStore [] [] 1 [] [] 1.
Definition create_or_same (s : store) (n : str) (t : Z) : store :=
  match create_mailbox_row s n t with Some (s', _) => s' | None => s end.
Definition init5 (t1 t2 t3 t4 t5 : Z) : store :=
  create_or_same (create_or_same (create_or_same (create_or_same (create_or_same empty_store
    INBOX t1) (S_ "Sent") t2) (S_ "Drafts") t3) (S_ "Trash") t4) SPAM t5.
Definition init (t : Z) : store := init5 t t t t t.
