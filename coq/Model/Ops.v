(** The operations that add, move, remove or re-name messages/mailboxes, as
    total functions [store -> args -> store * result] in the statement order
    of the Go code:

      op_deliver   internal/delivery/storage/storage.go  Storage.DeliverMessage
                   (from "Get or create the target mailbox" on; the target
                   folder has already been determined by determineTargetFolder)
      op_append    internal/server/message/message.go    HandleAppendWithReader
                   (after the literal has been read and parsed)
      op_uidcopy   internal/server/uid/uid.go            handleUIDCopy
      op_copy      internal/server/message/message.go    HandleCopy  (called with
                   [sequence-set; mailbox])
      op_uidstore  internal/server/uid/uid.go            handleUIDStore, with
                   message.MoveMessageToMailbox (Junk -> "Spam", NonJunk -> "INBOX")
                   and message.CalculateNewFlags
      op_expunge   internal/server/message/message.go    HandleExpunge
      op_close     internal/server/selection/selection.go HandleClose
      op_create    internal/server/mailbox/mailbox.go    HandleCreate
      op_delete    mailbox.go HandleDelete + db.DeleteMailboxPerUser
      op_rename    mailbox.go HandleRename + db.RenameMailboxPerUser
                   + db.renameInboxPerUser (old name = INBOX, any case)

    [sel] is the session's SelectedMailboxID (a row id: it may dangle, or denote
    a NEW mailbox after the old one was deleted and the rowid reused).
    Result: only the class of the tagged reply (and APPENDUID's numbers).

    State of the code modelled: raven at db1cde2 (incl. C11's hierarchy fixes: parents
    created inside the RENAME transaction, children by name prefix and collected
    before the rename, Roles namespace refused) with the repairs fixes/c03-copy-move-uidnext.patch
    (COPY, UID COPY and the Junk/NonJunk move allocate from mailboxes.uid_next
    and write it back, inside their transaction) and
    fixes/c03-rename-inbox-uidnext.patch (RENAME INBOX: the new row inherits
    INBOX's uid_next, in one transaction with the re-parenting).

    No proofs in this file. *)
From Coq Require Import String Ascii List Bool ZArith.
From Raven Require Import Base.GoStr Model.Store.
Import ListNotations.
Local Open Scope Z_scope.

Inductive result := ROk | RNo | RBad | RAppendUid (validity uid : Z).

(** one element of a (UID or sequence) set as sent by the client: n | a:b *)
Inductive uspec := UOne (n : Z) | URange (a b : Z).

Inductive smode := SSet | SAdd | SDel.   (* FLAGS | +FLAGS | -FLAGS *)

(** ---- sets ------------------------------------------------------------------ *)

(** utils.ParseUIDSequenceSetWithDB (numeric parts only) *)
Definition resolve_uids (s : store) (sel : Z) (set : list uspec) : list Z :=
  if max_uid s sel =? 0 then [] else
  flat_map (fun sp =>
    match sp with
    | UOne u => if existsb (at_uid sel u) (links s) then [u] else []
    | URange a b =>
        let lo := Z.min a b in let hi := Z.max a b in
        map lk_uid (filter (fun l => (lo <=? lk_uid l) && (lk_uid l <=? hi)) (links_sorted s sel))
    end) set.

(** utils.ParseSequenceSetWithDB (numeric parts only) *)
Definition zrange (lo hi : Z) : list Z :=
  map (fun k => lo + Z.of_nat k) (seq 0 (Z.to_nat (hi - lo + 1))).
Definition resolve_seqs (s : store) (sel : Z) (set : list uspec) : list Z :=
  let total := Z.of_nat (length (links_in s sel)) in
  if total =? 0 then [] else
  flat_map (fun sp =>
    match sp with
    | UOne n => if (0 <? n) && (n <=? total) then [n] else []
    | URange a b =>
        if (0 <? a) && (0 <? b)
        then zrange (Z.min a b) (Z.min (Z.max a b) total)
        else []
    end) set.

(** ---- delivery and APPEND --------------------------------------------------- *)

Definition op_deliver (s : store) (folder : str) (t : Z) : store * result :=
  let '(s1, mb) :=
    match find_name s folder with
    | Some m => (s, Some (mb_id m))
    | None => match create_mailbox_row s folder t with
              | Some (s', id) => (s', Some id)
              | None => (s, None)
              end
    end in
  match mb with
  | None => (s1, RNo)
  | Some id =>
    let '(s2, msg) := store_message s1 in
    let '(s3, ok) := add_message s2 msg id [] in
    (s3, if ok then ROk else RNo)
  end.

Definition op_append (s : store) (folder : str) (flags : list str) : store * result :=
  match find_name s folder with
  | None => (s, RNo)                                   (* NO [TRYCREATE] *)
  | Some m =>
    let '(s1, msg) := store_message s in
    let '(s2, ok) := add_message s1 msg (mb_id m) flags in
    if ok then
      let v := match find_id s2 (mb_id m) with Some m' => mb_validity m' | None => 1 end in
      let u := match find (fun l => (lk_msg l =? msg) && (lk_mbox l =? mb_id m)) (links s2) with
               | Some l => lk_uid l | None => 1 end in
      (s2, RAppendUid v u)
    else (s2, RNo)                                     (* NO [SERVERBUG] *)
  end.

(** ---- COPY -------------------------------------------------------------------- *)

(** whole-flag test (hasFlag / parseFlagsToSet, raven 378938d) *)
Definition add_recent (fl : list str) : list str :=
  if fmem RECENT fl then fl else fl ++ [RECENT].

(** the loop of handleUIDCopy inside the transaction, followed by
    "UPDATE mailboxes SET uid_next = nextUID" ([] case); [None] = an INSERT
    failed (the caller rolls back).  [next] is the running nextUID. *)
Fixpoint uidcopy_loop (s : store) (sel dest : Z) (uids : list Z) (next : Z) : option store :=
  match uids with
  | [] => Some (set_next s dest next)
  | u :: r =>
    match find_link s sel u with
    | None => uidcopy_loop s sel dest r next              (* silently ignored *)
    | Some l =>
      match insert_link s (lk_msg l) dest next (add_recent (lk_flags l)) with
      | None => None
      | Some s' => uidcopy_loop s' sel dest r (next + 1)
      end
    end
  end.

Definition op_uidcopy (s : store) (sel : Z) (set : list uspec) (dest : str) : store * result :=
  match resolve_uids s sel set with
  | [] => (s, ROk)
  | uids =>
    match find_name s dest with
    | None => (s, RNo)                                  (* NO [TRYCREATE] *)
    | Some d =>
      (* nextUID := SELECT uid_next FROM mailboxes WHERE id = dest (inside the transaction) *)
      match uidcopy_loop s sel (mb_id d) uids (mb_next d) with
      | Some s' => (s', ROk)
      | None => (s, RNo)                                (* rollback *)
      end
    end
  end.

(** the loop of HandleCopy: "ORDER BY uid LIMIT 1 OFFSET seq-1" evaluated inside
    the transaction; a missing row is an error; [] case: the UPDATE of uid_next *)
Fixpoint copy_loop (s : store) (sel dest : Z) (seqs : list Z) (next : Z) : option store :=
  match seqs with
  | [] => Some (set_next s dest next)
  | n :: r =>
    match nth_error (links_sorted s sel) (Z.to_nat (n - 1)) with
    | None => None
    | Some l =>
      match insert_link s (lk_msg l) dest next (add_recent (lk_flags l)) with
      | None => None
      | Some s' => copy_loop s' sel dest r (next + 1)
      end
    end
  end.

Definition op_copy (s : store) (sel : Z) (set : list uspec) (dest : str) : store * result :=
  match resolve_seqs s sel set with
  | [] => (s, RBad)
  | seqs =>
    match find_name s dest with
    | None => (s, RNo)
    | Some d =>
      match copy_loop s sel (mb_id d) seqs (mb_next d) with
      | Some s' => (s', ROk)
      | None => (s, RNo)
      end
    end
  end.

(** ---- STORE (UID STORE) with the Junk / NonJunk move ------------------------ *)

(** message.CalculateNewFlags (result as a duplicate-free list; Go builds it
    from a map, so its order is unspecified) *)
Definition calc_flags (cur new : list str) (mode : smode) : list str :=
  let new' := filter (fun f => negb (str_eqb f RECENT)) new in
  match mode with
  | SSet => fdedup new'
  | SAdd => fdedup (cur ++ new')
  | SDel => filter (fun f => negb (fmem f new')) (fdedup cur)
  end.

(** message.MoveMessageToMailbox (raven f8aa849, 2746857): the source entry is
    addressed by (mailbox_id, uid); the boolean is [moved] — false when the
    destination does not exist, when the message already is in the destination
    mailbox (then the caller stores the flags in place), or on an SQL error *)
Definition move_message (s : store) (msg src srcuid : Z) (destname : str) (flags : list str) : store * bool :=
  match find_name s destname with
  | None => (s, false)
  | Some d =>
    if mb_id d =? src then (s, false) else
    (* nextUID := uid_next of the destination; INSERT; UPDATE uid_next = nextUID+1; DELETE *)
    match insert_link s msg (mb_id d) (mb_next d) flags with
    | None => (s, false)
    | Some s1 => (delete_links (set_next s1 (mb_id d) (mb_next d + 1))
                               (at_uid src srcuid), true)
    end
  end.

Definition set_flags (s : store) (mb u : Z) (fl : list str) : store :=
  set_links s (map (fun l => if at_uid mb u l
                             then mkLink (lk_id l) (lk_msg l) (lk_mbox l) (lk_uid l) fl (lk_gid l)
                             else l) (links s)).

Definition uidstore_one (s : store) (sel : Z) (mode : smode) (new : list str) (u : Z) : store :=
  match find_link s sel u with
  | None => s
  | Some l =>
    let cur := lk_flags l in
    let upd := calc_flags cur new mode in
    let junk_added := negb (fmem JUNK cur) && fmem JUNK upd in
    let nonjunk_added := negb (fmem NONJUNK cur) && fmem NONJUNK upd in
    if junk_added then
      let '(s1, ok) := move_message s (lk_msg l) sel u SPAM (fremove NONJUNK upd) in
      if ok then s1 else set_flags s sel u upd
    else if nonjunk_added then
      let '(s1, ok) := move_message s (lk_msg l) sel u INBOX (fremove JUNK upd) in
      if ok then s1 else set_flags s sel u upd
    else set_flags s sel u upd
  end.

Definition op_uidstore (s : store) (sel : Z) (set : list uspec) (mode : smode) (new : list str)
  : store * result :=
  (fold_left (fun s' u => uidstore_one s' sel mode new u) (resolve_uids s sel set) s, ROk).

(** ---- EXPUNGE / CLOSE ----------------------------------------------------------- *)

Definition op_expunge (s : store) (sel : Z) : store * result :=
  (delete_links s (fun l => in_mbox sel l && is_deleted l), ROk).
Definition op_close (s : store) (sel : Z) : store * result := op_expunge s sel.

(** ---- CREATE / DELETE / RENAME ---------------------------------------------------- *)

(** proper prefixes "a", "a/b", ... of "a/b/c" *)
Definition parent_paths (name : str) : list str :=
  let parts := split_byte name SLASH in
  map (fun i => join (firstn (S i) parts) [SLASH]) (seq 0 (length parts - 1)).

(** isRoleNamespace (mailbox.go): "Roles" and "Roles/..." address role mailboxes *)
Definition ROLES : str := S_ "Roles".
Definition is_role_ns (name : str) : bool :=
  str_eqb name ROLES || has_prefix name (ROLES ++ [SLASH]).

(** db.createParentMailboxesPerUser (and the loop of HandleCreate, which differs
    only in ignoring every error): every missing mailbox above [name]; the empty
    first level of "/x" and every case variant of INBOX are skipped.  The boolean
    is [err == nil]; the only error CreateMailboxPerUser can report here besides
    "already exists" is an SQL failure, which is not modelled. *)
Definition create_parents (s : store) (name : str) (t : Z) : store * bool :=
  if contains_byte name SLASH
  then (fold_left (fun s' p =>
          match p with
          | [] => s'
          | _ =>
            if equal_fold p INBOX then s' else
            match find_name s' p with
            | Some _ => s'
            | None => match create_mailbox_row s' p t with
                      | Some (s'', _) => s'' | None => s' end
            end
          end) (parent_paths name) s, true)
  else (s, true).

Definition op_create (s : store) (name0 : str) (t : Z) : store * result :=
  let name := trim_suffix name0 [SLASH] in
  match name with
  | [] => (s, RNo)
  | _ =>
    if str_eqb (to_upper name) INBOX then (s, RNo) else
    if is_role_ns name then (s, RNo) else
    match find_name s name with
    | Some _ => (s, RNo)
    | None =>
      let s1 := fst (create_parents s name t) in
      match create_mailbox_row s1 name t with
      | Some (s2, _) => (s2, ROk)
      | None => (s1, RNo)
      end
    end
  end.

(** name >= n||'/' AND name < n||'0' under BINARY comparison = the names that
    start with n ++ "/" (raven dad7e07; before that: name LIKE n||'/%') *)
Definition children (s : store) (name : str) : list mbox :=
  filter (fun m => has_prefix (mb_name m) (name ++ [SLASH])) (mboxes s).

Definition op_delete (s : store) (name : str) : store * result :=
  match name with
  | [] => (s, RBad)
  | _ =>
    if str_eqb (to_upper name) INBOX then (s, RNo) else
    match find_name s name with
    | None => (s, RNo)
    | Some m =>
      match children s name with
      | _ :: _ => (s, RNo)
      | [] =>
        (* exact names: "sent" is not "Sent" (raven: C11's fix) *)
        if existsb (str_eqb name) [S_ "Sent"; S_ "Drafts"; S_ "Trash"] then (s, RNo) else
        let s1 := delete_links s (in_mbox (mb_id m)) in
        (set_mboxes s1 (filter (fun m' => negb (mb_id m' =? mb_id m)) (mboxes s1)), ROk)
      end
    end
  end.

(** db.renameInboxPerUser: parents (autocommit, they stay if a later step fails),
    the target row, then ONE transaction: the target's uid_next becomes the larger
    of its own and INBOX's, and the links are re-parented *)
Definition rename_inbox (s : store) (new : str) (t : Z) : store * result :=
  match find_name s new with
  | Some _ => (s, RNo)
  | None =>
    match find_name s INBOX with
    | None => (s, RNo)
    | Some ib =>
      let '(s0, ok) := create_parents s new t in
      if negb ok then (s0, RNo) else
      match create_mailbox_row s0 new t with
      | None => (s0, RNo)
      | Some (s1, nid) =>
        (* UPDATE .. SET uid_next = MAX(uid_next, INBOX's) (raven 8552cfb) *)
        let cur := match find_id s1 nid with Some mt => mb_next mt | None => 1 end in
        match reparent (set_next s1 nid (Z.max cur (mb_next ib))) (mb_id ib) nid with
        | Some s2 => (s2, ROk)
        | None => (s1, RNo)
        end
      end
    end
  end.

(** the transaction of RenameMailboxPerUser after the parents were created in it:
    the children are collected BEFORE the mailbox itself is renamed (RENAME a a/b) *)
Definition rename_tx (s : store) (mb : Z) (old new : str) : option store :=
  let ch := children s old in
  match rename_row s mb new with
  | None => None
  | Some s1 =>
    fold_left (fun acc c =>
                 match acc with
                 | None => None
                 | Some s' => rename_row s' (mb_id c) (new ++ skipn (length old) (mb_name c))
                 end)
              ch (Some s1)
  end.

Definition op_rename (s : store) (old new : str) (t : Z) : store * result :=
  match old, new with
  | [], _ | _, [] => (s, RBad)
  | _, _ =>
    if is_role_ns new then (s, RNo) else
    if str_eqb (to_upper new) INBOX then (s, RNo) else
    if str_eqb (to_upper old) INBOX then rename_inbox s new t else
    match find_name s old with
    | None => (s, RNo)
    | Some m =>
      match find_name s new with
      | Some _ => (s, RNo)
      | None =>
        (* BEGIN; parents, children, renames; any failure rolls everything back *)
        let '(s1, ok) := create_parents s new t in
        if negb ok then (s, RNo) else
        match rename_tx s1 (mb_id m) old new with
        | Some s2 => (s2, ROk)
        | None => (s, RNo)
        end
      end
    end
  end.

(** ---- histories ------------------------------------------------------------------- *)

Inductive op :=
| ODeliver (folder : str) (t : Z)
| OAppend (folder : str) (flags : list str)
| OUidCopy (sel : Z) (set : list uspec) (dest : str)
| OCopy (sel : Z) (set : list uspec) (dest : str)
| OUidStore (sel : Z) (set : list uspec) (mode : smode) (flags : list str)
| OExpunge (sel : Z)
| OClose (sel : Z)
| OCreate (name : str) (t : Z)
| ODelete (name : str)
| ORename (old new : str) (t : Z).

Definition step (s : store) (o : op) : store * result :=
  match o with
  | ODeliver f t => op_deliver s f t
  | OAppend f fl => op_append s f fl
  | OUidCopy sel set d => op_uidcopy s sel set d
  | OCopy sel set d => op_copy s sel set d
  | OUidStore sel set m fl => op_uidstore s sel set m fl
  | OExpunge sel => op_expunge s sel
  | OClose sel => op_close s sel
  | OCreate n t => op_create s n t
  | ODelete n => op_delete s n
  | ORename a b t => op_rename s a b t
  end.

Definition run (h : list op) (s : store) : store := fold_left (fun s' o => fst (step s' o)) h s.
