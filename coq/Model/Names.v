(** Model of the mailbox-name handling of raven (property C11).

    Go code mirrored (pinned tree, bugs included):
    - internal/server/connection.go  handleClient: [parts := utils.SplitCommandLine(TrimSpace(line))] (Model/CmdTokenizer.v),
      dispatch on [ToUpper(parts[1])];
    - internal/server/mailbox/mailbox.go  HandleCreate, HandleDelete, HandleRename,
      HandleSubscribe, HandleUnsubscribe, HandleList, HandleLsub, HandleStatus;
    - internal/server/selection/selection.go  HandleSelect (name resolution only);
    - internal/server/message/message.go  HandleAppendWithReader (folder lookup,
      uid allocation through AddMessageToMailboxPerUser);
    - internal/db/user_schema.go  CreateMailboxPerUser, MailboxExistsPerUser,
      DeleteMailboxPerUser, RenameMailboxPerUser, renameInboxPerUser,
      Subscribe/UnsubscribeFromMailboxPerUser;
    - internal/server/utils/parser.go  ParseQuotedString.

    Store: the rows of table [mailboxes] of ONE user in rowid order (a new row
    always gets max(rowid)+1, so it is appended), each with its links
    (uid, message token) and uid_next; the rows of [subscriptions] in rowid
    order; the number of rows of [messages].  UNIQUE(user_id,name) and
    UNIQUE(mailbox_id,uid) are explicit boolean checks that take the error
    branch the Go code takes.  [UPDATE ... WHERE id = ?] is modelled as an
    update of the row that carries the selected name (names are unique).
    Children of a mailbox are the rows in db.childNameRange (exact bytewise
    prefix test; before the fix "find child mailboxes by exact name prefix"
    this was name LIKE old||'/%', see Base/Like.v).
    Not modelled: the order in which SQLite returns the child rows (the model
    uses rowid order; the index gives name order -- only observable
    when two child updates collide, i.e. inside the finding classes);
    the [%] branch of HandleLsub (implied parents); role mailboxes (the
    modelled user has none).  No proofs in this file. *)
From Coq Require Import String Ascii List Bool Arith ZArith.
From Raven Require Import Base.GoStr Base.GoStrOrder Model.Pattern Model.CmdTokenizer.
Import ListNotations.

Definition dq : ascii := """"%char.
Definition is_nil {A} (l : list A) : bool := match l with [] => true | _ => false end.

Record mbox := MkBox { mb_name : str; mb_msgs : list (Z * Z); mb_next : Z }.   (* links (uid, message), uid_next *)
Record store := MkStore { boxes : list mbox; subs : list str; next_msg : Z }.

Inductive res := ROk | RNo | RBad | RPanic.

Definition names (bs : list mbox) : list str := map mb_name bs.
Definition new_box (n : str) : mbox := MkBox n [] 1.
Definition set_box_name (b : mbox) (n : str) : mbox := MkBox n (mb_msgs b) (mb_next b).

(** db.MailboxExistsPerUser / GetMailboxByNamePerUser: [WHERE name = ?] (BINARY collation) *)
Definition exists_box (bs : list mbox) (n : str) : bool :=
  existsb (fun b => str_eqb (mb_name b) n) bs.

(** db.CreateMailboxPerUser: [None] = error (empty name, UNIQUE) *)
Definition create_box (bs : list mbox) (n : str) : option (list mbox) :=
  if is_nil n then None
  else if exists_box bs n then None
  else Some (bs ++ [new_box n]).

(** the intermediate paths of HandleCreate / RenameMailboxPerUser:
    parts := Split(name,"/"); currentPath grows by "/"+part; the last part is skipped *)
Fixpoint parent_paths (parts : list str) (cur : str) (first : bool) : list str :=
  match parts with
  | [] => []
  | part :: rest =>
      let cur' := (if first then cur else cur ++ [delim]) ++ part in
      match rest with [] => [] | _ => cur' :: parent_paths rest cur' false end
  end.
Definition paths_of (n : str) : list str := parent_paths (split_byte n delim) [] true.

(** utils.NormalizeMailboxName: every case variant of INBOX is INBOX *)
Definition normalize_name (n : str) : str := if equal_fold n INBOX then INBOX else n.

(** one step of the parent loops (HandleCreate; db.createParentMailboxesPerUser used by
    RenameMailboxPerUser and renameInboxPerUser): a case variant of INBOX is skipped, an
    existing name is skipped, the empty path is skipped (RENAME) / its error ignored (CREATE) *)
Definition create_missing_step (bs : list mbox) (p : str) : list mbox :=
  if equal_fold p INBOX then bs
  else if exists_box bs p then bs
  else match create_box bs p with Some bs' => bs' | None => bs end.
Definition create_missing (ps : list str) (bs : list mbox) : list mbox :=
  fold_left create_missing_step ps bs.

(** mailbox.isRoleNamespace: "Roles" and everything below it is reserved for role mailboxes *)
Definition is_role_namespace (n : str) : bool := str_eqb n (S_ "Roles") || has_prefix n (S_ "Roles/").

(** ---- CREATE ---- *)
Definition handle_create (st : store) (parts : list str) : store * res :=
  if length parts <? 3 then (st, RBad) else
  let name := parse_quoted (nth 2 parts []) in
  let name := trim_suffix name [delim] in     (* TrimSuffix comes right after parsing, before every check *)
  if is_nil name then (st, RNo)
  else if str_eqb (to_upper name) INBOX then (st, RNo)
  else if is_role_namespace name then (st, RNo)
  else if exists_box (boxes st) name then (st, RNo)
  else
    let bs1 := if contains_byte name delim then create_missing (paths_of name) (boxes st) else boxes st in
    match create_box bs1 name with
    | Some bs2 => (MkStore bs2 (subs st) (next_msg st), ROk)
    | None => (MkStore bs1 (subs st) (next_msg st), RNo)
    end.

(** ---- DELETE ---- *)
Definition protected_names : list str := [S_ "Sent"; S_ "Drafts"; S_ "Trash"].
(** db.childNameRange + the SQL test [name >= lo AND name < hi] (BINARY collation):
    lo = n + "/", hi = n + "0" *)
Definition child_range (n m : str) : bool :=
  str_leb (n ++ [delim]) m && str_ltb m (n ++ ["0"%char]).

Definition db_delete (bs : list mbox) (n : str) : list mbox * res :=
  if str_eqb (to_upper n) INBOX then (bs, RNo)
  else if negb (exists_box bs n) then (bs, RNo)
  else if existsb (fun b => child_range n (mb_name b)) bs then (bs, RNo)
  else if existsb (fun d => str_eqb n d) protected_names then (bs, RNo)
  else (filter (fun b => negb (str_eqb (mb_name b) n)) bs, ROk).

Definition handle_delete (st : store) (parts : list str) : store * res :=
  if length parts <? 3 then (st, RBad) else
  let name := parse_quoted (nth 2 parts []) in
  if is_nil name then (st, RBad)
  else if str_eqb (to_upper name) INBOX then (st, RNo)
  else let '(bs, r) := db_delete (boxes st) name in (MkStore bs (subs st) (next_msg st), r).

(** ---- RENAME ---- *)
(** one [UPDATE mailboxes SET name = new WHERE id = <row named cur>]; [None] = UNIQUE failure *)
Definition set_name (cur new : str) (bs : list mbox) : list mbox :=
  map (fun b => if str_eqb (mb_name b) cur then set_box_name b new else b) bs.
Definition upd_name (cur new : str) (bs : list mbox) : option (list mbox) :=
  if negb (str_eqb cur new) && exists_box bs new then None else Some (set_name cur new bs).
Fixpoint apply_updates (us : list (str * str)) (bs : list mbox) : option (list mbox) :=
  match us with
  | [] => Some bs
  | (c, n) :: us' => match upd_name c n bs with None => None | Some bs' => apply_updates us' bs' end
  end.

(** [newChildName := newName + childName[len(oldName):]] for every selected row; [None] = slice panic *)
Fixpoint child_updates (old new : str) (cs : list str) : option (list (str * str)) :=
  match cs with
  | [] => Some []
  | c :: cs' =>
      match slice_from c (Z.of_nat (length old)), child_updates old new cs' with
      | Some suf, Some us => Some ((c, new ++ suf) :: us)
      | _, _ => None
      end
  end.

(** renameInboxPerUser (after "fix: RENAME INBOX keeps the UID counter with the moved
    messages"): the new row inherits INBOX's uid_next, the links move with their uids *)
Definition rename_inbox (bs : list mbox) (new : str) : list mbox * res :=
  if exists_box bs new then (bs, RNo)
  else match find (fun b => str_eqb (mb_name b) INBOX) bs with
       | None => (bs, RNo)
       | Some ib =>
           let bs0 := create_missing (paths_of new) bs in      (* parents: not part of any transaction *)
           match create_box bs0 new with
           | None => (bs0, RNo)
           | Some bs1 =>
               (map (fun b => if str_eqb (mb_name b) INBOX then MkBox INBOX [] (mb_next b)
                              else if str_eqb (mb_name b) new then MkBox new (mb_msgs ib) (mb_next ib)
                              else b) bs1, ROk)
           end
       end.

Definition db_rename (bs : list mbox) (old new : str) : list mbox * res :=
  if str_eqb (to_upper new) INBOX then (bs, RNo)
  else if str_eqb (to_upper old) INBOX then rename_inbox bs new
  else if negb (exists_box bs old) then (bs, RNo)
  else if exists_box bs new then (bs, RNo)
  else
    (* one transaction: parents, children selected BEFORE the row is renamed, the row, the
       children one by one; any failure rolls everything back *)
    let bs1 := create_missing (paths_of new) bs in
    let cs := filter (child_range old) (names bs1) in
    match child_updates old new cs with
    | None => (bs, RPanic)
    | Some us =>
        match upd_name old new bs1 with
        | None => (bs, RNo)
        | Some bs2 =>
            match apply_updates us bs2 with
            | None => (bs, RNo)                (* UNIQUE failure *)
            | Some bs3 => (bs3, ROk)
            end
        end
    end.

Definition handle_rename (st : store) (parts : list str) : store * res :=
  if length parts <? 4 then (st, RBad) else
  let old := parse_quoted (nth 2 parts []) in
  let new := parse_quoted (nth 3 parts []) in
  if is_nil old || is_nil new then (st, RBad)
  else if is_role_namespace new then (st, RNo)
  else let '(bs, r) := db_rename (boxes st) old new in (MkStore bs (subs st) (next_msg st), r).

(** ---- SUBSCRIBE / UNSUBSCRIBE ---- *)
(** every handler takes its mailbox name with utils.ParseQuotedString ([parse_quoted],
    Model/CmdTokenizer.v) since "fix: keep quoted strings whole when splitting a command line" *)
Definition mem_str (n : str) (l : list str) : bool := existsb (str_eqb n) l.
Definition sub_insert (l : list str) (n : str) : list str := if mem_str n l then l else l ++ [n].   (* INSERT OR IGNORE *)

Definition handle_subscribe (st : store) (parts : list str) : store * res :=
  if length parts <? 3 then (st, RBad) else
  let name := parse_quoted (nth 2 parts []) in
  if is_nil name then (st, RBad)
  else let name := normalize_name name in
       (MkStore (boxes st) (sub_insert (subs st) name) (next_msg st), ROk).

Definition handle_unsubscribe (st : store) (parts : list str) : store * res :=
  if length parts <? 3 then (st, RBad) else
  let name := parse_quoted (nth 2 parts []) in
  if is_nil name then (st, RBad)
  else let name := normalize_name name in
       if mem_str name (subs st)
       then (MkStore (boxes st) (filter (fun s => negb (str_eqb s name)) (subs st)) (next_msg st), ROk)
       else (st, RNo).

(** utils.QuoteString is [quote_string] of Model/CmdTokenizer.v *)

(** ---- LIST / LSUB (patterns without the implied-parent branch); the third
    component is the list of mailbox-name tokens as written on the wire ---- *)
Definition default_subs : list str := [INBOX; S_ "Sent"; S_ "Drafts"; S_ "Trash"; S_ "Spam"].

Definition handle_list (st : store) (parts : list str) : store * res * list str :=
  if length parts <? 4 then (st, RBad, []) else
  let reference := parse_quoted (nth 2 parts []) in
  let pattern := parse_quoted (nth 3 parts []) in
  if is_nil pattern then (st, ROk, [])
  else (st, ROk, map quote_string (filter_mailboxes (names (boxes st)) reference pattern)).

Definition handle_lsub (st : store) (parts : list str) : store * res * list str :=
  if length parts <? 4 then (st, RBad, []) else
  let reference := parse_quoted (nth 2 parts []) in
  let pattern := parse_quoted (nth 3 parts []) in
  if is_nil pattern then (st, ROk, [])
  else
    (* an empty list is presented as the defaults, nothing is written; FilterMailboxes' INBOX
       is kept only if (a case variant of) INBOX is subscribed *)
    let subs' := if is_nil (subs st) then default_subs else subs st in
    let ms := filter_mailboxes subs' reference pattern in
    let ms := if existsb (fun m => equal_fold m INBOX) subs' then ms
              else filter (fun m => negb (str_eqb m INBOX)) ms in
    (st, ROk, map quote_string ms).

(** ---- STATUS ---- *)
Definition sp_ : str := [" "%char].
Definition status_items : list str :=
  [S_ "MESSAGES"; S_ "RECENT"; S_ "UNSEEN"; S_ "UIDNEXT"; S_ "UIDVALIDITY"].

Definition handle_status (st : store) (parts : list str) : store * res * list str :=
  if length parts <? 4 then (st, RBad, []) else
  let name := parse_quoted (nth 2 parts []) in
  if is_nil name then (st, RBad, [])
  else let name := normalize_name name in
       match find (fun b => str_eqb (mb_name b) name) (boxes st) with
       | None => (st, RNo, [])
       | Some b =>
           let items := trim_space (trim (join (skipn 3 parts) sp_) (S_ "()")) in
           let req := fields (to_upper items) in
           if is_nil items || is_nil req then (st, RBad, [])
           else if forallb (fun i => mem_str i status_items) req
                then (st, ROk, [itoa (Z.of_nat (length (mb_msgs b)))])
                else (st, RBad, [])
       end.

(** ---- SELECT (name resolution) ---- *)
Definition handle_select (st : store) (parts : list str) : store * res :=
  if length parts <? 3 then (st, RBad) else
  let folder := parse_quoted (nth 2 parts []) in
  if has_prefix folder (S_ "Roles/") then (st, RNo)          (* role path: the modelled user has no role *)
  else let n := if equal_fold folder INBOX then INBOX else folder in
       if exists_box (boxes st) n then (st, ROk) else (st, RNo).

(** ---- APPEND (folder lookup, message row, uid allocation) ----
    domain: the line carries one well-formed literal marker and the name
    contains none of ( ) { }  *)
Definition add_link (b : mbox) (tok : Z) : mbox * bool :=
  let uid := mb_next b in
  if existsb (fun l => Z.eqb (fst l) uid) (mb_msgs b)
  then (MkBox (mb_name b) (mb_msgs b) (uid + 1), false)                    (* UNIQUE(mailbox_id, uid) *)
  else (MkBox (mb_name b) (mb_msgs b ++ [(uid, tok)]) (uid + 1), true).

Definition handle_append (st : store) (parts : list str) : store * res :=
  if length parts <? 3 then (st, RBad) else
  let folder := normalize_name (parse_quoted (nth 2 parts [])) in
  match find (fun b => str_eqb (mb_name b) folder) (boxes st) with
  | None => (st, RNo)
  | Some b =>
      let tok := next_msg st in
      let '(b', ok) := add_link b tok in
      (MkStore (map (fun x => if str_eqb (mb_name x) folder then b' else x) (boxes st)) (subs st) (tok + 1),
       if ok then ROk else RNo)
  end.

(** ---- the command line ---- *)
Inductive cmd :=
| CCreate (a : str) | CDelete (a : str) | CRename (a b : str)
| CSubscribe (a : str) | CUnsubscribe (a : str)
| CList | CLsub | CStatus (a : str) | CSelect (a : str) | CAppend (a : str).

Definition sp : str := [" "%char].
Definition tag0 : str := S_ "t".
(** the line a client writes; the arguments are RAW astrings (atom or quoted) *)
Definition render (c : cmd) : str :=
  match c with
  | CCreate a => tag0 ++ S_ " CREATE " ++ a
  | CDelete a => tag0 ++ S_ " DELETE " ++ a
  | CRename a b => tag0 ++ S_ " RENAME " ++ a ++ sp ++ b
  | CSubscribe a => tag0 ++ S_ " SUBSCRIBE " ++ a
  | CUnsubscribe a => tag0 ++ S_ " UNSUBSCRIBE " ++ a
  | CList => tag0 ++ S_ " LIST """" ""*"""
  | CLsub => tag0 ++ S_ " LSUB """" ""*"""
  | CStatus a => tag0 ++ S_ " STATUS " ++ a ++ S_ " (MESSAGES)"
  | CSelect a => tag0 ++ S_ " SELECT " ++ a
  | CAppend a => tag0 ++ S_ " APPEND " ++ a ++ S_ " {64}"
  end.

Definition plain (x : store * res) : store * res * list str := (fst x, snd x, []).

(** handleClient: TrimSpace, utils.SplitCommandLine, switch on ToUpper(parts[1]) *)
Definition dispatch (st : store) (parts : list str) : store * res * list str :=
  if length parts <? 2 then (st, RBad, []) else
  let c := to_upper (nth 1 parts []) in
  if str_eqb c (S_ "CREATE") then plain (handle_create st parts)
  else if str_eqb c (S_ "DELETE") then plain (handle_delete st parts)
  else if str_eqb c (S_ "RENAME") then plain (handle_rename st parts)
  else if str_eqb c (S_ "SUBSCRIBE") then plain (handle_subscribe st parts)
  else if str_eqb c (S_ "UNSUBSCRIBE") then plain (handle_unsubscribe st parts)
  else if str_eqb c (S_ "LIST") then handle_list st parts
  else if str_eqb c (S_ "LSUB") then handle_lsub st parts
  else if str_eqb c (S_ "STATUS") then handle_status st parts
  else if str_eqb c (S_ "SELECT") then plain (handle_select st parts)
  else if str_eqb c (S_ "APPEND") then plain (handle_append st parts)
  else (st, RBad, []).

Definition run_line (st : store) (line : str) : store * res * list str :=
  dispatch st (split_command_line (trim_space line)).
Definition run_cmd (st : store) (c : cmd) : store * res * list str := run_line st (render c).

(** a new user's store: db.createDefaultMailboxes *)
Definition init_store : store :=
  MkStore (map new_box [INBOX; S_ "Sent"; S_ "Drafts"; S_ "Trash"; S_ "Spam"]) [] 0.

(** ---- the environment: store opens, restarts, deliveries ----
    db.createDefaultMailboxes runs whenever a process opens a store for the first time
    (DBManager.initUserDB: IMAP login after a restart; the delivery service's own manager on
    its first delivery to the user): the five defaults are inserted only while the mailboxes
    table is EMPTY, otherwise nothing happens. *)
Definition open_store (st : store) : store :=
  if is_nil (boxes st)
  then MkStore (map new_box [INBOX; S_ "Sent"; S_ "Drafts"; S_ "Trash"; S_ "Spam"]) (subs st) (next_msg st)
  else st.

(** storage.DeliverMessage for one recipient (default folder INBOX): the store is opened, the
    target folder is "Spam" for a message the spam headers mark, else INBOX; it is looked up by
    its exact name and CREATED if missing (the only name a delivery may create); the message
    row is stored, then linked with the next uid *)
Definition deliver (st : store) (spam : bool) : store * res :=
  let st := open_store st in
  let target := if spam then S_ "Spam" else INBOX in
  let bs := if exists_box (boxes st) target then boxes st else boxes st ++ [new_box target] in
  match find (fun b => str_eqb (mb_name b) target) bs with
  | None => (st, RNo)
  | Some b =>
      let tok := next_msg st in
      let '(b', ok) := add_link b tok in
      (MkStore (map (fun x => if str_eqb (mb_name x) target then b' else x) bs) (subs st) (tok + 1),
       if ok then ROk else RNo)
  end.

(** one step of a history: a command line, a restart of the IMAP side followed by a login
    (the user's store is opened again), a delivery through the delivery side's manager *)
Inductive estep := ECmd (c : cmd) | ERestart | EDeliver (spam : bool).

Definition run_step (st : store) (e : estep) : store * res * list str :=
  match e with
  | ECmd c => run_cmd st c
  | ERestart => (open_store st, ROk, [])
  | EDeliver spam => plain (deliver st spam)
  end.

Definition run_env (st : store) (h : list estep) : store :=
  fold_left (fun st e => fst (fst (run_step st e))) h st.

Fixpoint run_trace (st : store) (h : list cmd) : list (store * res * list str) :=
  match h with
  | [] => []
  | c :: h' => let r := run_cmd st c in r :: run_trace (fst (fst r)) h'
  end.
