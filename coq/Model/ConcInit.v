(** C08 — the FIRST OPEN of a per-user or role-mailbox store by several
    sessions/processes, statement by statement, under SQLite's lock rules.

    Go code: internal/db/db_manager.go  DBManager.GetUserDB / GetRoleMailboxDB
             -> initUserDB (idempotent CREATE ... IF NOT EXISTS, not modelled)
             -> internal/db/sqlite.go createDefaultMailboxes:
        SELECT COUNT( * ) FROM mailboxes            (fast path)      [ICount]
        BEGIN IMMEDIATE   (one pinned connection)                   [IBegin]
        SELECT COUNT( * ) FROM mailboxes            (under the lock) [IRecount]
        for each of the five defaults:
          INSERT INTO uid_validity_seq ... ON CONFLICT DO UPDATE ...
            RETURNING last_value   (nextUIDValidityPerUser)         [IIns 0,2,4,6,8]
          INSERT INTO mailboxes ...                                 [IIns 1,3,5,7,9]
        COMMIT                                                      [ICommit]
    followed by what the session came for (a delivery / APPEND / SELECT: one
    autocommit writing step here, [IDeliver]; its own micro-steps are the
    threads of Model/Conc.v, where this whole sequence is the single step
    [SInitTx] — justified by the theorem proved about THIS model).

    The store kind decides nothing but the way the handle was opened, hence
    the transaction mode of the initialisation ([begin_mode]); both kinds go
    through the same createDefaultMailboxes.

    SQLite (rollback journal, one file, many connections):
    - BEGIN IMMEDIATE takes RESERVED; while another connection holds it the
      caller WAITS (busy handler, busy_timeout) — a waiting step is a no-op;
    - BEGIN (deferred) takes nothing; the first SELECT takes SHARED and keeps
      it to the end of the transaction; the first INSERT must upgrade SHARED to
      RESERVED: if another connection holds RESERVED, SQLite returns
      SQLITE_BUSY AT ONCE (no busy handler: waiting would dead-lock);
    - COMMIT (and every autocommit write) needs EXCLUSIVE: it waits until no
      other connection holds SHARED;
    - readers see the committed state only: the five INSERTs become visible at
      COMMIT ([defaults] is bumped there).
    busy_timeout expiring (5 s) is not modelled.

    No proofs in this file. *)
From Coq Require Import List Bool Arith ZArith.
From Raven Require Import Model.Conc.
Import ListNotations.

Inductive txmode := Immediate | Deferred.
Inductive store_kind := UserStore | RoleStore.

(** the code as it is: createDefaultMailboxes itself issues BEGIN IMMEDIATE on
    a pinned connection, whatever DSN the handle was opened with *)
Definition begin_mode (k : store_kind) : txmode :=
  match k with UserStore => Immediate | RoleStore => Immediate end.

Inductive istate :=
| ICount | IBegin | IRecount | IIns (k : nat) | ICommit | IDeliver
| IDone      (* store opened, the session's operation acknowledged *)
| IFail.     (* "failed to initialize ... database" -> 550 / NO *)

Record ithread := mkIT { it_mode : txmode; it_st : istate }.

Record icfg := mkIC {
  defaults : nat;        (* committed sets of the five default mailboxes *)
  stored : nat;          (* messages stored by acknowledged sessions *)
  ths : list ithread
}.

(** holds RESERVED (the write lock) *)
Definition holds_w (t : ithread) : bool :=
  match it_mode t, it_st t with
  | Immediate, (IRecount | IIns _ | ICommit) => true
  | Deferred, (IIns (S _) | ICommit) => true
  | _, _ => false
  end.
(** holds SHARED inside an open deferred transaction (after its recount) *)
Definition holds_s (t : ithread) : bool :=
  match it_mode t, it_st t with
  | Deferred, IIns 0 => true
  | _, _ => false
  end.

Definition others (p : ithread -> bool) (l : list ithread) (i : nat) : bool :=
  existsb (fun j => negb (Nat.eqb j i) &&
                    match nth_error l j with Some t => p t | None => false end)
          (seq 0 (length l)).

(** one statement of thread [t] (index [i]) *)
Definition istep (c : icfg) (i : nat) (t : ithread) : icfg * ithread :=
  let ow := others holds_w (ths c) i in
  let os := others holds_s (ths c) i in
  let m := it_mode t in
  let stay := (c, t) in
  let go st := (c, mkIT m st) in
  match it_st t with
  | ICount => if Nat.eqb (defaults c) 0 then go IBegin else go IDeliver
  | IBegin => match m with
              | Immediate => if ow then stay else go IRecount
              | Deferred => go IRecount
              end
  | IRecount => if Nat.eqb (defaults c) 0 then go (IIns 0) else go IDeliver   (* else: rollback *)
  | IIns 0 => match m with                                        (* first write: the allocator *)
              | Immediate => go (IIns 1)
              | Deferred => if ow then go IFail                 (* database is locked, at once *)
                            else go (IIns 1)
              end
  | IIns 1 => if Nat.eqb (defaults c) 0 then go (IIns 2)
              else go IFail                                     (* UNIQUE(user_id, name) on INBOX *)
  | IIns k => if Nat.ltb k 9 then go (IIns (S k)) else go ICommit
  | ICommit => if os then stay
               else (mkIC (S (defaults c)) (stored c) (ths c), mkIT m IDeliver)
  | IDeliver => if ow || os then stay
                else if Nat.eqb (defaults c) 0 then go IFail    (* no INBOX *)
                else (mkIC (defaults c) (S (stored c)) (ths c), mkIT m IDone)
  | IDone | IFail => stay
  end.

Definition isched_step (c : icfg) (i : nat) : icfg :=
  match nth_error (ths c) i with
  | None => c
  | Some t => let '(c', t') := istep c i t in
              mkIC (defaults c') (stored c') (replace i t' (ths c))
  end.

Definition irun (sch : list nat) (c : icfg) : icfg := fold_left isched_step sch c.

Definition iinit (modes : list txmode) : icfg :=
  mkIC 0 0 (map (fun m => mkIT m ICount) modes).

(** k sessions meeting a store of kind [kd] that nobody has opened *)
Definition iinit_kind (kd : store_kind) (k : nat) : icfg := iinit (repeat (begin_mode kd) k).

Definition is_ifail (t : ithread) : bool := match it_st t with IFail => true | _ => false end.
Definition is_idone (t : ithread) : bool := match it_st t with IDone => true | _ => false end.

(** correspondence case "peer in the middle": the holder executes [h]
    statements and is held; the peer runs as far as it can; the holder is
    released and finishes; the peer finishes.
    Result: holder reply, peer reply (1 ok / 0 refused / 2 not finished),
    committed default sets, stored messages, 1 iff the peer had replied before
    the holder was released. *)
Definition st_code (t : ithread) : Z :=
  match it_st t with IDone => 1%Z | IFail => 0%Z | _ => 2%Z end.

Definition eval_hold (k : txmode * nat) : Z * Z * Z * Z * Z :=
  let '(m, h) := k in
  let c0 := iinit [m; m] in
  let c1 := irun (repeat 0 h) c0 in
  let c2 := irun (repeat 1 20) c1 in
  let early := match nth_error (ths c2) 1 with
               | Some t => if is_idone t || is_ifail t then 1%Z else 0%Z
               | None => 0%Z end in
  let c3 := irun (repeat 1 20) (irun (repeat 0 20) c2) in
  (match nth_error (ths c3) 0 with Some t => st_code t | None => 2%Z end,
   match nth_error (ths c3) 1 with Some t => st_code t | None => 2%Z end,
   Z.of_nat (defaults c3), Z.of_nat (stored c3), early).
