(** C01 — projection of the delivery model compared with the implementation
    (checks/c01.py): reply codes per position, and per store the tables
    mailboxes(id, name, uid_next), message_mailbox(id, message_id, mailbox_id,
    uid) and messages(id, #header rows, #part rows, #part rows with a blob, #part rows
    without octets) after every transaction.
    No proofs in this file. *)
From Coq Require Import String Ascii List Bool ZArith.
From Raven Require Import Base.GoStr Model.Store Model.Ops Model.Deliver Spec.DeliverSpec.
Import ListNotations.
Local Open Scope Z_scope.

Definition mv := (Z * str * Z)%type.          (* id, name, uid_next *)
Definition lv := (Z * Z * Z * Z)%type.        (* id, message_id, mailbox_id, uid *)
Definition gv := (Z * Z * Z * Z * Z)%type.    (* message id, header rows, part rows, part rows with a blob,
                                                 part rows whose octets are nowhere *)
Definition store_obs := (key * list mv * list lv * list gv)%type.
(* configuration (folder, max_size, quota_enabled), the recipients CheckRecipientQuota refuses
   (measured from the databases), ACCEPTED recipients, message, its size *)
Definition txn := (cfg * list str * list str * parsed * Z)%type.
Definition txn_obs := (list Z * list store_obs)%type.

Definition mv_eqb (a b : mv) : bool :=
  let '(i, n, x) := a in let '(i', n', x') := b in (i =? i') && str_eqb n n' && (x =? x').
Definition lv_eqb (a b : lv) : bool :=
  let '(i, m, b0, u) := a in let '(i', m', b', u') := b in (i =? i') && (m =? m') && (b0 =? b') && (u =? u').
Definition gv_eqb (a b : gv) : bool :=
  let '(i, h, p, bl, lo) := a in let '(i', h', p', bl', lo') := b in
  (i =? i') && (h =? h') && (p =? p') && (bl =? bl') && (lo =? lo').

Definition subset {A} (eqb : A -> A -> bool) (a b : list A) : bool :=
  forallb (fun x => existsb (eqb x) b) a.
Definition same_set {A} (eqb : A -> A -> bool) (a b : list A) : bool :=
  Nat.eqb (length a) (length b) && subset eqb a b && subset eqb b a.

Definition code_of (c : reply) : Z := match c with R250 => 250 | R550 => 550 | R552 => 552 | R554 => 554 end.

Fixpoint zlist_eqb (a b : list Z) : bool :=
  match a, b with
  | [], [] => true
  | x :: r, y :: q => (x =? y) && zlist_eqb r q
  | _, _ => false
  end.

(** 0 agree | 2 mailboxes | 3 links | 4 messages | 5 the store does not exist in the model *)
Definition store_agrees (w : world) (o : store_obs) : Z :=
  let '(k, mbs, lks, gs) := o in
  match get w k with
  | None => 5
  | Some u =>
    if negb (same_set mv_eqb mbs (map (fun m => (mb_id m, mb_name m, mb_next m)) (mboxes (us u)))) then 2
    else if negb (same_set lv_eqb lks (map (fun l => (lk_id l, lk_msg l, lk_mbox l, lk_uid l)) (links (us u)))) then 3
    else if negb (subset gv_eqb (map (fun r => (m_id r, Z.of_nat (m_hdrs r), Z.of_nat (m_parts r), Z.of_nat (m_blob r), Z.of_nat (m_lost r))) (umsgs u)) gs
                  && (Z.of_nat (length gs) =? next_msg (us u) - 1)) then 4
    else 0
  end.

Fixpoint first_nonzero (l : list Z) : Z :=
  match l with [] => 0 | x :: r => if x =? 0 then first_nonzero r else x end.

Definition class_code (c : option c01class) : Z :=
  match c with
  | None => 0 | Some CDupLastResult => 2      (* 1 = single_554, 3 = noboundary: retired *)
  end.

Definition clk_obs : nat -> Z := fun _ => 0.

(** per transaction: (agreement code, class code, the model's reply codes);
    agreement 1 = replies differ, 6 = the implementation has fewer stores than
    the model *)
Fixpoint eval_txns (w : world) (ts : list txn) (os : list txn_obs) : list (Z * Z * list Z) :=
  match ts, os with
  | (c, over, rs, p, size) :: tr, (codes, sobs) :: orest =>
    let oq := fun r => existsb (str_eqb r) over in
    let '(w', replies, _) := handle_data c oq w rs p size clk_obs in
    let mcodes := map code_of replies in
    let agree :=
      if negb (zlist_eqb codes mcodes) then 1
      else let s := first_nonzero (map (store_agrees w') sobs) in
           if negb (s =? 0) then s
           else if negb (Nat.eqb (length sobs) (length (w_stores w'))) then 6 else 0 in
    (agree, class_code (classify_cfg c oq w rs p size clk_obs), mcodes) :: eval_txns w' tr orest
  | _, _ => []
  end.

Definition eval_scenario (sc : world * list txn * list txn_obs) : list (Z * Z * list Z) :=
  let '(w, ts, os) := sc in eval_txns w ts os.
