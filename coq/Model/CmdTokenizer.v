(** Model of internal/server/utils/parser.go: SplitCommandLine (with
    quotedStringEnd), ParseQuotedString and QuoteString.

    SplitCommandLine: lines without a double quote go through strings.Fields;
    otherwise fields are separated by white space, except that a quoted string
    (RFC 3501 section 4.3; backslash escapes a double quote or a backslash) that STARTS a field is kept
    in that field with its quotes and inner blanks; a quote that is never
    closed is not special.  White space is the ASCII restriction of
    unicode.IsSpace (as for strings.Fields in Base/GoStr.v).
    The Go loops advance an index; here every iteration hands the unread rest
    to the next one, [fuel] bounds the number of fields. *)
From Coq Require Import String Ascii List Bool Arith NArith.
From Raven Require Import Base.GoStr.
Import ListNotations.
Local Open Scope char_scope.

Definition DQUOTE : ascii := """".
Definition BSLASH : ascii := "\".

(** quotedStringEnd, called just after the opening quote: (the text up to and
    including the closing quote, what follows it); [None] = never closed (-1) *)
Fixpoint quoted_end (s : str) : option (str * str) :=
  match s with
  | [] => None
  | c :: s1 =>
      if Ascii.eqb c DQUOTE then Some ([c], s1)
      else if Ascii.eqb c BSLASH then
        match s1 with
        | [] => None
        | e :: s2 => match quoted_end s2 with Some (q, r) => Some (c :: e :: q, r) | None => None end
        end
      else match quoted_end s1 with Some (q, r) => Some (c :: q, r) | None => None end
  end.

(** "the field ends at the next space" *)
Fixpoint span_nonspace (s : str) : str * str :=
  match s with
  | [] => ([], [])
  | c :: s1 => if is_space c then ([], s) else let '(w, r) := span_nonspace s1 in (c :: w, r)
  end.

(** the loop of SplitCommandLine *)
Fixpoint split_quoted (fuel : nat) (s : str) : list str :=
  match fuel with
  | O => []
  | S f =>
      match drop_while is_space s with
      | [] => []
      | c :: r =>
          let '(q, rest0) :=
            if Ascii.eqb c DQUOTE then
              match quoted_end r with
              | Some (q, rest) => (c :: q, rest)
              | None => ([], c :: r)
              end
            else ([], c :: r) in
          let '(w, rest) := span_nonspace rest0 in
          (q ++ w) :: split_quoted f rest
      end
  end.

Definition split_command_line (line : str) : list str :=
  if contains_byte line DQUOTE then split_quoted (S (length line)) line else fields line.

(** the unescaping loop of ParseQuotedString *)
Fixpoint unescape (s : str) : str :=
  match s with
  | [] => []
  | c :: s1 =>
      if Ascii.eqb c BSLASH then
        match s1 with
        | e :: s2 => if Ascii.eqb e DQUOTE || Ascii.eqb e BSLASH then e :: unescape s2 else c :: unescape s1
        | [] => [c]
        end
      else c :: unescape s1
  end.

(** ParseQuotedString *)
Definition parse_quoted (arg : str) : str :=
  match arg with
  | [] => []
  | c :: _ =>
      if Ascii.eqb c DQUOTE && Nat.leb 2 (length arg) && has_suffix arg [DQUOTE]
      then unescape (firstn (length arg - 2) (skipn 1 arg))
      else arg
  end.

(** QuoteString *)
Definition quote_string (s : str) : str :=
  DQUOTE :: flat_map (fun c => if Ascii.eqb c DQUOTE || Ascii.eqb c BSLASH then [BSLASH; c] else [c]) s ++ [DQUOTE].
