(** C20 — the two services with a Shutdown method, as transition systems over
    Connect / SessionEnd / Shutdown, and the effect order of one LMTP
    transaction.

    Go code mirrored:
      internal/delivery/lmtp/server.go  Server.acceptConnections, handleConnection, Shutdown
      internal/sasl/server.go           Server.acceptConnections, handleConnection, Shutdown
      internal/delivery/lmtp/session.go handleDATA (deliver to all, then one reply per recipient)
    lmtp.Shutdown: closes s.shutdown through a sync.Once (fix C20-3; it used to
    panic on the second call: [OShutPanic] / [panicked] are kept for the
    regression example only and are unreachable), closes the listeners, returns
    WITHOUT waiting for sessions.
    sasl.Shutdown: sync.Once; closes, then wg.Wait() for every connection.
    Abstracted: listener.Accept returns an error once the listener is closed
    (Go net package), so the accept loops leave. No proofs here. *)
From Coq Require Import List Bool Arith.
Import ListNotations.

Inductive svc := SvcLMTP | SvcSASL.

Record srv := mk_srv {
  listening : bool;      (* listeners open *)
  chan_closed : bool;    (* close(s.shutdown) happened *)
  inflight : nat;        (* connections counted in s.wg *)
  waiting : bool;        (* a Shutdown call sits in wg.Wait() *)
  panicked : bool }.     (* the process died of "close of closed channel" *)

Definition srv_init : srv := mk_srv true false 0 false false.

Inductive sev := Connect | SessionEnd | Shutdown.
Inductive sout := OAccepted | ORefused | OEnded | OShutReturned | OShutBlocked | OShutPanic | ONone.

Definition sstep_srv (k : svc) (s : srv) (e : sev) : srv * list sout :=
  if panicked s then (s, match e with Connect => [ORefused] | _ => [ONone] end) else
  match e with
  | Connect =>
      if listening s
      then (mk_srv true (chan_closed s) (S (inflight s)) (waiting s) false, [OAccepted])
      else (s, [ORefused])
  | SessionEnd =>
      match inflight s with
      | O => (s, [ONone])
      | S n =>
          if (waiting s && (n =? 0))%bool
          then (mk_srv (listening s) (chan_closed s) 0 false false, [OEnded; OShutReturned])
          else (mk_srv (listening s) (chan_closed s) n (waiting s) false, [OEnded])
      end
  | Shutdown =>
      match k with
      | SvcLMTP =>
          if chan_closed s
          then (s, [OShutReturned])                                        (* shutdownOnce; closing closed listeners is ignored *)
          else (mk_srv false true (inflight s) false false, [OShutReturned])
      | SvcSASL =>
          if chan_closed s
          then (s, [if waiting s then OShutBlocked else OShutReturned])     (* sync.Once *)
          else if inflight s =? 0
               then (mk_srv false true 0 false false, [OShutReturned])
               else (mk_srv false true (inflight s) true false, [OShutBlocked])
      end
  end.

Fixpoint srv_run (k : svc) (s : srv) (h : list sev) : srv * list sout :=
  match h with
  | [] => (s, [])
  | e :: h' => let '(s1, o) := sstep_srv k s e in let '(s2, os) := srv_run k s1 h' in (s2, o ++ os)
  end.

(** ** one LMTP transaction at its end-of-data: effects in program order.
    storage.DeliverToMultipleRecipients runs to completion (one [Store] per
    recipient, successful or not) before the first reply is written. *)
Inductive micro := Store (i : nat) (ok : bool) | Ack (i : nat) (code2xx : bool).

Fixpoint number_from {A} (i : nat) (l : list A) : list (nat * A) :=
  match l with [] => [] | x :: l' => (i, x) :: number_from (S i) l' end.

Definition data_trace (results : list bool) : list micro :=
  map (fun '(i, ok) => Store i ok) (number_from 0 results) ++
  map (fun '(i, ok) => Ack i ok) (number_from 0 results).
