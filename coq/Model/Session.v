(** Model of the per-session bookkeeping that decides which untagged EXISTS /
    EXPUNGE responses the OBSERVING session receives (C09):
    models.ClientState.LastMessageCount across

    - SELECT      selection.HandleSelect: "* n EXISTS", LastMessageCount = n
    - NOOP        extension.HandleNoop: count > Last => "* count EXISTS";
                  count < Last => "* i EXPUNGE" for i = Last .. count+1; Last = count
    - CHECK       message.HandleCheck: nothing is sent, Last untouched
    - EXPUNGE     message.HandleExpunge: notices, Last -= len(deleted), clamped at 0
                  (no change when nothing is deleted)
    - UID EXPUNGE uid.handleUIDExpunge: same
    - STORE with the Junk auto-move: per moved message "* rank EXPUNGE" and
                  Last-- (not below 0)
    - CLOSE / UNSELECT end the observation (Last = 0, nothing selected)

    Between two commands of the observing session the rows of the mailbox may
    change arbitrarily (deliveries, APPEND/COPY/EXPUNGE by other sessions or by
    the same session): [Ext rows'].  LastRecentCount only governs "* n RECENT"
    lines and is not modelled.  No proofs in this file. *)
From Coq Require Import String Ascii List Bool ZArith.
From Raven Require Import Base.GoStr Base.GoStrZ Model.SeqSet Model.Expunge.
Import ListNotations.
Local Open Scope Z_scope.

Inductive note := NExists (n : Z) | NExpunge (n : Z).

Inductive scmd :=
| CSelect | CNoop | CCheck | CExpunge
| CUidExpunge (set : str)
| CJunk (set : str)          (* STORE set +FLAGS (Junk) in a mailbox other than Spam *)
| COther.                    (* FETCH, SEARCH, STORE of ordinary flags, APPEND ...: no notices, Last untouched *)

Definition count_of (rows : list msg) : Z := Z.of_nat (length rows).

Definition noop_notes (last cur : Z) : list note :=
  (if last <? cur then [NExists cur] else []) ++ map NExpunge (noop_notices last cur).

(** state.LastMessageCount -= len(messagesToDelete); if < 0 { = 0 }  (skipped when nothing was deleted) *)
Definition last_after_expunge (last : Z) (notices : list Z) : Z :=
  match notices with
  | [] => last
  | _ => let l := last - Z.of_nat (length notices) in if l <? 0 then 0 else l
  end.

(** per notice sent by the Junk auto-move: if state.LastMessageCount > 0 { state.LastMessageCount-- } *)
Definition dec_each (last : Z) (notices : list Z) : Z :=
  fold_left (fun l _ => if 0 <? l then l - 1 else l) notices last.

Definition sess_step (c : scmd) (rows : list msg) (last : Z) : list note * list msg * Z :=
  let n := count_of rows in
  match c with
  | CSelect => ([NExists n], rows, n)
  | CNoop => (noop_notes last n, rows, n)
  | CCheck => ([], rows, last)
  | CExpunge =>
    let '(ns, rows') := handle_expunge rows in (map NExpunge ns, rows', last_after_expunge last ns)
  | CUidExpunge s =>
    let '(ns, rows') := handle_uid_expunge s rows in (map NExpunge ns, rows', last_after_expunge last ns)
  | CJunk s =>
    let '(ns, _, rows') := handle_store_junk s rows in (map NExpunge ns, rows', dec_each last ns)
  | COther => ([], rows, last)
  end.

Inductive titem := Ext (rows' : list msg) | Cmd (c : scmd).
