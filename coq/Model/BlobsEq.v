(** C15: comparison helpers for the in-Coq evaluation of correspondence cases
    (observed implementation state vs. Model/Blobs.v). No proofs here. *)
From Coq Require Import String Ascii List Bool Arith NArith.
From Raven Require Import Base.GoStr Base.Enum Model.BlobCodec Model.Blobs.
Import ListNotations.

Definition bN (l : list N) : str := map ascii_of_N l.

Definition ckey : str -> str -> str := hashed_octets.
Definition cokey : str -> str := fun c => S_ "k" ++ c.

Definition optstr_eqb (a b : option str) : bool :=
  match a, b with Some x, Some y => str_eqb x y | None, None => true | _, _ => false end.

Definition form_eqb (a b : form) : bool :=
  match a, b with
  | FLocal x, FLocal y => str_eqb x y
  | FS3 x, FS3 y => str_eqb x y
  | _, _ => false
  end.
Definition blob_eqb (a b : blobrow) : bool :=
  str_eqb (b_key a) (b_key b) && form_eqb (b_form a) (b_form b) && Nat.eqb (b_refs a) (b_refs b).
Definition optnat_eqb (a b : option nat) : bool :=
  match a, b with Some x, Some y => Nat.eqb x y | None, None => true | _, _ => false end.
(** rows are compared on the columns blob_id and text_content *)
Definition row_eqb (a b : partrow) : bool := optnat_eqb (r_blob a) (r_blob b) && str_eqb (r_text a) (r_text b).
Definition req_eqb (a b : req) : bool :=
  match a, b with
  | RHead x, RHead y | RPut x, RPut y | RGet x, RGet y => str_eqb x y
  | _, _ => false
  end.
Fixpoint list_eqb {A} (e : A -> A -> bool) (a b : list A) : bool :=
  match a, b with
  | [], [] => true
  | x :: a', y :: b' => e x y && list_eqb e a' b'
  | _, _ => false
  end.

(** bucket as a set of contents: every observed content is present and the sizes agree *)
Definition objs_eqb (objs : list (str * str)) (obs : list str) : bool :=
  Nat.eqb (length objs) (length obs) &&
  forallb (fun c => match lookup objs (cokey c) with Some c' => str_eqb c c' | None => false end) obs.

(** an observed row, as [partrow] with the ghost field filled from the sent part *)
Definition orow (blob : option nat) (text enc own : str) : partrow := mkRow blob text enc own.

(** state comparison: 4 bits (blobs, bucket, rows, request log), 0 = all equal *)
Definition state_diff (w : world) (bl : list blobrow) (objs : list str)
           (msgs : list (list partrow)) (lg : list req) : nat :=
  (if list_eqb blob_eqb (w_blobs w) bl then 0 else 1) +
  (if objs_eqb (w_objs w) objs then 0 else 2) +
  (if list_eqb (list_eqb row_eqb) (w_msgs w) msgs then 0 else 4) +
  (if list_eqb req_eqb (w_log w) lg then 0 else 8).

(** the executable spec on an OBSERVED state: (b) reference counts equal the
    number of rows using the blob, hashes are unique; (c) every row holds its
    octets inline or points at a blob filed under its own hash *)
Definition orefcount (id : nat) (rows : list partrow) : nat :=
  length (filter (fun r => match r_blob r with Some i => Nat.eqb i id | None => false end) rows).
Fixpoint nodup_strs (l : list str) : bool :=
  match l with [] => true | x :: r => negb (existsb (str_eqb x) r) && nodup_strs r end.
Definition state_spec_ok (bl : list blobrow) (msgs : list (list partrow)) : bool :=
  let rows := concat msgs in
  forallb (fun ib => Nat.eqb (b_refs (snd ib)) (orefcount (fst ib) rows)) (combine (seq 1 (length bl)) bl)
  && nodup_strs (map b_key bl)
  && forallb (fun r => match r_blob r with
                       | None => str_eqb (r_text r) (r_own r)
                       | Some id => match get_blob bl id with
                                    | Some b => str_eqb (b_key b) (ckey (r_enc r) (r_own r))
                                    | None => false
                                    end
                       end) rows.

(** the executable spec of one read (Spec/BlobSpec.v spec_read_ok, restated
    here so that this file has no dependency on Spec) *)
Definition obs_ok (own : str) (failed : bool) (res : option str) : bool :=
  match res with Some s => str_eqb s own | None => failed end.

(** one BODY[n] read; [impl] = [None] when FETCH answered NO.
    code = (impl or its GETs <> model) + 2 * (impl violates the spec); no finding class is left *)
Definition read_code (w : world) (s3on : bool) (m k : nat) (o : oracle) (impl : option str) (gets : list req) : nat :=
  match nth_error (w_msgs w) m with
  | Some rows =>
      match nth_error rows k with
      | Some row =>
          let out := fst (fst (read_part s3on w row o)) in
          (if optstr_eqb impl out && list_eqb req_eqb (snd (read_part s3on w row o)) gets then 0 else 1)
          + (if obs_ok (r_own row) (read_failed s3on w row o) impl then 0 else 2)
      | None => 99
      end
  | None => 99
  end.

(** one BODY[] read of a whole message: the model's contents of all rows (or
    the error), the GETs it issues, compared with the observed leaf bodies
    ([None] inside the list = not compared; [None] for the list = FETCH
    answered NO). [written] = what the reconstruction writes for a content
    (writePartContentWithS3: the stored octets, then ALWAYS the CRLF that belongs to
    the next delimiter, also after content that itself ends in CRLF). *)
Definition written (multi : bool) (c : str) : str :=
  if multi then c ++ crlf else c.
Fixpoint opt_cmp (multi : bool) (model : list str) (obs : list (option str)) : bool :=
  match model, obs with
  | [], [] => true
  | c :: m', o :: o' => (match o with Some x => str_eqb x (written multi c) | None => true end) && opt_cmp multi m' o'
  | _, _ => false
  end.
Definition read_all_ok (w : world) (s3on : bool) (m : nat) (o : oracle) (multi : bool)
           (obs : option (list (option str))) (gets : list req) : bool :=
  match nth_error (w_msgs w) m with
  | Some rows => let '(cs, lg) := read_rows s3on w rows o in
                 (match cs, obs with
                  | Some cs, Some obs => opt_cmp multi cs obs
                  | None, None => true
                  | _, _ => false
                  end) && list_eqb req_eqb lg gets
  | None => false
  end.
Definition msg_class (w : world) (m : nat) : bool := false.
(** spec on a whole-message read that answered NO: some row's backend must have failed *)
Fixpoint rows_failed (w : world) (s3on : bool) (rows : list partrow) (o : oracle) : bool :=
  match rows with
  | [] => false
  | r :: rest => let '(c, o', _) := read_part s3on w r o in
                 read_failed s3on w r o || (match c with Some _ => rows_failed w s3on rest o' | None => false end)
  end.
Definition msg_failed (w : world) (s3on : bool) (m : nat) (o : oracle) : bool :=
  match nth_error (w_msgs w) m with Some rows => rows_failed w s3on rows o | None => false end.

Definition crun (evs : list event) : world := run ckey cokey evs.

(** the states after 0, 1, 2, ... events *)
Fixpoint worlds_from (w : world) (evs : list event) : list world :=
  w :: match evs with [] => [] | e :: r => worlds_from (step ckey cokey w e) r end.
Definition worlds (evs : list event) : list world := worlds_from w0 evs.
Definition wat (ws : list world) (n : nat) : world := nth n ws w0.

