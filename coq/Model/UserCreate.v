(** C12 — model of db.GetOrCreateUserInitialized (internal/db/sqlite.go), the
    user-creation step on every entry path (LMTP delivery: storage.DeliverMessage;
    IMAP LOGIN / AUTHENTICATE: IMAPServer.EnsureUserAndMailboxes).

      id, err := GetUserByUsername(db, username, domainID)        // WHERE ... AND enabled = true
      if err == nil { return id, nil }
      result, err := db.Exec("INSERT INTO users ...")              // UNIQUE(username, domain_id)
      if err != nil {
        if UNIQUE constraint failed { return GetUserByUsername(db, username, domainID) }   // select again, ONCE
        return 0, err }
      return result.LastInsertId()

    The users table is a list of rows; a row may exist but be DISABLED
    (enabled = 0): the lookup does not see it, the INSERT collides with it.
    The function is written as a small-step machine so that "it returns" is a
    statement about a bounded number of steps.  No proofs in this file. *)
From Coq Require Import List Bool Arith.
From Raven Require Import Base.GoStr.
Import ListNotations.

Record urow : Type := mk_urow { u_id : nat; u_name : str; u_dom : nat; u_enabled : bool }.

Definition same_key (name : str) (dom : nat) (r : urow) : bool := str_eqb (u_name r) name && Nat.eqb (u_dom r) dom.

(** GetUserByUsername: the enabled row with that key *)
Definition lookup (t : list urow) (name : str) (dom : nat) : option nat :=
  option_map u_id (find (fun r => same_key name dom r && u_enabled r) t).

(** INSERT: UNIQUE(username, domain_id) counts every row, enabled or not *)
Definition fresh_id (t : list urow) : nat := S (fold_right Nat.max 0 (map u_id t)).
Definition insert (t : list urow) (name : str) (dom : nat) : option (list urow * nat) :=
  if existsb (same_key name dom) t then None
  else Some (t ++ [mk_urow (fresh_id t) name dom true], fresh_id t).

Inductive result : Type :=
| Found (id : nat)                 (* the user exists (enabled) *)
| Created (id : nat)               (* inserted now *)
| NotFound.                        (* "user not found": the key is taken by a row the lookup does not see *)

Inductive state : Type :=
| Start                            (* at the top of the function *)
| Done (r : result).

(** one call of the function body, as the code is: the conflict branch selects again and returns *)
Definition step (t : list urow) (name : str) (dom : nat) (s : state) : list urow * state :=
  match s with
  | Done r => (t, Done r)
  | Start =>
      match lookup t name dom with
      | Some id => (t, Done (Found id))
      | None =>
          match insert t name dom with
          | Some (t', id) => (t', Done (Created id))
          | None =>                                            (* UNIQUE constraint failed *)
              match lookup t name dom with                     (* select again, once *)
              | Some id => (t, Done (Found id))
              | None => (t, Done NotFound)
              end
          end
      end
  end.

(** the seeded variant (seeded/C12-3): the conflict branch starts the function over *)
Definition step_restart (t : list urow) (name : str) (dom : nat) (s : state) : list urow * state :=
  match s with
  | Done r => (t, Done r)
  | Start =>
      match lookup t name dom with
      | Some id => (t, Done (Found id))
      | None =>
          match insert t name dom with
          | Some (t', id) => (t', Done (Created id))
          | None => (t, Start)                                 (* return GetOrCreateUserInitialized(...) *)
          end
      end
  end.

Fixpoint run (stp : list urow -> str -> nat -> state -> list urow * state)
             (fuel : nat) (t : list urow) (name : str) (dom : nat) (s : state) : list urow * state :=
  match fuel with
  | O => (t, s)
  | S f => let '(t', s') := stp t name dom s in run stp f t' name dom s'
  end.
