(** Model of internal/server/response/envelope.go: extractHeader, QuoteOrNIL,
    parseAddressList, BuildEnvelope (statement by statement; ASCII domain for
    ToUpper / TrimSpace).  Address lists are read by net/mail first
    ([mail_parse], a parameter of the model); the comma splitting is the
    fallback.  [None] = where the Go code would panic (unreachable since e2cd37d).
    No proofs in this file. *)
From Coq Require Import String Ascii List Bool Arith ZArith.
From Raven Require Import Base.GoStr.
Import ListNotations.

Definition SP : ascii := ascii_of_nat 32.
Definition TAB : ascii := ascii_of_nat 9.
Definition COLON : ascii := ascii_of_nat 58.
Definition COMMA : ascii := ascii_of_nat 44.
Definition LT_ : ascii := ascii_of_nat 60.
Definition GT_ : ascii := ascii_of_nat 62.
Definition AT_ : ascii := ascii_of_nat 64.
Definition DQ : ascii := ascii_of_nat 34.
Definition BSL : ascii := ascii_of_nat 92.

(** the loop over strings.Split(rawMsg, "\n") *)
Fixpoint eh_loop (lines : list str) (name_u : str) (in_header : bool) (acc : str) : str :=
  match lines with
  | [] => acc
  | line0 :: rest =>
      let line := trim_right line0 [CR] in
      match line with
      | [] => acc                                            (* empty line: break *)
      | c :: _ =>
          if Ascii.eqb c SP || Ascii.eqb c TAB then
            if in_header then eh_loop rest name_u true (acc ++ [SP] ++ trim_space line)
            else eh_loop rest name_u false acc
          else
            match index_byte line COLON with
            | Some k =>
                let cur := trim_space (firstn k line) in
                if str_eqb (to_upper cur) name_u
                then eh_loop rest name_u true (acc ++ trim_space (skipn (S k) line))
                else eh_loop rest name_u false acc
            | None => eh_loop rest name_u in_header acc
            end
      end
  end.

Definition extract_header (raw name : str) : str :=
  eh_loop (split_byte raw LF) (to_upper name) false [].

Definition NIL : str := S_ "NIL".

Definition quote_or_nil (s : str) : str :=
  match s with
  | [] => NIL
  | _ =>
      let s1 := replace_byte s BSL [BSL; BSL] in
      let s2 := replace_byte s1 DQ [BSL; DQ] in
      [DQ] ++ s2 ++ [DQ]
  end.

(** one element of strings.Split(addresses, ","); [None] = panic,
    [Some None] = skipped (blank), [Some (Some s)] = address structure *)
Definition parse_one (addr0 : str) : option (option str) :=
  let addr := trim_space addr0 in
  match addr with
  | [] => Some None
  | _ =>
      let ne :=
        (* if start := strings.Index(addr, "<"); start != -1 {
             if end := strings.Index(addr[start:], ">"); end != -1 { end += start; ... *)
        match index_byte addr LT_ with
        | Some st =>
            match index_byte (skipn st addr) GT_ with
            | Some en =>
                match slice addr (Z.of_nat st + 1) (Z.of_nat (st + en)) with
                | Some email => Some (trim (trim_space (firstn st addr)) [DQ], email)
                | None => None
                end
            | None => Some ([], addr)
            end
        | None => Some ([], addr)
        end in
      match ne with
      | None => None
      | Some (name, email) =>
          let '(mailbox, host) :=
            match index_byte email AT_ with
            | Some k => (firstn k email, skipn (S k) email)
            | None => (email, [])
            end in
          Some (Some (S_ "(" ++ quote_or_nil name ++ S_ " NIL " ++ quote_or_nil mailbox ++ [SP] ++ quote_or_nil host ++ S_ ")"))
      end
  end.

Fixpoint parse_all (l : list str) : option (list str) :=
  match l with
  | [] => Some []
  | a :: l' =>
      match parse_one a with
      | None => None
      | Some o =>
          match parse_all l' with
          | None => None
          | Some r => Some (match o with Some s => s :: r | None => r end)
          end
      end
  end.

(** today's splitting, now the fallback for headers net/mail does not parse *)
Definition parse_fallback (addresses : str) : option str :=
  match parse_all (split_byte addresses COMMA) with
  | None => None
  | Some [] => Some NIL
  | Some l => Some (S_ "(" ++ join l [SP] ++ S_ ")")
  end.

(** strings.LastIndex(s, c) for one byte *)
Definition last_index_byte (s : str) (c : ascii) : option nat :=
  match index_byte (rev s) c with
  | Some k => Some (length s - 1 - k)
  | None => None
  end.

(** one *mail.Address: [name] is mime.QEncoding.Encode("utf-8", a.Name) (the
    name itself when it is printable ASCII), [addr] is a.Address; the split is
    at the LAST "@" *)
Definition render_mail_addr (na : str * str) : str :=
  let '(name, addr) := na in
  let '(mailbox, host) :=
    match last_index_byte addr AT_ with
    | Some k => (firstn k addr, skipn (S k) addr)
    | None => (addr, [])
    end in
  S_ "(" ++ quote_or_nil name ++ S_ " NIL " ++ quote_or_nil mailbox ++ [SP] ++ quote_or_nil host ++ S_ ")".

(** parseAddressList.  [mail_parse] stands for net/mail's ParseAddressList
    followed by the encoded-word encoding of each display name (Go libraries,
    not modelled): [Some l] = parsed without error into the list l. *)
Definition parse_address_list (mail_parse : str -> option (list (str * str))) (addresses : str) : option str :=
  match addresses with
  | [] => Some NIL
  | _ =>
      match mail_parse addresses with
      | Some (a :: l) => Some (S_ "(" ++ join (map render_mail_addr (a :: l)) [SP] ++ S_ ")")
      | _ => parse_fallback addresses
      end
  end.

Definition build_envelope (mail_parse : str -> option (list (str * str))) (raw : str) : option str :=
  let parse_address_list := parse_address_list mail_parse in
  let h := extract_header raw in
  let date := h (S_ "Date") in
  let subject := h (S_ "Subject") in
  let from := h (S_ "From") in
  let sender0 := h (S_ "Sender") in
  let reply0 := h (S_ "Reply-To") in
  let to := h (S_ "To") in
  let cc := h (S_ "Cc") in
  let bcc := h (S_ "Bcc") in
  let irt := h (S_ "In-Reply-To") in
  let mid := h (S_ "Message-ID") in
  let sender := match sender0 with [] => from | _ => sender0 end in
  let reply := match reply0 with [] => from | _ => reply0 end in
  match parse_address_list from, parse_address_list sender, parse_address_list reply,
        parse_address_list to, parse_address_list cc, parse_address_list bcc with
  | Some f, Some s, Some r, Some t, Some c, Some b =>
      Some (S_ "ENVELOPE (" ++ join [quote_or_nil date; quote_or_nil subject; f; s; r; t; c; b;
                                     quote_or_nil irt; quote_or_nil mid] [SP] ++ S_ ")")
  | _, _, _, _, _, _ => None
  end.
