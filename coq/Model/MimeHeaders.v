(** Model of internal/delivery/parser/parser.go: extractAllHeaders
    (string level, statement by statement), and the field-level function it
    computes on the header block of a serialised message ([hdr_store]).
    Domain note: strings.TrimSpace is modelled for ASCII white space.
    Code as of fix C02-3: only white space around the whole value is dropped. *)
From Coq Require Import String Ascii List Bool Arith ZArith.
From Raven Require Import Base.GoStr Base.GoStrMime Spec.Mime.
Import ListNotations.

Definition is_sp_tab (c : ascii) : bool := Ascii.eqb c " "%char || Ascii.eqb c (ascii_of_nat 9).
Definition nonempty (s : str) : bool := match s with [] => false | _ => true end.
Definition colon : ascii := ":"%char.
Definition ws4 : str := [" "%char; ascii_of_nat 9; CR; LF].      (* cutset " \t\r\n" *)
(** strings.TrimRight(currentHeaderValue.String(), " \t\r\n") when a header is saved *)
Definition save_value (val : str) : str := trim_right val ws4.

(** the loop of extractAllHeaders over [strings.Split(rawMessage, "\n")];
    state: currentHeaderName, currentHeaderValue, headers (reversed) *)
Fixpoint eah_loop (lines : list str) (cur val : str) (acc : list header) : list header :=
  match lines with
  | [] => rev acc     (* no empty line seen: the pending header is NOT saved *)
  | l0 :: rest =>
      let line := trim_right l0 [CR] in
      match line with
      | [] => rev (if nonempty cur then (cur, save_value val) :: acc else acc)
      | c :: _ =>
          if is_sp_tab c then
            eah_loop rest cur (if nonempty cur then val ++ crlf ++ line else val) acc
          else
            let acc' := if nonempty cur then (cur, save_value val) :: acc else acc in
            let val' := if nonempty cur then [] else val in   (* Reset only when a header was saved *)
            match index_byte line colon with
            | Some i => eah_loop rest (trim_space (firstn i line))
                                 (val' ++ trim_left_f is_sp_tab (skipn (S i) line)) acc'
            | None => eah_loop rest [] val' acc'
            end
      end
  end.

Definition extract_all_headers (raw : str) : list header := eah_loop (split_byte raw LF) [] [] [].

(** What the extraction does to one field (name, raw text after the colon,
    folds written CRLF WSP): the name is trimmed, leading blanks of the first
    line and white space at the very end of the value are dropped, everything
    in between (folds included) is kept. *)
Definition hdr_store (h : header) : header :=
  match split (snd h) crlf with
  | [] => (trim_space (fst h), [])
  | l0 :: ls => (trim_space (fst h), save_value (trim_left_f is_sp_tab l0 ++ flat_map (fun l => crlf ++ l) ls))
  end.
