(** C12, function layer: models of the hand-written slicing code the property
    is anchored in.  Everything runs in the [option] monad: [None] is a Go
    run-time panic (slice bounds out of range / index out of range), exactly
    where [Base.GoStr.slice] returns [None].  The Go code is mirrored
    statement by statement, bugs included.  No proofs in this file.

    - internal/server/response/envelope.go : QuoteOrNIL, parseAddressList,
      extractHeader, BuildEnvelope  (internal/server/utils/envelope.go is a
      byte-for-byte twin: ParseAddressList, ExtractHeader, BuildEnvelope)
    - internal/server/message/fetch.go, processFetchForMessage:
        the partial range <start.len> after a numeric section  (l.377-400),
        BODY[TEXT]<start.len>                                   (l.513-532),
        the HEADER.FIELDS prefix arithmetic                     (l.427-454)
    - internal/server/response/bodystructure.go, BuildBodyStructure:
        the single-part body  rawMsg[headerEnd+4:]              (l.57-65)
    - fmt.Sscanf(spec, "%d.%d", &a, &b) restricted to ASCII input (library
      function, modelled because the two partial-range sites feed it
      attacker-chosen text; tied by the correspondence suite [partial]). *)
From Coq Require Import String Ascii List Bool Arith NArith ZArith.
From Raven Require Import Base.GoStr.
Import ListNotations.
Local Open Scope char_scope.

Notation "' x <- e ;; k" := (match e with Some x => k | None => None end)
  (at level 200, x pattern, e at level 100, k at level 200, right associativity).

Definition zlen (s : str) : Z := Z.of_nat (length s).

(** ---- QuoteOrNIL (no slicing; total by construction) ---- *)
Definition dq : ascii := """".
Definition bsl : ascii := "\".
Definition quote_or_nil (s : str) : str :=
  match s with
  | [] => S_ "NIL"
  | _ => dq :: replace_byte (replace_byte s bsl [bsl; bsl]) dq [bsl; dq] ++ [dq]
  end.

(** ---- parseAddressList ---- *)

(** strings.SplitN(email, "@", 2) when email contains "@" *)
Definition split_at_first (s : str) (c : ascii) : str * str :=
  match index_byte s c with
  | Some i => (firstn i s, skipn (S i) s)
  | None => (s, [])
  end.

(** one element of the comma-separated list, already trimmed and non-empty *)
Definition addr_struct (addr : str) : option str :=
  ' (name, email) <-
     (if contains_byte addr "<" && contains_byte addr ">" then
        match index_byte addr "<", index_byte addr ">" with
        | Some st, Some en =>
            ' n0 <- slice_to addr (Z.of_nat st) ;;                    (* addr[:start] *)
            ' em <- slice addr (Z.of_nat st + 1) (Z.of_nat en) ;;     (* addr[start+1:end] *)
            Some (trim (trim_space n0) [dq], em)
        | _, _ => Some ([], addr)
        end
      else Some ([], addr)) ;;
  let '(mailbox, host) :=
     if contains_byte email "@" then split_at_first email "@" else (email, []) in
  Some (S_ "(" ++ quote_or_nil name ++ S_ " NIL " ++ quote_or_nil mailbox ++ S_ " "
          ++ quote_or_nil host ++ S_ ")").

Fixpoint addr_structs (elts : list str) : option (list str) :=
  match elts with
  | [] => Some []
  | e :: rest =>
      let a := trim_space e in
      match a with
      | [] => addr_structs rest                       (* continue *)
      | _ => ' s <- addr_struct a ;; ' r <- addr_structs rest ;; Some (s :: r)
      end
  end.

Definition parse_address_list (addresses : str) : option str :=
  match addresses with
  | [] => Some (S_ "NIL")
  | _ =>
      ' structs <- addr_structs (split_byte addresses ",") ;;
      match structs with
      | [] => Some (S_ "NIL")
      | _ => Some (S_ "(" ++ join structs (S_ " ") ++ S_ ")")
      end
  end.

(** ---- extractHeader ---- *)
Definition is_sp_tab (c : ascii) : bool := Ascii.eqb c " " || Ascii.eqb c (ascii_of_nat 9).

Fixpoint eh_loop (lines : list str) (hu : str) (inh : bool) (acc : str) : option str :=
  match lines with
  | [] => Some acc
  | l0 :: rest =>
      let line := trim_right l0 [CR] in
      match line with
      | [] => Some acc                                   (* empty line: break *)
      | c :: _ =>
          if is_sp_tab c then
            if inh then eh_loop rest hu true (acc ++ S_ " " ++ trim_space line)
            else eh_loop rest hu inh acc
          else
            match index_byte line ":" with
            | Some ci =>
                ' cur <- slice_to line (Z.of_nat ci) ;;            (* line[:colonIdx] *)
                if str_eqb (to_upper (trim_space cur)) hu then
                  ' v <- slice_from line (Z.of_nat ci + 1) ;;      (* line[colonIdx+1:] *)
                  eh_loop rest hu true (acc ++ trim_space v)
                else eh_loop rest hu false acc
            | None => eh_loop rest hu inh acc
            end
      end
  end.

Definition extract_header (raw name : str) : option str :=
  eh_loop (split_byte raw LF) (to_upper name) false [].

(** ---- BuildEnvelope ---- *)
Definition or_default (s d : str) : str := match s with [] => d | _ => s end.

Definition build_envelope (raw : str) : option str :=
  ' date <- extract_header raw (S_ "Date") ;;
  ' subject <- extract_header raw (S_ "Subject") ;;
  ' from <- extract_header raw (S_ "From") ;;
  ' sender0 <- extract_header raw (S_ "Sender") ;;
  ' replyto0 <- extract_header raw (S_ "Reply-To") ;;
  ' to <- extract_header raw (S_ "To") ;;
  ' cc <- extract_header raw (S_ "Cc") ;;
  ' bcc <- extract_header raw (S_ "Bcc") ;;
  ' inreplyto <- extract_header raw (S_ "In-Reply-To") ;;
  ' msgid <- extract_header raw (S_ "Message-ID") ;;
  let sender := or_default sender0 from in
  let replyto := or_default replyto0 from in
  ' a_from <- parse_address_list from ;;
  ' a_sender <- parse_address_list sender ;;
  ' a_replyto <- parse_address_list replyto ;;
  ' a_to <- parse_address_list to ;;
  ' a_cc <- parse_address_list cc ;;
  ' a_bcc <- parse_address_list bcc ;;
  Some (S_ "ENVELOPE (" ++ join [quote_or_nil date; quote_or_nil subject; a_from; a_sender;
                                 a_replyto; a_to; a_cc; a_bcc; quote_or_nil inreplyto;
                                 quote_or_nil msgid] (S_ " ") ++ S_ ")").

(** ---- Go int arithmetic ---- *)
Definition two63 : Z := 9223372036854775808%Z.
Definition wrap64 (z : Z) : Z := ((z + two63) mod (2 * two63) - two63)%Z.

(** ---- the common tail of both partial-range sites:
      if start < len(p) { end := start+length; if end > len(p) { end = len(p) }; p = p[start:end] }
      else { p = "" } ---- *)
Definition partial_apply (p : str) (start length : Z) : option str :=
  if (start <? zlen p)%Z then
    let e := wrap64 (start + length) in
    let e := if (e >? zlen p)%Z then zlen p else e in
    slice p start e
  else Some [].

(** ---- fmt.Sscanf(s, "%d.%d", &a, &b), ASCII input without newlines.
    Result: the values assigned (None = left untouched); err == nil iff both
    are assigned. ---- *)
Definition is_blank (c : ascii) : bool := Ascii.eqb c " " || Ascii.eqb c (ascii_of_nat 9).

Fixpoint take_while (f : ascii -> bool) (s : str) : str * str :=
  match s with
  | [] => ([], [])
  | c :: s' => if f c then let '(a, b) := take_while f s' in (c :: a, b) else ([], s)
  end.

(** one %d verb: SkipSpace, optional sign, at least one digit, value within int64 *)
Definition scan_int (s : str) : option Z * str :=
  let s1 := drop_while is_blank s in
  let '(neg, s2) :=
     match s1 with
     | c :: r => if Ascii.eqb c "-" then (true, r) else if Ascii.eqb c "+" then (false, r) else (false, s1)
     | [] => (false, [])
     end in
  let '(ds, rest) := take_while is_digit s2 in
  match ds with
  | [] => (None, rest)
  | _ =>
      let v := digits_val ds 0 in
      if neg then (if (v <=? two63)%Z then (Some (- v)%Z, rest) else (None, rest))
      else (if (v <? two63)%Z then (Some v, rest) else (None, rest))
  end.

Definition sscan_d_dot_d (s : str) : option Z * option Z :=
  match scan_int s with
  | (None, _) => (None, None)
  | (Some a, rest) =>
      match rest with
      | c :: r => if Ascii.eqb c "." then (Some a, fst (scan_int r)) else (Some a, None)
      | [] => (Some a, None)
      end
  end.

(** ---- partial range after a numeric section: [rest] is upper[end+1:], the
    text that follows the closing bracket of BODY[n] ---- *)
Definition numeric_partial (rest payload : str) : option str :=
  match rest with
  | c :: _ =>
      if Ascii.eqb c "<" then
        match index_byte rest ">" with
        | Some cl =>
            ' spec <- slice rest 1 (Z.of_nat cl) ;;             (* upper[after+1 : after+close] *)
            match sscan_d_dot_d spec with
            | (Some st, Some ln) => partial_apply payload st ln
            | _ => Some payload
            end
        | None => Some payload
        end
      else Some payload
  | [] => Some payload
  end.

(** ---- BODY[TEXT] / BODY.PEEK[TEXT] with the first "<" ... ">" of the whole
    (upper-cased) item string; scan errors are ignored, so a partially
    scanned range keeps the defaults 0 / len(body) ---- *)
Definition text_partial (items_upper body : str) : option str :=
  if contains_byte items_upper "<" && contains_byte items_upper ">" then
    match index_byte items_upper "<", index_byte items_upper ">" with
    | Some si, Some ei =>
        if (si <? ei)%nat then
          ' spec <- slice items_upper (Z.of_nat si + 1) (Z.of_nat ei) ;;
          let '(oa, ob) := sscan_d_dot_d spec in
          let st := match oa with Some a => a | None => 0%Z end in
          let ln := match ob with Some b => b | None => zlen body end in
          partial_apply body st ln
        else Some body
    | _, _ => Some body
    end
  else Some body.

(** ---- HEADER.FIELDS: the requested field names.
    Some None   = the item is not present,
    Some (Some l) = the upper-cased requested names (defaults when empty) ---- *)
Definition hf_peek : str := S_ "BODY.PEEK[HEADER.FIELDS".
Definition hf_body : str := S_ "BODY[HEADER.FIELDS".
Definition hf_defaults : list str :=
  map S_ ["FROM"; "TO"; "CC"; "BCC"; "SUBJECT"; "DATE"; "MESSAGE-ID"; "PRIORITY"; "X-PRIORITY";
          "REFERENCES"; "NEWSGROUPS"; "IN-REPLY-TO"; "CONTENT-TYPE"; "REPLY-TO"]%string.

Definition header_fields (items : str) : option (option (list str)) :=
  let up := to_upper items in
  if contains up hf_peek || contains up hf_body then
    let start := match index up hf_peek with Some i => Some i | None => index up hf_body end in
    match start with
    | Some st =>
        let prefix_len := if contains up hf_peek then 25%Z else 20%Z in
        ' fs <- slice_from items (Z.of_nat st + prefix_len) ;;       (* items[start+prefixLen:] *)
        match index_byte fs ")" with
        | Some cp =>
            ' fs' <- slice_to fs (Z.of_nat cp) ;;
            match fields fs' with
            | [] => Some (Some hf_defaults)
            | l => Some (Some (map (fun f => to_upper (trim_space f)) l))
            end
        | None => Some (Some hf_defaults)
        end
    | None => Some (Some hf_defaults)
    end
  else Some None.

(** ---- BuildBodyStructure, non-multipart branch: the body ---- *)
Definition crlfcrlf : str := [CR; LF; CR; LF].
Definition lflf : str := [LF; LF].

Definition bs_single_body (raw : str) : option str :=
  let he := match index raw crlfcrlf with Some i => Some i | None => index raw lflf end in
  match he with
  | Some i => slice_from raw (Z.of_nat i + 4)                  (* rawMsg[headerEnd+4:] *)
  | None => Some []
  end.

(** ============ finding classes (decidable, narrow) ============ *)
Inductive finding : Type :=
| AddressAngle          (* an address-list element whose first ">" precedes its first "<" *)
| PartialNegative       (* BODY[n]<s.l>: s < 0, or s + l (wrapped to int64) < s *)
| TextPartialNegative   (* BODY[TEXT]<..>: same arithmetic, scan errors ignored *)
| HeaderFieldsShort     (* fewer than prefixLen bytes follow the start of BODY[HEADER.FIELDS *)
| BodystructureLfTail   (* header/body separator is LF LF within 3 bytes of the end, no CRLF CRLF *)
| SearchOrArity.        (* SEARCH ... OR k1 a: k1 takes an argument and a is the last token (Model/SearchOr.v) *)

Definition angle_bad (addr : str) : bool :=
  match index_byte addr "<", index_byte addr ">" with
  | Some st, Some en => (en <? st)%nat
  | _, _ => false
  end.

Definition classify_address_list (addresses : str) : option finding :=
  if existsb (fun e => angle_bad (trim_space e)) (split_byte addresses ",")
  then Some AddressAngle else None.

Definition header_or_empty (raw : str) (name : string) : str :=
  match extract_header raw (S_ name) with Some v => v | None => [] end.

Definition classify_envelope (raw : str) : option finding :=
  let from := header_or_empty raw "From" in
  let vals := [from; or_default (header_or_empty raw "Sender") from;
               or_default (header_or_empty raw "Reply-To") from;
               header_or_empty raw "To"; header_or_empty raw "Cc"; header_or_empty raw "Bcc"] in
  if existsb (fun v => match classify_address_list v with Some _ => true | None => false end) vals
  then Some AddressAngle else None.

Definition partial_bad (p : str) (start length : Z) : bool :=
  ((start <? zlen p) && ((start <? 0) || (wrap64 (start + length) <? start)))%Z.

Definition classify_numeric_partial (rest payload : str) : option finding :=
  match rest with
  | c :: _ =>
      if Ascii.eqb c "<" then
        match index_byte rest ">" with
        | Some cl =>
            match slice rest 1 (Z.of_nat cl) with
            | Some spec =>
                match sscan_d_dot_d spec with
                | (Some st, Some ln) => if partial_bad payload st ln then Some PartialNegative else None
                | _ => None
                end
            | None => None
            end
        | None => None
        end
      else None
  | [] => None
  end.

Definition classify_text_partial (items_upper body : str) : option finding :=
  match index_byte items_upper "<", index_byte items_upper ">" with
  | Some si, Some ei =>
      if (si <? ei)%nat then
        match slice items_upper (Z.of_nat si + 1) (Z.of_nat ei) with
        | Some spec =>
            let '(oa, ob) := sscan_d_dot_d spec in
            let st := match oa with Some a => a | None => 0%Z end in
            let ln := match ob with Some b => b | None => zlen body end in
            if partial_bad body st ln then Some TextPartialNegative else None
        | None => None
        end
      else None
  | _, _ => None
  end.

Definition classify_header_fields (items : str) : option finding :=
  let up := to_upper items in
  match index up hf_peek with
  | Some st => if (Z.of_nat st + 25 >? zlen items)%Z then Some HeaderFieldsShort else None
  | None =>
      match index up hf_body with
      | Some st => if (Z.of_nat st + 20 >? zlen items)%Z then Some HeaderFieldsShort else None
      | None => None
      end
  end.

Definition classify_bs_single (raw : str) : option finding :=
  match index raw crlfcrlf with
  | Some _ => None
  | None =>
      match index raw lflf with
      | Some i => if (Z.of_nat i + 4 >? zlen raw)%Z then Some BodystructureLfTail else None
      | None => None
      end
  end.
