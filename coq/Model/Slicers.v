(** C12, function layer: models of the hand-written slicing code the property
    is anchored in.  Everything runs in the [option] monad: [None] is a Go
    run-time panic (slice bounds out of range / index out of range), exactly
    where [Base.GoStr.slice] returns [None].  The Go code is mirrored
    statement by statement.  No proofs in this file.

    This is the code AFTER the fix wave (fixes/c12-2 … c12-7): every slice
    is still written with [slice] (so a missing guard would show up as
    [None]), and Proof/Slicers.v shows that no input reaches [None].

    - internal/server/response/envelope.go : QuoteOrNIL (a value with CR/LF is
      a literal, 87e8a19), parseAddressList (net/mail.ParseAddressList first —
      a parameter [mail_parse] of the model, Go library — then the comma
      splitting as fallback, bd5007f), extractHeader, BuildEnvelope.
      internal/server/utils/envelope.go keeps the comma splitting only.
    - internal/server/message/fetch.go after 4d6a9a4: parseFetchItems /
      parseFetchItem (the item list is tokenised once), headerFieldNames,
      splitMessage, the part-number prefix of a numeric section, slicePartial,
      HasSignedPartial; asciiUpper is exactly [to_upper] of Base.GoStr.
    - internal/server/response/bodystructure.go, BuildBodyStructure:
        the single-part body  rawMsg[headerEnd+sepLen:]
    - fmt.Sscanf(spec, "%d.%d", &a, &b) restricted to ASCII input (library
      function, modelled because parseFetchItem feeds it client-chosen text;
      tied by the correspondence suite [partial]). *)
From Coq Require Import String Ascii List Bool Arith NArith ZArith.
From Raven Require Import Base.GoStr.
Import ListNotations.
Local Open Scope char_scope.

Notation "' x <- e ;; k" := (match e with Some x => k | None => None end)
  (at level 200, x pattern, e at level 100, k at level 200, right associativity).

Definition zlen (s : str) : Z := Z.of_nat (length s).

(** ---- QuoteOrNIL (no slicing; total by construction).  A value with CR or
    LF is sent as a literal {n}CRLF<octets> ---- *)
Definition dq : ascii := """".
Definition bsl : ascii := "\".
Definition quote_or_nil (s : str) : str :=
  match s with
  | [] => S_ "NIL"
  | _ =>
      if contains_byte s CR || contains_byte s LF
      then S_ "{" ++ itoa (zlen s) ++ S_ "}" ++ crlf ++ s
      else dq :: replace_byte (replace_byte s bsl [bsl; bsl]) dq [bsl; dq] ++ [dq]
  end.

(** ---- parseAddressList ---- *)

(** strings.SplitN(email, "@", 2) when email contains "@" *)
Definition split_at_first (s : str) (c : ascii) : str * str :=
  match index_byte s c with
  | Some i => (firstn i s, skipn (S i) s)
  | None => (s, [])
  end.

(** one element of the comma-separated list, already trimmed and non-empty:
      if start := strings.Index(addr, "<"); start != -1 {
        if end := strings.Index(addr[start:], ">"); end != -1 {
          end += start; name = TrimSpace(addr[:start]); email = addr[start+1:end]; ... *)
Definition addr_struct (addr : str) : option str :=
  ' (name, email) <-
     (match index_byte addr "<" with
      | Some st =>
          ' tail <- slice_from addr (Z.of_nat st) ;;                    (* addr[start:] *)
          match index_byte tail ">" with
          | Some en0 =>
              let en := (Z.of_nat en0 + Z.of_nat st)%Z in
              ' n0 <- slice_to addr (Z.of_nat st) ;;                    (* addr[:start] *)
              ' em <- slice addr (Z.of_nat st + 1) en ;;                (* addr[start+1:end] *)
              Some (trim (trim_space n0) [dq], em)
          | None => Some ([], addr)
          end
      | None => Some ([], addr)
      end) ;;
  let '(mailbox, host) :=
     if contains_byte email "@" then split_at_first email "@" else (email, []) in
  Some (S_ "(" ++ quote_or_nil name ++ S_ " NIL " ++ quote_or_nil mailbox ++ S_ " "
          ++ quote_or_nil host ++ S_ ")").

Fixpoint addr_structs (elts : list str) : option (list str) :=
  match elts with
  | [] => Some []
  | e :: rest =>
      let a := trim_space e in
      match a with
      | [] => addr_structs rest                       (* continue *)
      | _ => ' s <- addr_struct a ;; ' r <- addr_structs rest ;; Some (s :: r)
      end
  end.

(** the comma splitting: all of utils.ParseAddressList, and the fallback of
    response.parseAddressList for what net/mail rejects *)
Definition parse_fallback (addresses : str) : option str :=
  match addresses with
  | [] => Some (S_ "NIL")
  | _ =>
      ' structs <- addr_structs (split_byte addresses ",") ;;
      match structs with
      | [] => Some (S_ "NIL")
      | _ => Some (S_ "(" ++ join structs (S_ " ") ++ S_ ")")
      end
  end.

(** strings.LastIndex(s, c) for one byte *)
Definition last_index_byte (s : str) (c : ascii) : option nat :=
  match index_byte (rev s) c with
  | Some k => Some (length s - 1 - k)
  | None => None
  end.

(** one *mail.Address: [name] = mime.QEncoding.Encode("utf-8", a.Name), [addr] = a.Address;
      if at := strings.LastIndex(a.Address, "@"); at != -1 { mailbox, host = a.Address[:at], a.Address[at+1:] } *)
Definition render_mail_addr (na : str * str) : option str :=
  let '(name, addr) := na in
  ' (mailbox, host) <-
     (match last_index_byte addr "@" with
      | Some at_ =>
          ' m <- slice_to addr (Z.of_nat at_) ;;
          ' h <- slice_from addr (Z.of_nat at_ + 1) ;;
          Some (m, h)
      | None => Some (addr, [])
      end) ;;
  Some (S_ "(" ++ quote_or_nil name ++ S_ " NIL " ++ quote_or_nil mailbox ++ S_ " "
          ++ quote_or_nil host ++ S_ ")").

Fixpoint render_mail_addrs (l : list (str * str)) : option (list str) :=
  match l with
  | [] => Some []
  | a :: r => ' x <- render_mail_addr a ;; ' xs <- render_mail_addrs r ;; Some (x :: xs)
  end.

(** response.parseAddressList.  [mail_parse] stands for net/mail.ParseAddressList followed by the
    encoded-word encoding of every display name (Go libraries, not modelled):
    [Some l] = parsed without error into the (name, address) list l. *)
Definition parse_address_list (mail_parse : str -> option (list (str * str))) (addresses : str) : option str :=
  match addresses with
  | [] => Some (S_ "NIL")
  | _ =>
      match mail_parse addresses with
      | Some (a :: l) =>
          ' rs <- render_mail_addrs (a :: l) ;;
          Some (S_ "(" ++ join rs (S_ " ") ++ S_ ")")
      | _ => parse_fallback addresses
      end
  end.

(** ---- extractHeader ---- *)
Definition is_sp_tab (c : ascii) : bool := Ascii.eqb c " " || Ascii.eqb c (ascii_of_nat 9).

Fixpoint eh_loop (lines : list str) (hu : str) (inh : bool) (acc : str) : option str :=
  match lines with
  | [] => Some acc
  | l0 :: rest =>
      let line := trim_right l0 [CR] in
      match line with
      | [] => Some acc                                   (* empty line: break *)
      | c :: _ =>
          if is_sp_tab c then
            if inh then eh_loop rest hu true (acc ++ S_ " " ++ trim_space line)
            else eh_loop rest hu inh acc
          else
            match index_byte line ":" with
            | Some ci =>
                ' cur <- slice_to line (Z.of_nat ci) ;;            (* line[:colonIdx] *)
                if str_eqb (to_upper (trim_space cur)) hu then
                  ' v <- slice_from line (Z.of_nat ci + 1) ;;      (* line[colonIdx+1:] *)
                  eh_loop rest hu true (acc ++ trim_space v)
                else eh_loop rest hu false acc
            | None => eh_loop rest hu inh acc
            end
      end
  end.

Definition extract_header (raw name : str) : option str :=
  eh_loop (split_byte raw LF) (to_upper name) false [].

(** ---- BuildEnvelope ---- *)
Definition or_default (s d : str) : str := match s with [] => d | _ => s end.

Definition build_envelope (mail_parse : str -> option (list (str * str))) (raw : str) : option str :=
  let parse_address_list := parse_address_list mail_parse in
  ' date <- extract_header raw (S_ "Date") ;;
  ' subject <- extract_header raw (S_ "Subject") ;;
  ' from <- extract_header raw (S_ "From") ;;
  ' sender0 <- extract_header raw (S_ "Sender") ;;
  ' replyto0 <- extract_header raw (S_ "Reply-To") ;;
  ' to <- extract_header raw (S_ "To") ;;
  ' cc <- extract_header raw (S_ "Cc") ;;
  ' bcc <- extract_header raw (S_ "Bcc") ;;
  ' inreplyto <- extract_header raw (S_ "In-Reply-To") ;;
  ' msgid <- extract_header raw (S_ "Message-ID") ;;
  let sender := or_default sender0 from in
  let replyto := or_default replyto0 from in
  ' a_from <- parse_address_list from ;;
  ' a_sender <- parse_address_list sender ;;
  ' a_replyto <- parse_address_list replyto ;;
  ' a_to <- parse_address_list to ;;
  ' a_cc <- parse_address_list cc ;;
  ' a_bcc <- parse_address_list bcc ;;
  Some (S_ "ENVELOPE (" ++ join [quote_or_nil date; quote_or_nil subject; a_from; a_sender;
                                 a_replyto; a_to; a_cc; a_bcc; quote_or_nil inreplyto;
                                 quote_or_nil msgid] (S_ " ") ++ S_ ")").

(** ---- slicePartial(data, start, length):
      if start < 0 || length < 0 || start >= len(data) { return "" }
      if length > len(data)-start { length = len(data) - start }
      return data[start : start+length]
    (all operands are within [0, len(data)], so Go's int arithmetic does not wrap) ---- *)
Definition two63 : Z := 9223372036854775808%Z.
Definition partial_apply (p : str) (start length : Z) : option str :=
  if ((start <? 0) || (length <? 0) || (start >=? zlen p))%Z then Some []
  else
    let l := if (length >? zlen p - start)%Z then (zlen p - start)%Z else length in
    slice p start (start + l).

(** ---- fmt.Sscanf(s, "%d.%d", &a, &b), ASCII input without newlines.
    Result: the values assigned (None = left untouched); err == nil iff both
    are assigned. ---- *)
Definition is_blank (c : ascii) : bool := Ascii.eqb c " " || Ascii.eqb c (ascii_of_nat 9).

Fixpoint take_while (f : ascii -> bool) (s : str) : str * str :=
  match s with
  | [] => ([], [])
  | c :: s' => if f c then let '(a, b) := take_while f s' in (c :: a, b) else ([], s)
  end.

(** one %d verb: SkipSpace, optional sign, at least one digit, value within int64 *)
Definition scan_int (s : str) : option Z * str :=
  let s1 := drop_while is_blank s in
  let '(neg, s2) :=
     match s1 with
     | c :: r => if Ascii.eqb c "-" then (true, r) else if Ascii.eqb c "+" then (false, r) else (false, s1)
     | [] => (false, [])
     end in
  let '(ds, rest) := take_while is_digit s2 in
  match ds with
  | [] => (None, rest)
  | _ =>
      let v := digits_val ds 0 in
      if neg then (if (v <=? two63)%Z then (Some (- v)%Z, rest) else (None, rest))
      else (if (v <? two63)%Z then (Some v, rest) else (None, rest))
  end.

Definition sscan_d_dot_d (s : str) : option Z * option Z :=
  match scan_int s with
  | (None, _) => (None, None)
  | (Some a, rest) =>
      match rest with
      | c :: r => if Ascii.eqb c "." then (Some a, fst (scan_int r)) else (Some a, None)
      | [] => (Some a, None)
      end
  end.

(** ---- parseFetchItem(tok) ---- *)
Record fitem : Type := mk_fitem {
  f_name : str;                 (* item name without section, ASCII upper-cased *)
  f_has_sec : bool;
  f_sec : str;                  (* the text between the brackets, as written *)
  f_partial : option (Z * Z)    (* a well-formed range <start.length> *)
}.

Definition parse_fetch_item (tok : str) : option fitem :=
  match index_byte tok "[" with
  | None => Some (mk_fitem (to_upper tok) false [] None)
  | Some o =>
      ' nm <- slice_to tok (Z.of_nat o) ;;                          (* tok[:open] *)
      ' rest <- slice_from tok (Z.of_nat o + 1) ;;                  (* tok[open+1:] *)
      match index_byte rest "]" with
      | None => Some (mk_fitem (to_upper nm) true rest None)
      | Some e =>
          ' sec <- slice_to rest (Z.of_nat e) ;;                    (* rest[:end] *)
          ' rng <- slice_from rest (Z.of_nat e + 1) ;;              (* rest[end+1:] *)
          ' part <-
             (if (2 <=? length rng)%nat then
                ' c0 <- nth_error rng 0 ;;                          (* rng[0] *)
                ' cl <- nth_error rng (length rng - 1) ;;           (* rng[len(rng)-1] *)
                if Ascii.eqb c0 "<" && Ascii.eqb cl ">" then
                  ' spec <- slice rng 1 (zlen rng - 1) ;;           (* rng[1:len(rng)-1] *)
                  match sscan_d_dot_d spec with
                  | (Some a, Some b) => if ((0 <=? a) && (0 <=? b))%Z then Some (Some (a, b)) else Some None
                  | _ => Some None
                  end
                else Some None
              else Some None) ;;
          Some (mk_fitem (to_upper nm) true sec part)
      end
  end.

(** ---- parseFetchItems(items): one pass with the cursors i (current byte) and
    start (start of the current token); flush(end) slices items[start:end] ---- *)
Definition is_item_sep (c : ascii) : bool := Ascii.eqb c " " || Ascii.eqb c "(" || Ascii.eqb c ")".

Definition flush_item (items : str) (start e : nat) : option (list fitem) :=
  if (start <? e)%nat then
    ' tok <- slice items (Z.of_nat start) (Z.of_nat e) ;;
    ' it <- parse_fetch_item tok ;;
    Some [it]
  else Some [].

Fixpoint pfi_loop (items rest : str) (i start : nat) (in_sec : bool) : option (list fitem) :=
  match rest with
  | [] => flush_item items start i                                  (* flush(len(items)) *)
  | c :: r =>
      if in_sec then pfi_loop items r (S i) start (negb (Ascii.eqb c "]"))
      else if Ascii.eqb c "[" then pfi_loop items r (S i) start true
      else if is_item_sep c then
        ' f <- flush_item items start i ;;
        ' t <- pfi_loop items r (S i) (S i) false ;;
        Some (f ++ t)
      else pfi_loop items r (S i) start false
  end.

Definition parse_fetch_items (items : str) : option (list fitem) := pfi_loop items items 0 0 false.

(** ---- headerFieldNames(section) ---- *)
Definition hf_defaults : list str :=
  map S_ ["FROM"; "TO"; "CC"; "BCC"; "SUBJECT"; "DATE"; "MESSAGE-ID"; "PRIORITY"; "X-PRIORITY";
          "REFERENCES"; "NEWSGROUPS"; "IN-REPLY-TO"; "CONTENT-TYPE"; "REPLY-TO"]%string.

Definition header_field_names (section : str) : option (list str) :=
  match index_byte section "(" with
  | None => Some hf_defaults
  | Some o =>
      ' fs <- slice_from section (Z.of_nat o + 1) ;;                 (* section[open+1:] *)
      match index_byte fs ")" with
      | Some cp =>
          ' fs' <- slice_to fs (Z.of_nat cp) ;;                     (* fieldsStr[:closeParen] *)
          match fields fs' with
          | [] => Some hf_defaults
          | l => Some (map to_upper l)
          end
      | None => Some hf_defaults
      end
  end.

(** ---- splitMessage: header section (with the blank line) and text ---- *)
Definition crlfcrlf : str := [CR; LF; CR; LF].
Definition lflf : str := [LF; LF].

Definition split_message (msg : str) : option (str * str) :=
  match index msg crlfcrlf with
  | None => Some (msg, [])
  | Some i =>
      ' h <- slice_to msg (Z.of_nat i + 4) ;;
      ' b <- slice_from msg (Z.of_nat i + 4) ;;
      Some (h, b)
  end.

(** ---- numeric section: the part number is the section up to ".MIME" (index taken on asciiUpper) ---- *)
Definition numeric_part_num (section : str) : option str :=
  match index (to_upper section) (S_ ".MIME") with
  | Some i => slice_to section (Z.of_nat i)
  | None => Some section
  end.

(** addSection / the numeric branch: the item's own range selects the octets *)
Definition apply_partial (it : fitem) (data : str) : option str :=
  match f_partial it with
  | Some (a, b) => partial_apply data a b
  | None => Some data
  end.

(** ---- BuildBodyStructure, non-multipart branch: the body ---- *)

Definition bs_single_body (raw : str) : option str :=
  match index raw crlfcrlf with
  | Some i => slice_from raw (Z.of_nat i + 4)                    (* sepLen = 4 *)
  | None =>
      match index raw lflf with
      | Some i => slice_from raw (Z.of_nat i + 2)                (* sepLen = 2 *)
      | None => Some []
      end
  end.

(** ---- HasSignedPartial(items): a "<" ... ">" group containing "-".
    Go walks the string with rest = rest[open+1:], rest[:end], rest[end+1:];
    all three are in bounds by construction (open, end come from Index). ---- *)
Fixpoint hsp (fuel : nat) (rest : str) : bool :=
  match fuel with
  | O => false
  | S f =>
      match index_byte rest "<" with
      | None => false
      | Some o =>
          let r1 := skipn (S o) rest in
          match index_byte r1 ">" with
          | None => false
          | Some e => if contains_byte (firstn e r1) "-" then true else hsp f (skipn (S e) r1)
          end
      end
  end.
Definition has_signed_partial (items : str) : bool := hsp (S (length items)) items.

(** The finding classes of the pinned tree (AddressAngle, PartialNegative,
    TextPartialNegative, HeaderFieldsShort, BodystructureLfTail, SearchOrArity)
    were repaired in the fix wave; no class is left, every function above is
    total (Proof/Slicers.v). *)
