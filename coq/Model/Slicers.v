(** C12, function layer: models of the hand-written slicing code the property
    is anchored in.  Everything runs in the [option] monad: [None] is a Go
    run-time panic (slice bounds out of range / index out of range), exactly
    where [Base.GoStr.slice] returns [None].  The Go code is mirrored
    statement by statement.  No proofs in this file.

    This is the code AFTER the fix wave (fixes/c12-2 … c12-7): every slice
    is still written with [slice] (so a missing guard would show up as
    [None]), and Proof/Slicers.v shows that no input reaches [None].

    - internal/server/response/envelope.go : QuoteOrNIL, parseAddressList,
      extractHeader, BuildEnvelope  (internal/server/utils/envelope.go is a
      byte-for-byte twin: ParseAddressList, ExtractHeader, BuildEnvelope)
    - internal/server/message/fetch.go, processFetchForMessage:
        the partial range <start.len> after a numeric section,
        BODY[TEXT]<start.len>, both through slicePartial,
        HasSignedPartial (signed ranges are answered BAD),
        the HEADER.FIELDS prefix arithmetic;
        itemsUpper := asciiUpper(items) — exactly [to_upper] of Base.GoStr,
        for ALL bytes (no Unicode case mapping is involved any more)
    - internal/server/response/bodystructure.go, BuildBodyStructure:
        the single-part body  rawMsg[headerEnd+sepLen:]
    - fmt.Sscanf(spec, "%d.%d", &a, &b) restricted to ASCII input (library
      function, modelled because the two partial-range sites feed it
      attacker-chosen text; tied by the correspondence suite [partial]). *)
From Coq Require Import String Ascii List Bool Arith NArith ZArith.
From Raven Require Import Base.GoStr.
Import ListNotations.
Local Open Scope char_scope.

Notation "' x <- e ;; k" := (match e with Some x => k | None => None end)
  (at level 200, x pattern, e at level 100, k at level 200, right associativity).

Definition zlen (s : str) : Z := Z.of_nat (length s).

(** ---- QuoteOrNIL (no slicing; total by construction) ---- *)
Definition dq : ascii := """".
Definition bsl : ascii := "\".
Definition quote_or_nil (s : str) : str :=
  match s with
  | [] => S_ "NIL"
  | _ => dq :: replace_byte (replace_byte s bsl [bsl; bsl]) dq [bsl; dq] ++ [dq]
  end.

(** ---- parseAddressList ---- *)

(** strings.SplitN(email, "@", 2) when email contains "@" *)
Definition split_at_first (s : str) (c : ascii) : str * str :=
  match index_byte s c with
  | Some i => (firstn i s, skipn (S i) s)
  | None => (s, [])
  end.

(** one element of the comma-separated list, already trimmed and non-empty:
      if start := strings.Index(addr, "<"); start != -1 {
        if end := strings.Index(addr[start:], ">"); end != -1 {
          end += start; name = TrimSpace(addr[:start]); email = addr[start+1:end]; ... *)
Definition addr_struct (addr : str) : option str :=
  ' (name, email) <-
     (match index_byte addr "<" with
      | Some st =>
          ' tail <- slice_from addr (Z.of_nat st) ;;                    (* addr[start:] *)
          match index_byte tail ">" with
          | Some en0 =>
              let en := (Z.of_nat en0 + Z.of_nat st)%Z in
              ' n0 <- slice_to addr (Z.of_nat st) ;;                    (* addr[:start] *)
              ' em <- slice addr (Z.of_nat st + 1) en ;;                (* addr[start+1:end] *)
              Some (trim (trim_space n0) [dq], em)
          | None => Some ([], addr)
          end
      | None => Some ([], addr)
      end) ;;
  let '(mailbox, host) :=
     if contains_byte email "@" then split_at_first email "@" else (email, []) in
  Some (S_ "(" ++ quote_or_nil name ++ S_ " NIL " ++ quote_or_nil mailbox ++ S_ " "
          ++ quote_or_nil host ++ S_ ")").

Fixpoint addr_structs (elts : list str) : option (list str) :=
  match elts with
  | [] => Some []
  | e :: rest =>
      let a := trim_space e in
      match a with
      | [] => addr_structs rest                       (* continue *)
      | _ => ' s <- addr_struct a ;; ' r <- addr_structs rest ;; Some (s :: r)
      end
  end.

Definition parse_address_list (addresses : str) : option str :=
  match addresses with
  | [] => Some (S_ "NIL")
  | _ =>
      ' structs <- addr_structs (split_byte addresses ",") ;;
      match structs with
      | [] => Some (S_ "NIL")
      | _ => Some (S_ "(" ++ join structs (S_ " ") ++ S_ ")")
      end
  end.

(** ---- extractHeader ---- *)
Definition is_sp_tab (c : ascii) : bool := Ascii.eqb c " " || Ascii.eqb c (ascii_of_nat 9).

Fixpoint eh_loop (lines : list str) (hu : str) (inh : bool) (acc : str) : option str :=
  match lines with
  | [] => Some acc
  | l0 :: rest =>
      let line := trim_right l0 [CR] in
      match line with
      | [] => Some acc                                   (* empty line: break *)
      | c :: _ =>
          if is_sp_tab c then
            if inh then eh_loop rest hu true (acc ++ S_ " " ++ trim_space line)
            else eh_loop rest hu inh acc
          else
            match index_byte line ":" with
            | Some ci =>
                ' cur <- slice_to line (Z.of_nat ci) ;;            (* line[:colonIdx] *)
                if str_eqb (to_upper (trim_space cur)) hu then
                  ' v <- slice_from line (Z.of_nat ci + 1) ;;      (* line[colonIdx+1:] *)
                  eh_loop rest hu true (acc ++ trim_space v)
                else eh_loop rest hu false acc
            | None => eh_loop rest hu inh acc
            end
      end
  end.

Definition extract_header (raw name : str) : option str :=
  eh_loop (split_byte raw LF) (to_upper name) false [].

(** ---- BuildEnvelope ---- *)
Definition or_default (s d : str) : str := match s with [] => d | _ => s end.

Definition build_envelope (raw : str) : option str :=
  ' date <- extract_header raw (S_ "Date") ;;
  ' subject <- extract_header raw (S_ "Subject") ;;
  ' from <- extract_header raw (S_ "From") ;;
  ' sender0 <- extract_header raw (S_ "Sender") ;;
  ' replyto0 <- extract_header raw (S_ "Reply-To") ;;
  ' to <- extract_header raw (S_ "To") ;;
  ' cc <- extract_header raw (S_ "Cc") ;;
  ' bcc <- extract_header raw (S_ "Bcc") ;;
  ' inreplyto <- extract_header raw (S_ "In-Reply-To") ;;
  ' msgid <- extract_header raw (S_ "Message-ID") ;;
  let sender := or_default sender0 from in
  let replyto := or_default replyto0 from in
  ' a_from <- parse_address_list from ;;
  ' a_sender <- parse_address_list sender ;;
  ' a_replyto <- parse_address_list replyto ;;
  ' a_to <- parse_address_list to ;;
  ' a_cc <- parse_address_list cc ;;
  ' a_bcc <- parse_address_list bcc ;;
  Some (S_ "ENVELOPE (" ++ join [quote_or_nil date; quote_or_nil subject; a_from; a_sender;
                                 a_replyto; a_to; a_cc; a_bcc; quote_or_nil inreplyto;
                                 quote_or_nil msgid] (S_ " ") ++ S_ ")").

(** ---- slicePartial(data, start, length):
      if start < 0 || length < 0 || start >= len(data) { return "" }
      if length > len(data)-start { length = len(data) - start }
      return data[start : start+length]
    (all operands are within [0, len(data)], so Go's int arithmetic does not wrap) ---- *)
Definition two63 : Z := 9223372036854775808%Z.
Definition partial_apply (p : str) (start length : Z) : option str :=
  if ((start <? 0) || (length <? 0) || (start >=? zlen p))%Z then Some []
  else
    let l := if (length >? zlen p - start)%Z then (zlen p - start)%Z else length in
    slice p start (start + l).

(** ---- fmt.Sscanf(s, "%d.%d", &a, &b), ASCII input without newlines.
    Result: the values assigned (None = left untouched); err == nil iff both
    are assigned. ---- *)
Definition is_blank (c : ascii) : bool := Ascii.eqb c " " || Ascii.eqb c (ascii_of_nat 9).

Fixpoint take_while (f : ascii -> bool) (s : str) : str * str :=
  match s with
  | [] => ([], [])
  | c :: s' => if f c then let '(a, b) := take_while f s' in (c :: a, b) else ([], s)
  end.

(** one %d verb: SkipSpace, optional sign, at least one digit, value within int64 *)
Definition scan_int (s : str) : option Z * str :=
  let s1 := drop_while is_blank s in
  let '(neg, s2) :=
     match s1 with
     | c :: r => if Ascii.eqb c "-" then (true, r) else if Ascii.eqb c "+" then (false, r) else (false, s1)
     | [] => (false, [])
     end in
  let '(ds, rest) := take_while is_digit s2 in
  match ds with
  | [] => (None, rest)
  | _ =>
      let v := digits_val ds 0 in
      if neg then (if (v <=? two63)%Z then (Some (- v)%Z, rest) else (None, rest))
      else (if (v <? two63)%Z then (Some v, rest) else (None, rest))
  end.

Definition sscan_d_dot_d (s : str) : option Z * option Z :=
  match scan_int s with
  | (None, _) => (None, None)
  | (Some a, rest) =>
      match rest with
      | c :: r => if Ascii.eqb c "." then (Some a, fst (scan_int r)) else (Some a, None)
      | [] => (Some a, None)
      end
  end.

(** ---- partial range after a numeric section: [rest] is upper[end+1:], the
    text that follows the closing bracket of BODY[n] ---- *)
Definition numeric_partial (rest payload : str) : option str :=
  match rest with
  | c :: _ =>
      if Ascii.eqb c "<" then
        match index_byte rest ">" with
        | Some cl =>
            ' spec <- slice rest 1 (Z.of_nat cl) ;;             (* upper[after+1 : after+close] *)
            match sscan_d_dot_d spec with
            | (Some st, Some ln) => partial_apply payload st ln
            | _ => Some payload
            end
        | None => Some payload
        end
      else Some payload
  | [] => Some payload
  end.

(** ---- BODY[TEXT] / BODY.PEEK[TEXT] with the first "<" ... ">" of the whole
    (upper-cased) item string; scan errors are ignored, so a partially
    scanned range keeps the defaults 0 / len(body) ---- *)
Definition text_partial (items_upper body : str) : option str :=
  if contains_byte items_upper "<" && contains_byte items_upper ">" then
    match index_byte items_upper "<", index_byte items_upper ">" with
    | Some si, Some ei =>
        if (si <? ei)%nat then
          ' spec <- slice items_upper (Z.of_nat si + 1) (Z.of_nat ei) ;;
          let '(oa, ob) := sscan_d_dot_d spec in
          let st := match oa with Some a => a | None => 0%Z end in
          let ln := match ob with Some b => b | None => zlen body end in
          partial_apply body st ln
        else Some body
    | _, _ => Some body
    end
  else Some body.

(** ---- HEADER.FIELDS: the requested field names.
    Some None   = the item is not present,
    Some (Some l) = the upper-cased requested names (defaults when empty) ---- *)
Definition hf_peek : str := S_ "BODY.PEEK[HEADER.FIELDS".
Definition hf_body : str := S_ "BODY[HEADER.FIELDS".
Definition hf_defaults : list str :=
  map S_ ["FROM"; "TO"; "CC"; "BCC"; "SUBJECT"; "DATE"; "MESSAGE-ID"; "PRIORITY"; "X-PRIORITY";
          "REFERENCES"; "NEWSGROUPS"; "IN-REPLY-TO"; "CONTENT-TYPE"; "REPLY-TO"]%string.

Definition header_fields (items : str) : option (option (list str)) :=
  let up := to_upper items in
  if contains up hf_peek || contains up hf_body then
    let start := match index up hf_peek with Some i => Some i | None => index up hf_body end in
    match start with
    | Some st =>
        let prefix_len := if contains up hf_peek then 25%Z else 20%Z in
        ' fs <- (if (Z.of_nat st + prefix_len <=? zlen items)%Z           (* start+prefixLen <= len(items) *)
                then slice_from items (Z.of_nat st + prefix_len)       (* items[start+prefixLen:] *)
                else Some []) ;;
        match index_byte fs ")" with
        | Some cp =>
            ' fs' <- slice_to fs (Z.of_nat cp) ;;
            match fields fs' with
            | [] => Some (Some hf_defaults)
            | l => Some (Some (map (fun f => to_upper (trim_space f)) l))
            end
        | None => Some (Some hf_defaults)
        end
    | None => Some (Some hf_defaults)
    end
  else Some None.

(** ---- BuildBodyStructure, non-multipart branch: the body ---- *)
Definition crlfcrlf : str := [CR; LF; CR; LF].
Definition lflf : str := [LF; LF].

Definition bs_single_body (raw : str) : option str :=
  match index raw crlfcrlf with
  | Some i => slice_from raw (Z.of_nat i + 4)                    (* sepLen = 4 *)
  | None =>
      match index raw lflf with
      | Some i => slice_from raw (Z.of_nat i + 2)                (* sepLen = 2 *)
      | None => Some []
      end
  end.

(** ---- HasSignedPartial(items): a "<" ... ">" group containing "-".
    Go walks the string with rest = rest[open+1:], rest[:end], rest[end+1:];
    all three are in bounds by construction (open, end come from Index). ---- *)
Fixpoint hsp (fuel : nat) (rest : str) : bool :=
  match fuel with
  | O => false
  | S f =>
      match index_byte rest "<" with
      | None => false
      | Some o =>
          let r1 := skipn (S o) rest in
          match index_byte r1 ">" with
          | None => false
          | Some e => if contains_byte (firstn e r1) "-" then true else hsp f (skipn (S e) r1)
          end
      end
  end.
Definition has_signed_partial (items : str) : bool := hsp (S (length items)) items.

(** The finding classes of the pinned tree (AddressAngle, PartialNegative,
    TextPartialNegative, HeaderFieldsShort, BodystructureLfTail, SearchOrArity)
    were repaired in the fix wave; no class is left, every function above is
    total (Proof/Slicers.v). *)
