(** C20 — the call to the authentication backend as a step with an explicit
    time bound, and the implicit-TLS entry point.

    Go code mirrored:
      internal/sasl/server.go        Server.authenticate:
          client := &http.Client{Transport: transport, Timeout: 10 * time.Second}
          resp, err := client.Do(req); defer resp.Body.Close(); status only
      internal/server/auth/auth.go   authenticateUser: the same (Timeout since fix C20-8;
          before: &http.Client{Transport: transport}, no bound at all)
      internal/server/auth/auth.go   HandleSSLConnectionWithCert (fix C20-9):
          conn.SetDeadline(now + 30 s); tlsConn.Handshake(); conn.SetDeadline(zero);
          deferred tlsConn.Close()
    An http.Client is described by what bounds it: [hc_total] = Client.Timeout
    (covers connecting, the request, the response headers AND reading the
    body), [hc_header] = Transport.ResponseHeaderTimeout and the dial / TLS
    timeouts (nothing after the headers), [hc_drains] = the caller reads the
    body to its end before it returns. [None] = no such bound.
    A backend is described by when (ms after the call began) it does what.
    [call_time] = when client.Do + the deferred cleanup return; [None] = never.
    No proofs here. *)
From Coq Require Import List Bool NArith Arith.
From Raven Require Import Base.GoStr Model.Lifecycle.
Import ListNotations.

Record http_client := mk_hc { hc_total : option N; hc_header : option N; hc_drains : bool }.

Inductive backend :=
| BNeverAccepts                         (* the connection is never accepted / never established *)
| BAcceptSilent                         (* accepts, reads the request, never answers *)
| BHeadersStall (th : N)                (* status + headers at th, then the body stalls, connection open *)
| BTrickle (th : N)                     (* headers at th, then an endless body, one byte now and then *)
| BCloseMidBody (th tb : N)             (* headers at th, closes tb later in the middle of the body *)
| BAnswer (ok : bool) (t : N).          (* a complete answer at t: 200 or something else *)

(** the earlier of an instant and an optional bound *)
Definition cap (lim : option N) (t : N) : N := match lim with Some l => N.min l t | None => t end.
Definition cap_inf (lim : option N) : option N := lim.        (* an event that never happens: only the bound ends the wait *)

(** when the response headers are in hand (or the wait for them was given up) *)
Definition headers_at (c : http_client) (b : backend) : option N * bool :=   (* instant, got headers? *)
  let lim := match hc_total c, hc_header c with
             | Some a, Some h => Some (N.min a h) | Some a, None => Some a | None, h => h end in
  match b with
  | BNeverAccepts | BAcceptSilent => (lim, false)
  | BHeadersStall th | BTrickle th | BCloseMidBody th _ | BAnswer _ th =>
      match lim with
      | Some l => if (l <? th)%N then (Some l, false) else (Some th, true)
      | None => (Some th, true)
      end
  end.

Definition call_time (c : http_client) (b : backend) : option N :=
  match headers_at c b with
  | (None, _) => None
  | (Some t, false) => Some t
  | (Some t, true) =>
      if negb (hc_drains c) then Some t                      (* Body.Close() on an unread body drops the connection *)
      else match b with
           | BHeadersStall _ | BTrickle _ => hc_total c      (* the body never ends: only Client.Timeout does *)
           | BCloseMidBody th tb => Some (cap (hc_total c) (th + tb))
           | _ => Some t
           end
  end.

(** does the call report success (status 200 seen)? *)
Definition call_ok (c : http_client) (b : backend) : bool :=
  match headers_at c b, b with
  | (_, true), BAnswer ok _ => ok
  | (_, true), _ => true                                     (* the faulty backends here say 200 in their headers *)
  | _, _ => false
  end.

Definition auth_timeout : N := 10000%N.
Definition tree_client : http_client := mk_hc (Some auth_timeout) None false.        (* SASL, and IMAP since C20-8 *)
Definition unbounded_client : http_client := mk_hc None None false.                   (* IMAP before C20-8 *)
Definition seeded_client : http_client := mk_hc None (Some auth_timeout) true.        (* seeded change C20-3 *)

(** facts read from the source of the tree under test (coq/Gen/LifecycleFacts.v) *)
Record lifecycle_facts := mk_lf {
  lf_imap_auth_timeout : option N;      (* Timeout of the http.Client built in auth.authenticateUser, ms *)
  lf_sasl_auth_timeout : option N;      (* ... in sasl.Server.authenticate *)
  lf_ssl_handshake_deadline : option N  (* deadline armed before tlsConn.Handshake() on the implicit-TLS port *) }.

Definition facts_ok (f : lifecycle_facts) : bool :=
  match lf_imap_auth_timeout f, lf_sasl_auth_timeout f, lf_ssl_handshake_deadline f with
  | Some a, Some b, Some c => (N.eqb a auth_timeout && N.eqb b auth_timeout && N.eqb c 30000)%bool
  | _, _, _ => false
  end.

Definition client_of (timeout : option N) : http_client := mk_hc timeout None false.
