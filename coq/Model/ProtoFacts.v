(** Types of the structural facts that the translator (/verif/harness/extract)
    regenerates from the Go AST of /repo on every run into Gen/Facts.v.

    A [site] is one syntactic occurrence, reachable from the dispatcher
    through a command's handler (interprocedurally), of something the
    protocol/isolation properties speak about; its five booleans are the path
    facts the translator established on EVERY path from the dispatcher to the
    site: the code tested state.Authenticated / state.SelectedMailboxID != 0 /
    the connection's TLS-ness / the backend's status 200 / the user's current
    assignment to the role mailbox, and took the branch on which it is true. *)
From Coq Require Import String List Bool.
Import ListNotations.

Inductive site_kind :=
| AccUserSelf    (* deps.GetUserDB(state.UserID) *)
| AccUserOther   (* deps.GetUserDB(<any other expression>) *)
| AccSelected    (* deps.GetSelectedDB(state) *)
| AccRole        (* GetDBManager().GetRoleMailboxDB(e) *)
| AccShared      (* GetSharedDB() / EnsureUserAndMailboxes *)
| Backend        (* HTTP request to the authentication backend *)
| SetAuth        (* state.Authenticated = <not false> *)
| SetSel         (* state.SelectedMailboxID = <not 0> *)
| SetField       (* assignment to IsRoleMailbox / SelectedRoleMailboxID / UserID *)
| UseSel         (* state.SelectedMailboxID passed as an argument *)
| Restart.       (* clientHandler(conn', state') after STARTTLS *)

Definition kind_eqb (a b : site_kind) : bool :=
  match a, b with
  | AccUserSelf, AccUserSelf | AccUserOther, AccUserOther | AccSelected, AccSelected
  | AccRole, AccRole | AccShared, AccShared | Backend, Backend | SetAuth, SetAuth
  | SetSel, SetSel | SetField, SetField | UseSel, UseSel | Restart, Restart => true
  | _, _ => false
  end.

Lemma kind_eqb_eq a b : kind_eqb a b = true <-> a = b.
Proof. destruct a, b; simpl; split; intro H; try reflexivity; try discriminate. Qed.

Record site := mk_site {
  s_cmd : string;      (* command word of the dispatcher clause *)
  s_fn : string;       (* function containing the site *)
  s_kind : site_kind;
  s_arg : string;
  s_auth : bool; s_sel : bool; s_tls : bool; s_ok200 : bool; s_assigned : bool;
  s_unauth : bool;     (* the code tested that state.Authenticated is false *)
  s_where : string }.

Record facts := mk_facts {
  f_dispatch : list (string * string);               (* command word -> handler *)
  f_sites : list site;
  f_replies : list (string * string * (nat * nat));  (* min/max tagged completions over all paths *)
  f_default_once : bool;                             (* the default clauses answer one tagged BAD *)
  f_select_clears : bool;                            (* HandleSelect clears the selection first *)
  f_auth_final : bool;                               (* no tagged NO/BAD can follow state.Authenticated := true on any path *)
  f_short_tagged : bool }.                           (* a line with a tag and nothing else is answered with one tagged reply *)

Definition is_acc (k : site_kind) : bool :=
  match k with AccUserSelf | AccUserOther | AccSelected | AccRole | AccShared => true | _ => false end.
