(** Model of the LMTP dialogue of raven's delivery service.

    Go sources mirrored here, statement by statement, AFTER the fixes
    "read over-size LMTP message data up to the end-of-data marker",
    "LMTP answers a refused message once per recipient and ends the
    transaction" and "LMTP accepts RCPT and DATA after MAIL FROM:<>":
    - internal/delivery/lmtp/session.go: Session.Handle (command loop),
      handleCommand, handleLHLO/MAIL/RCPT/DATA/RSET/NOOP/QUIT/VRFY/HELP,
      parseMailFrom, parseRcptTo;
    - internal/delivery/parser/parser.go: ReadDataCommand.

    The client's byte stream is cut into LF-terminated lines ([split_lines]:
    both the command loop and ReadDataCommand read the same bufio.Reader with
    ReadString('\n')).  The session is a line-driven automaton: in [MCmd] a
    line is a command, in [MData] it is a line of message data (the loop body
    of ReadDataCommand).  The stream position is explicit: [run] returns the
    lines it did not consume, [read_data_cmd]/[session] the unconsumed bytes.

    Outside the model (oracles, arguments of the model functions):
    - [accepts d]: d passes parser.ParseMessage and parser.ValidateMessage
      (net/mail);
    - [over r d]: the overQuota map of handleDATA (storage.CheckRecipientQuota
      says ErrQuotaExceeded for recipient r and a message of the size of d; it
      is computed for every recipient before any delivery of the transaction,
      and is constantly false when Delivery.QuotaEnabled is off);
    - [delivers r d]: storage.DeliverToMultipleRecipients reports success for
      recipient r (SQLite stores).
    Delivery.AllowedDomains is empty and RejectUnknownUser is off (the defaults; the address policy is property C17).
    strings.TrimSpace / ToUpper / Fields are the ASCII restrictions of
    Base/GoStr.v.  No proofs in this file. *)
From Coq Require Import String Ascii List Bool ZArith.
From Raven Require Import Base.GoStr.
Import ListNotations.
Local Open Scope Z_scope.

(** ---- byte stream -> lines (bufio.Reader.ReadString('\n')) ---- *)

(** list reversal in linear time (List.rev is quadratic under vm_compute; the
    correspondence check evaluates the model on lines of 20000 octets) *)
Definition frev (l : str) : str := rev_append l [].

(** complete lines (each ends in LF) and the unterminated tail *)
Fixpoint split_lines_aux (s cur : str) : list str * str :=
  match s with
  | [] => ([], frev cur)
  | c :: s' =>
      if Ascii.eqb c LF
      then let '(ls, t) := split_lines_aux s' [] in (frev (c :: cur) :: ls, t)
      else split_lines_aux s' (c :: cur)
  end.
Definition split_lines (s : str) : list str * str := split_lines_aux s [].

Definition len (s : str) : Z := Z.of_nat (length s).

(** ---- parser.ReadDataCommand ---- *)

Definition dot_crlf : str := S_ "." ++ crlf.
Definition dot_lf : str := S_ "." ++ [LF].

(** loop state of ReadDataCommand: buffer, running size, "tooLarge" *)
Record dstate := { d_buf : str; d_size : Z; d_big : bool }.
Definition d0 : dstate := {| d_buf := []; d_size := 0; d_big := false |}.

Inductive dstep := DEnd | DMore (d : dstate).

(** one iteration of the loop, [line] being what ReadString returned *)
Definition data_line (max : Z) (d : dstate) (line : str) : dstep :=
  (* if line == ".\r\n" || line == ".\n" { break } *)
  if str_eqb line dot_crlf || str_eqb line dot_lf then DEnd
  (* if tooLarge { continue }   -- discard, but keep reading up to the marker *)
  else if d_big d then DMore d
  else
    (* if strings.HasPrefix(line, "..") { line = line[1:] } *)
    let line' := if has_prefix line (S_ "..") then tl line else line in
    (* n, _ := buf.WriteString(line); size += int64(n) *)
    let size' := d_size d + len line' in
    (* if size > maxSize { tooLarge = true; buf.Reset() } *)
    if size' >? max then DMore {| d_buf := []; d_size := size'; d_big := true |}
    else DMore {| d_buf := d_buf d ++ line'; d_size := size'; d_big := false |}.

Inductive dres := DOk (data : str) | DErrSize | DErrEOF.

(** after the loop: if tooLarge { return nil, ErrMessageTooLarge } *)
Definition data_end (d : dstate) : dres := if d_big d then DErrSize else DOk (d_buf d).

(** the loop over the lines still in the reader; returns the lines left *)
Fixpoint read_data_lines (max : Z) (d : dstate) (ls : list str) : dres * list str :=
  match ls with
  | [] => (DErrEOF, [])
  | l :: ls' =>
      match data_line max d l with
      | DEnd => (data_end d, ls')
      | DMore d' => read_data_lines max d' ls'
      end
  end.

(** ReadDataCommand(bufio.NewReader(s), max): result and the bytes left in the
    reader.  At end of input ReadString has consumed the unterminated tail. *)
Definition read_data_cmd (s : str) (max : Z) : dres * str :=
  let '(ls, t) := split_lines s in
  match read_data_lines max d0 ls with
  | (DErrEOF, _) => (DErrEOF, [])
  | (r, rest) => (r, concat rest ++ t)
  end.

(** ---- session.go ---- *)

Record cfg := { max_size : Z; max_rcpts : Z }.

Record st := { helo : str; mail_from : str; mail_seen : bool; rcpts : list str }.
Definition st0 : st := {| helo := []; mail_from := []; mail_seen := false; rcpts := [] |}.

Inductive mode := MCmd | MData (d : dstate).

Inductive tag := TLhlo | TMail | TRcpt | TData | TDataErrEof
               | TRset | TNoop | TQuit | TVrfy | THelp | TUnknown.

(** what the server writes.  [Reply t code arg]: one reply (the five-line LHLO
    answer counts as one) caused by a command of kind [t]; [arg] is the LHLO
    domain / accepted sender / accepted recipient, else empty.
    [Deliver r d ok]: the per-recipient final reply after the data terminator,
    250 if [ok] else 550, for recipient [r], the message octets being [d].
    [Refuse r code]: the per-recipient reply of rejectMessage (552 / 554). *)
Inductive ev :=
| Reply (t : tag) (code : N) (arg : str)
| Deliver (rcpt data : str) (ok : bool)
| Refuse (rcpt : str) (code : N).

(** strings.SplitN(line, " ", 2) *)
Fixpoint cut_space (s : str) : str * str :=
  match s with
  | [] => ([], [])
  | c :: s' => if Ascii.eqb c " "%char then ([], s')
               else let '(a, b) := cut_space s' in (c :: a, b)
  end.

(** line = TrimSpace(line); if line == "" { continue };
    parts := SplitN(line, " ", 2); cmd := ToUpper(parts[0]); args := parts[1] or "" *)
Definition parse_cmd (line : str) : option (str * str) :=
  match trim_space line with
  | [] => None
  | l => let '(c, a) := cut_space l in Some (to_upper c, a)
  end.

Definition is_nil (s : str) : bool := match s with [] => true | _ => false end.
Definition is_nil_l (l : list str) : bool := match l with [] => true | _ => false end.

(** parseMailFrom; [None] = error "expected FROM" *)
Definition parse_mail_from (args : str) : option str :=
  let a := trim_space args in
  if negb (has_prefix (to_upper a) (S_ "FROM:")) then None
  else
    let a := trim_prefix a (S_ "FROM:") in
    let a := trim_prefix a (S_ "from:") in
    let a := trim_space a in
    let a := trim_prefix a (S_ "<") in
    let a := trim_suffix a (S_ ">") in
    match fields a with
    | f :: _ => Some f
    | [] => Some a
    end.

(** parseRcptTo; [None] = error "expected TO".  After the fixes 6a5ca7c (the
    keyword is compared with EqualFold on three bytes and those three bytes
    are removed, whatever their case) and c45b394 (an argument that starts
    with "<" ends at the first ">": ESMTP parameters are not part of the
    address). *)
Definition parse_rcpt_to (args : str) : option str :=
  let a := trim_space args in
  (* if len(args) < 3 || !strings.EqualFold(args[:3], "TO:") *)
  if negb (equal_fold (firstn 3 a) (S_ "TO:")) then None
  else
    let a := trim_space (skipn 3 a) in
    (* if HasPrefix(args, "<") { if end := Index(args, ">"); end >= 0 { args = args[:end+1] } } *)
    let a := if has_prefix a (S_ "<")
             then match index_byte a ">"%char with Some e => firstn (S e) a | None => a end
             else a in
    let a := trim_prefix a (S_ "<") in
    let a := trim_suffix a (S_ ">") in
    Some a.

Inductive next := NCmd | NData | NQuit.

Definition reset (s : st) : st := {| helo := helo s; mail_from := []; mail_seen := false; rcpts := [] |}.

Definition cmd_is (cmd : str) (name : string) : bool := str_eqb cmd (S_ name).

(** handleCommand and the handlers up to the point where DATA starts reading *)
Definition handle (c : cfg) (s : st) (cmd args : str) : st * list ev * next :=
  if cmd_is cmd "LHLO" then
    if is_nil args then (s, [Reply TLhlo 501 []], NCmd)
    else ({| helo := args; mail_from := mail_from s; mail_seen := mail_seen s; rcpts := rcpts s |}, [Reply TLhlo 250 args], NCmd)
  else if cmd_is cmd "MAIL" then
    if is_nil (helo s) then (s, [Reply TMail 503 []], NCmd)
    else if mail_seen s then (s, [Reply TMail 503 []], NCmd)
    else match parse_mail_from args with
         | None => (s, [Reply TMail 501 []], NCmd)
         | Some f => ({| helo := helo s; mail_from := f; mail_seen := true; rcpts := rcpts s |}, [Reply TMail 250 f], NCmd)
         end
  else if cmd_is cmd "RCPT" then
    if negb (mail_seen s) then (s, [Reply TRcpt 503 []], NCmd)
    else if Z.of_nat (length (rcpts s)) >=? max_rcpts c then (s, [Reply TRcpt 452 []], NCmd)
    else match parse_rcpt_to args with
         | None => (s, [Reply TRcpt 501 []], NCmd)
         | Some t => ({| helo := helo s; mail_from := mail_from s; mail_seen := mail_seen s; rcpts := rcpts s ++ [t] |},
                      [Reply TRcpt 250 t], NCmd)
         end
  else if cmd_is cmd "DATA" then
    if negb (mail_seen s) then (s, [Reply TData 503 []], NCmd)
    else if is_nil_l (rcpts s) then (s, [Reply TData 503 []], NCmd)
    else (s, [Reply TData 354 []], NData)
  else if cmd_is cmd "RSET" then (reset s, [Reply TRset 250 []], NCmd)
  else if cmd_is cmd "NOOP" then (s, [Reply TNoop 250 []], NCmd)
  else if cmd_is cmd "QUIT" then (s, [Reply TQuit 221 []], NQuit)
  else if cmd_is cmd "VRFY" then (s, [Reply TVrfy 252 []], NCmd)
  else if cmd_is cmd "HELP" then (s, [Reply THelp 214 []], NCmd)
  else (s, [Reply TUnknown 500 []], NCmd).

Section Oracles.
  Variable accepts : str -> bool.
  Variable delivers : str -> str -> bool.
  Variable over : str -> str -> bool.

  (** rejectMessage: one reply per recipient, then the reset *)
  Definition reject (s : st) (code : N) : st * list ev :=
    (reset s, map (fun r => Refuse r code) (rcpts s)).

  (** handleDATA after ReadDataCommand returned at the end-of-data marker *)
  Definition finish_data (s : st) (d : dstate) : st * list ev :=
    match data_end d with
    | DOk data =>
        if accepts data
        then (* the reply loop "for _, recipient := range s.recipients": an over-quota
                recipient is answered 552 5.2.2 in its own position, the others
                with the result of their delivery *)
             (reset s, map (fun r => if over r data then Refuse r 552
                                     else Deliver r data (delivers r data)) (rcpts s))
        else reject s 554
    | _ => reject s 552   (* errors.Is(err, parser.ErrMessageTooLarge) *)
    end.

  (** one line of the client's stream; the boolean is "Handle returned" *)
  Definition step (c : cfg) (s : st) (m : mode) (line : str) : st * mode * list ev * bool :=
    match m with
    | MCmd =>
        match parse_cmd line with
        | None => (s, MCmd, [], false)
        | Some (cmd, args) =>
            let '(s', evs, nx) := handle c s cmd args in
            match nx with
            | NCmd => (s', MCmd, evs, false)
            | NData => (s', MData d0, evs, false)
            | NQuit => (s', MCmd, evs, true)
            end
        end
    | MData d =>
        match data_line (max_size c) d line with
        | DEnd => let '(s', evs) := finish_data s d in (s', MCmd, evs, false)
        | DMore d' => (s, MData d', [], false)
        end
    end.

  (** Session.Handle over the complete lines of the stream: what is written
      and the stream position when Handle returns: [Some ls] = the lines not
      consumed after QUIT, [None] = everything was read (EOF ends the loop) *)
  Fixpoint run (c : cfg) (s : st) (m : mode) (ls : list str) : list ev * option (list str) :=
    match ls with
    | [] => (* EOF.  Inside DATA ReadDataCommand fails and handleDATA still
               writes one 554 before the command loop sees the EOF itself *)
            (match m with MData _ => [Reply TDataErrEof 554 []] | MCmd => [] end, None)
    | l :: ls' =>
        let '(s', m', evs, quit) := step c s m l in
        if quit then (evs, Some ls')
        else let '(e, r) := run c s' m' ls' in (evs ++ e, r)
    end.

  (** the same while the connection stays open: what has been written once the
      complete lines [ls] have been processed and the server waits for more
      input (no EOF, hence no 554 for an unterminated message) *)
  Fixpoint run_open (c : cfg) (s : st) (m : mode) (ls : list str) : list ev :=
    match ls with
    | [] => []
    | l :: ls' =>
        let '(s', m', evs, quit) := step c s m l in
        if quit then evs else evs ++ run_open c s' m' ls'
    end.

  (** ---- the write side: bufio.Writer behind sendRawResponse ----
      [w_buf]: replies written into the buffer and not flushed; [w_sent]: what
      has reached the client.  [flushes rest]: does sendRawResponse flush, given
      the lines [rest] of the client's write that are still unread?  raven's
      sendRawResponse is "WriteString; Flush": [always_flush]. *)
  Record wr := { w_buf : list ev; w_sent : list ev }.
  Definition wr0 : wr := {| w_buf := []; w_sent := [] |}.
  Definition always_flush : list str -> bool := fun _ => true.

  Definition send (flushes : list str -> bool) (rest : list str) (w : wr) (evs : list ev) : wr :=
    match evs with
    | [] => w
    | _ => if flushes rest
           then {| w_buf := []; w_sent := w_sent w ++ w_buf w ++ evs |}
           else {| w_buf := w_buf w ++ evs; w_sent := w_sent w |}
    end.

  (** Handle over the lines of one client write, with the writer *)
  Fixpoint run_io (flushes : list str -> bool) (c : cfg) (s : st) (m : mode) (w : wr) (ls : list str) : wr :=
    match ls with
    | [] => w
    | l :: ls' =>
        let '(s', m', evs, quit) := step c s m l in
        let w' := send flushes ls' w evs in
        if quit then w' else run_io flushes c s' m' w' ls'
    end.

  (** the states passed through (used to state invariants) *)
  Fixpoint run_state (c : cfg) (s : st) (m : mode) (ls : list str) : st * mode :=
    match ls with
    | [] => (s, m)
    | l :: ls' =>
        let '(s', m', _, quit) := step c s m l in
        if quit then (s', m') else run_state c s' m' ls'
    end.

  (** Handle on a byte stream: replies and the bytes never read.  Reading
      the unterminated tail fails (EOF) and ends the session. *)
  Definition session (c : cfg) (input : str) : list ev * str :=
    let '(ls, t) := split_lines input in
    let '(evs, rest) := run c st0 MCmd ls in
    (evs, match rest with None => [] | Some r => concat r ++ t end).
End Oracles.
