(** Transition system of one IMAP connection, parameterised by the facts
    table regenerated from the Go AST (Gen/Facts.v).

    What is modelled by hand (mirrors internal/server/connection.go
    handleClient, selection.HandleSelect, HandleClose, HandleUnselect,
    auth.HandleStartTLS): the command loop, the selection bookkeeping of
    ClientState and the STARTTLS restart. Every other handler is abstracted to
    the SITES the translator found in it: an execution of a command is a list
    of site visits chosen by an oracle (the handler's control flow, database
    answers, backend answers), and a visit is possible only if the site's path
    facts hold of the current state — that is the meaning of a path fact.
    Theorems quantify over ALL oracles, i.e. over every control flow the
    handler bodies could take. *)
From Coq Require Import String List Bool Arith.
From Raven Require Import Model.ProtoFacts.
Import ListNotations.
Local Open Scope string_scope.
Local Open Scope list_scope.

Inductive store := Personal (u : nat) | RoleStore (r : nat) | SharedStore.

Definition store_eqb (a b : store) : bool :=
  match a, b with
  | Personal u, Personal v => Nat.eqb u v
  | RoleStore r, RoleStore q => Nat.eqb r q
  | SharedStore, SharedStore => true
  | _, _ => false
  end.

Lemma store_eqb_eq a b : store_eqb a b = true <-> a = b.
Proof.
  destruct a, b; simpl; try (split; [discriminate | intro H; discriminate || inversion H]);
    try (rewrite Nat.eqb_eq; split; intro H; [subst | inversion H]; reflexivity).
  split; reflexivity.
Qed.

(** models.ClientState, restricted to the fields the properties speak about,
    plus two ghosts: [c_origin] = the store in which SelectedMailboxID was
    looked up, [c_roles] = RoleMailboxIDs loaded at login. *)
Record cstate := mk_c {
  c_tls : bool; c_auth : bool; c_sel : bool;
  c_user : nat; c_isrole : bool; c_role : nat;
  c_origin : store; c_roles : list nat }.

Definition init_state (tls : bool) : cstate :=
  mk_c tls false false 0 false 0 SharedStore [].

(** GetSelectedDB(state) *)
Definition selected_store (st : cstate) : store :=
  if c_isrole st then RoleStore (c_role st) else Personal (c_user st).

(** outcome of the lookups of one SELECT/EXAMINE (database answers) *)
Inductive sel_target :=
| TPersonal (found : bool)                 (* plain name; GetMailboxByNamePerUser ok? *)
| TRoleBadPath                             (* "Roles/x" with fewer than 3 components *)
| TRoleMissing                             (* GetRoleMailboxByEmail fails *)
| TRoleUnassigned (r : nat)                (* IsUserAssignedToRoleMailbox false *)
| TRole (r : nat) (found : bool).          (* assigned; mailbox lookup in the role store *)

(** per-command oracle *)
Record env := mk_env {
  e_ok200 : bool;                 (* the backend answered 200 to this command's request *)
  e_verified : nat;               (* user id EnsureUserAndMailboxes returns *)
  e_login_roles : list nat;       (* GetUserRoleAssignments at login *)
  e_assigned : nat -> nat -> bool;(* IsUserAssignedToRoleMailbox user role, now *)
  e_other : nat;                  (* value of the non-state.UserID argument of GetUserDB *)
  e_role : nat;                   (* argument of GetRoleMailboxDB at this command's AccRole sites *)
  e_visits : list site;           (* the sites this execution passes, in order *)
  e_target : sel_target;          (* SELECT/EXAMINE only *)
  e_handshake : bool }.           (* STARTTLS only: the TLS handshake succeeded *)

Inductive event :=
| Touch (s : store)        (* a store handle was obtained (read or write follows) *)
| UseSelId                 (* SelectedMailboxID used as a query argument *)
| BackendReq               (* credentials sent to the backend *)
| Authd (u : nat)          (* state.Authenticated := true, bound to user u *)
| Tagged (n : nat).        (* n tagged completions sent for this line *)

(** argument text the translator emits for GetRoleMailboxDB(id) when id is the
    loop variable of `for _, id := range state.RoleMailboxIDs` *)
Definition ranged : string := "range:state.RoleMailboxIDs".

Definition enabled (st : cstate) (e : env) (s : site) : bool :=
  implb (s_auth s) (c_auth st) && implb (s_sel s) (c_sel st) && implb (s_tls s) (c_tls st)
  && implb (s_ok200 s) (e_ok200 e) && implb (s_assigned s) (e_assigned e (c_user st) (e_role e))
  && implb (s_unauth s) (negb (c_auth st))
  && implb (kind_eqb (s_kind s) AccRole && String.eqb (s_arg s) ranged) (existsb (Nat.eqb (e_role e)) (c_roles st)).

Definition touch_of (st : cstate) (e : env) (k : site_kind) : list event :=
  match k with
  | AccUserSelf => [Touch (Personal (c_user st))]
  | AccUserOther => [Touch (Personal (e_other e))]
  | AccSelected => [Touch (selected_store st)]
  | AccRole => [Touch (RoleStore (e_role e))]
  | AccShared => [Touch SharedStore]
  | Backend => [BackendReq]
  | UseSel => [UseSelId]
  | _ => []
  end.

(** One site visit: [None] = this control flow is impossible in this state. *)
Definition visit (e : env) (acc : option (cstate * list event)) (s : site) : option (cstate * list event) :=
  match acc with
  | None => None
  | Some (st, evs) =>
      if enabled st e s then
        let st' :=
          match s_kind s with
          | SetAuth => mk_c (c_tls st) true (c_sel st) (e_verified e) (c_isrole st) (c_role st) (c_origin st) (e_login_roles e)
          | _ => st
          end in
        let ev' := match s_kind s with SetAuth => [Authd (e_verified e)] | k => touch_of st e k end in
        Some (st', evs ++ ev')
      else None
  end.

Definition sites_of (t : facts) (w : string) : list site :=
  filter (fun s => String.eqb (s_cmd s) w) (f_sites t).

Definition site_eqb (a b : site) : bool :=
  String.eqb (s_where a) (s_where b) && String.eqb (s_cmd a) (s_cmd b) && kind_eqb (s_kind a) (s_kind b)
  && String.eqb (s_arg a) (s_arg b) && String.eqb (s_fn a) (s_fn b)
  && Bool.eqb (s_auth a) (s_auth b) && Bool.eqb (s_sel a) (s_sel b) && Bool.eqb (s_tls a) (s_tls b)
  && Bool.eqb (s_ok200 a) (s_ok200 b) && Bool.eqb (s_assigned a) (s_assigned b) && Bool.eqb (s_unauth a) (s_unauth b).

Definition visits_in_table (t : facts) (w : string) (e : env) : bool :=
  forallb (fun v => existsb (site_eqb v) (sites_of t w)) (e_visits e).

(** selection.HandleSelect, statement by statement. [clears] is the
    translator's fact "the selection is cleared before any failure return that
    follows the argument checks". Returns the new state and the events. *)
Definition clear_sel (st : cstate) : cstate :=
  mk_c (c_tls st) (c_auth st) false (c_user st) false 0 (c_origin st) (c_roles st).

Definition do_select (clears : bool) (st : cstate) (e : env) : cstate * list event :=
  if negb (c_auth st) then (st, [])                         (* "NO Please authenticate first" *)
  else
    let st0 := if clears then clear_sel st else st in
    match e_target e with
    | TRoleBadPath => (st0, [])
    | TRoleMissing => (st0, [Touch SharedStore])
    | TRoleUnassigned r => (st0, [Touch SharedStore])
    | TRole r found =>
        if e_assigned e (c_user st) r then
          let st1 := mk_c (c_tls st0) (c_auth st0) (c_sel st0) (c_user st0) true r (c_origin st0) (c_roles st0) in
          if found
          then (mk_c (c_tls st1) (c_auth st1) true (c_user st1) true r (RoleStore r) (c_roles st1),
                [Touch SharedStore; Touch (RoleStore r)])
          else (st1, [Touch SharedStore; Touch (RoleStore r)])
        else (st0, [Touch SharedStore])
    | TPersonal found =>
        let st1 := mk_c (c_tls st0) (c_auth st0) (c_sel st0) (c_user st0) false 0 (c_origin st0) (c_roles st0) in
        if found
        then (mk_c (c_tls st1) (c_auth st1) true (c_user st1) false 0 (Personal (c_user st1)) (c_roles st1),
              [Touch (Personal (c_user st1))])
        else (st1, [Touch (Personal (c_user st1))])
    end.

(** HandleClose / HandleUnselect end by clearing SelectedMailboxID (the role
    fields are left as they are — the Go code does the same). *)
Definition unselect (st : cstate) : cstate :=
  mk_c (c_tls st) (c_auth st) false (c_user st) (c_isrole st) (c_role st) (c_origin st) (c_roles st).

Definition is_select (w : string) : bool := String.eqb w "SELECT" || String.eqb w "EXAMINE".
Definition is_unselect (w : string) : bool := String.eqb w "CLOSE" || String.eqb w "UNSELECT".

Definition replies_of (t : facts) (w : string) : nat * nat :=
  match find (fun r => String.eqb (fst (fst r)) w) (f_replies t) with
  | Some r => snd r
  | None => if f_default_once t then (1, 1) else (0, 0)
  end.

(** One command line with at least two fields: [w] is the upper-cased command
    word. Result [None]: the oracle describes an impossible execution. *)
Definition step (t : facts) (st : cstate) (w : string) (e : env) : option (cstate * list event) :=
  if negb (visits_in_table t w e) then None
  else if is_select w then
    let '(st', evs) := do_select (f_select_clears t) st e in Some (st', evs)
  else if String.eqb w "STARTTLS" then
    (* HandleStartTLS: refused on TLS connections; else handshake; on success
       the Restart site decides whether the state is fresh *)
    if c_tls st then Some (st, [])
    else if negb (e_handshake e) then Some (st, [])   (* connection is closed by the server *)
    else match find (fun s => kind_eqb (s_kind s) Restart) (sites_of t w) with
         | Some s => if String.eqb (s_arg s) "fresh,tlsConn" then Some (init_state true, [])
                     else if String.eqb (s_arg s) "stale,tlsConn" then Some (mk_c true (c_auth st) (c_sel st) (c_user st) (c_isrole st) (c_role st) (c_origin st) (c_roles st), [])
                     else Some (st, [])
         | None => Some (st, [])
         end
  else
    match fold_left (visit e) (e_visits e) (Some (st, [])) with
    | None => None
    | Some (st', evs) =>
        (* CLOSE and UNSELECT clear the selection when they get past their guards *)
        let st'' := if is_unselect w && c_auth st && c_sel st then unselect st' else st' in
        Some (st'', evs)
    end.

(** A run: list of (command word, oracle). *)
Record obs := mk_obs { o_pre : cstate; o_word : string; o_env : env; o_post : cstate; o_events : list event }.

Fixpoint run (t : facts) (st : cstate) (cmds : list (string * env)) : option (cstate * list obs) :=
  match cmds with
  | [] => Some (st, [])
  | (w, e) :: rest =>
      match step t st w e with
      | None => None
      | Some (st', evs) =>
          match run t st' rest with
          | None => None
          | Some (stf, tr) => Some (stf, mk_obs st w e st' evs :: tr)
          end
      end
  end.

(** -------- boolean well-formedness predicates over the table -------- *)

(** C06 (a)(c): every store access is behind the authentication guard, or is
    part of a login flow that runs on TLS after the backend said 200; the
    backend is only contacted, and Authenticated only set, on TLS (and only
    after a 200). *)
Definition guards_ok (t : facts) : bool :=
  forallb (fun s =>
    match s_kind s with
    | AccUserSelf | AccUserOther | AccSelected | AccRole | AccShared =>
        s_auth s || (s_tls s && s_ok200 s)
    | Backend => s_tls s
    | SetAuth => s_tls s && s_ok200 s
    | UseSel => s_auth s && s_sel s                 (* C06 (b) *)
    | SetSel => is_select (s_cmd s)
    | SetField => is_select (s_cmd s) || (s_tls s && s_ok200 s)
    | Restart => String.eqb (s_cmd s) "STARTTLS"
    end) (f_sites t).

(** C06 (d): there is a restart site under STARTTLS and every restart site
    passes a fresh state on the upgraded connection *)
Definition restart_ok (t : facts) : bool :=
  existsb (fun s => kind_eqb (s_kind s) Restart) (sites_of t "STARTTLS") &&
  forallb (fun s => negb (kind_eqb (s_kind s) Restart) || String.eqb (s_arg s) "fresh,tlsConn") (f_sites t).

(** C06 (e): every dispatcher clause sends exactly one tagged completion on every path *)
Definition replies_ok (t : facts) : bool :=
  f_default_once t &&
  forallb (fun r => let '(mn, mx) := snd r in Nat.eqb mn 1 && Nat.eqb mx 1) (f_replies t) &&
  forallb (fun d => String.eqb (snd d) "" || existsb (fun r => String.eqb (fst (fst r)) (fst d)) (f_replies t)) (f_dispatch t).

(** C05: store selection. A command that uses the selected mailbox id obtains
    its store handle only through GetSelectedDB (or the shared store); nobody
    opens a personal store other than state.UserID's; a role store is opened
    only after the assignment check (SELECT) or from the list loaded at login
    (LIST/LSUB). *)
Definition uses_sel (t : facts) (w : string) : bool :=
  existsb (fun s => kind_eqb (s_kind s) UseSel) (sites_of t w).

Definition access_ok (t : facts) : bool :=
  forallb (fun s =>
    match s_kind s with
    | AccUserOther => false
    | AccUserSelf => negb (uses_sel t (s_cmd s))
    | AccSelected => s_sel s
    | AccRole => (is_select (s_cmd s) && s_assigned s)
                 || (String.eqb (s_arg s) ranged && negb (uses_sel t (s_cmd s)))
    | SetAuth => s_unauth s     (* a session is bound to an identity once: no re-login over a selection *)
    | _ => true
    end) (f_sites t).

(** the sites found under SELECT/EXAMINE are exactly the ones the hand-written
    [do_select] accounts for *)
Definition select_sites_ok (t : facts) : bool :=
  forallb (fun s =>
    if is_select (s_cmd s) then
      match s_kind s with
      | AccShared => s_auth s
      | AccRole => s_auth s && s_assigned s
      | AccUserSelf => s_auth s
      | SetSel => s_auth s
      | SetField => s_auth s &&
          (String.eqb (s_arg s) "state.IsRoleMailbox = true" || String.eqb (s_arg s) "state.IsRoleMailbox = false"
           || String.eqb (s_arg s) "state.SelectedRoleMailboxID = roleMailboxID" || String.eqb (s_arg s) "state.SelectedRoleMailboxID = 0")
      | _ => false
      end
    else match s_kind s with
         | SetSel => false
         | SetField => String.eqb (s_arg s) "state.UserID = userID"
         | _ => true
         end) (f_sites t).

Definition c05_facts_ok (t : facts) : bool :=
  guards_ok t && access_ok t && select_sites_ok t && f_select_clears t.
