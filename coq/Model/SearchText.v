(** Model of the SEARCH keys that read the reconstructed message text.

    Go: internal/server/message/message.go : matchesHeaderOrBody, matchesHeader,
    hasHeader, headerContains, matchesSize, matchesSentDate.
    [m_text] stands for the string parser.ReconstructMessageWithSharedDBAndS3
    returns (the same text FETCH BODY[] serves); a reconstruction error
    (every key answers false) is not modelled.

    net/mail.ParseDate is modelled on its canonical domain (Model/Search.v, mail_date).
    (previously:) time.Parse(time.RFC1123Z / time.RFC1123, ...) was modelled on its canonical
    domain only: "Mon, 02 Jan 2006 15:04:05 -0700" / "... MST" with single
    spaces, two-digit day, one- or two-digit hour; anything else is a parse
    error here (Go additionally tolerates runs of spaces and fractional
    seconds).  No proofs in this file. *)
From Coq Require Import String Ascii List Bool Arith NArith ZArith.
From Raven Require Import Base.GoStr Model.Search.
Import ListNotations.
Local Open Scope Z_scope.

(** headerFieldValues (fix "SEARCH matches each occurrence of a header field"):
    the unfolded value of every occurrence of the field; [acc] is the slice
    [values], last element first *)
Fixpoint hfv_loop (lines : list str) (field_colon : str) (in_target : bool) (acc : list str) : list str :=
  match lines with
  | [] => rev acc
  | line :: ls =>
      match line with
      | c :: _ =>
          if Ascii.eqb c sp || Ascii.eqb c tab then
            if in_target then
              match acc with
              | v :: acc' => hfv_loop ls field_colon in_target ((v ++ line) :: acc')   (* values[len(values)-1] += line *)
              | [] => hfv_loop ls field_colon in_target acc                             (* not reachable *)
              end
            else hfv_loop ls field_colon in_target acc
          else if has_prefix (to_upper line) field_colon
               then hfv_loop ls field_colon true (value_after_colon line :: acc)
               else hfv_loop ls field_colon false acc
      | [] => rev acc
      end
  end.

Definition header_field_values (raw field : str) : list str :=
  hfv_loop (header_lines (split_byte raw LF)) (to_upper field ++ [colon]) false [].

(** headerContains: some occurrence contains the string *)
Definition header_contains (raw field search : str) : bool :=
  existsb (fun value => contains (to_upper value) (to_upper search)) (header_field_values raw field).

Definition has_header (raw field : str) : bool :=
  existsb (fun line => has_prefix (to_upper line) (to_upper field ++ [colon])) (header_lines (split_byte raw LF)).

Definition crlfcrlf : str := [CR; LF; CR; LF].

Definition matches_header_or_body (m : msg) (field : kw) (search : str) : bool :=
  let raw := m_text m in
  let su := to_upper search in
  match field with
  | KwFROM => header_contains raw (S_ "From") su
  | KwTO => header_contains raw (S_ "To") su
  | KwCC => header_contains raw (S_ "Cc") su
  | KwBCC => header_contains raw (S_ "Bcc") su
  | KwSUBJECT => header_contains raw (S_ "Subject") su
  | KwBODY =>
      let header_end := match index raw crlfcrlf with Some i => Some i | None => index raw [LF; LF] end in
      match header_end with
      | Some i => contains (to_upper (skipn i raw)) su
      | None => false
      end
  | KwTEXT => contains (to_upper raw) su
  | _ => false
  end.

Definition matches_header (m : msg) (field search : str) : bool :=
  match search with
  | [] => has_header (m_text m) field
  | _ => header_contains (m_text m) field (to_upper search)
  end.

Definition matches_size (m : msg) (size : Z) (larger : bool) : bool :=
  let n := Z.of_nat (length (m_text m)) in
  if larger then size <? n else n <? size.

(** matchesSentDate (fix "SENT* keys read RFC 5322 dates"): the first Date:
    field, unfolded and trimmed, through net/mail.ParseDate ([mail_date]); the
    RFC1123Z / RFC1123 layouts tried afterwards accept nothing ParseDate rejects *)
Definition matches_sent_date (m : msg) (date_str : str) (c : dcmp) : bool :=
  match header_field_values (m_text m) (S_ "Date") with
  | [] => false
  | v :: _ =>
      match trim_space (wsp_to_sp v) with
      | [] => false
      | dh =>
          match mail_date dh with
          | Some sent =>
              match parse_imap_date date_str with
              | None => false
              | Some target =>
                  match c, date_cmp sent target with
                  | CBefore, Lt => true
                  | COn, Eq => true
                  | CSince, (Eq | Gt) => true
                  | _, _ => false
                  end
              end
          | None => false
          end
      end
  end.

Definition go_text : text_ops :=
  mk_text_ops matches_header_or_body matches_header matches_size matches_sent_date.

(** the instantiated entry points *)
Definition search (msgs : list msg) (criteria : str) : option (list Z) :=
  option_map (map m_seq) (evaluate_search_criteria go_text msgs criteria).
Definition uid_search (msgs : list msg) (criteria : str) : option (list Z) :=
  option_map (map m_uid) (evaluate_search_criteria go_text msgs criteria).
Definition search_cmd (parts : list str) (msgs : list msg) : reply := handle_search go_text parts msgs.
Definition uid_search_cmd (parts : list str) (msgs : list msg) : reply := handle_uid_search go_text parts msgs.
