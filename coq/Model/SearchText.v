(** Model of the SEARCH keys that read the reconstructed message text.

    Go: internal/server/message/message.go : matchesHeaderOrBody, matchesHeader,
    hasHeader, headerContains, matchesSize, matchesSentDate.
    [m_text] stands for the string parser.ReconstructMessageWithSharedDBAndS3
    returns (the same text FETCH BODY[] serves); a reconstruction error
    (every key answers false) is not modelled.

    time.Parse(time.RFC1123Z / time.RFC1123, ...) is modelled on its canonical
    domain only: "Mon, 02 Jan 2006 15:04:05 -0700" / "... MST" with single
    spaces, two-digit day, one- or two-digit hour; anything else is a parse
    error here (Go additionally tolerates runs of spaces and fractional
    seconds).  No proofs in this file. *)
From Coq Require Import String Ascii List Bool Arith NArith ZArith.
From Raven Require Import Base.GoStr Model.Search.
Import ListNotations.
Local Open Scope Z_scope.

(** the header lines: strings.Split(raw, "\n"), each TrimRight(line, "\r"),
    up to the first empty one *)
Fixpoint header_lines (lines : list str) : list str :=
  match lines with
  | [] => []
  | l :: ls => match trim_right l [CR] with
               | [] => []
               | line => line :: header_lines ls
               end
  end.

Definition after_colon (line : str) : str :=
  match index line [colon] with
  | Some i => trim_space (skipn (S i) line)
  | None => []
  end.

(** headerContains: the loop; [value] is the strings.Builder *)
Fixpoint hc_loop (lines : list str) (field_colon : str) (in_target : bool) (value : str) : str :=
  match lines with
  | [] => value
  | line :: ls =>
      match line with
      | c :: _ =>
          if Ascii.eqb c sp || Ascii.eqb c tab then
            if in_target then hc_loop ls field_colon in_target (value ++ [sp] ++ trim_space line)
            else hc_loop ls field_colon in_target value
          else if has_prefix (to_upper line) field_colon
               then hc_loop ls field_colon true (value ++ after_colon line)
               else hc_loop ls field_colon false value
      | [] => value
      end
  end.

Definition header_contains (raw field search : str) : bool :=
  let value := hc_loop (header_lines (split_byte raw LF)) (to_upper field ++ [colon]) false [] in
  contains (to_upper value) (to_upper search).

Definition has_header (raw field : str) : bool :=
  existsb (fun line => has_prefix (to_upper line) (to_upper field ++ [colon])) (header_lines (split_byte raw LF)).

Definition crlfcrlf : str := [CR; LF; CR; LF].

Definition matches_header_or_body (m : msg) (field : kw) (search : str) : bool :=
  let raw := m_text m in
  let su := to_upper search in
  match field with
  | KwFROM => header_contains raw (S_ "From") su
  | KwTO => header_contains raw (S_ "To") su
  | KwCC => header_contains raw (S_ "Cc") su
  | KwBCC => header_contains raw (S_ "Bcc") su
  | KwSUBJECT => header_contains raw (S_ "Subject") su
  | KwBODY =>
      let header_end := match index raw crlfcrlf with Some i => Some i | None => index raw [LF; LF] end in
      match header_end with
      | Some i => contains (to_upper (skipn i raw)) su
      | None => false
      end
  | KwTEXT => contains (to_upper raw) su
  | _ => false
  end.

Definition matches_header (m : msg) (field search : str) : bool :=
  match search with
  | [] => has_header (m_text m) field
  | _ => header_contains (m_text m) field (to_upper search)
  end.

Definition matches_size (m : msg) (size : Z) (larger : bool) : bool :=
  let n := Z.of_nat (length (m_text m)) in
  if larger then size <? n else n <? size.

(** the Date: header matchesSentDate reads: first header line with prefix
    "DATE:" (upper-cased), text after the first colon, trimmed *)
Fixpoint date_header (lines : list str) : str :=
  match lines with
  | [] => []
  | line :: ls => if has_prefix (to_upper line) (S_ "DATE:") then after_colon line else date_header ls
  end.

Definition day_names : list str := [S_ "SUN"; S_ "MON"; S_ "TUE"; S_ "WED"; S_ "THU"; S_ "FRI"; S_ "SAT"].
Definition is_upper_letter (c : ascii) : bool := is_upper c.

Definition two_digits_below (a b : ascii) (lim : Z) : bool :=
  is_digit a && is_digit b && (digits_val [a; b] 0 <? lim).

(** zone of RFC1123Z: sign and four digits; of RFC1123: "UTC", or three
    upper-case letters, or four ending in T (time.parseTimeZone without the
    GMT+n form) *)
Definition zone_ok (z : str) : bool :=
  match z with
  | [s; a; b; c; d] =>
      ((Ascii.eqb s "+"%char || Ascii.eqb s minus) && forallb is_digit [a; b; c; d]
         && (digits_val [a; b] 0 <=? 24) && (digits_val [c; d] 0 <? 60))
  | [a; b; c] => forallb is_upper_letter [a; b; c]
  | [a; b; c; d] => forallb is_upper_letter [a; b; c; d] && Ascii.eqb d "T"%char
  | _ => false
  end.

Definition time_zone_ok (s : str) : bool :=
  (* "15:04:05 zone" with a one- or two-digit hour *)
  match s with
  | h1 :: h2 :: c1 :: m1 :: m2 :: c2 :: s1 :: s2 :: x :: z =>
      if Ascii.eqb c1 colon then
        two_digits_below h1 h2 24 && Ascii.eqb c2 colon && two_digits_below m1 m2 60
        && two_digits_below s1 s2 60 && Ascii.eqb x sp && zone_ok z
      else
        (* one-digit hour: h1 ':' c1 m1 ':' m2 c2 ' ' zone   (positions shifted by one) *)
        is_digit h1 && Ascii.eqb h2 colon && two_digits_below c1 m1 60 && Ascii.eqb m2 colon
        && two_digits_below c2 s1 60 && Ascii.eqb s2 sp && zone_ok (x :: z)
  | _ => false
  end.

Definition parse_rfc1123 (s : str) : option date :=
  match s with
  | w1 :: w2 :: w3 :: c :: x1 :: d1 :: d2 :: x2 :: a :: b :: e :: x3 :: y1 :: y2 :: y3 :: y4 :: x4 :: rest =>
      if existsb (str_eqb (to_upper [w1; w2; w3])) day_names
         && Ascii.eqb c ","%char && Ascii.eqb x1 sp && is_digit d1 && is_digit d2 && Ascii.eqb x2 sp
         && Ascii.eqb x3 sp && forallb is_digit [y1; y2; y3; y4] && Ascii.eqb x4 sp && time_zone_ok rest
      then mk_date [d1; d2] [a; b; e] [y1; y2; y3; y4]
      else None
  | _ => None
  end.

Definition matches_sent_date (m : msg) (date_str : str) (c : dcmp) : bool :=
  match date_header (header_lines (split_byte (m_text m) LF)) with
  | [] => false
  | dh =>
      match parse_rfc1123 dh with
      | Some sent =>
          match parse_imap_date date_str with
          | None => false
          | Some target =>
              match c, date_cmp sent target with
              | CBefore, Lt => true
              | COn, Eq => true
              | CSince, (Eq | Gt) => true
              | _, _ => false
              end
          end
      | None => false
      end
  end.

Definition go_text : text_ops :=
  mk_text_ops matches_header_or_body matches_header matches_size matches_sent_date.

(** the instantiated entry points *)
Definition search (msgs : list msg) (criteria : str) : option (list Z) :=
  option_map (map m_seq) (evaluate_search_criteria go_text msgs criteria).
Definition uid_search (msgs : list msg) (criteria : str) : option (list Z) :=
  option_map (map m_uid) (evaluate_search_criteria go_text msgs criteria).
Definition search_cmd (parts : list str) (msgs : list msg) : reply := handle_search go_text parts msgs.
Definition uid_search_cmd (parts : list str) (msgs : list msg) : reply := handle_uid_search go_text parts msgs.
