(** Model of the five sequence-set / UID-set parsers of raven (C09), each
    mirroring its Go function statement by statement, bugs included.

    - [parse_seqset_db]  internal/server/utils/parser.go  ParseSequenceSetWithDB
                         (used by STORE and COPY)
    - [parse_uidset_db]  internal/server/utils/parser.go  ParseUIDSequenceSetWithDB
                         (UID FETCH / UID STORE / UID COPY / UID EXPUNGE)
    - [valid_seqset]     internal/server/utils/parser.go  ValidSequenceSet
    - [fetch_inline]     internal/server/message/fetch.go HandleFetch: set resolved by
                         ParseSequenceSetWithDB, rows walked in order, wanted ones answered
    - [is_sequence_set], [matches_sequence_set], [search_set]
                         internal/server/message/message.go (SEARCH)
    - [uidsearch_set]    UID SEARCH UID <set> through message.SearchSelectedMailbox
    - [dispatch_copy_args], [copy_set_arg], [plain_copy]
                         internal/server/connection.go (case "COPY") + HandleCopy:
                         which element of [parts] the handler takes as the set

    The mailbox enters as the list of its UIDs in ascending order (the rows of
    message_mailbox for the mailbox, ORDER BY uid).  Go [int] is int64;
    [atoi] is [None] exactly where strconv.Atoi returns an error.
    No proofs in this file. *)
From Coq Require Import String Ascii List Bool ZArith.
From Raven Require Import Base.GoStr Base.GoStrZ.
Import ListNotations.
Local Open Scope Z_scope.

Definition c_star : ascii := "*".
Definition c_colon : ascii := ":".
Definition c_comma : ascii := ",".
Definition s_star : str := [c_star].

(** ---- utils.ParseSequenceSetWithDB ---- *)

Definition seq_part (total : Z) (part0 : str) : list Z :=
  let part := trim_space part0 in
  if contains_byte part c_colon then
    match split_byte part c_colon with
    | [a; b] =>
      match atoi a, atoi b with
      | Some start, Some end_ =>
        if (0 <? start) && (0 <? end_) then
          let '(start, end_) := if end_ <? start then (end_, start) else (start, end_) in
          (* for i := start; i <= end && i <= totalMessages; i++ *)
          zrange start (Z.min end_ total)
        else []
      | _, _ => []
      end
    | _ => []
    end
  else
    match atoi part with
    | Some num => if (0 <? num) && (num <=? total) then [num] else []
    | None => []
    end.

Definition parse_seqset_db (s : str) (total : Z) : list Z :=
  if total =? 0 then []
  else
    let s' := replace_byte s c_star (itoa total) in
    flat_map (seq_part total) (split_byte s' c_comma).

(** ---- utils.ParseUIDSequenceSetWithDB ---- *)

Definition max_uid_of (uids : list Z) : Z := fold_right Z.max 0 uids.  (* COALESCE(MAX(uid),0) *)

Definition uid_part (uids : list Z) (maxu : Z) (part0 : str) : list Z :=
  let part := trim_space part0 in
  if str_eqb part s_star then [maxu]
  else if contains_byte part c_colon then
    match split_byte part c_colon with
    | [a; b] =>
      let start := if str_eqb a s_star then maxu else atoi_lossy a in
      let end_ := if str_eqb b s_star then maxu else atoi_lossy b in
      let '(start, end_) := if end_ <? start then (end_, start) else (start, end_) in
      filter (fun u => (start <=? u) && (u <=? end_)) uids
    | _ => []
    end
  else
    match atoi part with
    | None => []
    | Some u => if existsb (Z.eqb u) uids then [u] else []
    end.

Definition parse_uidset_db (s : str) (uids : list Z) : list Z :=
  let maxu := max_uid_of uids in
  if maxu =? 0 then []
  else flat_map (uid_part uids maxu) (split_byte s c_comma).

(** ---- HandleFetch: inline range parser, query and numbering ---- *)

(** SELECT ... ORDER BY uid LIMIT ? OFFSET ?  (SQLite: a negative OFFSET is 0,
    a negative LIMIT is "no limit") *)
Fixpoint zskipn {A} (k : Z) (l : list A) : list A :=
  match l with
  | [] => []
  | _ :: l' => if k <=? 0 then l else zskipn (k - 1) l'
  end.
Fixpoint zfirstn {A} (k : Z) (l : list A) : list A :=
  match l with
  | [] => []
  | x :: l' => if k <=? 0 then [] else x :: zfirstn (k - 1) l'
  end.
Definition sql_limit_offset {A} (rows : list A) (limit offset : Z) : list A :=
  let r := zskipn offset rows in
  if limit <? 0 then r else zfirstn limit r.

(** seqNum counts the rows; (seqNum, uid) for each row *)
Fixpoint label_from (k : Z) (rows : list Z) : list (Z * Z) :=
  match rows with
  | [] => []
  | u :: r => (k, u) :: label_from (k + 1) r
  end.

(** utils.ValidSequenceSet: comma-separated elements, each one or two bounds
    joined by ":", a bound being "*" or a number >= 1 (strconv.Atoi) *)
Definition valid_bound (x : str) : bool :=
  if str_eqb x s_star then true
  else match atoi x with Some n => negb (n <? 1) | None => false end.

Definition valid_seqset (s : str) : bool :=
  forallb (fun part =>
             let bounds := split_byte part c_colon in
             if Nat.ltb 2 (length bounds) then false else forallb valid_bound bounds)
          (split_byte s c_comma).

(** HandleFetch (after "FETCH resolves its sequence set like STORE and COPY"):
    BAD for a malformed set; the numbers of ParseSequenceSetWithDB go into the
    map [wanted], [last] is the largest; nothing addressed => OK without data;
    otherwise the rows ORDER BY uid LIMIT last are walked with seqNum = 1, 2, ...
    and the wanted ones are answered.
    [None] = tagged BAD; [Some l] = the untagged FETCH responses as
    (sequence number in the response, uid of the row) *)
Definition fetch_inline (sequence : str) (uids : list Z) : option (list (Z * Z)) :=
  if negb (valid_seqset sequence) then None
  else
    let seqs := parse_seqset_db sequence (Z.of_nat (length uids)) in
    let last := fold_right Z.max 0 seqs in
    if last =? 0 then Some []
    else Some (filter (fun p => existsb (Z.eqb (fst p)) seqs)
                      (label_from 1 (sql_limit_offset uids last 0))).

(** ---- SEARCH: isSequenceSet / matchesSequenceSet / sequenceSetBound ---- *)

Definition is_sequence_set (token : str) : bool :=
  if str_eqb token s_star then true
  else
    forallb (fun c => Ascii.eqb c c_colon || Ascii.eqb c c_star || Ascii.eqb c c_comma || is_digit c) token
    && match token with
       | c :: _ => is_digit c || Ascii.eqb c c_star
       | [] => false
       end.

(** a positive number, or "*" for the largest number in use; [None] = not ok *)
Definition sequence_set_bound (x : str) (largest : Z) : option Z :=
  if str_eqb x s_star then Some largest
  else match atoi x with
       | Some n => if 0 <? n then Some n else None
       | None => None
       end.

Definition matches_part (num largest : Z) (part : str) : bool :=
  match split_byte part c_colon with
  | [a] =>
    match sequence_set_bound a largest with
    | Some lo => (lo <=? num) && (num <=? lo)
    | None => false
    end
  | [a; b] =>
    match sequence_set_bound a largest with
    | Some lo =>
      match sequence_set_bound b largest with
      | Some hi =>
        let '(lo, hi) := if hi <? lo then (hi, lo) else (lo, hi) in
        (lo <=? num) && (num <=? hi)
      | None => false
      end
    | None => false
    end
  | _ => false                      (* len(bounds) > 2: continue *)
  end.

Definition matches_sequence_set (num : Z) (set : str) (largest : Z) : bool :=
  existsb (matches_part num largest) (split_byte set c_comma).

(** [SEARCH <token>] for a token over the sequence-set alphabet (digits, '*',
    ':', ','): evaluateTokens takes the sequence-set branch when
    isSequenceSet holds (msg.maxSeqNum = number of messages), otherwise the
    token is no search key and is skipped ("default: i++"). *)
Definition search_set (token : str) (total : Z) : list Z :=
  let t := to_upper token in
  if is_sequence_set t then filter (fun i => matches_sequence_set i t total) (zrange 1 total)
  else zrange 1 total.

(** ---- UID SEARCH UID <set> ---- *)
(** uid.handleUIDSearch -> message.SearchSelectedMailbox (byUID) -> evaluateTokens,
    case "UID": matchesUIDSet(msg.uid, token, msg.maxUID); the matching UIDs are
    returned in mailbox order (since e09cd6b) *)
Definition uidsearch_set (set : str) (uids : list Z) : list Z :=
  filter (fun u => matches_sequence_set u set (max_uid_of uids)) uids.

(** ---- dispatcher + HandleCopy ---- *)
(** connection.go: [message.HandleCopy(s, conn, tag, parts[1:], state)] with
    [parts = strings.Fields(line)] (tag first, at least two fields);
    HandleCopy: [len(parts) < 3] => BAD, [sequenceSet := parts[1]].
    [None] = BAD. *)
Definition dispatch_copy_args (parts : list str) : list str := tl parts.      (* parts[1:] *)
Definition copy_set_arg (hparts : list str) : option str :=
  if Nat.ltb (length hparts) 3 then None else nth_error hparts 1.

(** plain COPY as dispatched: [None] = BAD, [Some l] = sequence numbers copied *)
Definition plain_copy (parts : list str) (total : Z) : option (list Z) :=
  match copy_set_arg (dispatch_copy_args parts) with
  | None => None
  | Some set =>
    match parse_seqset_db set total with
    | [] => None              (* "BAD Invalid sequence set" *)
    | l => Some l
    end
  end.
