(** C20 — connection handlers as transition systems over read-site outcomes.

    One [event] is the outcome of ONE blocking read call of the handler:
      [Data l ok]  the call obtained what it was waiting for (a line, a chunk,
                   the whole literal); [ok] is the answer of the world to the
                   backend-dependent step of the command in [l], if it has one
                   (auth backend says 200 / mailbox exists / TLS handshake
                   succeeds / message parses);
      [Eof]        io.EOF: the peer closed;
      [Timeout]    the armed read deadline passed;
      [ReadErr]    any other error (reset, use of closed connection).
    A final line without terminator followed by EOF is [Data l _; Eof] for
    bufio.Reader.ReadString as used by handleClient (the partial line IS
    processed) and for bufio.Scanner (SASL), but just [Eof] for the LMTP loop
    (Session.Handle returns on any error, dropping the partial line).

    Go code mirrored, statement by statement where control flow is concerned:
      internal/server/connection.go      handleClient
      internal/server/server.go          HandleConnection (deferred Close)
      internal/server/auth/auth.go       HandleLogin, HandleAuthenticate, HandleStartTLS, HandleLogout
      internal/server/selection          HandleSelect / HandleClose / HandleUnselect (selection bit only)
      internal/server/extension          HandleIdle
      internal/server/message/message.go HandleAppendWithReader (up to the point the literal is read)
      internal/delivery/lmtp/session.go  Session.Handle, handleCommand, handleMAIL/RCPT/DATA/RSET/QUIT
      internal/delivery/parser/parser.go ReadDataCommand
      internal/sasl/server.go            handleConnection, handleAuth, handlePlain, handleLogin
    Models the tree with the C20 fix wave applied (fixes/C20-1 .. C20-6):
    HandleIdle returns on a non-timeout read error and logs the client out
    after idleTimeout; [Timeout] in IDLE means that limit, not one of the 50 ms
    poll deadlines (those are internal steps that change nothing).
    No proofs here. *)
From Coq Require Import String Ascii List Bool ZArith NArith Arith.
From Raven Require Import Base.GoStr.
Import ListNotations.
Local Open Scope list_scope.

Inductive event :=
| Data (l : str) (ok : bool)
| Eof
| Timeout
| ReadErr.

(** what the server writes, projected: continuation request, tagged
    completion, BYE, untagged "* BAD Invalid command format" *)
(** [RClose] is not a reply: it marks that the SERVER closed the connection
    itself while the handler goes on (every later read of that handler fails). *)
Inductive reply := RCont | RTag | RBye | RStarBad | RClose.

(* ------------------------------------------------------------------ *)
(** * IMAP *)

Inductive imode :=
| ICmd            (* handleClient: reader.ReadString('\n') *)
| IAuthWait       (* HandleAuthenticate: conn.Read after "+ " *)
| ILiteral        (* HandleAppendWithReader: io.ReadFull(reader, messageData) *)
| ILitCRLF        (* ... reader.Read(crlfBuf) *)
| IDiscard        (* a refused APPEND consumes its LITERAL+ literal: io.CopyN(io.Discard, reader, size) *)
| IDiscardCRLF    (* ... and the CRLF after it *)
| IIdle           (* HandleIdle: poll loop, conn.Read(buf) *)
| IHandshake      (* HandleStartTLS: tlsConn.Handshake() *)
| ISSLHandshake   (* implicit-TLS port, HandleSSLConnectionWithCert: tlsConn.Handshake() under its own 30 s deadline *)
| IDone.          (* handler returned; HandleConnection's deferred conn.Close() ran *)

Record istate := mk_i { i_mode : imode; i_auth : bool; i_sel : bool; i_tls : bool }.

Definition i_init (tls : bool) : istate := mk_i ICmd false false tls.

Definition imode_eqb (a b : imode) : bool :=
  match a, b with
  | ICmd, ICmd | IAuthWait, IAuthWait | ILiteral, ILiteral | ILitCRLF, ILitCRLF
  | IDiscard, IDiscard | IDiscardCRLF, IDiscardCRLF
  | IIdle, IIdle | IHandshake, IHandshake | ISSLHandshake, ISSLHandshake | IDone, IDone => true
  | _, _ => false
  end.

Definition set_mode (s : istate) (m : imode) : istate := mk_i m (i_auth s) (i_sel s) (i_tls s).

(** fmt.Sscanf(sizeStr, "%d", &messageSize): blanks skipped, optional sign,
    the longest run of decimal digits (scanning stops at the first other byte,
    also at '_'); a value outside int64 is an error and leaves 0; no digits
    leaves 0. *)
Definition is_blank (c : ascii) : bool := (Ascii.eqb c " " || Ascii.eqb c (ascii_of_nat 9))%bool.
Fixpoint take_while (f : ascii -> bool) (s : str) : str :=
  match s with c :: s' => if f c then c :: take_while f s' else [] | [] => [] end.

Definition scan_int (s : str) : Z :=
  let s := drop_while is_blank s in
  let '(neg, d) :=
    match s with
    | c :: s' => if Ascii.eqb c "-" then (true, s') else if Ascii.eqb c "+" then (false, s') else (false, s)
    | [] => (false, [])
    end in
  let run := take_while is_digit d in
  match run with
  | [] => 0%Z
  | _ => let v := digits_val run 0 in
         if neg then (if (v <=? max_int64 + 1)%Z then (- v)%Z else 0%Z)
         else (if (v <=? max_int64)%Z then v else 0%Z)
  end.

Definition lbrace : ascii := "{"%char.
Definition rbrace : ascii := "}"%char.
Definition max_append : Z := 52428800%Z.

(** the literal announcement of an APPEND line (the TrimSpace'd line):
    [None] = "BAD APPEND requires message size"; [Some (size, plus)] *)
Definition append_literal (line : str) : option (Z * bool) :=
  match index_byte line lbrace, index_byte line rbrace with
  | Some i, Some j =>
      if Nat.ltb j i then None else
      match slice line (Z.of_nat i + 1) (Z.of_nat j) with
      | Some sz =>
          let plus := has_suffix sz ["+"%char] in
          let sz := if plus then trim_suffix sz ["+"%char] else sz in
          Some (scan_int sz, plus)
      | None => None
      end
  | _, _ => None
  end.

Definition cmd_is (c : str) (name : string) : bool := str_eqb c (S_ name).

(** one command line in the command loop *)
Definition i_dispatch (s : istate) (l : str) (ok : bool) : istate * list reply :=
  let line := trim_space l in
  match fields line with
  | [] => (s, [])
  | [_] => (s, [RTag])                                     (* the tag alone: tagged BAD (9a07da0) *)
  | _ :: c :: args =>
      let cmd := to_upper c in
      let nparts := 2 + length args in
      if cmd_is cmd "LOGIN" then
        if nparts <? 4 then (s, [RTag])
        else if i_auth s then (s, [RTag])
        else if negb (i_tls s) then (s, [RTag])
        else (mk_i ICmd ok (i_sel s) (i_tls s), [RTag])
      else if cmd_is cmd "AUTHENTICATE" then
        if nparts <? 3 then (s, [RTag])
        else if i_auth s then (s, [RTag])
        else match args with
             | m :: _ =>
                 if cmd_is (to_upper m) "PLAIN"
                 then if negb (i_tls s) then (s, [RTag]) else (set_mode s IAuthWait, [RCont])
                 else (s, [RTag])
             | [] => (s, [RTag])
             end
      else if (cmd_is cmd "SELECT" || cmd_is cmd "EXAMINE")%bool then
        if negb (i_auth s) then (s, [RTag])
        else if nparts <? 3 then (s, [RTag])
        else (mk_i ICmd (i_auth s) ok (i_tls s), [RTag])
      else if (cmd_is cmd "CLOSE" || cmd_is cmd "UNSELECT")%bool then
        if negb (i_auth s) then (s, [RTag])
        else if negb (i_sel s) then (s, [RTag])
        else (mk_i ICmd (i_auth s) false (i_tls s), [RTag])
      else if cmd_is cmd "IDLE" then
        if negb (i_auth s) then (s, [RTag])
        else if negb (i_sel s) then (s, [RTag])
        else (set_mode s IIdle, [RCont])
      else if cmd_is cmd "APPEND" then
        if negb (i_auth s) then (s, [RTag])
        else if nparts <? 3 then (s, [RTag])
        else
          (* aa7fd6d: every refusal after this point first consumes a non-synchronizing literal *)
          let lit := append_literal line in
          let refuse := match lit with
                        | Some (size, true) => if (0 <? size)%Z then (set_mode s IDiscard, []) else (s, [RTag])
                        | _ => (s, [RTag])
                        end in
          if negb ok then refuse                                 (* user store / folder lookup failed *)
          else match lit with
               | None => (s, [RTag])
               | Some (size, plus) =>
                   if ((size <=? 0) || (max_append <? size))%Z then refuse
                   else (set_mode s ILiteral, if plus then [] else [RCont])
               end
      else if cmd_is cmd "LOGOUT" then (set_mode s IDone, [RBye; RTag])
      else if cmd_is cmd "STARTTLS" then
        (* connection.go: `auth.HandleStartTLS(...); return` — the handler ends even when STARTTLS was refused *)
        if 2 <? nparts then (set_mode s IDone, [RTag])
        else if i_tls s then (set_mode s IDone, [RTag])
        else if negb ok then (set_mode s IDone, [RTag])        (* certificate does not load *)
        else (set_mode s IHandshake, [RTag])
      else (s, [RTag])
  end.

Definition is_done_word (l : str) : bool := str_eqb (trim_space (to_upper l)) (S_ "DONE").
Definition is_star (l : str) : bool := str_eqb (trim_space l) (S_ "*").

Definition istep (s : istate) (e : event) : istate * list reply :=
  match i_mode s with
  | ICmd =>
      match e with
      | Data l ok => i_dispatch s l ok
      | Eof | Timeout | ReadErr => (set_mode s IDone, [])
      end
  | IAuthWait =>
      match e with
      | Data l ok =>
          if is_star l then (set_mode s ICmd, [RTag])
          else (mk_i ICmd ok (i_sel s) (i_tls s), [RTag])
      | _ => (set_mode s ICmd, [RTag])
      end
  | ILiteral =>
      match e with
      | Data _ _ => (set_mode s ILitCRLF, [])
      | _ => (set_mode s ICmd, [RTag])
      end
  | ILitCRLF => (set_mode s ICmd, [RTag])          (* every outcome: "continue anyway" *)
  | IDiscard =>
      match e with
      | Data _ _ => (set_mode s IDiscardCRLF, [])
      | _ => (set_mode s ICmd, [RTag])
      end
  | IDiscardCRLF => (set_mode s ICmd, [RTag])
  | IIdle =>
      match e with
      | Data l _ => if is_done_word l then (set_mode s ICmd, [RTag]) else (s, [])
      | Timeout => (set_mode s ICmd, [RBye; RClose])   (* idleTimeout reached: "* BYE Autologout", conn.Close(), return *)
      | Eof | ReadErr => (set_mode s ICmd, [])         (* a non-timeout read error: return to the command loop *)
      end
  | IHandshake =>
      match e with
      | Data _ true => (mk_i ICmd false false true, [])   (* clientHandler(tlsConn, &ClientState{}) *)
      | _ => (set_mode s IDone, [])
      end
  | ISSLHandshake =>
      match e with
      | Data _ true => (mk_i ICmd false false true, [])   (* clientHandler(tlsConn, &ClientState{}): greeting, handleClient *)
      | _ => (set_mode s IDone, [])                        (* handshake failed or ran into its deadline: conn.Close() *)
      end
  | IDone => (s, [])
  end.

(** a connection accepted on the implicit-TLS port *)
Definition i_init_ssl : istate := mk_i ISSLHandshake false false true.

(** read deadline (milliseconds) in force at the read site of each mode;
    [None] = the handler does not read any more *)
Definition ideadline (m : imode) : option N :=
  match m with
  | ICmd => Some 1800000%N        (* 30 * time.Minute, armed at the top of the loop *)
  | IAuthWait => Some 30000%N     (* 30 * time.Second *)
  | ILiteral => Some 300000%N     (* 5 * time.Minute *)
  | ILitCRLF => Some 100%N        (* 100 * time.Millisecond *)
  | IDiscard => Some 300000%N
  | IDiscardCRLF => Some 100%N
  | IIdle => Some 1800000%N       (* idleTimeout; the 50 ms poll deadlines are internal to the loop *)
  | IHandshake => Some 1800000%N  (* inherited from the loop iteration that read STARTTLS *)
  | ISSLHandshake => Some 30000%N (* tlsHandshakeTimeout, conn.SetDeadline *)
  | IDone => None
  end.

(* ------------------------------------------------------------------ *)
(** * LMTP *)

Inductive lmode := LCmd | LData (size : Z) (too_large : bool) | LDone.
Record lstate := mk_l { l_mode : lmode; l_helo : bool; l_mail : bool; l_rcpts : nat }.
Record lconf := mk_lc { lc_max_size : Z; lc_max_rcpts : nat; lc_timeout_ms : N }.

Definition l_init : lstate := mk_l LCmd false false 0.

(** reply lines ending a reply ("ddd " not "ddd-"), by first digit; RDeliv is
    the per-recipient 250/550 after delivery *)
Inductive lreply := L2 | L3 | L4 | L5 | LDeliv.

Definition space : ascii := " "%char.

(** strings.SplitN(line, " ", 2) *)
Definition split_cmd (line : str) : str * str :=
  match index_byte line space with
  | Some i => (firstn i line, skipn (S i) line)
  | None => (line, [])
  end.

Definition l_set (s : lstate) (m : lmode) : lstate := mk_l m (l_helo s) (l_mail s) (l_rcpts s).

(** Session.parseMailFrom after the FROM: test (the address itself does not
    influence the control flow any more since c32f2ea: s.mailSeen). *)
Definition mail_from (args : str) : str :=
  let a := trim_space args in
  let a := trim_prefix (trim_prefix a (S_ "FROM:")) (S_ "from:") in
  let a := trim_space a in
  let a := trim_suffix (trim_prefix a (S_ "<")) (S_ ">") in
  match fields a with f :: _ => f | [] => a end.

Definition l_command (cf : lconf) (s : lstate) (l : str) (ok : bool) : lstate * list lreply :=
  let line := trim_space l in
  match line with
  | [] => (s, [])
  | _ =>
    let '(c, args) := split_cmd line in
    let cmd := to_upper c in
    if cmd_is cmd "LHLO" then
      match args with [] => (s, [L5]) | _ => (mk_l LCmd true (l_mail s) (l_rcpts s), [L2]) end
    else if cmd_is cmd "MAIL" then
      if negb (l_helo s) then (s, [L5])
      else if l_mail s then (s, [L5])
      else if negb (has_prefix (to_upper (trim_space args)) (S_ "FROM:")) then (s, [L5])
      else (mk_l LCmd (l_helo s) true (l_rcpts s), [L2])      (* s.mailSeen = true, also for the null reverse-path <> *)
    else if cmd_is cmd "RCPT" then
      if negb (l_mail s) then (s, [L5])
      else if lc_max_rcpts cf <=? l_rcpts s then (s, [L4])
      else if negb (has_prefix (to_upper (trim_space args)) (S_ "TO:")) then (s, [L5])
      else if ok then (mk_l LCmd (l_helo s) (l_mail s) (S (l_rcpts s)), [L2]) else (s, [L5])
    else if cmd_is cmd "DATA" then
      if negb (l_mail s) then (s, [L5])
      else if l_rcpts s =? 0 then (s, [L5])
      else (l_set s (LData 0 false), [L3])
    else if cmd_is cmd "RSET" then (mk_l LCmd (l_helo s) false 0, [L2])
    else if cmd_is cmd "NOOP" then (s, [L2])
    else if cmd_is cmd "QUIT" then (l_set s LDone, [L2])
    else if cmd_is cmd "VRFY" then (s, [L2])
    else if cmd_is cmd "HELP" then (s, [L2])
    else (s, [L5])
  end.

Definition is_dot_line (l : str) : bool :=
  (str_eqb l ("."%char :: crlf) || str_eqb l ["."%char; LF])%bool.

Definition lstep (cf : lconf) (s : lstate) (e : event) : lstate * list lreply :=
  match l_mode s with
  | LCmd =>
      match e with
      | Data l ok => l_command cf s l ok
      | _ => (l_set s LDone, [])                       (* return fmt.Errorf("read error") *)
      end
  | LData size big =>
      match e with
      | Data l ok =>
          if is_dot_line l then
            (* end of data: delivery (one 250/550 per recipient), or rejectMessage
               (552 too large / 554 parse or validation failure, one per recipient);
               the transaction is reset in every case *)
            if big then (mk_l LCmd (l_helo s) false 0, repeat L5 (l_rcpts s))
            else if ok then (mk_l LCmd (l_helo s) false 0, repeat LDeliv (l_rcpts s))
            else (mk_l LCmd (l_helo s) false 0, repeat L5 (l_rcpts s))
          else if big then (s, [])                      (* discarded, but read up to the end-of-data marker *)
          else
            let l' := if has_prefix l (S_ "..") then tl l else l in
            let size' := (size + Z.of_nat (length l'))%Z in
            if (lc_max_size cf <? size')%Z then (l_set s (LData size' true), [])
            else (l_set s (LData size' false), [])
      | _ => (l_set s LCmd, [L5])                       (* 554 Error reading message (no reset); the loop re-arms the deadline *)
      end
  | LDone => (s, [])
  end.

Definition ldeadline (cf : lconf) (m : lmode) : option N :=
  match m with
  | LDone => None
  | _ => Some (lc_timeout_ms cf)
  end.

(* ------------------------------------------------------------------ *)
(** * SASL (Dovecot auth protocol) *)

Inductive smode := SCmd | SDone.
Definition TAB : ascii := ascii_of_nat 9.
Definition max_token : N := 65536%N.

(** strings.Split(line, "\t"), linear in the length of the line (lines of
    64 KiB are part of the domain: bufio.Scanner's token limit) *)
Definition split_tab (s : str) : list str :=
  fold_right (fun c acc => if Ascii.eqb c TAB then [] :: acc
                           else match acc with h :: t => (c :: h) :: t | [] => [[c]] end) [[]] s.

(** number of '\n'-terminated lines written for one received line *)
Definition s_reply_count (l : str) : nat :=
  match split_tab l with
  | c :: p1 :: rest =>
      if cmd_is c "VERSION" then 1
      else if cmd_is c "CPID" then 3
      else if cmd_is c "AUTH" then
        match rest with
        | [] => 0                                       (* len(parts) < 3 *)
        | _ :: _ => 1                                   (* CONT / OK / FAIL *)
        end
      else 0
  | _ => 0
  end.

(** [shut]: Server.Shutdown has begun (s.shutdown is closed); the handler
    looks at it after every command it has answered *)
Definition sstep (shut : bool) (m : smode) (e : event) : smode * nat :=
  match m with
  | SCmd =>
      match e with
      | Data l _ => if (max_token <=? N.of_nat (length l))%N then (SDone, 0)   (* bufio.ErrTooLong ends scanner.Scan *)
                    else if (length (split_tab l) <? 2) then (SCmd, 0)          (* "Invalid SASL request format": continue *)
                    else (if shut then SDone else SCmd, s_reply_count l)
      | _ => (SDone, 0)
      end
  | SDone => (SDone, 0)
  end.

Definition sdeadline (m : smode) : option N :=
  match m with SCmd => Some 30000%N | SDone => None end.

(* ------------------------------------------------------------------ *)
(** * running a handler over a list of read outcomes *)

Fixpoint irun (s : istate) (es : list event) : istate * list (list reply) :=
  match es with
  | [] => (s, [])
  | e :: es' => let '(s1, r) := istep s e in let '(s2, rs) := irun s1 es' in (s2, r :: rs)
  end.

Fixpoint lrun (cf : lconf) (s : lstate) (es : list event) : lstate * list (list lreply) :=
  match es with
  | [] => (s, [])
  | e :: es' => let '(s1, r) := lstep cf s e in let '(s2, rs) := lrun cf s1 es' in (s2, r :: rs)
  end.

Fixpoint srun (shut : bool) (m : smode) (es : list event) : smode * list nat :=
  match es with
  | [] => (m, [])
  | e :: es' => let '(m1, r) := sstep shut m e in let '(m2, rs) := srun shut m1 es' in (m2, r :: rs)
  end.
