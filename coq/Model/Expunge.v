(** Model of the commands that renumber the selected mailbox (C09):

    - [handle_expunge]      internal/server/message/message.go HandleExpunge
    - [handle_uid_expunge]  internal/server/uid/uid.go handleUIDExpunge
    - [handle_close]        internal/server/selection/selection.go HandleClose
    - [noop_notices]        internal/server/extension/extension.go HandleNoop
                            (same loop in HandleIdle)
    - [store_junk_loop], [handle_store_junk]
                            HandleStore: the Junk/NonJunk auto-move inside the
                            per-sequence-number loop
    - counts / listings: [exists_count] (SELECT's EXISTS, STATUS MESSAGES:
      COUNT( * )), [search_all] (ROW_NUMBER() OVER (ORDER BY uid)),
      [uid_fetch_rows] (HandleFetchForUIDs: seq_num = COUNT(uid' <= uid))
    - histories: [h_step] (APPEND/delivery, COPY-in, flag change, EXPUNGE)

    The mailbox is the list of its message_mailbox rows ORDER BY uid ASC.
    No proofs in this file. *)
From Coq Require Import String Ascii List Bool ZArith.
From Raven Require Import Base.GoStr Base.GoStrZ Model.SeqSet.
Import ListNotations.
Local Open Scope Z_scope.

Record msg := { m_id : Z; m_uid : Z; m_flags : str }.

(** SQL: instr(' ' || lower(flags) || ' ', ' \deleted ') > 0  — whole word
    between single blanks, ASCII case folded (commit d007c6d; 378938d had the
    case-sensitive form, before that LIKE '%\Deleted%') *)
Definition sp : ascii := " "%char.
Definition sql_deleted (flags : str) : bool :=
  contains ([sp] ++ to_lower flags ++ [sp]) (S_ " \deleted ").

(** sequenceMap[id] = seqNum over all rows (ids are the INTEGER PRIMARY KEY) *)
Fixpoint number_from (k : Z) (l : list msg) : list (Z * Z) :=
  match l with
  | [] => []
  | m :: l' => (m_id m, k) :: number_from (k + 1) l'
  end.

Fixpoint assoc (k : Z) (m : list (Z * Z)) : Z :=
  match m with
  | [] => 0
  | (k', v) :: m' => if k =? k' then v else assoc k m'
  end.

(** for _, msg := range messagesToDelete { adjusted := sequenceMap[msg.id] - deletedCount; ... deletedCount++ } *)
Fixpoint expunge_loop (seqmap : list (Z * Z)) (todel : list msg) (deleted : Z) : list Z :=
  match todel with
  | [] => []
  | m :: r => (assoc (m_id m) seqmap - deleted) :: expunge_loop seqmap r (deleted + 1)
  end.

(** DELETE FROM message_mailbox WHERE id = ? for each collected id *)
Definition remove_ids (ids : list Z) (l : list msg) : list msg :=
  filter (fun m => negb (existsb (Z.eqb (m_id m)) ids)) l.

(** common body: rows selected by [sel] (in uid order) are removed; returns
    the untagged EXPUNGE numbers in the order sent and the new mailbox *)
Definition expunge_sel (sel : msg -> bool) (mbox : list msg) : list Z * list msg :=
  let todel := filter sel mbox in
  match todel with
  | [] => ([], mbox)
  | _ => (expunge_loop (number_from 1 mbox) todel 0, remove_ids (map m_id todel) mbox)
  end.

Definition handle_expunge (mbox : list msg) : list Z * list msg :=
  expunge_sel (fun m => sql_deleted (m_flags m)) mbox.

Definition uid_expunge_sel (uids : list Z) (m : msg) : bool :=
  existsb (Z.eqb (m_uid m)) uids && sql_deleted (m_flags m).   (* uid IN (...) AND flags LIKE ... *)

Definition handle_uid_expunge (set : str) (mbox : list msg) : list Z * list msg :=
  match parse_uidset_db set (map m_uid mbox) with
  | [] => ([], mbox)
  | uids => expunge_sel (uid_expunge_sel uids) mbox
  end.

(** CLOSE: same deletion, no untagged responses *)
Definition handle_close (mbox : list msg) : list msg :=
  remove_ids (map m_id (filter (fun m => sql_deleted (m_flags m)) mbox)) mbox.

(** NOOP / IDLE: for i := last; i > current; i-- { "* i EXPUNGE" } *)
Fixpoint count_down (hi : Z) (cnt : nat) : list Z :=
  match cnt with O => [] | S c => hi :: count_down (hi - 1) c end.
Definition noop_notices (last current : Z) : list Z :=
  if current <? last then count_down last (Z.to_nat (last - current)) else [].

(** UID FETCH / STORE: seq_num = COUNT( * ) WHERE uid' <= uid *)
Definition rank_of (uids : list Z) (u : Z) : Z :=
  Z.of_nat (length (filter (fun v => v <=? u) uids)).

(** HandleStore with a flag that triggers the auto-move (Junk added in a
    mailbox other than Spam).  Since d84f911 the sequence numbers are resolved
    to UIDs against a snapshot [uids0] taken before the loop; per number:
    [seq > len(mailboxUIDs)] => continue; the row is looked up by UID in the
    CURRENT table together with its current rank; not found => continue;
    otherwise it is moved away and "* rank EXPUNGE" is sent.
    Returns the notices, the ids moved, and the new mailbox. *)
Fixpoint store_junk_loop (uids0 : list Z) (seqs : list Z) (mbox : list msg) : list Z * list Z * list msg :=
  match seqs with
  | [] => ([], [], mbox)
  | s :: r =>
    if s >? Z.of_nat (length uids0) then store_junk_loop uids0 r mbox
    else
      let uid := nth (Z.to_nat (s - 1)) uids0 0 in
      match find (fun m => m_uid m =? uid) mbox with
      | Some m =>
        let '(ns, ids, mb) := store_junk_loop uids0 r (remove_ids [m_id m] mbox) in
        (rank_of (map m_uid mbox) uid :: ns, m_id m :: ids, mb)
      | None => store_junk_loop uids0 r mbox
      end
  end.

Definition handle_store_junk (set : str) (mbox : list msg) : list Z * list Z * list msg :=
  store_junk_loop (map m_uid mbox) (parse_seqset_db set (Z.of_nat (length mbox))) mbox.

(** uid.handleUIDStore with the auto-move: the UIDs of ParseUIDSequenceSetWithDB in
    the parser's order (comma lists keep the client's order); per UID the row is
    looked up in the CURRENT table with its current rank (COUNT subquery); not
    found => continue; otherwise moved away and "* rank EXPUNGE" *)
Definition handle_uidstore_junk (set : str) (mbox : list msg) : list Z * list Z * list msg :=
  let targets := parse_uidset_db set (map m_uid mbox) in
  store_junk_loop targets (zrange 1 (Z.of_nat (length targets))) mbox.

(** ---- counts and listings ---- *)
Definition exists_count (mbox : list msg) : Z := Z.of_nat (length mbox).
Definition search_all (mbox : list msg) : list Z := map fst (label_from 1 (map m_uid mbox)).
(** UID FETCH: per uid, seq_num = rank_of *)
Definition uid_fetch_rows (set : str) (uids : list Z) : list (Z * Z) :=
  flat_map (fun u => if existsb (Z.eqb u) uids then [(rank_of uids u, u)] else [])
           (parse_uidset_db set uids).

(** ---- histories ---- *)
Record mailbox := { rows : list msg; uid_next : Z; next_id : Z }.

Inductive hop :=
| HAppend (flags : str)          (* APPEND / delivery: uid := uid_next; uid_next++ *)
| HCopyIn (flags : str)          (* COPY into this mailbox: uid := uid_next; uid_next++ (since 02d2f67) *)
| HSetFlags (i : nat) (flags : str)
| HExpunge
| HUidExpunge (set : str)
| HClose.

Definition set_flags_nth (i : nat) (f : str) (l : list msg) : list msg :=
  map (fun '(k, m) => if Nat.eqb k i then {| m_id := m_id m; m_uid := m_uid m; m_flags := f |} else m)
      (combine (seq 0 (length l)) l).

(** INSERT INTO message_mailbox under UNIQUE(mailbox_id, uid), seen through
    ORDER BY uid: the row lands at its uid position; an existing uid makes the
    INSERT fail (no row added). *)
Fixpoint insert_row (m : msg) (l : list msg) : list msg :=
  match l with
  | [] => [m]
  | x :: l' =>
    if m_uid m <? m_uid x then m :: l
    else if m_uid m =? m_uid x then l
    else x :: insert_row m l'
  end.

Definition h_step (mb : mailbox) (o : hop) : mailbox :=
  match o with
  | HAppend f =>
    (* uid := IncrementUIDNext (read, +1, write back); INSERT *)
    {| rows := insert_row {| m_id := next_id mb; m_uid := uid_next mb; m_flags := f |} (rows mb);
       uid_next := uid_next mb + 1; next_id := next_id mb + 1 |}
  | HCopyIn f =>
    {| rows := insert_row {| m_id := next_id mb; m_uid := uid_next mb; m_flags := f |} (rows mb);
       uid_next := uid_next mb + 1; next_id := next_id mb + 1 |}
  | HSetFlags i f => {| rows := set_flags_nth i f (rows mb); uid_next := uid_next mb; next_id := next_id mb |}
  | HExpunge => {| rows := snd (handle_expunge (rows mb)); uid_next := uid_next mb; next_id := next_id mb |}
  | HUidExpunge s => {| rows := snd (handle_uid_expunge s (rows mb)); uid_next := uid_next mb; next_id := next_id mb |}
  | HClose => {| rows := handle_close (rows mb); uid_next := uid_next mb; next_id := next_id mb |}
  end.

Definition empty_mailbox : mailbox := {| rows := []; uid_next := 1; next_id := 1 |}.
Definition run_history (h : list hop) : mailbox := fold_left h_step h empty_mailbox.
