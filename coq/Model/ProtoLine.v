(** server.handleClient: what one received line turns into. Mirrors
    connection.go: line = strings.TrimSpace(line); empty -> ignored;
    parts = strings.Fields(line); fewer than two fields -> UNTAGGED
    "* BAD Invalid command format"; otherwise the switch on
    strings.ToUpper(parts[1]). *)
From Coq Require Import String Ascii List.
From Raven Require Import Base.GoStr Model.ProtoFacts Model.Protocol.
Import ListNotations.

Definition string_of_str (s : str) : string := string_of_list_ascii s.

Inductive line_class :=
| LIgnored                       (* empty after TrimSpace: nothing is sent *)
| LUntaggedBad                   (* one field only: "* BAD Invalid command format" *)
| LDispatch (tag : str) (word : string).

Definition classify_line (line : str) : line_class :=
  match fields (trim_space line) with
  | [] => LIgnored
  | [_] => LUntaggedBad
  | tag :: c :: _ => LDispatch tag (string_of_str (to_upper c))
  end.

(** (min, max) number of tagged completions the line receives *)
Definition tagged_for_line (t : facts) (line : str) : nat * nat :=
  match classify_line line with
  | LDispatch _ w => replies_of t w
  | _ => (0, 0)
  end.
