(** server.handleClient: what one received line turns into. Mirrors
    connection.go: line = strings.TrimSpace(line); empty -> ignored;
    parts = strings.Fields(line); fewer than two fields -> "<parts[0]> BAD
    Invalid command format" (fact f_short_tagged); otherwise the switch on
    strings.ToUpper(parts[1]). *)
From Coq Require Import String Ascii List.
From Raven Require Import Base.GoStr Model.ProtoFacts Model.Protocol.
Import ListNotations.

Definition string_of_str (s : str) : string := string_of_list_ascii s.

Inductive line_class :=
| LIgnored                       (* empty after TrimSpace: nothing is sent *)
| LShort (tag : str)             (* one field only: "<tag> BAD Invalid command format" (untagged "* BAD" before the fix) *)
| LDispatch (tag : str) (word : string).

Definition classify_line (line : str) : line_class :=
  match fields (trim_space line) with
  | [] => LIgnored
  | [tag] => LShort tag
  | tag :: c :: _ => LDispatch tag (string_of_str (to_upper c))
  end.

(** (min, max) number of tagged completions the line receives *)
Definition tagged_for_line (t : facts) (line : str) : nat * nat :=
  match classify_line line with
  | LDispatch _ w => replies_of t w
  | LShort _ => if f_short_tagged t then (1, 1) else (0, 0)
  | LIgnored => (0, 0)
  end.
