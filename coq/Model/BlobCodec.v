(** Model of internal/db/sqlite.go : decodeContentForHashing, and of the two
    Go standard-library decoders it calls, as far as their RESULT is concerned:

      encoding/base64   StdEncoding.DecodeString      (decodeQuantum)
      mime/quotedprintable  io.ReadAll(NewReader(..)) (Reader.Read)

    [None] = the Go function returned a non-nil error (the caller then hashes
    the undecoded text).  No proofs here. *)
From Coq Require Import String Ascii List Bool Arith NArith.
From Raven Require Import Base.GoStr.
Import ListNotations.
Local Open Scope N_scope.

(* ------------------------------------------------------------------ base64 *)

(** enc.decodeMap for the standard alphabet; [None] = 0xff *)
Definition b64_val (c : ascii) : option N :=
  let n := byte_of c in
  if (65 <=? n) && (n <=? 90) then Some (n - 65)
  else if (97 <=? n) && (n <=? 122) then Some (n - 71)
  else if (48 <=? n) && (n <=? 57) then Some (n + 4)
  else if n =? 43 then Some 62
  else if n =? 47 then Some 63
  else None.

Definition is_nl (c : ascii) : bool := (byte_of c =? 10) || (byte_of c =? 13).
Definition is_pad (c : ascii) : bool := byte_of c =? 61.

Definition byte_n (n : N) : ascii := ascii_of_N (N.land n 255).

(** the 1, 2 or 3 octets of a quantum of [k] sextets (k = 2,3,4); without
    Strict() the unused low bits are not checked *)
Definition quantum_bytes (q : list N) : str :=
  match q with
  | [a; b] => let v := N.lor (N.shiftl a 18) (N.shiftl b 12) in [byte_n (N.shiftr v 16)]
  | [a; b; c] =>
      let v := N.lor (N.lor (N.shiftl a 18) (N.shiftl b 12)) (N.shiftl c 6) in
      [byte_n (N.shiftr v 16); byte_n (N.shiftr v 8)]
  | [a; b; c; d] =>
      let v := N.lor (N.lor (N.lor (N.shiftl a 18) (N.shiftl b 12)) (N.shiftl c 6)) d in
      [byte_n (N.shiftr v 16); byte_n (N.shiftr v 8); byte_n v]
  | _ => []
  end.

(** [q] = sextets of the current quantum (fewer than 4), [acc] = output so
    far, reversed.  CR and LF are skipped everywhere; '=' is accepted only at
    positions 2 ("==") and 3 ("=") of a quantum and must be followed by
    nothing but CR/LF; input ending inside a quantum is an error (padding is
    mandatory for StdEncoding). *)
Fixpoint b64_go (s : str) (q : list N) (acc : str) : option str :=
  match s with
  | [] => match q with [] => Some (rev acc) | _ => None end
  | c :: r =>
      match b64_val c with
      | Some v =>
          match q with
          | [a; b; c3] => b64_go r [] (rev (quantum_bytes [a; b; c3; v]) ++ acc)
          | _ => b64_go r (q ++ [v]) acc
          end
      | None =>
          if is_nl c then b64_go r q acc
          else if is_pad c then
            match q with
            | [a; b] =>
                match drop_while is_nl r with
                | p :: r2 =>
                    if is_pad p then
                      match drop_while is_nl r2 with
                      | [] => Some (rev (rev (quantum_bytes [a; b]) ++ acc))
                      | _ => None
                      end
                    else None
                | [] => None
                end
            | [a; b; c3] =>
                match drop_while is_nl r with
                | [] => Some (rev (rev (quantum_bytes [a; b; c3]) ++ acc))
                | _ => None
                end
            | _ => None
            end
          else None
      end
  end.

Definition b64_decode (s : str) : option str := b64_go s [] [].

(* -------------------------------------------------------- quoted-printable *)

(** bufio.Reader.ReadSlice('\n') over the whole input: the lines, each with
    its terminating LF; the last one has none when the input does not end in LF *)
Fixpoint qp_lines_aux (s : str) (cur : str) : list str :=
  match s with
  | [] => match cur with [] => [] | _ => [rev cur] end
  | c :: r => if byte_of c =? 10 then rev (c :: cur) :: qp_lines_aux r []
              else qp_lines_aux r (c :: cur)
  end.
Definition qp_lines (s : str) : list str := qp_lines_aux s [].

Definition from_hex (c : ascii) : option N :=
  let n := byte_of c in
  if (48 <=? n) && (n <=? 57) then Some (n - 48)
  else if (65 <=? n) && (n <=? 70) then Some (n - 55)
  else if (97 <=? n) && (n <=? 102) then Some (n - 87)
  else None.

Definition is_eq (c : ascii) : bool := byte_of c =? 61.

(** the byte loop of Reader.Read over one prepared line *)
Fixpoint qp_bytes (l : str) : option str :=
  match l with
  | [] => Some []
  | b :: r =>
      if is_eq b then
        match r with
        | h :: lo :: r2 =>
            match from_hex h, from_hex lo with
            | Some x, Some y => option_map (cons (ascii_of_N (x * 16 + y))) (qp_bytes r2)
            | _, _ => if is_nl h then None else option_map (cons b) (qp_bytes r)
            end
        | [h] => if is_nl h then None else option_map (cons b) (qp_bytes r)
        | [] => None
        end
      else
        let n := byte_of b in
        if (n =? 9) || (n =? 13) || (n =? 10) || (128 <=? n) then option_map (cons b) (qp_bytes r)
        else if (n <? 32) || (126 <? n) then None
        else option_map (cons b) (qp_bytes r)
  end.

Definition qp_ws (c : ascii) : bool :=
  let n := byte_of c in (n =? 10) || (n =? 13) || (n =? 32) || (n =? 9).
Definition lwsp (c : ascii) : bool := (byte_of c =? 32) || (byte_of c =? 9).

(** one line as returned by ReadSlice; [None] = r.rerr becomes / Read returns
    an error.  bufio's default buffer is 4096 bytes: a line that does not fit
    is ErrBufferFull. *)
Definition qp_line (wl : str) : option str :=
  let has_lf := has_suffix wl [LF] in
  let has_cr := has_suffix wl crlf in
  let n := N.of_nat (length wl) in
  if (if has_lf then 4096 <? n else 4096 <=? n) then None else
  let line := trim_right_f qp_ws wl in
  if has_suffix line (S_ "=") then
    let right := trim_left_f lwsp (skipn (length line) wl) in
    let line' := removelast line in
    if has_prefix right [LF] || has_prefix right crlf
       || (match right, line' with [], _ :: _ => negb has_lf | _, _ => false end)
    then qp_bytes line'
    else None
  else qp_bytes (line ++ (if has_lf then (if has_cr then crlf else [LF]) else [])).

Fixpoint qp_concat (ls : list str) : option str :=
  match ls with
  | [] => Some []
  | l :: r => match qp_line l, qp_concat r with
              | Some a, Some b => Some (a ++ b)
              | _, _ => None
              end
  end.

Definition qp_decode (s : str) : option str := qp_concat (qp_lines s).

(* ------------------------------------------------- decodeContentForHashing *)

Definition decode_for_hashing (content enc : str) : option str :=
  let e := to_lower (trim_space enc) in
  if str_eqb e (S_ "base64") then b64_decode content
  else if str_eqb e (S_ "quoted-printable") then qp_decode content
  else Some content.

(** the octets StoreBlob*WithEncoding hashes: the decoded content, or the
    text as it is when decoding failed *)
Definition hashed_octets (enc content : str) : str :=
  match decode_for_hashing content enc with Some d => d | None => content end.
