(** C15: the IMAP side's removal operations next to the blob store.

    Go sources: internal/server/message/message.go HandleExpunge, HandleClose
    (selection.go), uid.go handleUIDExpunge, COPY, mailbox DELETE.  All of
    them only insert / delete rows of message_mailbox (which message is filed
    in which mailbox); none touches message_parts, the blobs table or the
    bucket, and db.DecrementBlobReference has no caller on these paths: the
    tree never gives a blob reference back when a message is expunged
    (reference counts only grow; storage is never reclaimed).

    [m_links] = the messages (by index into w_msgs) currently filed, with
    multiplicity.  No proofs here. *)
From Coq Require Import String Ascii List Bool Arith.
From Raven Require Import Base.GoStr Model.Blobs.
Import ListNotations.

Inductive mevent :=
| MStore (e : event)      (* a store / objects vanishing, as in Model/Blobs.v *)
| MCopy (m : nat)         (* COPY: message m is filed once more *)
| MRemove (m : nat).      (* EXPUNGE / CLOSE / UID EXPUNGE / DELETE mailbox: one entry of message m goes *)

Record mstate := mkM { m_world : world; m_links : list nat }.

Fixpoint remove_one (m : nat) (l : list nat) : list nat :=
  match l with
  | [] => []
  | x :: r => if Nat.eqb x m then r else x :: remove_one m r
  end.

Section Keyed.
Variable key : str -> str -> str.
Variable okey : str -> str.

Definition mstep (s : mstate) (e : mevent) : mstate :=
  match e with
  | MStore (EStore s3on o d ps) =>
      mkM (step key okey (m_world s) (EStore s3on o d ps)) (m_links s ++ [length (w_msgs (m_world s))])
  | MStore e => mkM (step key okey (m_world s) e) (m_links s)
  | MCopy m => mkM (m_world s) (m_links s ++ [m])
  | MRemove m => mkM (m_world s) (remove_one m (m_links s))
  end.

Definition mrun (evs : list mevent) : mstate := fold_left mstep evs (mkM w0 []).

Fixpoint stores_of (evs : list mevent) : list event :=
  match evs with
  | [] => []
  | MStore e :: r => e :: stores_of r
  | _ :: r => stores_of r
  end.

End Keyed.
