(** C08 — concurrent sessions over one per-user store: operations as threads
    of ATOMIC MICRO-STEPS with thread-local registers.

    One micro-step = one autocommit SQL statement (or one committed
    transaction) of the Go code, in the order of

      internal/delivery/storage/storage.go  Storage.DeliverMessage
          db.GetMailboxByNamePerUser           (SELECT)            [SLookup]
          db.CreateMailboxPerUser              (INSERT, UNIQUE)    [SCreate]
          parser.StoreMessagePerUser...        (one transaction)   [SStore]
          (CREATE refused: db.GetMailboxByNamePerUser again)    [SRelookup]
          db.AddMessageToMailboxPerUser =
            db.IncrementUIDNextPerUser:
              UPDATE mailboxes SET uid_next = uid_next + 1
                WHERE id = ? RETURNING uid_next - 1   (ONE statement) [SAlloc]
            INSERT INTO message_mailbox (.., uid, ..)  UNIQUE(mailbox_id,uid)
                                                                   [SInsert]
      internal/server/message/message.go    HandleAppendWithReader / HandleAppend
          the same sequence without the create step (a missing folder is
          answered NO [TRYCREATE])

    State of the code modelled: raven with fixes/c08-atomic-uidnext.patch (the
    UID is handed out and uid_next advanced by one statement; before that a
    SELECT and an UPDATE, the check-then-act window of F4) and
    fixes/c08-deliver-folder-race.patch (a refused CREATE of the target folder
    is followed by a second lookup).  The UID handed out by [SAlloc] lives in
    a REGISTER of the thread (Go local [uid]) and is used one step later.  Every other operation of Model/Ops.v that the property quantifies
    over (UID COPY, UID STORE incl. the Junk move, EXPUNGE, CREATE) is one
    micro-step here ([PAtomic]): their inner statements run inside one SQL
    transaction or touch rows no delivery reads in its window; their own
    check-then-act races are NOT modelled (see NOTES/C08.md).

    The reply of a thread: [SOk] = 250 / tagged OK, [SFail] = 550 5.3.0 (LMTP
    answers EVERY delivery error with a permanent 550, session.go handleDATA)
    / tagged NO.

    Two DBManagers (two processes) on one directory share the SQLite file:
    both act on the same [store]; a manager contributes the handle cache and
    its cacheMutex, which SERIALISES the first opens inside one manager — a
    restriction of the schedules considered here, never an extension: the
    theorems hold for all schedules, hence also without that mutex (two
    managers, or a manager that opens stores outside its lock).

    No proofs in this file. *)
From Coq Require Import String Ascii List Bool ZArith.
From Raven Require Import Base.GoStr Model.Store Model.Ops.
Import ListNotations.
Local Open Scope Z_scope.

(** operations run as ONE micro-step *)
Inductive aop :=
| ACreate (name : str) (t : Z)
| AUidCopy (sel : Z) (set : list uspec) (dest : str)
| AUidStore (sel : Z) (set : list uspec) (mode : smode) (flags : list str)
| AExpunge (sel : Z).

Definition aop_op (a : aop) : op :=
  match a with
  | ACreate n t => OCreate n t
  | AUidCopy sel set d => OUidCopy sel set d
  | AUidStore sel set m fl => OUidStore sel set m fl
  | AExpunge sel => OExpunge sel
  end.

Inductive prog :=
| PDeliver (folder : str) (t : Z)
| PAppend (folder : str) (flags : list str)
| PAtomic (a : aop)
(** FIRST CONTACT of a DBManager with the store (DBManager.GetUserDB on a handle
    that is not cached yet; [tinit] = the clock of createDefaultMailboxes):
    a delivery that has to open the store first, and an IMAP LOGIN *)
| PFirstDeliver (folder : str) (t tinit : Z)
| PLogin (tinit : Z).

(** program counter + registers *)
Inductive tstate :=
| SCount                          (* SELECT COUNT( * ) FROM mailboxes, outside any transaction *)
| SInitTx                         (* BEGIN IMMEDIATE; count again; five INSERTs; COMMIT *)
| SLookup
| SCreate
| SRelookup
| SStore (mb : Z)
| SAlloc (mb msg : Z)
| SInsert (mb msg uid : Z)
| SOk (mb msg uid : Z)            (* replied 250 / OK *)
| SFail (msg : option Z)          (* replied 550 / NO; [msg] = the orphan messages row, if any *)
| SAtomic                         (* [PAtomic] not yet run *)
| SRan (r : result).              (* [PAtomic] done, tagged reply class *)

Record thread := mkThread { t_prog : prog; t_st : tstate }.

Definition start (p : prog) : thread :=
  mkThread p (match p with
              | PAtomic _ => SAtomic
              | PFirstDeliver _ _ _ | PLogin _ => SCount
              | _ => SLookup
              end).

(** db.createDefaultMailboxes on an empty mailboxes table: five rows, each
    stamped by the UIDVALIDITY allocator (clock [t], but above everything the
    store handed out before: t, t+1, ...) — the steps of five
    CreateMailboxPerUser calls, inside one transaction *)
Definition add_defaults (s : store) (t : Z) : store :=
  create_or_same (create_or_same (create_or_same (create_or_same (create_or_same s
    INBOX t) (S_ "Sent") t) (S_ "Drafts") t) (S_ "Trash") t) SPAM t.

(** where a first-contact thread goes once the store is open *)
Definition after_init (p : prog) : tstate :=
  match p with PLogin _ => SRan ROk | _ => SLookup end.

Definition prog_flags (p : prog) : list str :=
  match p with PAppend _ fl => fl | _ => [] end.

(** one micro-step of a thread on the shared store *)
Definition thread_step (s : store) (th : thread) : store * thread :=
  let p := t_prog th in
  match p, t_st th with
  (* store initialisation (the schema statements are idempotent and not modelled;
     state of the code: with fixes/c08-init-defaults-lock.patch, the count is
     repeated under the write lock) *)
  | (PFirstDeliver _ _ _ | PLogin _), SCount =>
      match mboxes s with
      | [] => (s, mkThread p SInitTx)
      | _ :: _ => (s, mkThread p (after_init p))
      end
  | (PFirstDeliver _ _ ti | PLogin ti), SInitTx =>
      match mboxes s with
      | [] => (add_defaults s ti, mkThread p (after_init p))
      | _ :: _ => (s, mkThread p (after_init p))
      end
  | PLogin _, _ => (s, th)
  | (PDeliver f t | PFirstDeliver f t _), SLookup =>
      match find_name s f with
      | Some m => (s, mkThread p (SStore (mb_id m)))
      | None => (s, mkThread p SCreate)
      end
  | PAppend f _, SLookup =>
      match find_name s f with
      | Some m => (s, mkThread p (SStore (mb_id m)))
      | None => (s, mkThread p (SFail None))                 (* NO [TRYCREATE] *)
      end
  | (PDeliver f t | PFirstDeliver f t _), SCreate =>
      match create_mailbox_row s f t with
      | Some (s', id) => (s', mkThread p (SStore id))
      | None => (s, mkThread p SRelookup)                    (* created by somebody else? *)
      end
  | (PDeliver f t | PFirstDeliver f t _), SRelookup =>
      match find_name s f with
      | Some m => (s, mkThread p (SStore (mb_id m)))
      | None => (s, mkThread p (SFail None))                 (* "failed to create mailbox" *)
      end
  | PAtomic a, SAtomic =>
      let '(s', r) := step s (aop_op a) in (s', mkThread p (SRan r))
  | PAtomic _, _ => (s, th)
  | _, SStore mb =>
      let '(s1, msg) := store_message s in (s1, mkThread p (SAlloc mb msg))
  | _, SAlloc mb msg =>
      match find_id s mb with
      | Some m => (bump s mb, mkThread p (SInsert mb msg (mb_next m)))
      | None => (s, mkThread p (SFail (Some msg)))            (* sql.ErrNoRows *)
      end
  | _, SInsert mb msg u =>
      match insert_link s msg mb u (prog_flags p) with
      | Some s' => (s', mkThread p (SOk mb msg u))
      | None => (s, mkThread p (SFail (Some msg)))            (* UNIQUE constraint failed *)
      end
  | _, _ => (s, th)
  end.

Record config := mkCfg { c_store : store; c_threads : list thread }.

Fixpoint replace {A} (i : nat) (x : A) (l : list A) : list A :=
  match l, i with
  | [], _ => []
  | _ :: r, O => x :: r
  | y :: r, S i' => y :: replace i' x r
  end.

Definition tid := nat.

(** the scheduler picks thread [i]; a finished or non-existent thread is a no-op *)
Definition sched_step (c : config) (i : tid) : config :=
  match nth_error (c_threads c) i with
  | None => c
  | Some th =>
      let '(s', th') := thread_step (c_store c) th in
      mkCfg s' (replace i th' (c_threads c))
  end.

Definition run_sched (sch : list tid) (c : config) : config := fold_left sched_step sch c.

Definition init_cfg (s : store) (ps : list prog) : config := mkCfg s (map start ps).

(** ---- observations ------------------------------------------------------------ *)

Definition finished (th : thread) : bool :=
  match t_st th with SOk _ _ _ | SFail _ | SRan _ => true | _ => false end.
Definition is_okst (th : thread) : bool :=
  match t_st th with SOk _ _ _ => true | _ => false end.
Definition is_failst (th : thread) : bool :=
  match t_st th with SFail _ => true | _ => false end.

(** the message row a thread owns (allocated by its [SStore] step) *)
Definition owns (th : thread) : option Z :=
  match t_st th with
  | SAlloc _ m | SInsert _ m _ | SOk _ m _ => Some m
  | SFail o => o
  | _ => None
  end.

(** a thread run on its own until it has replied (7 steps suffice) *)
Definition solo (s : store) (p : prog) : store * thread :=
  let c := run_sched [0; 0; 0; 0; 0; 0; 0]%nat (init_cfg s [p]) in
  (c_store c, nth 0 (c_threads c) (start p)).

(** the serial schedule: each thread in turn, to completion *)
Definition serial (n : nat) : list tid := flat_map (fun i => repeat i 7) (seq 0 n).

(** thread sets *)
Definition micro (p : prog) : bool := match p with PAtomic _ => false | _ => true end.
(** no operation that removes or re-files links *)
Definition keeps (p : prog) : bool :=
  match p with PAtomic (AUidStore _ _ _ _) | PAtomic (AExpunge _) => false | _ => true end.
(** deliveries, appends and mailbox creation only *)
Definition simple (p : prog) : bool :=
  match p with PAtomic (ACreate _ _) => true | PAtomic _ => false | _ => true end.

(** ---- executable audit of a final configuration (used by the correspondence) ---- *)

Definition count_msg (s : store) (m : Z) : nat := length (filter (fun l => lk_msg l =? m) (links s)).
Definition count_key (s : store) (mb u : Z) : nat := length (filter (at_uid mb u) (links s)).

Definition thread_audit (s : store) (th : thread) : bool :=
  match t_st th with
  | SOk mb m u => Nat.eqb (count_key s mb u) 1 &&
                  existsb (fun l => at_uid mb u l && (lk_msg l =? m)) (links s)
  | SFail (Some m) => Nat.eqb (count_msg s m) 0
  | _ => true
  end.

Fixpoint nodup_keys (ls : list link) : bool :=
  match ls with
  | [] => true
  | l :: r => negb (existsb (at_uid (lk_mbox l) (lk_uid l)) r) && nodup_keys r
  end.

Definition next_above_b (s : store) : bool :=
  forallb (fun l => forallb (fun m => negb (mb_id m =? lk_mbox l) || (lk_uid l <? mb_next m)) (mboxes s)) (links s).

(** view of a final configuration compared with the implementation: reply
    class per thread (1 ok / 0 failed / 2 not finished), then per mailbox NAME
    the uid_next and the sorted uids with the index of the thread that owns
    the link's message (-1: none) *)
Definition reply_code (th : thread) : Z :=
  match t_st th with
  | SOk _ _ _ => 1
  | SFail _ => 0
  | SRan ROk => 1
  | SRan (RAppendUid _ _) => 1
  | SRan _ => 0
  | _ => 2
  end.

Fixpoint owner_of (m : Z) (i : Z) (ths : list thread) : Z :=
  match ths with
  | [] => -1
  | th :: r => match owns th with
               | Some m' => if m' =? m then i else owner_of m (i + 1) r
               | None => owner_of m (i + 1) r
               end
  end.

Definition mbox_view (c : config) (name : str) : Z * list (Z * Z) :=
  match find_name (c_store c) name with
  | None => (0, [])
  | Some m => (mb_next m,
               map (fun l => (lk_uid l, owner_of (lk_msg l) 0 (c_threads c)))
                   (links_sorted (c_store c) (mb_id m)))
  end.

(** ---- grants: the granularity at which the correspondence suite can hold the
    implementation (an SQLite authorizer stops a session before the statements
    C = INSERT mailboxes, U = UPDATE uid_next ... RETURNING,
    I = INSERT message_mailbox).  One grant lets a thread run to its next gate:
    one to three micro-steps. ---------------------------------------------------------- *)

Definition at_gate (th : thread) : bool :=
  match t_st th with SLookup | SRelookup | SStore _ | SAtomic => false | _ => true end.

Definition thread_at (c : config) (i : tid) : option thread := nth_error (c_threads c) i.

(** micro-steps of one grant to thread [i] *)
Fixpoint grant_from (fuel : nat) (c : config) (i : tid) : list tid :=
  match fuel with
  | O => []
  | S f =>
    let c1 := sched_step c i in
    match thread_at c1 i with
    | Some th => if at_gate th then [i] else i :: grant_from f c1 i
    | None => [i]
    end
  end.
Definition grant_steps (c : config) (i : tid) : list tid := grant_from 4 c i.

(** where the thread stands after the grant: 1 C, 3 U, 4 I, 5 replied *)
Definition gate_code (th : thread) : Z :=
  match t_st th with
  | SCreate => 1 | SAlloc _ _ => 3 | SInsert _ _ _ => 4
  | SOk _ _ _ | SFail _ | SRan _ => 5
  | _ => 0
  end.

Fixpoint run_grants (gs : list tid) (c : config) : config * list tid * list Z :=
  match gs with
  | [] => (c, [], [])
  | i :: r =>
      let steps := grant_steps c i in
      let c1 := run_sched steps c in
      let code := match thread_at c1 i with Some th => gate_code th | None => 5 end in
      let '(c2, ms, tr) := run_grants r c1 in
      (c2, steps ++ ms, code :: tr)
  end.

Definition zlist_eqb (a b : list Z) : bool :=
  Nat.eqb (length a) (length b) && forallb (fun '(x, y) => x =? y) (combine a b).
Definition view_eqb (a b : Z * list (Z * Z)) : bool :=
  (fst a =? fst b) && zlist_eqb (map fst (snd a)) (map fst (snd b))
  && zlist_eqb (map snd (snd a)) (map snd (snd b)).

(** one correspondence case: folder pre-created?, folder, programs, grants,
    observed (reply codes, gate trace, view of the folder).
    Result: (1 iff model = observation, 0 (no finding class is left),
             the model's reply codes, the model's uid_next) *)
Definition gated_case := (bool * str * list prog * list tid * (list Z * list Z * (Z * list (Z * Z))))%type.

Definition eval_gated (k : gated_case) : Z * Z * list Z * Z :=
  let '(ex, f, ps, gs, (o_rep, o_tr, o_view)) := k in
  let s0 := if ex then fst (op_create (init 0) f 0) else init 0 in
  let '(c, ms, tr) := run_grants gs (init_cfg s0 ps) in
  let rep := map reply_code (c_threads c) in
  let v := mbox_view c f in
  ((if zlist_eqb rep o_rep && zlist_eqb tr o_tr && view_eqb v o_view then 1 else 0),
   0, rep, fst v).

(** first-contact correspondence case: initial store has NO mailbox rows
    ([empty_store]: the file may or may not exist / carry its schema), k
    sessions, a micro schedule.  Result: reply codes, number of mailbox rows,
    uid_next of INBOX, number of messages in INBOX, 1 iff their uids are
    1..n without gap or repetition. *)
Definition eval_first (k : list prog * list tid) : list Z * Z * Z * Z * Z :=
  let '(ps, sch) := k in
  let c := run_sched sch (init_cfg empty_store ps) in
  let v := mbox_view c INBOX in
  let uids := map fst (snd v) in
  (map reply_code (c_threads c), Z.of_nat (length (mboxes (c_store c))), fst v,
   Z.of_nat (length uids),
   if zlist_eqb uids (map Z.of_nat (seq 1 (length uids))) then 1 else 0).
