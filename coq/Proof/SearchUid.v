(** C19 — the command level: HandleSearch / UID SEARCH (SearchSelectedMailbox) on
    the command line as connection.go splits it (utils.SplitCommandLine). *)
From Coq Require Import String Ascii List Bool Arith NArith ZArith Lia.
From Raven Require Import Base.GoStr Base.GoStrFacts Model.Search Model.SearchText Spec.Search Model.SearchClass
  Proof.SearchTok Proof.SearchAtoms Proof.SearchEval Proof.SearchExact Proof.SearchMain Proof.SearchLine.
From Raven Require Model.CmdTokenizer.
Import ListNotations.
Local Open Scope Z_scope.
Local Arguments Ascii.eqb : simpl never.

(** the line is split by SplitCommandLine and the criteria re-joined with single
    blanks: for every well-formed program that is the printed program again *)
Lemma selected_exact (by_uid : bool) ks mb :
  wf_prog ks = true -> mb_ok mb = true -> classify ks mb = None ->
  search_selected go_text (Model.CmdTokenizer.split_command_line (print_prog ks)) by_uid (to_msgs mb)
  = ROk (map (if by_uid then m_uid else m_seq)
           (map (to_msg mb) (filter (fun '(i, m) => spec_all (Z.of_nat (length mb)) (max_uid mb) ks i m) (numbered mb)))).
Proof.
  intros W Hmb C.
  pose proof (first_field_not_charset ks mb W C) as NC.
  pose proof (rejoin_prog ks W) as FS.
  destruct (split_prog_head ks W) as (f1 & fs & F & _). rewrite F in *.
  unfold search_selected. cbn [nth] in NC. cbn [length Nat.ltb Nat.leb nth]. rewrite NC, andb_false_r. cbn [andb skipn].
  rewrite FS, fill_max_to_msgs. now rewrite (evaluate_exact ks mb W Hmb C).
Qed.

Theorem search_cmd_exact tag cmd ks mb :
  wf_prog ks = true -> mb_ok mb = true -> classify ks mb = None ->
  search_cmd (tag :: cmd :: Model.CmdTokenizer.split_command_line (print_prog ks)) (to_msgs mb) = ROk (spec_search_list ks mb).
Proof.
  intros W Hmb C. unfold search_cmd, handle_search. cbn [skipn].
  rewrite (selected_exact false ks mb W Hmb C). unfold spec_search_list. now rewrite map_seq_to_msg.
Qed.

(** UID SEARCH: the same program, the same entries, their UIDs *)
Theorem uid_search_cmd_exact tag uid cmd ks mb :
  wf_prog ks = true -> mb_ok mb = true -> classify ks mb = None ->
  uid_search_cmd (tag :: uid :: cmd :: Model.CmdTokenizer.split_command_line (print_prog ks)) (to_msgs mb) = ROk (spec_uid_search_list ks mb).
Proof.
  intros W Hmb C. unfold uid_search_cmd, handle_uid_search. cbn [skipn].
  rewrite (selected_exact true ks mb W Hmb C). unfold spec_uid_search_list. now rewrite map_uid_to_msg.
Qed.
