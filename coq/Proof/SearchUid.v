(** C19 — the command level: HandleSearch on the split command line, and the
    separate UID SEARCH implementation on the only two program shapes it
    evaluates (ALL, UID a:b). *)
From Coq Require Import String Ascii List Bool Arith NArith ZArith Lia.
From Raven Require Import Base.GoStr Base.GoStrFacts Model.Search Model.SearchText Spec.Search Model.SearchClass
  Proof.SearchTok Proof.SearchAtoms Proof.SearchEval Proof.SearchExact Proof.SearchMain.
Import ListNotations.
Local Open Scope Z_scope.
Local Arguments Ascii.eqb : simpl never.

(** SEARCH through HandleSearch: the line is split by strings.Fields and the
    criteria re-joined with single blanks *)
Theorem search_cmd_exact tag cmd ks mb :
  wf_prog ks = true -> mb_ok mb = true -> classify_line ks mb = None ->
  str_eqb (to_upper (nth 0 (fields (print_prog ks)) [])) (S_ "CHARSET") = false ->
  search_cmd (tag :: cmd :: fields (print_prog ks)) (to_msgs mb) = ROk (spec_search_list ks mb).
Proof.
  intros W Hmb C NC. unfold classify_line in C. destruct (fields_stable (print_prog ks)) eqn:FS; [|discriminate].
  unfold fields_stable in FS. apply str_eqb_eq in FS.
  pose proof (print_not_blank ks mb W C) as NB.
  destruct (fields (print_prog ks)) as [|f1 fs] eqn:F.
  - cbn [join] in FS. rewrite <- FS in NB. now contradiction NB.
  - unfold search_cmd, handle_search. cbn [nth] in NC.
    replace (Z.of_nat (length (tag :: cmd :: f1 :: fs)) <? 3) with false by (symmetry; apply Z.ltb_ge; cbn [length]; lia).
    cbn [nth]. rewrite NC, andb_false_r. cbn [andb].
    replace (length (tag :: cmd :: f1 :: fs) <=? 2)%nat with false by (symmetry; apply Nat.leb_gt; cbn [length]; lia).
    cbn [skipn]. rewrite FS. fold (search (to_msgs mb) (print_prog ks)).
    destruct (search_exact ks mb W Hmb C) as [-> _]. reflexivity.
Qed.

(** ** UID SEARCH *)
Lemma numbered_uids l : forall i, map m_uid (map to_msg (number_from i l)) = map (fun '(i, m) => s_uid m) (number_from i l).
Proof. induction l as [|x l IH]; intros i; [reflexivity|]. cbn [number_from map]. now rewrite IH. Qed.

Lemma filter_true {A} (f : A -> bool) l : (forall x, f x = true) -> filter f l = l.
Proof. intros H. induction l as [|x l IH]; [reflexivity|]. cbn [filter]. now rewrite H, IH. Qed.

Lemma uid_filter_eq va vb (P : Z * smsg -> bool) l :
  (forall i m, P (i, m) = (va <=? s_uid m) && (s_uid m <=? vb)) -> forall i,
  map m_uid (filter (fun m => (va <=? m_uid m) && (m_uid m <=? vb)) (map to_msg (number_from i l)))
  = map (fun '(i, m) => s_uid m) (filter P (number_from i l)).
Proof.
  intros H. induction l as [|x l IH]; intros i; [reflexivity|].
  cbn [number_from map filter to_msg m_uid]. rewrite (H i x).
  destruct ((va <=? s_uid x) && (s_uid x <=? vb)); cbn [map]; now rewrite IH.
Qed.

Theorem uid_search_exact tag ks mb : wf_prog ks = true -> classify_uid ks = None ->
  handle_uid_search (tag :: S_ "UID" :: S_ "SEARCH" :: prog_tokens ks) (to_msgs mb) = ROk (spec_uid_search_list ks mb)
  /\ spec_uid_search ks mb = SOk (spec_uid_search_list ks mb).
Proof.
  intros W C. unfold classify_uid in C.
  destruct ks as [|k [|? ?]]; try discriminate. destruct k; try discriminate.
  - (* ALL *) split; [|reflexivity]. unfold spec_uid_search_list, to_msgs, numbered.
    rewrite filter_true by (intros [? ?]; reflexivity). cbv [handle_uid_search prog_tokens flat_map key_tokens app length].
    change (ROk (map m_uid (map to_msg (number_from 1 mb))) = ROk (map (fun '(_, m) => s_uid m) (number_from 1 mb))).
    now rewrite numbered_uids.
  - (* UID a:b *) destruct s as [|[[d|]|[a|] [b|]] [|? ?]]; try discriminate.
    destruct (digits_val a 0 <=? digits_val b 0) eqn:Le; [|discriminate]. apply Z.leb_le in Le.
    unfold wf_prog in W. cbn in W. rewrite !andb_true_r in W. apply andb_true_iff in W as [Wa Wb].
    destruct (numeral_digits a Wa) as [Hda Hnea]. destruct (numeral_digits b Wb) as [Hdb Hneb].
    split; [|reflexivity].
    unfold handle_uid_search, prog_tokens. cbn [flat_map key_tokens app print_set map join print_item print_snum length skipn].
    set (r := a ++ colon :: b).
    assert (Hr : forallb (fun c => negb (is_space c)) r = true).
    { unfold r. rewrite forallb_app. apply andb_true_iff. split.
      - revert Hda. apply forallb_impl. intros c Hc. destruct (digit_facts c Hc) as (_ & _ & _ & _ & _ & _ & -> & _). reflexivity.
      - cbn [forallb]. apply andb_true_iff. split; [reflexivity|].
        revert Hdb. apply forallb_impl. intros c Hc. destruct (digit_facts c Hc) as (_ & _ & _ & _ & _ & _ & -> & _). reflexivity. }
    assert (Hrne : r <> []) by (unfold r; destruct a; discriminate).
    assert (F : fields (S_ "UID" ++ sp :: r) = [S_ "UID"; r]).
    { unfold fields. cbn [S_ list_ascii_of_string app]. cbn [fields_aux]. cbn.
      rewrite <- (app_nil_r r) at 1. rewrite fields_aux_tok by exact Hr. cbn [fields_aux]. rewrite app_nil_r.
      destruct (rev r) eqn:E.
      - apply (f_equal (@rev _)) in E. rewrite rev_involutive in E. now subst.
      - rewrite <- E, rev_involutive. reflexivity. }
    replace (Z.of_nat 5 <? 4) with false by reflexivity.
    assert (U : to_upper (S_ "UID" ++ sp :: r) = S_ "UID" ++ sp :: r).
    { apply to_upper_nolower. rewrite !forallb_app. cbn. unfold r. rewrite forallb_app. cbn [forallb].
      rewrite (digits_nolower a Hda), (digits_nolower b Hdb). reflexivity. }
    rewrite U. replace (str_eqb (S_ "UID" ++ sp :: r) all_str) with false by reflexivity.
    replace (contains (S_ "UID" ++ sp :: r) (S_ "UID ")) with true by (symmetry; apply has_prefix_contains; reflexivity).
    rewrite F. cbn [uid_range_of]. replace (str_eqb (to_upper (S_ "UID")) (S_ "UID")) with true by reflexivity.
    unfold r at 1. rewrite contains_single, existsb_app. cbn [existsb].
    replace (Ascii.eqb colon colon) with true by reflexivity. rewrite orb_true_r. cbn [orb].
    unfold r, split_byte. rewrite split_one_sep by (now apply digits_no_colon). cbn [rev app].
    rewrite (atoi_val_numeral a Wa), (atoi_val_numeral b Wb).
    unfold spec_uid_search_list, to_msgs, numbered. f_equal.
    apply uid_filter_eq. intros i x.
    cbn [spec_all forallb spec_eval set_has existsb item_has snum_val].
    rewrite Z.min_l, Z.max_r by lia. rewrite orb_false_r, andb_true_r. reflexivity.
  - destruct k; discriminate.
Qed.
