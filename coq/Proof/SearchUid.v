(** C19 — the command level: HandleSearch on the split command line, and the
    separate UID SEARCH implementation on the only two program shapes it
    evaluates (ALL, UID a:b). *)
From Coq Require Import String Ascii List Bool Arith NArith ZArith Lia.
From Raven Require Import Base.GoStr Base.GoStrFacts Model.Search Model.SearchText Spec.Search Model.SearchClass
  Proof.SearchTok Proof.SearchAtoms Proof.SearchEval Proof.SearchExact Proof.SearchMain.
Import ListNotations.
Local Open Scope Z_scope.
Local Arguments Ascii.eqb : simpl never.

(** SEARCH / UID SEARCH through SearchSelectedMailbox: the line is split by
    strings.Fields and the criteria re-joined with single blanks *)
Lemma selected_exact (by_uid : bool) ks mb :
  wf_prog ks = true -> mb_ok mb = true -> classify_line ks mb = None ->
  str_eqb (to_upper (nth 0 (fields (print_prog ks)) [])) (S_ "CHARSET") = false ->
  search_selected go_text (fields (print_prog ks)) by_uid (to_msgs mb)
  = ROk (map (if by_uid then m_uid else m_seq)
           (map (to_msg mb) (filter (fun '(i, m) => spec_all (Z.of_nat (length mb)) (max_uid mb) ks i m) (numbered mb)))).
Proof.
  intros W Hmb C NC. unfold classify_line in C. destruct (fields_stable (print_prog ks)) eqn:FS; [|discriminate].
  unfold fields_stable in FS. apply str_eqb_eq in FS.
  pose proof (print_not_blank ks mb W C) as NB.
  destruct (fields (print_prog ks)) as [|f1 fs] eqn:F.
  - cbn [join] in FS. rewrite <- FS in NB. now contradiction NB.
  - unfold search_selected. cbn [nth] in NC. cbn [length Nat.ltb Nat.leb nth]. rewrite NC, andb_false_r. cbn [andb skipn].
    rewrite FS, fill_max_to_msgs. now rewrite (evaluate_exact ks mb W Hmb C).
Qed.

Theorem search_cmd_exact tag cmd ks mb :
  wf_prog ks = true -> mb_ok mb = true -> classify_line ks mb = None ->
  str_eqb (to_upper (nth 0 (fields (print_prog ks)) [])) (S_ "CHARSET") = false ->
  search_cmd (tag :: cmd :: fields (print_prog ks)) (to_msgs mb) = ROk (spec_search_list ks mb).
Proof.
  intros W Hmb C NC. unfold search_cmd, handle_search. cbn [skipn].
  rewrite (selected_exact false ks mb W Hmb C NC). unfold spec_search_list. now rewrite map_seq_to_msg.
Qed.

(** UID SEARCH: the same program, the same entries, their UIDs *)
Theorem uid_search_cmd_exact tag uid cmd ks mb :
  wf_prog ks = true -> mb_ok mb = true -> classify_line ks mb = None ->
  str_eqb (to_upper (nth 0 (fields (print_prog ks)) [])) (S_ "CHARSET") = false ->
  uid_search_cmd (tag :: uid :: cmd :: fields (print_prog ks)) (to_msgs mb) = ROk (spec_uid_search_list ks mb).
Proof.
  intros W Hmb C NC. unfold uid_search_cmd, handle_uid_search. cbn [skipn].
  rewrite (selected_exact true ks mb W Hmb C NC). unfold spec_uid_search_list. now rewrite map_uid_to_msg.
Qed.
