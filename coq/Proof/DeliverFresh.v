(** C01 — when every store's UIDNEXT is truthful ([WFresh]) the outcome of an
    attempt is a function of the recipient string alone, so a reply taken from
    a later attempt for the same string (the result map of
    DeliverToMultipleRecipients) is the right reply: class CDupLastResult
    cannot occur.  Since raven 02d2f67 / 30e4be8 every operation keeps UIDNEXT
    truthful, which makes the class unreachable through the protocol. *)
From Coq Require Import String Ascii List Bool ZArith Lia.
From Raven Require Import Base.GoStr Model.Store Model.Ops Model.Deliver Spec.UidSpec Spec.DeliverSpec
  Proof.StoreInv Proof.DeliverStore Proof.DeliverWorld Proof.DeliverHist.
Import ListNotations.
Local Open Scope Z_scope.

Lemma deliver_store_broken u target p t :
  parts_of (p_shape p) = None ->
  snd (deliver_store u target p t) = false /\
  (fresh_store (us u) -> fresh_store (us (fst (deliver_store u target p t)))).
Proof.
  intros Pp. rewrite deliver_store_eq, Pp.
  destruct (find_name (us u) target); [simpl; auto|].
  destruct (create_mailbox_row (us u) target t) as [[s' id]|] eqn:Cr; simpl; [|auto].
  split; [reflexivity|]. intros F. now destruct (fresh_created _ _ _ _ _ F Cr).
Qed.

Lemma WFresh_put w k u : WFresh w -> fresh_store (us u) -> WFresh (put w k u).
Proof.
  intros F Fu k' u0 G. destruct (key_eqb_spec k' k) as [->|N].
  - rewrite get_put_same in G. now injection G as <-.
  - rewrite get_put_other in G by exact N. now apply (F k').
Qed.

(** the outcome of an attempt on a fresh world *)
Lemma deliver_message_outcome w folder r p t :
  WFresh w -> target_folder folder p <> [] ->
  exists w', deliver_message w folder r p t = (w', deliverable w folder r p) /\
             WFresh w' /\ w_roles w' = w_roles w.
Proof.
  intros F Ht. destruct (deliverable w folder r p) eqn:D.
  - destruct (deliver_message_fresh w folder r p t F D) as (w' & E & F' & Er). eauto.
  - unfold deliverable in D. unfold deliver_message.
    destruct (key_of w r) as [k|] eqn:K; [|eauto].
    destruct (target_folder folder p) as [|c q] eqn:T; [contradiction|]. simpl in D.
    assert (Pp : parts_of (p_shape p) = None) by (destruct (p_shape p); simpl in *; try discriminate; reflexivity).
    destruct (deliver_store_broken (getd w k t) (c :: q) p t Pp) as (E & Fs).
    destruct (deliver_store (getd w k t) (c :: q) p t) as [u' ok]. simpl in *. subst ok.
    eexists. split; [reflexivity|]. split; [|reflexivity].
    apply WFresh_put; [exact F|]. apply Fs. now apply getd_fresh.
Qed.

Lemma deliver_all_outcomes folder p clk rs : forall w i,
  WFresh w -> target_folder folder p <> [] ->
  Forall (fun a => a_ok a = deliverable w folder (a_rcpt a) p) (snd (deliver_all w folder rs p clk i)).
Proof.
  induction rs as [|r rest IH]; intros w i F Ht; simpl; [constructor|].
  destruct (deliver_message_outcome w folder r p (clk i) F Ht) as (w1 & E & F1 & Er).
  rewrite E. specialize (IH w1 (S i) F1 Ht).
  destruct (deliver_all w1 folder rest p clk (S i)) as [w2 atts]. simpl in *.
  constructor; [reflexivity|].
  eapply Forall_impl; [|exact IH]. intros a Ha. simpl in Ha.
  now rewrite <- (deliverable_roles w w1 folder (a_rcpt a) p Er).
Qed.

Lemma no_mismatch_when_fresh w folder rs p clk :
  WFresh w -> target_folder folder p <> [] ->
  let atts := snd (deliver_all w folder rs p clk 0) in
  forall a, In a atts -> mismatch (results_of atts) a = false.
Proof.
  intros F Ht atts a Ha.
  pose proof (deliver_all_outcomes folder p clk rs w 0%nat F Ht) as O. fold atts in O.
  unfold mismatch, reply_for, results_of. rewrite rlookup_results.
  destruct (find (fun b => str_eqb (a_rcpt b) (a_rcpt a)) (rev atts)) as [b|] eqn:Fd.
  - apply find_some in Fd. destruct Fd as [Hb Eb]. apply in_rev in Hb. apply str_eqb_eq in Eb.
    rewrite (proj1 (Forall_forall _ _) O a Ha), (proj1 (Forall_forall _ _) O b Hb), Eb.
    destruct (deliverable w folder (a_rcpt a) p); reflexivity.
  - exfalso. pose proof (find_none _ _ Fd a (proj1 (in_rev _ _) Ha)) as X. simpl in X.
    now rewrite str_eqb_refl in X.
Qed.

Lemma c01_dup_class_needs_stale_l w folder rs p clk :
  WFresh w -> target_folder folder p <> [] ->
  classify w folder rs p clk <> Some CDupLastResult.
Proof.
  intros F Ht. unfold classify. destruct (p_ok p); simpl; [|discriminate].
  pose proof (no_mismatch_when_fresh w folder rs p clk F Ht) as N.
  destruct (deliver_all w folder rs p clk 0) as [w' atts]. simpl in N.
  assert (X : existsb (mismatch (results_of atts)) atts = false).
  { apply not_true_is_false. intros C. apply existsb_exists in C. destruct C as (a & Ha & M).
    rewrite (N a Ha) in M. discriminate. }
  rewrite X. discriminate.
Qed.

(** C01 on fresh worlds: no class is left *)
Lemma c01_holds_when_fresh_l w folder rs p clk :
  WInv w -> WFresh w -> target_folder folder p <> [] -> spec_C01 w folder rs p clk.
Proof.
  intros I F Ht. apply c01_accept_iff_visible_l; [exact I|].
  pose proof (c01_dup_class_needs_stale_l w folder rs p clk F Ht) as D.
  destruct (classify w folder rs p clk) as [[]|]; [congruence | reflexivity].
Qed.
