(** on a call structure without re-acquisition every held region runs to its Unlock *)
From Coq Require Import String List Bool Lia.
From Raven Require Import Base.GoStr Model.StoreLock.
Import ListNotations.

Lemma reacquired_nil ls h c :
  reacquired ls h = [] -> In c (map fst (h_callees h)) -> takes ls (h_mutex h) c = false.
Proof.
  unfold reacquired. intros E I. apply in_map_iff in I as [[c' p] [<- I]].
  destruct (takes ls (h_mutex h) (fst (c', p))) eqn:T; [|reflexivity].
  assert (K : In (c', p) (filter (fun c0 => takes ls (h_mutex h) (fst c0)) (h_callees h))) by (apply filter_In; auto).
  rewrite E in K. destruct K.
Qed.

Theorem regions_complete (ls : list locker) (hs : list hold) :
  locks_ok ls hs = true ->
  forall h, In h hs -> forall trace, trace_of h trace -> run_region ls (h_mutex h) trace = Some (length trace).
Proof.
  unfold locks_ok. intros OK h I. rewrite forallb_forall in OK. specialize (OK h I).
  destruct (reacquired ls h) eqn:E; [|discriminate].
  induction trace as [|c r IH]; intros T; [reflexivity|]. simpl.
  rewrite (reacquired_nil ls h c E) by (apply T; now left).
  rewrite IH; [reflexivity|]. intros c' I'. apply T. now right.
Qed.

(** and a re-acquiring callee blocks its caller for ever, whatever ran before it *)
Theorem reacquisition_blocks (ls : list locker) (h : hold) (c : str) (p : str) (before after : list str) :
  In (c, p) (reacquired ls h) -> run_region ls (h_mutex h) (before ++ c :: after) = None.
Proof.
  unfold reacquired. intros I. apply filter_In in I as [_ T]. simpl in T.
  induction before as [|b r IH]; simpl.
  - now rewrite T.
  - destruct (takes ls (h_mutex h) b); [reflexivity|]. now rewrite IH.
Qed.

Theorem locks_status (ls : list locker) (hs : list hold) :
  if locks_ok ls hs
  then forall h, In h hs -> forall trace, trace_of h trace -> run_region ls (h_mutex h) trace = Some (length trace)
  else exists h c p, In h hs /\ In (c, p) (reacquired ls h).
Proof.
  destruct (locks_ok ls hs) eqn:E; [now apply regions_complete|].
  unfold locks_ok in E. induction hs as [|h hs IH]; [discriminate|].
  simpl in E. destruct (reacquired ls h) as [|[c p] r] eqn:R.
  - simpl in E. destruct (IH E) as [h' [c [p [I K]]]]. exists h', c, p. split; [now right | exact K].
  - exists h, c, p. split; [now left|]. rewrite R. now left.
Qed.

(** regression fact about the seeded change C12-4: OpenStores takes cacheMutex.RLock and is reached from
    GetUserDB's error returns through storeError while GetUserDB holds cacheMutex.Lock *)
Local Open Scope string_scope.
Example seeded_c12_4_blocks :
  let ls := [mk_locker (S_ "DBManager.GetUserDB") (S_ "cacheMutex") true; mk_locker (S_ "DBManager.OpenStores") (S_ "cacheMutex") false] in
  let h := mk_hold (S_ "internal/db/db_manager.go:59") (S_ "DBManager.GetUserDB") (S_ "cacheMutex") true
             [(S_ "DBManager.initUserDB", S_ "DBManager.GetUserDB > DBManager.initUserDB");
              (S_ "DBManager.storeError", S_ "DBManager.GetUserDB > DBManager.storeError");
              (S_ "DBManager.OpenStores", S_ "DBManager.GetUserDB > DBManager.storeError > DBManager.OpenStores")] in
  locks_ok ls [h] = false
  /\ run_region ls (h_mutex h) [S_ "DBManager.initUserDB"; S_ "DBManager.storeError"; S_ "DBManager.OpenStores"] = None
  /\ run_region ls (h_mutex h) [S_ "DBManager.initUserDB"] = Some 1.
Proof. vm_compute. repeat split; reflexivity. Qed.
