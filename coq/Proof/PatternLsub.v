(** C18 — LSUB: implied \Noselect parents are exactly the unsubscribed proper
    ancestors of subscribed names that match reference+pattern. *)
From Coq Require Import String Ascii List Bool Arith Lia.
From Raven Require Import Base.GoStr Base.GoStrFacts Model.Pattern Spec.Match Proof.Pattern Proof.PatternFilter.
Import ListNotations.

Lemma ancestors_aux_spec m : forall pre a,
  In a (ancestors_aux pre m) <-> exists s rest, m = s ++ delim :: rest /\ a = rev pre ++ s.
Proof.
  induction m as [|c m IH]; intros pre a; cbn [ancestors_aux].
  - split; [intros []|]. intros (s & rest & E & _). destruct s; discriminate.
  - rewrite in_app_iff, IH. split.
    + intros [H|(s & rest & E & Ea)].
      * destruct (Ascii.eqb_spec c delim) as [->|_]; [|destruct H].
        destruct H as [<-|[]]. exists [], m. split; [reflexivity|now rewrite app_nil_r].
      * exists (c :: s), rest. split; [now rewrite E|].
        rewrite Ea. cbn [rev]. now rewrite <- app_assoc.
    + intros (s & rest & E & Ea). destruct s as [|d s].
      * injection E as -> ->. left. rewrite Ascii.eqb_refl. left. now rewrite app_nil_r in Ea.
      * injection E as -> ->. right. exists s, rest. split; [reflexivity|].
        rewrite Ea. cbn [rev]. now rewrite <- app_assoc.
Qed.

Lemma ancestors_spec m a :
  In a (ancestors m) <-> exists rest, m = a ++ delim :: rest.
Proof.
  unfold ancestors. rewrite ancestors_aux_spec. cbn [rev app]. split.
  - intros (s & rest & E & ->). now exists rest.
  - intros (rest & E). now exists a, rest.
Qed.

Lemma mem_str_spec x l : mem_str x l = true <-> In x l.
Proof.
  unfold mem_str. rewrite existsb_exists. split.
  - intros (y & Hy & E). apply str_eqb_eq in E. now subst.
  - intros H. exists x. split; [exact H|apply str_eqb_refl].
Qed.

Lemma existsb_pct p : existsb (Ascii.eqb pct) p = true <-> In pct p.
Proof.
  rewrite existsb_exists. split.
  - intros (c & Hc & E). apply Ascii.eqb_eq in E. now subst.
  - intros H. exists pct. split; [exact H|apply Ascii.eqb_refl].
Qed.

Lemma lsub_implied_in subs reference pattern n :
  In n (lsub_implied subs reference pattern) <->
  In pct pattern /\ ~ In n subs /\
  (exists m rest, In m subs /\ m = n ++ delim :: rest) /\
  match_wildcard n (build_canonical_pattern reference pattern) = true.
Proof.
  unfold lsub_implied. destruct (existsb (Ascii.eqb pct) pattern) eqn:Hp.
  - apply existsb_pct in Hp. rewrite filter_In, in_flat_map, andb_true_iff, negb_true_iff.
    split.
    + intros [(m & Hm & Ha) [Hn Hw]]. apply ancestors_spec in Ha as (rest & E).
      repeat split; auto.
      * intros Hin. apply mem_str_spec in Hin. congruence.
      * now exists m, rest.
    + intros (_ & Hn & (m & rest & Hm & E) & Hw). repeat split; auto.
      * exists m. split; [exact Hm|]. apply ancestors_spec. now exists rest.
      * destruct (mem_str n subs) eqn:Hmem; [|reflexivity]. apply mem_str_spec in Hmem. contradiction.
  - split; [intros []|]. intros (Hin & _). apply existsb_pct in Hin. congruence.
Qed.

(** names other than case variants of INBOX: exactly the RFC 3501 relation *)
Theorem lsub_implied_exact subs reference pattern n :
  to_upper n <> INBOX ->
  (In n (lsub_implied subs reference pattern) <->
   In pct pattern /\ ~ In n subs /\
   (exists m rest, In m subs /\ m = n ++ delim :: rest) /\
   Matches (build_canonical_pattern reference pattern) n).
Proof.
  intros Hn. rewrite lsub_implied_in, (match_wildcard_other n _ Hn). reflexivity.
Qed.

(** a case variant of INBOX as implied parent is matched as INBOX *)
Theorem lsub_implied_inbox_variant subs reference pattern n :
  to_upper n = INBOX -> In n (lsub_implied subs reference pattern) ->
  Matches (to_upper (build_canonical_pattern reference pattern)) INBOX.
Proof.
  intros Hn Hin. apply lsub_implied_in in Hin as (_ & _ & _ & Hw).
  apply match_wildcard_inbox. revert Hw. unfold match_wildcard.
  rewrite Hn, to_upper_INBOX, !str_eqb_refl. auto.
Qed.

(** without '%' in the pattern nothing is implied *)
Theorem lsub_no_pct subs reference pattern :
  ~ In pct pattern -> lsub_implied subs reference pattern = [].
Proof.
  intros H. unfold lsub_implied. destruct (existsb (Ascii.eqb pct) pattern) eqn:Hp; [|reflexivity].
  apply existsb_pct in Hp. contradiction.
Qed.

(** the names LSUB answers as subscribed are exactly the subscribed names that
    match reference+pattern (INBOX case-insensitively) *)
Theorem lsub_plain_exact subs reference pattern n :
  (forall m, In m subs -> to_upper m = INBOX -> m = INBOX) ->
  (In n (snd (lsub_names subs reference pattern)) <->
   In n subs /\ MatchesI (build_canonical_pattern reference pattern) n).
Proof.
  intros Huniq. unfold lsub_names. cbn [snd].
  pose proof (filter_mailboxes_exact subs reference pattern n Huniq) as Hf. cbv zeta in Hf.
  destruct (existsb (fun m => str_eqb (to_upper m) INBOX) subs) eqn:Hex.
  - apply existsb_exists in Hex as (m & Hm & E). apply str_eqb_eq in E.
    pose proof (Huniq m Hm E) as ->. rewrite Hf. split.
    + intros [[H| ->] HM]; auto.
    + intros [H HM]; auto.
  - assert (Hno : ~ In INBOX subs).
    { intros Hin. assert (existsb (fun m => str_eqb (to_upper m) INBOX) subs = true) as K; [|congruence].
      apply existsb_exists. exists INBOX. split; [exact Hin|]. rewrite to_upper_INBOX. apply str_eqb_refl. }
    rewrite filter_In, Hf, negb_true_iff. split.
    + intros [[[H| ->] HM] Hne]; [auto|]. rewrite str_eqb_refl in Hne. discriminate.
    + intros [H HM]. split; [auto|]. destruct (str_eqb_spec n INBOX) as [->|_]; [contradiction|reflexivity].
Qed.

(** role mailboxes: the names answered below Roles are exactly the role paths
    that match reference+pattern *)
Theorem role_names_exact roles reference pattern n :
  (forall m, In m (role_paths roles) -> to_upper m = INBOX -> m = INBOX) ->
  (In n (role_names roles reference pattern) <->
   In n (role_paths roles) /\ has_prefix n ROLES = true /\
   MatchesI (build_canonical_pattern reference pattern) n).
Proof.
  intros Huniq. unfold role_names. rewrite filter_In.
  pose proof (filter_mailboxes_exact (role_paths roles) reference pattern n Huniq) as Hf. cbv zeta in Hf.
  rewrite Hf. split.
  - intros [[[H| ->] HM] Hp]; [auto|]. vm_compute in Hp. discriminate.
  - intros (H & Hp & HM). auto.
Qed.
