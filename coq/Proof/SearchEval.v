(** C19 — evaluateTokens on the tokens of a printed key: one unfolding lemma
    per key form, then the step lemma: a key of the fragment evaluates to its
    specification and the loop continues with the remaining tokens. *)
From Coq Require Import String Ascii List Bool Arith NArith ZArith Lia.
From Raven Require Import Base.GoStr Base.GoStrFacts Model.Search Model.SearchText Spec.Search Model.SearchClass
  Proof.SearchTok Proof.SearchAtoms Proof.SearchDate Proof.SearchFields.
From Raven Require Model.SeqSet Spec.SeqSet Proof.SeqSetParse Proof.FetchSearchExact.
Import ListNotations.
Local Open Scope Z_scope.
Local Arguments Ascii.eqb : simpl never.

Definition ra (t : str) : bool := requires_argument (to_upper t).

Section Unfold.
Variable m : msg.
Variable f : nat.
Variable ctx : list str.
Local Notation EL t := (eval_loop go_text m (S f) t ctx) (only parsing).
Local Notation EK t := (eval_loop go_text m f t ctx) (only parsing).

Lemma el_nil : EL [] = Some true.
Proof. reflexivity. Qed.
Lemma el_all rest : EL (S_ "ALL" :: rest) = EK rest.
Proof. reflexivity. Qed.
Lemma el_has fl rest : EL (has_token fl :: rest) = andk (has_flag_go (m_flags m) (flag_name fl)) (EK rest).
Proof. destruct fl; reflexivity. Qed.
Lemma el_un fl rest : EL (un_token fl :: rest) = andk (negb (has_flag_go (m_flags m) (flag_name fl))) (EK rest).
Proof. destruct fl; reflexivity. Qed.
Lemma el_new rest : EL (S_ "NEW" :: rest) =
  andk (has_flag_go (m_flags m) flag_recent && negb (has_flag_go (m_flags m) flag_seen)) (EK rest).
Proof. reflexivity. Qed.
Lemma el_keyword w rest : EL (S_ "KEYWORD" :: w :: rest) = andk (has_flag_go (m_flags m) (unquote w)) (EK rest).
Proof. reflexivity. Qed.
Lemma el_unkeyword w rest : EL (S_ "UNKEYWORD" :: w :: rest) = andk (negb (has_flag_go (m_flags m) (unquote w))) (EK rest).
Proof. reflexivity. Qed.
Lemma el_seq t rest : is_group (to_upper t) = false -> Model.SeqSet.is_sequence_set (to_upper t) = true ->
  EL (t :: rest) = andk (Model.SeqSet.matches_sequence_set (m_seq m) (to_upper t) (m_maxseq m)) (EK rest).
Proof. intros G H. cbn [eval_loop]. now rewrite G, H. Qed.
Lemma el_uid a rest : EL (S_ "UID" :: a :: rest) = andk (Model.SeqSet.matches_sequence_set (m_uid m) a (m_maxuid m)) (EK rest).
Proof. reflexivity. Qed.
Lemma el_hdr h a rest : EL (hdr_token h :: a :: rest) = andk (matches_header_or_body m (hdr_kw h) (unquote a)) (EK rest).
Proof. destruct h; reflexivity. Qed.
Lemma el_body a rest : EL (S_ "BODY" :: a :: rest) = andk (matches_header_or_body m KwBODY (unquote a)) (EK rest).
Proof. reflexivity. Qed.
Lemma el_text a rest : EL (S_ "TEXT" :: a :: rest) = andk (matches_header_or_body m KwTEXT (unquote a)) (EK rest).
Proof. reflexivity. Qed.
Lemma el_header fn s rest : EL (S_ "HEADER" :: fn :: s :: rest) = andk (matches_header m (unquote fn) (unquote s)) (EK rest).
Proof. reflexivity. Qed.
Lemma el_larger a rest : EL (S_ "LARGER" :: a :: rest) =
  andk (match atoi a with Some size => matches_size m size true | None => false end) (EK rest).
Proof. reflexivity. Qed.
Lemma el_smaller a rest : EL (S_ "SMALLER" :: a :: rest) =
  andk (match atoi a with Some size => matches_size m size false | None => false end) (EK rest).
Proof. reflexivity. Qed.
Lemma el_date sent c a rest : EL (date_token sent c :: a :: rest) =
  andk (if sent then matches_sent_date m (unquote a) c else matches_date (m_idate m) (unquote a) c) (EK rest).
Proof. destruct sent, c; reflexivity. Qed.

Lemma el_not rest : EL (S_ "NOT" :: rest) =
  let n := search_key_length (rest ++ ctx) in
  if (length rest <? n)%nat then Some false
  else notk (eval_loop go_text m f (firstn n rest) (skipn n rest ++ ctx)) (EK (skipn n rest)).
Proof. reflexivity. Qed.

Lemma el_or rest : EL (S_ "OR" :: rest) =
  let n1 := search_key_length (rest ++ ctx) in
  let n2 := search_key_length (skipn n1 (rest ++ ctx)) in
  if (length rest <? n1 + n2)%nat then Some false
  else ork (eval_loop go_text m f (firstn n1 rest) (skipn n1 rest ++ ctx))
           (eval_loop go_text m f (firstn n2 (skipn n1 rest)) (skipn (n1 + n2) rest ++ ctx))
           (EK (skipn (n1 + n2) rest)).
Proof. reflexivity. Qed.

Lemma el_group t rest : is_group (to_upper t) = true ->
  EL (t :: rest) = seqk (eval_loop go_text m f (parse_search_tokens (group_inner t)) []) (EK rest).
Proof. intros G. cbn [eval_loop]. now rewrite G. Qed.
End Unfold.

(** ** facts about the tokens of fragment keys *)
Lemma upper_digit c : is_digit c = true -> upper_c c = c.
Proof. intros H. destruct (digit_facts c H) as (_ & _ & _ & _ & E & _). now apply upper_c_fix. Qed.

Lemma kw_of_digit c t : is_digit c = true -> kw_of (c :: t) = None.
Proof.
  intros H. destruct (digit_facts c H) as (_ & _ & _ & _ & _ & U & _).
  assert (E : forall l s, is_upper l = true -> str_eqb (c :: t) (l :: s) = false).
  { intros l s Hl. cbn [str_eqb]. destruct (Ascii.eqb_spec c l) as [->|_]; [congruence | reflexivity]. }
  unfold kw_of, kw_table. cbv [S_ list_ascii_of_string kw_lookup].
  rewrite !E by reflexivity. reflexivity.
Qed.

Lemma ra_digit c t : is_digit c = true -> ra (c :: t) = false.
Proof.
  intros H. unfold ra, requires_argument. cbn [to_upper map]. rewrite (upper_digit c H).
  now rewrite (kw_of_digit c _ H).
Qed.

Lemma is_group_digit c r : is_digit c = true -> is_group (c :: r) = false.
Proof.
  intros H. destruct (digit_facts c H) as (_ & _ & _ & _ & _ & _ & _ & _ & E & _).
  unfold is_group. destruct (rev r); [reflexivity|]. now rewrite E.
Qed.

(** printed sets: sequence-set characters only, first one a digit or "*" *)
Lemma print_set_facts s : Spec.SeqSet.wf s = true ->
  to_upper (Spec.SeqSet.print s) = Spec.SeqSet.print s
  /\ Model.SeqSet.is_sequence_set (Spec.SeqSet.print s) = true
  /\ FetchSearchExact.head_ok (Spec.SeqSet.print s) = true
  /\ forallb FetchSearchExact.seqchar (Spec.SeqSet.print s) = true.
Proof.
  intros H. destruct (SeqSetParse.wf_forall s H) as [_ Hall].
  assert (SC : forallb FetchSearchExact.seqchar (Spec.SeqSet.print s) = true).
  { unfold Spec.SeqSet.print. apply FetchSearchExact.join_seqchar. intros x Hx. apply in_map_iff in Hx. destruct Hx as (it & <- & Hit).
    now apply FetchSearchExact.print_item_seqchar, Hall. }
  pose proof (FetchSearchExact.print_head s H) as Hd.
  split; [now apply FetchSearchExact.to_upper_seqchars|]. split; [|split; [exact Hd | exact SC]].
  unfold Model.SeqSet.is_sequence_set. destruct (str_eqb (Spec.SeqSet.print s) Model.SeqSet.s_star); [reflexivity|].
  unfold FetchSearchExact.head_ok in Hd.
  assert (E : forallb (fun c => Ascii.eqb c Model.SeqSet.c_colon || Ascii.eqb c Model.SeqSet.c_star || Ascii.eqb c Model.SeqSet.c_comma || is_digit c) (Spec.SeqSet.print s) = true)
    by exact SC.
  rewrite E. exact Hd.
Qed.

Lemma head_cases t : FetchSearchExact.head_ok t = true -> exists c r, t = c :: r /\ (is_digit c = true \/ c = star).
Proof.
  destruct t as [|c r]; [discriminate|]. cbn. intros H. exists c, r. split; [reflexivity|].
  apply orb_true_iff in H as [H | H]; [now left | right; now apply Ascii.eqb_eq in H].
Qed.

Lemma kw_of_star r : kw_of (star :: r) = None.
Proof. reflexivity. Qed.

Lemma head_facts t : FetchSearchExact.head_ok t = true -> to_upper t = t ->
  kw_of t = None /\ is_group t = false /\ ra t = false.
Proof.
  intros H U. destruct (head_cases t H) as (c & r & -> & [D | ->]).
  - split; [now apply kw_of_digit|]. split; [now apply is_group_digit|].
    unfold ra. rewrite U. unfold requires_argument. now rewrite (kw_of_digit c r D).
  - split; [reflexivity|]. split; [unfold is_group; destruct (rev r); reflexivity|].
    unfold ra. rewrite U. reflexivity.
Qed.

Lemma in_numbered {A} (l : list A) : forall i j x, In (j, x) (number_from i l) -> In x l.
Proof.
  induction l as [|y l IH]; intros i j x H; [contradiction|]. simpl in H. destruct H as [E | H].
  - injection E as _ ->. now left.
  - right. eapply IH. exact H.
Qed.

Lemma atom_facts w : atom_ok w = true ->
  w <> [] /\ no_sp w = true /\ forallb (fun c => negb (is_space c)) w = true
  /\ match w with c :: _ => Ascii.eqb c dq = false | [] => True end
  /\ forallb (fun c => negb (is_space c) && negb (Ascii.eqb c dq) && negb (Ascii.eqb c lpar) && negb (Ascii.eqb c rpar)) w = true.
Proof.
  unfold atom_ok. destruct w as [|c w]; [discriminate|]. intros H.
  assert (A : forall x, atom_char x = true -> is_space x = false /\ Ascii.eqb x dq = false /\ Ascii.eqb x lpar = false /\ Ascii.eqb x rpar = false).
  { intros x Hx. unfold atom_char in Hx. repeat (apply andb_true_iff in Hx as [Hx ?]).
    repeat match goal with X : negb _ = true |- _ => apply negb_true_iff in X end. auto. }
  split; [discriminate|]. split; [|split; [|split]].
  - unfold no_sp. apply negb_true_iff. apply not_true_is_false. intros E. apply existsb_exists in E as (x & Hin & Hx).
    apply Ascii.eqb_eq in Hx. subst x. rewrite forallb_forall in H. specialize (H _ Hin). apply A in H as [H _]. discriminate.
  - revert H. apply forallb_impl. intros x Hx. apply A in Hx as [-> _]. reflexivity.
  - simpl in H. apply andb_true_iff in H as [H _]. now apply A in H.
  - revert H. apply forallb_impl. intros x Hx. apply A in Hx as (-> & -> & -> & ->). reflexivity.
Qed.

Definition atomic (k : key) : Prop := match k with KNot _ | KOr _ _ | KGroup _ => False | _ => True end.

Section Step.
Variable f : nat.
Variable mb : list smsg.
Notation nseq := (Z.of_nat (length mb)).
Notation maxuid := (last_uid mb).
Variables (i : Z) (sm : smsg).
Hypothesis Hin : In (i, sm) (numbered mb).
Hypothesis Hmb : mb_ok mb = true.
Variable ctx : list str.
Notation m := (to_msg mb (i, sm)).
Local Notation EL t := (eval_loop go_text m (S f) t ctx) (only parsing).
Local Notation EK t := (eval_loop go_text m f t ctx) (only parsing).
Notation SP := (spec_eval nseq maxuid).

Lemma flag_step w : has_flag_go (m_flags m) w = has_flag sm w.
Proof.
  cbn [to_msg to_msg_in m_flags]. unfold has_flag. apply flag_test_go.
  unfold mb_ok in Hmb. apply andb_true_iff in Hmb as [Hmb' _]. apply andb_true_iff in Hmb' as [Hf _].
  rewrite forallb_forall in Hf. apply Hf. eapply in_numbered. exact Hin.
Qed.

Lemma sent_date_step c d : date_ok d = true ->
  matches_sent_date m (print_date d) c = spec_text_key (KDate true c d) sm.
Proof.
  intros W. unfold matches_sent_date. cbn [spec_text_key to_msg to_msg_in m_text]. unfold sent_date, rfc5322_date.
  rewrite header_field_values_spec.
  destruct (field_values (s_text sm) (S_ "Date")) as [|v vs]; [reflexivity|].
  rewrite (parse_print_date d W).
  destruct (trim_space (wsp_to_sp v)) as [|x dh] eqn:T; [reflexivity|].
  destruct (mail_date (x :: dh)); [|reflexivity]. destruct (sdate_val d); reflexivity.
Qed.

(** keys other than NOT / OR *)
Lemma simple_step k rest : atomic k -> wf_key k = true -> simple_class k mb = None ->
  EL (key_tokens k ++ rest) = andk (SP k i sm) (EK rest).
Proof.
  intros Hat W C. destruct k; try contradiction; cbn [key_tokens app]; cbn [simple_class] in C; try discriminate.
  - (* ALL *) apply el_all.
  - (* has flag *) rewrite el_has. now rewrite flag_step.
  - (* un flag *) rewrite el_un. now rewrite flag_step.
  - (* NEW *) rewrite el_new. now rewrite !flag_step.
  - (* KEYWORD *) cbn [wf_key] in W. destruct (atom_facts w W) as (A1 & A2 & A3 & A4 & _).
    rewrite el_keyword, unquote_plain by assumption. now rewrite flag_step.
  - (* UNKEYWORD *) cbn [wf_key] in W. destruct (atom_facts w W) as (A1 & A2 & A3 & A4 & _).
    rewrite el_unkeyword, unquote_plain by assumption. now rewrite flag_step.
  - (* sequence set *) cbn [wf_key] in W. unfold set_ok in W.
    destruct (print_set_facts s W) as (U & IS & HD & _). destruct (head_facts _ HD U) as (_ & G & _).
    rewrite el_seq; [| now rewrite U | now rewrite U]. rewrite U.
    cbn [to_msg to_msg_in m_seq m_maxseq spec_eval]. now rewrite (FetchSearchExact.matches_set_exact s _ i W).
  - (* UID set *) cbn [wf_key] in W. unfold set_ok in W. rewrite el_uid.
    cbn [to_msg to_msg_in m_uid m_maxuid spec_eval]. now rewrite (FetchSearchExact.matches_set_exact s _ (s_uid sm) W).
  - (* BCC CC FROM SUBJECT TO *) rewrite el_hdr. unfold quote. rewrite unquote_quote. now rewrite matches_hdr_spec.
  - (* HEADER *) cbn [wf_key] in W. apply andb_true_iff in W as [Wf _].
    rewrite el_header. unfold quote. rewrite !unquote_quote. now rewrite (matches_header_spec _ _ _ Wf).
  - (* BODY *) cbn [wf_key] in W. rewrite el_body. unfold quote. rewrite unquote_quote. now rewrite (matches_body_spec _ _ W).
  - (* TEXT *) rewrite el_text. unfold quote. rewrite unquote_quote. reflexivity.
  - (* LARGER *) cbn [wf_key] in W. rewrite el_larger, (atoi_numeral n W). reflexivity.
  - (* SMALLER *) cbn [wf_key] in W. rewrite el_smaller, (atoi_numeral n W). reflexivity.
  - (* dates *) cbn [wf_key] in W. rewrite el_date.
    assert (U : unquote (print_date d) = print_date d).
    { pose proof (date_plain d W) as P. apply unquote_plain.
      - revert P. apply forallb_impl. intros x Hx. now repeat (apply andb_true_iff in Hx as [Hx _]).
      - destruct (print_date d) as [|x r]; [trivial|]. cbn [forallb] in P. apply andb_true_iff in P as [P _].
        repeat (apply andb_true_iff in P as [P ?]).
        repeat match goal with X : negb _ = true |- _ => apply negb_true_iff in X end. assumption. }
    rewrite U. destruct sent.
    + now rewrite (sent_date_step c d W).
    + unfold matches_date. rewrite (parse_print_date d W). cbn [spec_eval to_msg to_msg_in m_idate].
      destruct (sdate_val d); reflexivity.
Qed.
End Step.
