(** C19 — evaluateTokens on the tokens of a printed key: one unfolding lemma
    per key form, then the step lemma: a key of the fragment evaluates to its
    specification and the loop continues with the remaining tokens. *)
From Coq Require Import String Ascii List Bool Arith NArith ZArith Lia.
From Raven Require Import Base.GoStr Base.GoStrFacts Model.Search Model.SearchText Spec.Search Model.SearchClass
  Proof.SearchTok Proof.SearchAtoms Proof.SearchDate.
Import ListNotations.
Local Open Scope Z_scope.
Local Arguments Ascii.eqb : simpl never.

Definition ra (t : str) : bool := requires_argument (to_upper t).

Section Unfold.
Variable m : msg.
Variable f : nat.
Notation EL := (eval_loop go_text m (S f)).
Notation EK := (eval_loop go_text m f).

Lemma el_nil : EL [] = Some true.
Proof. reflexivity. Qed.
Lemma el_all rest : EL (S_ "ALL" :: rest) = EK rest.
Proof. reflexivity. Qed.
Lemma el_has fl rest : EL (has_token fl :: rest) = andk (has_flag_go (m_flags m) (flag_name fl)) (EK rest).
Proof. destruct fl; reflexivity. Qed.
Lemma el_un fl rest : EL (un_token fl :: rest) = andk (negb (has_flag_go (m_flags m) (flag_name fl))) (EK rest).
Proof. destruct fl; reflexivity. Qed.
Lemma el_new rest : EL (S_ "NEW" :: rest) =
  andk (has_flag_go (m_flags m) flag_recent && negb (has_flag_go (m_flags m) flag_seen)) (EK rest).
Proof. reflexivity. Qed.
Lemma el_keyword w rest : EL (S_ "KEYWORD" :: w :: rest) = andk (has_flag_go (m_flags m) (unquote w)) (EK rest).
Proof. reflexivity. Qed.
Lemma el_unkeyword w rest : EL (S_ "UNKEYWORD" :: w :: rest) = andk (negb (has_flag_go (m_flags m) (unquote w))) (EK rest).
Proof. reflexivity. Qed.
Lemma el_seq t rest : is_group (to_upper t) = false -> is_sequence_set (to_upper t) = true ->
  EL (t :: rest) = andk (matches_sequence_set (m_seq m) (to_upper t)) (EK rest).
Proof. intros G H. cbn [eval_loop]. now rewrite G, H. Qed.
Lemma el_uid a rest : EL (S_ "UID" :: a :: rest) = andk (matches_sequence_set (m_uid m) a) (EK rest).
Proof. reflexivity. Qed.
Lemma el_hdr h a rest : EL (hdr_token h :: a :: rest) = andk (matches_header_or_body m (hdr_kw h) (unquote a)) (EK rest).
Proof. destruct h; reflexivity. Qed.
Lemma el_body a rest : EL (S_ "BODY" :: a :: rest) = andk (matches_header_or_body m KwBODY (unquote a)) (EK rest).
Proof. reflexivity. Qed.
Lemma el_text a rest : EL (S_ "TEXT" :: a :: rest) = andk (matches_header_or_body m KwTEXT (unquote a)) (EK rest).
Proof. reflexivity. Qed.
Lemma el_header fn s rest : EL (S_ "HEADER" :: fn :: s :: rest) = andk (matches_header m (unquote fn) (unquote s)) (EK rest).
Proof. reflexivity. Qed.
Lemma el_larger a rest : EL (S_ "LARGER" :: a :: rest) =
  andk (match atoi a with Some size => matches_size m size true | None => false end) (EK rest).
Proof. reflexivity. Qed.
Lemma el_smaller a rest : EL (S_ "SMALLER" :: a :: rest) =
  andk (match atoi a with Some size => matches_size m size false | None => false end) (EK rest).
Proof. reflexivity. Qed.
Lemma el_date sent c a rest : EL (date_token sent c :: a :: rest) =
  andk (if sent then matches_sent_date m (unquote a) c else matches_date (m_idate m) (unquote a) c) (EK rest).
Proof. destruct sent, c; reflexivity. Qed.

Lemma el_not rest : EL (S_ "NOT" :: rest) =
  let n := search_key_length rest in
  if (length rest <? n)%nat then Some false
  else notk (EK (firstn n rest)) (EK (skipn n rest)).
Proof. reflexivity. Qed.

Lemma el_or rest : EL (S_ "OR" :: rest) =
  let n1 := search_key_length rest in
  let n2 := search_key_length (skipn n1 rest) in
  if (length rest <? n1 + n2)%nat then Some false
  else ork (EK (firstn n1 rest)) (EK (firstn n2 (skipn n1 rest))) (EK (skipn (n1 + n2) rest)).
Proof. reflexivity. Qed.

Lemma el_group t rest : is_group (to_upper t) = true ->
  EL (t :: rest) = seqk (EK (parse_search_tokens (group_inner t))) (EK rest).
Proof. intros G. cbn [eval_loop]. now rewrite G. Qed.
End Unfold.

(** ** facts about the tokens of fragment keys *)
Lemma upper_digit c : is_digit c = true -> upper_c c = c.
Proof. intros H. destruct (digit_facts c H) as (_ & _ & _ & _ & E & _). now apply upper_c_fix. Qed.

Lemma kw_of_digit c t : is_digit c = true -> kw_of (c :: t) = None.
Proof.
  intros H. destruct (digit_facts c H) as (_ & _ & _ & _ & _ & U & _).
  assert (E : forall l s, is_upper l = true -> str_eqb (c :: t) (l :: s) = false).
  { intros l s Hl. cbn [str_eqb]. destruct (Ascii.eqb_spec c l) as [->|_]; [congruence | reflexivity]. }
  unfold kw_of, kw_table. cbv [S_ list_ascii_of_string kw_lookup].
  rewrite !E by reflexivity. reflexivity.
Qed.

Lemma ra_digit c t : is_digit c = true -> ra (c :: t) = false.
Proof.
  intros H. unfold ra, requires_argument. cbn [to_upper map]. rewrite (upper_digit c H).
  now rewrite (kw_of_digit c _ H).
Qed.

Lemma is_group_digit c r : is_digit c = true -> is_group (c :: r) = false.
Proof.
  intros H. destruct (digit_facts c H) as (_ & _ & _ & _ & _ & _ & _ & _ & E & _).
  unfold is_group. destruct (rev r); [reflexivity|]. now rewrite E.
Qed.

Lemma in_numbered {A} (l : list A) : forall i j x, In (j, x) (number_from i l) -> In x l.
Proof.
  induction l as [|y l IH]; intros i j x H; [contradiction|]. simpl in H. destruct H as [E | H].
  - injection E as _ ->. now left.
  - right. eapply IH. exact H.
Qed.

Lemma atom_facts w : atom_ok w = true ->
  w <> [] /\ no_sp w = true /\ forallb (fun c => negb (is_space c)) w = true
  /\ match w with c :: _ => Ascii.eqb c dq = false | [] => True end
  /\ forallb (fun c => negb (is_space c) && negb (Ascii.eqb c dq) && negb (Ascii.eqb c lpar) && negb (Ascii.eqb c rpar)) w = true.
Proof.
  unfold atom_ok. destruct w as [|c w]; [discriminate|]. intros H.
  assert (A : forall x, atom_char x = true -> is_space x = false /\ Ascii.eqb x dq = false /\ Ascii.eqb x lpar = false /\ Ascii.eqb x rpar = false).
  { intros x Hx. unfold atom_char in Hx. repeat (apply andb_true_iff in Hx as [Hx ?]).
    repeat match goal with X : negb _ = true |- _ => apply negb_true_iff in X end. auto. }
  split; [discriminate|]. split; [|split; [|split]].
  - unfold no_sp. apply negb_true_iff. apply not_true_is_false. intros E. apply existsb_exists in E as (x & Hin & Hx).
    apply Ascii.eqb_eq in Hx. subst x. rewrite forallb_forall in H. specialize (H _ Hin). apply A in H as [H _]. discriminate.
  - revert H. apply forallb_impl. intros x Hx. apply A in Hx as [-> _]. reflexivity.
  - simpl in H. apply andb_true_iff in H as [H _]. now apply A in H.
  - revert H. apply forallb_impl. intros x Hx. apply A in Hx as (-> & -> & -> & ->). reflexivity.
Qed.

Definition atomic (k : key) : Prop := match k with KNot _ | KOr _ _ | KGroup _ => False | _ => True end.

Section Step.
Variable f : nat.
Variables (nseq maxuid : Z).
Variable mb : list smsg.
Variables (i : Z) (sm : smsg).
Hypothesis Hin : In (i, sm) (numbered mb).
Hypothesis Hmb : mb_ok mb = true.
Notation m := (to_msg (i, sm)).
Notation EL := (eval_loop go_text m (S f)).
Notation EK := (eval_loop go_text m f).
Notation SP := (spec_eval nseq maxuid).

Lemma flag_step w : has_flag_go (m_flags m) w = has_flag sm w.
Proof.
  cbn [to_msg m_flags]. unfold has_flag. apply flag_test_go.
  unfold mb_ok in Hmb. rewrite forallb_forall in Hmb. apply Hmb. eapply in_numbered. exact Hin.
Qed.

Lemma text_step k : text_class k mb = None -> text_agree_on k (i, sm) = true.
Proof.
  unfold text_class. destruct (forallb (text_agree_on k) (numbered mb)) eqn:E; [|discriminate].
  intros _. rewrite forallb_forall in E. now apply E.
Qed.

(** keys other than NOT / OR *)
Lemma simple_step k rest : atomic k -> wf_key k = true -> simple_class k mb = None ->
  EL (key_tokens k ++ rest) = andk (SP k i sm) (EK rest).
Proof.
  intros Hat W C. destruct k; try contradiction; cbn [key_tokens app]; cbn [simple_class] in C; try discriminate.
  - (* ALL *) apply el_all.
  - (* has flag *) rewrite el_has. now rewrite flag_step.
  - (* un flag *) rewrite el_un. now rewrite flag_step.
  - (* NEW *) rewrite el_new. now rewrite !flag_step.
  - (* KEYWORD *) cbn [wf_key] in W. destruct (atom_facts w W) as (A1 & A2 & A3 & A4 & _).
    rewrite el_keyword, unquote_plain by assumption. now rewrite flag_step.
  - (* UNKEYWORD *) cbn [wf_key] in W. destruct (atom_facts w W) as (A1 & A2 & A3 & A4 & _).
    rewrite el_unkeyword, unquote_plain by assumption. now rewrite flag_step.
  - (* sequence set *) cbn [wf_key] in W. unfold set_class in C.
    destruct s as [|[[d|]|[a|] [b|]] [|? ?]]; try discriminate.
    + unfold set_ok in W. cbn in W. rewrite andb_true_r in W.
      destruct (numeral_digits d W) as [Hd Hne].
      unfold print_set. cbn [map join print_item print_snum].
      assert (U : to_upper d = d) by (apply to_upper_nolower; now apply digits_nolower).
      assert (G : is_group d = false).
      { destruct d as [|c0 d0]; [congruence|]. apply is_group_digit. cbn in Hd. now apply andb_true_iff in Hd. }
      rewrite el_seq; [| now rewrite U | rewrite U; now apply is_seqset_digits]. rewrite U, mss_one by exact W.
      cbn [to_msg m_seq spec_eval set_has existsb item_has snum_val]. now rewrite orb_false_r.
    + destruct (digits_val a 0 <=? digits_val b 0) eqn:Le; [|discriminate]. apply Z.leb_le in Le.
      unfold set_ok in W. cbn in W. rewrite andb_true_r in W. apply andb_true_iff in W as [Wa Wb].
      destruct (numeral_digits a Wa) as [Hda Hnea]. destruct (numeral_digits b Wb) as [Hdb Hneb].
      unfold print_set. cbn [map join print_item print_snum].
      assert (U : to_upper (a ++ colon :: b) = a ++ colon :: b).
      { apply to_upper_nolower. rewrite forallb_app. rewrite (digits_nolower a Hda). cbn [forallb]. now rewrite (digits_nolower b Hdb). }
      assert (G : is_group (a ++ colon :: b) = false).
      { destruct a as [|c0 a0]; [congruence|]. apply is_group_digit. cbn in Hda. now apply andb_true_iff in Hda. }
      rewrite el_seq; [| now rewrite U | rewrite U; now apply is_seqset_range]. rewrite U, mss_range by assumption.
      cbn [to_msg m_seq spec_eval set_has existsb item_has snum_val]. rewrite orb_false_r.
      now rewrite Z.min_l, Z.max_r by lia.
  - (* UID set *) cbn [wf_key] in W. unfold set_class in C.
    destruct s as [|[[d|]|[a|] [b|]] [|? ?]]; try discriminate.
    + unfold set_ok in W. cbn in W. rewrite andb_true_r in W.
      unfold print_set. cbn [map join print_item print_snum].
      rewrite el_uid, mss_one by exact W.
      cbn [to_msg m_uid spec_eval set_has existsb item_has snum_val]. now rewrite orb_false_r.
    + destruct (digits_val a 0 <=? digits_val b 0) eqn:Le; [|discriminate]. apply Z.leb_le in Le.
      unfold set_ok in W. cbn in W. rewrite andb_true_r in W. apply andb_true_iff in W as [Wa Wb].
      unfold print_set. cbn [map join print_item print_snum].
      rewrite el_uid, mss_range by assumption.
      cbn [to_msg m_uid spec_eval set_has existsb item_has snum_val]. rewrite orb_false_r.
      now rewrite Z.min_l, Z.max_r by lia.
  - (* BCC CC FROM SUBJECT TO *) rewrite el_hdr. unfold quote. rewrite unquote_quote.
    pose proof (text_step _ C) as A. cbn [text_agree_on snd] in A. apply eqb_prop in A. now rewrite A.
  - (* HEADER *) rewrite el_header. unfold quote. rewrite !unquote_quote.
    pose proof (text_step _ C) as A. cbn [text_agree_on snd] in A. apply eqb_prop in A. now rewrite A.
  - (* BODY *) rewrite el_body. unfold quote. rewrite unquote_quote.
    pose proof (text_step _ C) as A. cbn [text_agree_on snd] in A. apply eqb_prop in A. now rewrite A.
  - (* TEXT *) rewrite el_text. unfold quote. rewrite unquote_quote. reflexivity.
  - (* LARGER *) cbn [wf_key] in W. rewrite el_larger, (atoi_numeral n W). reflexivity.
  - (* SMALLER *) cbn [wf_key] in W. rewrite el_smaller, (atoi_numeral n W). reflexivity.
  - (* dates *) cbn [wf_key] in W. rewrite el_date.
    assert (U : unquote (print_date d) = print_date d).
    { pose proof (date_plain d W) as P. apply unquote_plain.
      - revert P. apply forallb_impl. intros x Hx. now repeat (apply andb_true_iff in Hx as [Hx _]).
      - destruct (print_date d) as [|x r]; [trivial|]. cbn [forallb] in P. apply andb_true_iff in P as [P _].
        repeat (apply andb_true_iff in P as [P ?]).
        repeat match goal with X : negb _ = true |- _ => apply negb_true_iff in X end. assumption. }
    rewrite U. destruct sent.
    + pose proof (text_step _ C) as A. cbn [text_agree_on snd] in A. apply eqb_prop in A. now rewrite A.
    + unfold matches_date. rewrite (parse_print_date d W). cbn [spec_eval to_msg m_idate].
      destruct (sdate_val d); reflexivity.
Qed.
End Step.
