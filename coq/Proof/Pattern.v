From Coq Require Import String Ascii List Bool Arith Lia.
From Raven Require Import Base.GoStr Model.Pattern Spec.Match.
Import ListNotations.

(** * The recursive reference matcher is the RFC relation *)

Lemma any_suffix_spec f t : any_suffix f t = true <-> exists s u, t = s ++ u /\ f u = true.
Proof.
  induction t as [|c t IH]; simpl.
  - rewrite orb_false_r. split.
    + intros H; exists [], []; auto.
    + intros (s & u & E & H). symmetry in E. apply app_eq_nil in E as [_ ->]. exact H.
  - rewrite orb_true_iff, IH. split.
    + intros [H | (s & u & -> & H)].
      * exists [], (c :: t); auto.
      * exists (c :: s), u; auto.
    + intros (s & u & E & H). destruct s as [|d s]; simpl in E.
      * left. now subst u.
      * right. injection E as -> ->. eauto.
Qed.

Lemma no_delim_spec t : no_delim t = true <-> ~ In delim t.
Proof.
  induction t as [|c t IH]; simpl; [tauto|].
  rewrite andb_true_iff, IH, negb_true_iff.
  destruct (Ascii.eqb_spec c delim); intuition congruence.
Qed.

Lemma any_suffix_nd_spec f t :
  any_suffix_nd f t = true <-> exists s u, t = s ++ u /\ ~ In delim s /\ f u = true.
Proof.
  induction t as [|c t IH]; simpl.
  - rewrite orb_false_r. split.
    + intros H; exists [], []; simpl; auto.
    + intros (s & u & E & _ & H). symmetry in E. apply app_eq_nil in E as [_ ->]. exact H.
  - rewrite orb_true_iff. split.
    + intros [H | H].
      * exists [], (c :: t); simpl; auto.
      * destruct (Ascii.eqb_spec c delim); [discriminate|].
        apply IH in H as (s & u & -> & Hn & H). exists (c :: s), u; simpl. intuition congruence.
    + intros (s & u & E & Hn & H). destruct s as [|d s]; simpl in E.
      * left. now subst u.
      * right. injection E as <- ->. simpl in Hn.
        destruct (Ascii.eqb_spec c delim); [intuition congruence|].
        apply IH. exists s, u; intuition.
Qed.

Lemma matches_star_nil t : Matches [star] t.
Proof. rewrite <- (app_nil_r t). apply M_star. constructor. Qed.

Theorem wm_correct p : forall t, wm p t = true <-> Matches p t.
Proof.
  induction p as [|c p IH]; intros t.
  - simpl. destruct t; split; intros H; try constructor; try discriminate; inversion H.
  - cbn [wm]. destruct (Ascii.eqb_spec c star) as [->|Hs].
    + destruct p as [|c' p'].
      * split; [intros _; apply matches_star_nil | auto].
      * rewrite any_suffix_spec. split.
        -- intros (s & u & -> & H). apply M_star. now apply IH.
        -- intros H. inversion H; subst; try congruence.
           eexists _, _; split; [reflexivity|]. now apply IH.
    + destruct (Ascii.eqb_spec c pct) as [->|Hp].
      * destruct p as [|c' p'].
        -- rewrite no_delim_spec. split.
           ++ intros H. rewrite <- (app_nil_r t). apply M_pct; [exact H | constructor].
           ++ intros H. inversion H; subst; try congruence.
              match goal with H' : Matches [] _ |- _ => inversion H'; subst end.
              now rewrite app_nil_r.
        -- rewrite any_suffix_nd_spec. split.
           ++ intros (s & u & -> & Hn & H). apply M_pct; [exact Hn | now apply IH].
           ++ intros H. inversion H; subst; try congruence.
              eexists _, _; split; [reflexivity|]. split; [assumption | now apply IH].
      * destruct t as [|d t].
        -- split; [discriminate | intros H; inversion H; subst; congruence].
        -- rewrite andb_true_iff, IH. destruct (Ascii.eqb_spec d c) as [->|Hd].
           ++ split; [intros [_ H]; now constructor | intros H; inversion H; subst; try congruence; auto].
           ++ split; [intros [H _]; discriminate | intros H; inversion H; subst; congruence].
Qed.

(** * The row-by-row matcher computes the reference on every suffix *)

Fixpoint suffixes (t : str) : list str :=
  t :: match t with [] => [] | _ :: t' => suffixes t' end.

(** the reference without its two "wildcard at end" shortcuts *)
Fixpoint wm' (p : str) : str -> bool :=
  match p with
  | [] => fun t => match t with [] => true | _ => false end
  | c :: p' =>
    if Ascii.eqb c star then fun t => any_suffix (wm' p') t
    else if Ascii.eqb c pct then fun t => any_suffix_nd (wm' p') t
    else fun t => match t with [] => false | d :: t' => Ascii.eqb d c && wm' p' t' end
  end.

Lemma any_suffix_nil_pat t : any_suffix (wm' []) t = true.
Proof. induction t as [|c t IH]; simpl; [reflexivity|exact IH]. Qed.

Lemma any_suffix_nd_nil_pat t : any_suffix_nd (wm' []) t = no_delim t.
Proof.
  induction t as [|c t IH]; simpl; [reflexivity|].
  destruct (Ascii.eqb c delim); simpl; [reflexivity|exact IH].
Qed.

Lemma any_suffix_ext f g t : (forall u, f u = g u) -> any_suffix f t = any_suffix g t.
Proof. intros E; induction t as [|c t IH]; simpl; rewrite E; [reflexivity|now rewrite IH]. Qed.

Lemma any_suffix_nd_ext f g t : (forall u, f u = g u) -> any_suffix_nd f t = any_suffix_nd g t.
Proof.
  intros E; induction t as [|c t IH]; simpl; rewrite E; [reflexivity|].
  destruct (Ascii.eqb c delim); [reflexivity|now rewrite IH].
Qed.

Lemma wm_wm' p : forall t, wm p t = wm' p t.
Proof.
  induction p as [|c p IH]; intros t; [reflexivity|].
  cbn [wm wm']. destruct (Ascii.eqb c star).
  - destruct p as [|c' p'].
    + now rewrite any_suffix_nil_pat.
    + apply any_suffix_ext, IH.
  - destruct (Ascii.eqb c pct).
    + destruct p as [|c' p'].
      * now rewrite any_suffix_nd_nil_pat.
      * apply any_suffix_nd_ext, IH.
    + destruct t as [|d t]; [reflexivity|]. now rewrite IH.
Qed.

Lemma row_init_spec t : row_init t = map (wm' []) (suffixes t).
Proof. induction t as [|c t IH]; simpl; [reflexivity|]. f_equal. exact IH. Qed.

Lemma hd_map_suffixes (f : str -> bool) t : hd false (map f (suffixes t)) = f t.
Proof. destruct t; reflexivity. Qed.

Lemma step_star_spec f t :
  step_star (map f (suffixes t)) = map (any_suffix f) (suffixes t).
Proof.
  induction t as [|c t IH].
  - simpl. now rewrite orb_false_r.
  - change (suffixes (c :: t)) with ((c :: t) :: suffixes t).
    cbn [map step_star]. rewrite IH, hd_map_suffixes. reflexivity.
Qed.

Lemma step_pct_spec f t :
  step_pct t (map f (suffixes t)) = map (any_suffix_nd f) (suffixes t).
Proof.
  induction t as [|c t IH].
  - simpl. now rewrite orb_false_r.
  - change (suffixes (c :: t)) with ((c :: t) :: suffixes t).
    cbn [map step_pct]. rewrite IH, hd_map_suffixes. f_equal.
    cbn [any_suffix_nd]. destruct (Ascii.eqb c delim); simpl;
      rewrite ?andb_false_r, ?andb_true_r; reflexivity.
Qed.

Lemma step_chr_spec c f t :
  step_chr c t (map f (suffixes t)) =
  map (fun u => match u with [] => false | d :: u' => Ascii.eqb d c && f u' end) (suffixes t).
Proof.
  induction t as [|d t IH]; [reflexivity|].
  change (suffixes (d :: t)) with ((d :: t) :: suffixes t).
  cbn [map step_chr]. rewrite hd_map_suffixes, IH. reflexivity.
Qed.

Theorem row_spec p t : row p t = map (wm' p) (suffixes t).
Proof.
  induction p as [|c p IH]; cbn [row fold_right].
  - apply row_init_spec.
  - fold (row p t). rewrite IH. unfold row_step. cbn [wm'].
    destruct (Ascii.eqb c star); [apply step_star_spec|].
    destruct (Ascii.eqb c pct); [apply step_pct_spec|].
    apply step_chr_spec.
Qed.

Theorem dp_match_wm t p : dp_match t p = wm p t.
Proof. unfold dp_match. now rewrite row_spec, hd_map_suffixes, wm_wm'. Qed.

Theorem dp_match_correct p t : dp_match t p = true <-> Matches p t.
Proof. rewrite dp_match_wm. apply wm_correct. Qed.

(** * Cost: the number of row cells written is bounded by (|p|+1)(|t|+1) *)

Theorem row_cost_bound p t : row_cost p t <= (S (length p)) * (S (length t)).
Proof.
  induction p as [|c p IH]; cbn [row_cost fold_right length].
  - lia.
  - fold (row_cost p t).
    destruct (Ascii.eqb c star); [|destruct (Ascii.eqb c pct)]; lia.
Qed.

(** the rows really have |t|+1 cells, so the bound counts what is computed *)
Lemma row_length p t : length (row p t) = S (length t).
Proof.
  rewrite row_spec, map_length. induction t as [|c t IH]; simpl; [reflexivity|].
  simpl in IH. now rewrite IH.
Qed.
