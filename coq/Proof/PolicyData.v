(** C17 — DATA phase: DeliverMessage / DeliverToMultipleRecipients / handleDATA
    against the documented delivery rules. *)
From Coq Require Import String Ascii List Bool Arith ZArith Lia.
From Raven Require Import Base.GoStr Model.Policy Spec.Policy Proof.PolicySpam Proof.PolicyRcpt.
Import ListNotations.
Local Open Scope Z_scope.

Definition to_mo (r : deliver_result) : moutcome :=
  match r with D_ok st f => MFiled st f | D_err => MRefused end.

Lemma spec_folder_nonempty cfg m : cfg_ok cfg -> spec_folder cfg m <> [].
Proof. unfold cfg_ok, spec_folder. intros H. destruct (spec_spam (m_headers m)); [discriminate | exact H]. Qed.

Lemma file_into_ok d st f m : f <> [] ->
  file_into d st f m = (D_ok st f, add_msg d (mkFiled st f (m_size m))).
Proof. intros H. unfold file_into. destruct f; [contradiction | reflexivity]. Qed.

(* ---- facts about the user table ---- *)

Lemma enabled_exists d n dom : get_user_by_username d n dom = true -> user_exists d n dom = true.
Proof.
  unfold get_user_by_username, user_exists. rewrite !existsb_exists.
  intros [u [Hin H]]. apply andb_true_iff in H as [H _]. now exists u.
Qed.

Lemma disabled_exists d n dom : user_disabled d n dom = true -> user_exists d n dom = true.
Proof.
  unfold user_disabled, user_exists. rewrite !existsb_exists.
  intros [u [Hin H]]. apply andb_true_iff in H as [H _]. now exists u.
Qed.

Lemma exists_split d n dom :
  user_exists d n dom = true -> get_user_by_username d n dom = false -> user_disabled d n dom = true.
Proof.
  unfold user_exists, get_user_by_username, user_disabled. intros H1 H2.
  apply existsb_exists in H1 as [u [Hin Hu]]. apply existsb_exists. exists u. split; [exact Hin|].
  rewrite Hu. cbn [andb]. destruct (u_enabled u) eqn:E; [|reflexivity].
  exfalso. assert (X : existsb (fun u => user_is n dom u && u_enabled u) (users d) = true).
  { apply existsb_exists. exists u. split; [exact Hin | now rewrite Hu, E]. }
  congruence.
Qed.

Lemma user_is_same n dom u v : user_is n dom u = true -> user_is (u_name u) (u_domain u) v = user_is n dom v.
Proof. intros H. apply user_is_names in H as [-> ->]. reflexivity. Qed.

Lemma unique_not_both us n dom :
  users_unique us = true ->
  existsb (fun u => user_is n dom u && u_enabled u) us = true ->
  existsb (fun u => user_is n dom u && negb (u_enabled u)) us = true -> False.
Proof.
  induction us as [|u us IH]; cbn [users_unique existsb]; [discriminate|].
  intros HU HE HD. apply andb_true_iff in HU as [HN HU]. apply negb_true_iff in HN.
  apply orb_true_iff in HE. apply orb_true_iff in HD.
  assert (W : forall f, existsb (fun v => user_is n dom v && f v) us = true ->
                        user_is n dom u = true -> False).
  { intros f Hf Hu. apply existsb_exists in Hf as [v [Hin Hv]]. apply andb_true_iff in Hv as [Hv _].
    assert (X : existsb (user_is (u_name u) (u_domain u)) us = true).
    { apply existsb_exists. exists v. split; [exact Hin|]. now rewrite (user_is_same n dom u v Hu). }
    congruence. }
  destruct HE as [HE|HE], HD as [HD|HD].
  - apply andb_true_iff in HE as [_ E1]. apply andb_true_iff in HD as [_ E2]. rewrite E1 in E2. discriminate.
  - apply andb_true_iff in HE as [E1 _]. exact (W _ HD E1).
  - apply andb_true_iff in HD as [E1 _]. exact (W _ HE E1).
  - exact (IH HU HE HD).
Qed.

Lemma unique_add us n dom :
  users_unique us = true -> existsb (user_is n dom) us = false ->
  users_unique (us ++ [mkUser n dom true]) = true.
Proof.
  induction us as [|u us IH]; cbn [users_unique existsb app]; [reflexivity|].
  intros HU HN. apply andb_true_iff in HU as [H1 H2]. apply orb_false_iff in HN as [N1 N2].
  rewrite (IH H2 N2), andb_true_r. rewrite existsb_app. apply negb_true_iff in H1. rewrite H1.
  cbn [existsb orb]. rewrite orb_false_r. apply negb_true_iff.
  unfold user_is in *. cbn [u_name u_domain].
  destruct (str_eqb n (u_name u)) eqn:E1; [|reflexivity].
  destruct (str_eqb dom (u_domain u)) eqn:E2; [|reflexivity].
  apply str_eqb_eq in E1, E2. rewrite <- E1, <- E2, !str_eqb_refl in N1. discriminate.
Qed.

(* ---- one delivery ---- *)

Lemma deliver_one cfg d a m :
  cfg_ok cfg -> wf_db d ->
  to_mo (fst (deliver_message d a m (default_folder cfg))) = erase (fst (spec_deliver cfg false d a m)) /\
  snd (deliver_message d a m (default_folder cfg)) = snd (spec_deliver cfg false d a m) /\
  wf_db (snd (spec_deliver cfg false d a m)).
Proof.
  intros Hcfg Hwf. unfold deliver_message, spec_deliver in *.
  rewrite spam_routing. unfold extract_local_part, extract_domain.
  destruct (extract_parts a) as [[n dom]|]; cbn [option_map fst snd]; [|auto].
  change (get_role_mailbox_by_email d a) with (is_role d a).
  change (user_row_exists d n dom) with (user_exists d n dom).
  pose proof (spec_folder_nonempty cfg m Hcfg) as HF.
  destruct (is_role d a) eqn:ER; cbn [negb andb orb] in *.
  - rewrite file_into_ok by exact HF. cbn [fst snd to_mo erase]. auto.
  - destruct (get_user_by_username d n dom) eqn:EG.
    + assert (ED : user_disabled d n dom = false).
      { destruct (user_disabled d n dom) eqn:ED; [|reflexivity]. exfalso.
        exact (unique_not_both (users d) n dom Hwf EG ED). }
      rewrite ED in *. rewrite (enabled_exists d n dom EG).
      rewrite file_into_ok by exact HF. cbn [fst snd to_mo erase]. auto.
    + destruct (user_exists d n dom) eqn:EU.
      * rewrite (exists_split d n dom EU EG). cbn [fst snd to_mo erase]. auto.
      * assert (ED : user_disabled d n dom = false).
        { destruct (user_disabled d n dom) eqn:ED; [|reflexivity].
          apply disabled_exists in ED. congruence. }
        rewrite ED in *. rewrite file_into_ok by exact HF.
        cbn [fst snd to_mo erase]. repeat split.
        unfold wf_db, add_msg, add_user. cbn [users]. now apply unique_add.
Qed.

(** a recipient over quota: refused, nothing changes *)
Lemma spec_over_refused cfg d a m : exists w, spec_deliver cfg true d a m = (Refused w, d).
Proof.
  unfold spec_deliver. destruct (extract_parts a) as [[n dom]|]; [|now exists WhySyntax].
  destruct (negb (is_role d a) && user_disabled d n dom); [now exists WhyDisabled | now exists WhyQuota].
Qed.

(* ---- all deliveries (recipients within quota) ---- *)

Lemma deliver_all cfg m over : forall acc d,
  cfg_ok cfg -> wf_db d -> (forall r, In r acc -> over r = false) ->
  map (fun kv => to_mo (snd kv)) (fst (deliver_to_multiple d acc m (default_folder cfg)))
    = map erase (fst (spec_deliver_all cfg over d acc m)) /\
  map fst (fst (deliver_to_multiple d acc m (default_folder cfg))) = acc /\
  snd (deliver_to_multiple d acc m (default_folder cfg)) = snd (spec_deliver_all cfg over d acc m).
Proof.
  induction acc as [|a acc IH]; intros d Hcfg Hwf HO; [cbn; auto|].
  cbn [deliver_to_multiple spec_deliver_all] in *.
  rewrite (HO a (or_introl eq_refl)).
  destruct (deliver_one cfg d a m Hcfg Hwf) as [D1 [D2 D3]].
  destruct (spec_deliver cfg false d a m) as [o d1] eqn:ES.
  destruct (deliver_message d a m (default_folder cfg)) as [res d1'] eqn:EM.
  cbn [fst snd] in D1, D2, D3. subst d1'.
  destruct (IH d1 Hcfg D3 (fun r H => HO r (or_intror H))) as [I1 [I2 I3]].
  destruct (spec_deliver_all cfg over d1 acc m) as [os d2] eqn:ESA.
  destruct (deliver_to_multiple d1 acc m (default_folder cfg)) as [more d2'] eqn:EDM.
  cbn [fst snd map] in *.
  repeat split; [now rewrite D1, I1 | now rewrite I2 | exact I3].
Qed.

(* ---- recipients over quota are skipped ---- *)

(** put MRefused at the positions of the recipients over quota *)
Fixpoint weave (over : str -> bool) (acc : list str) (xs : list moutcome) : list moutcome :=
  match acc with
  | [] => []
  | r :: acc' =>
      if over r then MRefused :: weave over acc' xs
      else match xs with
           | x :: xs' => x :: weave over acc' xs'
           | [] => []
           end
  end.

Lemma spec_weave cfg m over : forall acc d,
  map erase (fst (spec_deliver_all cfg over d acc m))
    = weave over acc (map erase (fst (spec_deliver_all cfg over d (filter (fun r => negb (over r)) acc) m))) /\
  snd (spec_deliver_all cfg over d acc m)
    = snd (spec_deliver_all cfg over d (filter (fun r => negb (over r)) acc) m).
Proof.
  induction acc as [|a acc IH]; intros d; [cbn; auto|].
  cbn [spec_deliver_all filter weave].
  destruct (over a) eqn:EO; cbn [negb].
  - destruct (spec_over_refused cfg d a m) as [w E]. rewrite E.
    destruct (IH d) as [I1 I2].
    destruct (spec_deliver_all cfg over d acc m) as [os d2].
    cbn [fst snd map erase] in *. now rewrite I1, I2.
  - cbn [spec_deliver_all]. rewrite EO.
    destruct (spec_deliver cfg false d a m) as [o d1].
    destruct (IH d1) as [I1 I2].
    destruct (spec_deliver_all cfg over d1 acc m) as [os d2].
    destruct (spec_deliver_all cfg over d1 (filter (fun r => negb (over r)) acc) m) as [os' d2'].
    cbn [fst snd map erase] in *. now rewrite I1, I2.
Qed.
