(** C09: STORE <set> +FLAGS (Junk) (auto-move) moves exactly the denoted
    messages, and the untagged EXPUNGE numbers replay to the new mailbox
    (HandleStore after d84f911: sequence numbers resolved against a snapshot). *)
From Coq Require Import String Ascii List Bool Arith ZArith Lia.
From Raven Require Import Base.GoStr Base.GoStrZ Model.SeqSet Model.Expunge Spec.SeqSet
  Proof.SeqSetStr Proof.SeqSetParse Proof.ExpungeReplay.
Import ListNotations.
Local Open Scope Z_scope.

Definition drop_uid (u : Z) (l : list msg) : list msg := filter (fun m => negb (m_uid m =? u)) l.

Lemma ascending_prefix_lt pre u post : ascending (pre ++ u :: post) -> forall x, In x pre -> x < u.
Proof.
  induction pre as [|y pre IH]; intros H x Hx; [contradiction|].
  destruct Hx as [->|Hx].
  - apply (ascending_lt x (pre ++ u :: post) H). apply in_or_app. right. now left.
  - apply IH; [now apply ascending_tail in H | exact Hx].
Qed.

Lemma drop_uid_split pre m post :
  ascending (map m_uid (pre ++ m :: post)) -> drop_uid (m_uid m) (pre ++ m :: post) = pre ++ post.
Proof.
  intros H. rewrite map_app in H. cbn [map] in H.
  unfold drop_uid. rewrite filter_app. cbn [filter]. rewrite Z.eqb_refl. cbn [negb]. f_equal.
  - pose proof (ascending_prefix_lt _ _ _ H) as L. clear H.
    induction pre as [|x pre IH]; [reflexivity|]. cbn [filter map] in *.
    replace (m_uid x =? m_uid m) with false by (symmetry; apply Z.eqb_neq; specialize (L (m_uid x) (or_introl eq_refl)); lia).
    cbn [negb]. f_equal. apply IH. intros y Hy. apply L. now right.
  - assert (A : ascending (m_uid m :: map m_uid post)).
    { clear -H. induction (map m_uid pre) as [|y l IH]; [exact H|]. apply IH. now apply ascending_tail in H. }
    pose proof (ascending_lt _ _ A) as L. clear H A.
    induction post as [|x post IH]; [reflexivity|]. cbn [filter map] in *.
    replace (m_uid x =? m_uid m) with false by (symmetry; apply Z.eqb_neq; specialize (L (m_uid x) (or_introl eq_refl)); lia).
    cbn [negb]. f_equal. apply IH. intros y Hy. apply L. now right.
Qed.

Lemma filter_all_true {A} (f : A -> bool) l : (forall x, In x l -> f x = true) -> filter f l = l.
Proof.
  induction l as [|x l IH]; intros H; [reflexivity|]. cbn [filter].
  rewrite (H x (or_introl eq_refl)). f_equal. apply IH. intros y Hy. apply H. now right.
Qed.

Lemma remove_one_id pre m post :
  NoDup (map m_id (pre ++ m :: post)) -> remove_ids [m_id m] (pre ++ m :: post) = pre ++ post.
Proof.
  intros H. rewrite map_app in H. cbn [map] in H. pose proof (NoDup_remove_2 _ _ _ H) as N.
  assert (K : forall x, In x (pre ++ post) -> negb (existsb (Z.eqb (m_id x)) [m_id m]) = true).
  { intros x Hx. cbn [existsb]. rewrite orb_false_r. apply negb_true_iff. apply Z.eqb_neq. intros E.
    apply N. rewrite <- E. apply in_or_app. apply in_app_or in Hx. destruct Hx; [left | right]; now apply in_map. }
  unfold remove_ids. rewrite filter_app. cbn [filter existsb]. rewrite Z.eqb_refl. cbn [orb negb].
  rewrite !filter_all_true; [reflexivity | |]; intros x Hx; apply K; apply in_or_app; auto.
Qed.

Lemma nodup_ids_filter (f : msg -> bool) l : NoDup (map m_id l) -> NoDup (map m_id (filter f l)).
Proof.
  induction l as [|x l IH]; intros H; [constructor|]. inversion H as [|? ? Hx Hl]; subst.
  cbn [filter]. destruct (f x); [|now apply IH]. cbn [map]. constructor; [|now apply IH].
  intros C. apply Hx. apply in_map_iff in C. destruct C as (y & E & Hy). apply filter_In in Hy.
  rewrite <- E. apply in_map. tauto.
Qed.

(** one step: the row with uid u is present *)
Lemma junk_step (cur : list msg) m :
  ascending (map m_uid cur) -> NoDup (map m_id cur) ->
  find (fun x => m_uid x =? m_uid m) cur = Some m ->
  remove_ids [m_id m] cur = drop_uid (m_uid m) cur
  /\ apply_expunge cur (rank_of (map m_uid cur) (m_uid m)) = drop_uid (m_uid m) cur.
Proof.
  intros Ha Hn Hf. apply find_some in Hf. destruct Hf as [Hin _].
  apply in_split in Hin. destruct Hin as (pre & post & ->).
  rewrite remove_one_id by exact Hn. rewrite drop_uid_split by exact Ha. split; [reflexivity|].
  rewrite map_app. cbn [map]. rewrite rank_position by (rewrite map_app in Ha; exact Ha).
  unfold apply_expunge. rewrite map_length.
  replace (Z.of_nat (length pre) + 1 <? 1) with false by (symmetry; apply Z.ltb_ge; lia).
  replace (Z.to_nat (Z.of_nat (length pre) + 1 - 1)) with (length pre) by lia.
  apply remove_nth_app.
Qed.

Lemma find_uid_some (cur : list msg) u : In u (map m_uid cur) ->
  exists m, find (fun x => m_uid x =? u) cur = Some m /\ m_uid m = u.
Proof.
  induction cur as [|x cur IH]; [contradiction|]. cbn [map find]. intros [E|H].
  - exists x. rewrite E, Z.eqb_refl. auto.
  - destruct (m_uid x =? u) eqn:Q; [exists x; apply Z.eqb_eq in Q; auto | now apply IH].
Qed.

Lemma find_uid_none (cur : list msg) u : ~ In u (map m_uid cur) ->
  find (fun x => m_uid x =? u) cur = None /\ drop_uid u cur = cur.
Proof.
  induction cur as [|x cur IH]; [auto|]. cbn [map find]. intros H.
  assert (m_uid x <> u) by (intros E; apply H; now left).
  assert (~ In u (map m_uid cur)) by (intros C; apply H; now right).
  destruct (IH H1) as [F D]. unfold drop_uid in *. cbn [filter].
  replace (m_uid x =? u) with false by (symmetry; now apply Z.eqb_neq). cbn [negb]. now rewrite F, D.
Qed.

(** the uids targeted by the sequence numbers of the list *)
Definition targets (uids0 : list Z) (seqs : list Z) : list Z :=
  flat_map (fun s => if s >? Z.of_nat (length uids0) then [] else [nth (Z.to_nat (s - 1)) uids0 0]) seqs.

Definition drop_uids (us : list Z) (l : list msg) : list msg :=
  filter (fun m => negb (existsb (Z.eqb (m_uid m)) us)) l.

Lemma drop_uids_cons u us l : drop_uids (u :: us) l = drop_uids us (drop_uid u l).
Proof.
  unfold drop_uids, drop_uid. induction l as [|x l IH]; [reflexivity|]. cbn [filter existsb] in *.
  destruct (m_uid x =? u) eqn:E; cbn [orb negb]; [exact IH|].
  cbn [filter]. destruct (existsb (Z.eqb (m_uid x)) us); cbn [negb]; [exact IH | now rewrite IH].
Qed.

Lemma junk_loop_correct uids0 : forall seqs cur,
  ascending (map m_uid cur) -> NoDup (map m_id cur) ->
  let '(ns, ids, mb) := store_junk_loop uids0 seqs cur in
  replay ns cur = mb /\ mb = drop_uids (targets uids0 seqs) cur.
Proof.
  induction seqs as [|s r IH]; intros cur Ha Hn.
  - cbn. split; [reflexivity|]. unfold drop_uids. cbn [existsb negb].
    induction cur as [|x l IHl]; [reflexivity|]. cbn [filter]. f_equal. apply IHl.
    + now apply ascending_tail in Ha.
    + now inversion Hn.
  - cbn [store_junk_loop targets flat_map]. fold (targets uids0 r).
    destruct (s >? Z.of_nat (length uids0)) eqn:G.
    + cbn [app]. now apply IH.
    + cbn [app]. set (u := nth (Z.to_nat (s - 1)) uids0 0).
      rewrite drop_uids_cons.
      destruct (in_dec Z.eq_dec u (map m_uid cur)) as [Hin|Hout].
      * destruct (find_uid_some cur u Hin) as (m & Hf & Hu). rewrite Hf.
        rewrite <- Hu in Hf. destruct (junk_step cur m Ha Hn Hf) as [R1 R2]. rewrite Hu in R1, R2.
        rewrite R1.
        assert (Ha' : ascending (map m_uid (drop_uid u cur))) by now apply ascending_filter.
        assert (Hn' : NoDup (map m_id (drop_uid u cur))) by now apply nodup_ids_filter.
        specialize (IH (drop_uid u cur) Ha' Hn').
        destruct (store_junk_loop uids0 r (drop_uid u cur)) as [[ns ids] mb].
        destruct IH as [I1 I2]. split; [|exact I2].
        rewrite replay_cons, R2. exact I1.
      * destruct (find_uid_none cur u Hout) as [F D]. rewrite F, D. now apply IH.
Qed.

Theorem junk_store_exact : forall (s : seqset) (mbox : list msg),
  wf s = true -> Z.of_nat (length mbox) <= max_int64 ->
  ascending (map m_uid mbox) -> NoDup (map m_id mbox) ->
  let '(notices, ids, mbox') := handle_store_junk (print s) mbox in
  replay notices mbox = mbox'
  /\ forall m, In m mbox' <->
       (In m mbox /\ ~ exists i, In i (addressed s (Z.of_nat (length mbox))) /\ nth1 (map m_uid mbox) i 0 = m_uid m).
Proof.
  intros s mbox H Hlen Ha Hn. unfold handle_store_junk.
  pose proof (junk_loop_correct (map m_uid mbox) (parse_seqset_db (print s) (Z.of_nat (length mbox))) mbox Ha Hn) as L.
  destruct (store_junk_loop _ _ mbox) as [[ns ids] mb]. destruct L as [L1 L2]. split; [exact L1|].
  assert (Ht : in64 (Z.of_nat (length mbox))) by (unfold in64; lia).
  intros m. rewrite L2. unfold drop_uids. rewrite filter_In, negb_true_iff.
  split; intros [Hin Hx]; (split; [exact Hin|]).
  - intros (i & Hi & Ei).
    assert (X : existsb (Z.eqb (m_uid m)) (targets (map m_uid mbox) (parse_seqset_db (print s) (Z.of_nat (length mbox)))) = true).
    { apply existsb_exists. exists (m_uid m). split; [|apply Z.eqb_refl].
      unfold targets. apply in_flat_map. exists i. split; [now apply store_set_exact|].
      pose proof (addressed_bounds _ _ _ Hi) as B. rewrite map_length.
      replace (i >? Z.of_nat (length mbox)) with false by (symmetry; rewrite Z.gtb_ltb; apply Z.ltb_ge; lia).
      left. exact Ei. }
    congruence.
  - destruct (existsb _ _) eqn:X; [|reflexivity]. exfalso. apply Hx.
    apply existsb_exists in X. destruct X as (u & Hu & Eu). apply Z.eqb_eq in Eu. subst u.
    unfold targets in Hu. apply in_flat_map in Hu. destruct Hu as (i & Hi & Hu).
    destruct (i >? Z.of_nat (length (map m_uid mbox))); [contradiction|].
    destruct Hu as [Hu|[]]. exists i. split; [now apply store_set_exact | exact Hu].
Qed.
