(** C17 — the header map of ParseMessage (canonical keys, first value) and
    isSpamByHeaders against the case-insensitive reading of the spec. *)
From Coq Require Import String Ascii List Bool Arith ZArith Lia.
From Raven Require Import Base.GoStr Base.GoStrFacts Model.Policy Spec.Policy.
Import ListNotations.

Lemma upper_lower c : upper_c (lower_c c) = upper_c c.
Proof. apply Ascii.eqb_eq. revert c. ascii_sweep (fun c => Ascii.eqb (upper_c (lower_c c)) (upper_c c)). Qed.

Lemma lower_upper c : lower_c (upper_c c) = lower_c c.
Proof. apply Ascii.eqb_eq. revert c. ascii_sweep (fun c => Ascii.eqb (lower_c (upper_c c)) (lower_c c)). Qed.

Lemma dash_upper c : Ascii.eqb (upper_c c) dash = Ascii.eqb c dash.
Proof.
  assert (K : Bool.eqb (Ascii.eqb (upper_c c) dash) (Ascii.eqb c dash) = true).
  { revert c. ascii_sweep (fun c => Bool.eqb (Ascii.eqb (upper_c c) dash) (Ascii.eqb c dash)). }
  now apply eqb_prop in K.
Qed.

Lemma dash_lower c : Ascii.eqb (lower_c c) dash = Ascii.eqb c dash.
Proof.
  assert (K : Bool.eqb (Ascii.eqb (lower_c c) dash) (Ascii.eqb c dash) = true).
  { revert c. ascii_sweep (fun c => Bool.eqb (Ascii.eqb (lower_c c) dash) (Ascii.eqb c dash)). }
  now apply eqb_prop in K.
Qed.

(** for a key already in canonical form, canonicalising a name gives the key
    exactly when the name equals the key up to ASCII case *)
Lemma canon_aux_fold k : forall up s, canon_aux up k = k ->
  (canon_aux up s = k <-> to_upper s = to_upper k).
Proof.
  induction k as [|d k IH]; intros up s Hk.
  - destruct s; simpl; split; intros H; try reflexivity; discriminate.
  - destruct s as [|c s]; [simpl; split; discriminate|].
    simpl in Hk. injection Hk as Hd Hk'.
    simpl. split.
    + intros H. injection H as Hc Hs.
      assert (E : Ascii.eqb c dash = Ascii.eqb d dash).
      { rewrite <- Hc. destruct up; [now rewrite dash_upper | now rewrite dash_lower]. }
      rewrite E in Hs. apply (IH _ _ Hk') in Hs. rewrite Hs. f_equal.
      rewrite <- Hc. destruct up; [now rewrite upper_c_idem | now rewrite upper_lower].
    + intros H. injection H as Hc Hs.
      assert (E : Ascii.eqb c dash = Ascii.eqb d dash).
      { rewrite <- (dash_upper c), <- (dash_upper d). now rewrite Hc. }
      rewrite E. apply (IH _ _ Hk') in Hs. rewrite Hs. f_equal.
      destruct up.
      * now rewrite Hc.
      * rewrite <- (lower_upper c), Hc, lower_upper. exact Hd.
Qed.

Lemma contains_byte_In s c : contains_byte s c = true <-> In c s.
Proof.
  unfold contains_byte. rewrite existsb_exists. split.
  - intros [x [Hin E]]. apply Ascii.eqb_eq in E. now subst.
  - intros H. exists c. split; [exact H | apply Ascii.eqb_refl].
Qed.

Lemma canonical_key_fold k s :
  contains_byte k " "%char = false -> canon_aux true k = k ->
  str_eqb (canonical_key s) k = equal_fold s k.
Proof.
  intros Hsp Hk. unfold canonical_key, equal_fold.
  destruct (contains_byte s " "%char) eqn:Cs.
  - assert (N1 : s <> k) by (intros ->; congruence).
    assert (N2 : to_upper s <> to_upper k).
    { intros E. apply contains_byte_In in Cs.
      assert (I : In " "%char (to_upper k)).
      { rewrite <- E. unfold to_upper. change " "%char with (upper_c " "%char). now apply in_map. }
      unfold to_upper in I. apply in_map_iff in I as [x [Hx Hin]].
      apply (upper_c_fix_inv " "%char) in Hx; [|reflexivity|reflexivity]. subst x.
      apply contains_byte_In in Hin. congruence. }
    destruct (str_eqb_spec s k); [contradiction|].
    destruct (str_eqb_spec (to_upper s) (to_upper k)); [contradiction|reflexivity].
  - pose proof (canon_aux_fold k true s Hk) as [A B].
    destruct (str_eqb_spec (canon_aux true s) k) as [E|N];
    destruct (str_eqb_spec (to_upper s) (to_upper k)) as [E'|N']; auto; exfalso; auto.
Qed.

Lemma find_ext' {A} (f g : A -> bool) l : (forall x, f x = g x) -> find f l = find g l.
Proof. intros H. induction l as [|x l IH]; simpl; [reflexivity|]. rewrite H, IH. reflexivity. Qed.

Lemma header_map_action hs : header_map hs K_action = first_header hs K_action.
Proof.
  unfold header_map, first_header. f_equal. apply find_ext'. intros kv.
  apply canonical_key_fold; reflexivity.
Qed.

Lemma header_map_status hs : header_map hs K_status = first_header hs K_status.
Proof.
  unfold header_map, first_header. f_equal. apply find_ext'. intros kv.
  apply canonical_key_fold; reflexivity.
Qed.

Lemma is_spam_spec hs : is_spam_by_headers (header_map hs) = spec_spam hs.
Proof.
  unfold is_spam_by_headers, spec_spam.
  rewrite header_map_action, header_map_status.
  destruct (first_header hs K_action) as [v|]; [|reflexivity].
  unfold spam_actions. cbn [existsb]. rewrite orb_false_r.
  set (a := to_lower (trim_space v)).
  rewrite !(orb_assoc).
  destruct (str_eqb a (S_ "reject") || str_eqb a (S_ "rewrite subject") || str_eqb a (S_ "add header")); reflexivity.
Qed.

Lemma spam_routing cfg m :
  determine_target_folder (header_map (m_headers m)) (default_folder cfg) = spec_folder cfg m.
Proof. unfold determine_target_folder, spec_folder. now rewrite is_spam_spec. Qed.

(** the spec in words *)
Lemma spec_spam_meaning hs :
  spec_spam hs = true <->
  (exists v, first_header hs K_action = Some v /\ In (to_lower (trim_space v)) spam_actions) \/
  (exists v r, first_header hs K_status = Some v /\ to_lower (trim_space v) = S_ "yes" ++ r).
Proof.
  unfold spec_spam. rewrite orb_true_iff. split.
  - intros [H|H]; [left|right].
    + destruct (first_header hs K_action) as [v|]; [|discriminate].
      exists v. split; [reflexivity|]. apply existsb_exists in H as [x [Hin E]].
      apply str_eqb_eq in E. now subst.
    + destruct (first_header hs K_status) as [v|]; [|discriminate].
      apply has_prefix_spec in H as [r E]. now exists v, r.
  - intros [[v [E Hin]]|[v [r [E P]]]]; [left|right]; rewrite E.
    + apply existsb_exists. exists (to_lower (trim_space v)). split; [exact Hin | apply str_eqb_refl].
    + apply has_prefix_spec. now exists r.
Qed.
