(** C19 — the command line: utils.SplitCommandLine (Model/CmdTokenizer.v, fix
    2599345) followed by the re-join with single blanks gives back the printed
    program: quoted strings keep their blanks, also inside parenthesised lists. *)
From Coq Require Import String Ascii List Bool Arith NArith ZArith Lia.
From Raven Require Import Base.GoStr Base.GoStrFacts Model.Search Model.SearchText Spec.Search Model.SearchClass
  Proof.SearchTok Proof.SearchAtoms Proof.SearchDate Proof.SearchEval Proof.SearchToks.
From Raven Require Model.CmdTokenizer Spec.CmdArgs Proof.CmdTokenizer Model.SeqSet Spec.SeqSet Proof.FetchSearchExact.
Import ListNotations.
Local Arguments Ascii.eqb : simpl never.

Module T := Raven.Model.CmdTokenizer.
Module A := Raven.Spec.CmdArgs.
Module P := Raven.Proof.CmdTokenizer.

(** a blank-free piece of the line: a word, or a quoted string followed by a
    (possibly empty) blank-free tail such as the ")" that closes a list *)
Inductive chunk := CW (w : str) | CQ (v tail : str).
Definition render (c : chunk) : str := match c with CW w => w | CQ v t => quote v ++ t end.
Definition chunk_ok (c : chunk) : bool :=
  match c with
  | CW w => A.atom_ok w
  | CQ v t => string_ok v && forallb A.atom_c t
  end.
Definition line_of (cs : list chunk) : str := join (map render cs) [sp].

Lemma esc_id v : string_ok v = true -> P.esc v = v.
Proof.
  induction v as [|c v IH]; intros H; [reflexivity|]. cbn [string_ok forallb] in H. apply andb_true_iff in H as [Hc Hv].
  unfold qchar_ok in Hc. repeat (apply andb_true_iff in Hc as [Hc ?]).
  repeat match goal with X : negb _ = true |- _ => apply negb_true_iff in X end.
  unfold P.esc in *. cbn [flat_map]. change T.DQUOTE with dq. change T.BSLASH with backslash.
  rewrite Hc, H1. cbn [orb app]. f_equal. now apply IH.
Qed.

Lemma split_one_chunk c rest fuel : chunk_ok c = true -> P.boundary rest ->
  T.split_quoted (S fuel) (render c ++ rest) = render c :: T.split_quoted fuel rest.
Proof.
  intros H B. destruct c as [w|v t]; cbn [chunk_ok render] in *.
  - exact (P.split_one A.AtomForm w rest fuel H B).
  - apply andb_true_iff in H as [Hv Ht]. unfold quote.
    change ((dq :: v ++ [dq]) ++ t) with (dq :: (v ++ [dq]) ++ t). cbn [app].
    cbn [T.split_quoted drop_while]. change (is_space dq) with false. cbv iota.
    change (Ascii.eqb dq T.DQUOTE) with true. cbv iota.
    replace (((v ++ [dq]) ++ t) ++ rest) with (P.esc v ++ T.DQUOTE :: (t ++ rest))
      by (rewrite (esc_id v Hv); rewrite <- !app_assoc; reflexivity).
    rewrite P.quoted_end_esc. rewrite (P.span_word t rest (P.atom_nospace t Ht) B).
    rewrite (esc_id v Hv). reflexivity.
Qed.

Lemma render_nonempty c : chunk_ok c = true -> render c <> [].
Proof.
  destruct c as [w|v t]; cbn [chunk_ok render]; intros H.
  - unfold A.atom_ok in H. apply andb_true_iff in H as [_ H]. destruct w; [discriminate H | discriminate].
  - discriminate.
Qed.

Lemma line_cons c d cs : line_of (c :: d :: cs) = render c ++ sp :: line_of (d :: cs).
Proof. reflexivity. Qed.

Lemma line_cons' c l : l <> [] -> line_of (c :: l) = render c ++ sp :: line_of l.
Proof. destruct l; [congruence | reflexivity]. Qed.

Lemma line_length cs : forallb chunk_ok cs = true -> (length cs <= length (line_of cs))%nat.
Proof.
  induction cs as [|c cs IH]; intros H; [cbn; lia|]. cbn [forallb] in H. apply andb_true_iff in H as [Hc H].
  pose proof (render_nonempty c Hc) as N. destruct cs as [|d cs].
  - unfold line_of. cbn [map join length]. destruct (render c); [congruence | cbn; lia].
  - rewrite line_cons, app_length. cbn [length]. specialize (IH H). destruct (render c); [congruence|]. cbn [length] in *. lia.
Qed.

Lemma split_chunks cs : forall fuel, (length cs < fuel)%nat -> forallb chunk_ok cs = true ->
  T.split_quoted fuel (line_of cs) = map render cs.
Proof.
  induction cs as [|c cs IH]; intros fuel L H.
  - apply P.split_nil.
  - cbn [forallb] in H. apply andb_true_iff in H as [Hc H]. destruct fuel as [|fuel]; [cbn in L; lia|].
    destruct cs as [|d cs].
    + unfold line_of. cbn [map join]. rewrite <- (app_nil_r (render c)) at 1.
      rewrite (split_one_chunk c [] fuel Hc (or_introl eq_refl)), P.split_nil. reflexivity.
    + rewrite line_cons. rewrite (split_one_chunk c _ fuel Hc); [|right; eexists; eexists; split; reflexivity].
      destruct fuel as [|fuel']; [cbn in L; lia|].
      rewrite (P.split_skip_space fuel' sp _ eq_refl). cbn [map]. f_equal. apply IH; [cbn [length] in *; lia | exact H].
Qed.

Lemma no_quote_words cs : forallb chunk_ok cs = true -> contains_byte (line_of cs) T.DQUOTE = false ->
  forallb flag_ok (map render cs) = true.
Proof.
  induction cs as [|c cs IH]; intros H Q; [reflexivity|]. cbn [forallb] in H. apply andb_true_iff in H as [Hc H].
  assert (Qc : contains_byte (render c) T.DQUOTE = false /\ (cs <> [] -> contains_byte (line_of cs) T.DQUOTE = false)).
  { destruct cs as [|d cs].
    - unfold line_of in Q. cbn [map join] in Q. split; [exact Q | congruence].
    - rewrite line_cons in Q. unfold contains_byte in *. rewrite existsb_app in Q. apply orb_false_iff in Q as [Q1 Q2].
      cbn [existsb] in Q2. apply orb_false_iff in Q2 as [_ Q2]. split; [exact Q1 | intros _; exact Q2]. }
  destruct Qc as [Qc Qr]. cbn [map forallb]. apply andb_true_iff. split.
  - destruct c as [w|v t]; cbn [render chunk_ok] in *.
    + unfold A.atom_ok in Hc. apply andb_true_iff in Hc as [Ha Ne]. unfold flag_ok. destruct w; [discriminate Ne|].
      exact (P.atom_nospace _ Ha).
    + unfold quote, contains_byte in Qc. cbn [existsb] in Qc. change (Ascii.eqb T.DQUOTE dq) with true in Qc. discriminate.
  - destruct cs as [|d cs]; [reflexivity|]. apply IH; [exact H | apply Qr; discriminate].
Qed.

(** SplitCommandLine returns the chunks; re-joined with single blanks they are the line again *)
Theorem split_line_chunks cs : forallb chunk_ok cs = true -> T.split_command_line (line_of cs) = map render cs.
Proof.
  intros H. unfold T.split_command_line. destruct (contains_byte (line_of cs) T.DQUOTE) eqn:Q.
  - apply split_chunks; [|exact H]. pose proof (line_length cs H). lia.
  - unfold line_of. apply fields_join. now apply no_quote_words.
Qed.

Corollary rejoin_line cs : forallb chunk_ok cs = true -> join (T.split_command_line (line_of cs)) [sp] = line_of cs.
Proof. intros H. now rewrite split_line_chunks. Qed.

(** ** the chunks of a printed program *)
Definition tok_chunk (t : str) : chunk :=
  match t with
  | c :: r => if Ascii.eqb c dq then CQ (removelast r) [] else CW t
  | [] => CW []
  end.
Definition add_open (cs : list chunk) : list chunk :=
  match cs with CW w :: r => CW (lpar :: w) :: r | _ => cs end.
Fixpoint add_close (cs : list chunk) : list chunk :=
  match cs with
  | [] => []
  | [CW w] => [CW (w ++ [rpar])]
  | [CQ v t] => [CQ v (t ++ [rpar])]
  | c :: r => c :: add_close r
  end.
Fixpoint key_chunks (k : key) : list chunk :=
  match k with
  | KNot k' => CW (S_ "NOT") :: key_chunks k'
  | KOr a b => CW (S_ "OR") :: key_chunks a ++ key_chunks b
  | KGroup l => add_open (add_close (flat_map key_chunks l))
  | _ => map tok_chunk (key_tokens k)
  end.

Definition head_word (cs : list chunk) : Prop := exists w r, cs = CW w :: r.

Lemma join_app (a b : list str) : a <> [] -> b <> [] -> join (a ++ b) [sp] = join a [sp] ++ sp :: join b [sp].
Proof.
  intros Na Nb. induction a as [|x a IH]; [congruence|]. destruct a as [|y a].
  - destruct b; [congruence|]. reflexivity.
  - change (join ((x :: y :: a) ++ b) [sp]) with (x ++ sp :: join ((y :: a) ++ b) [sp]).
    rewrite IH by discriminate. change (join (x :: y :: a) [sp]) with (x ++ sp :: join (y :: a) [sp]).
    now rewrite <- app_assoc.
Qed.

Lemma line_app a b : a <> [] -> b <> [] -> line_of (a ++ b) = line_of a ++ sp :: line_of b.
Proof. intros Na Nb. unfold line_of. rewrite map_app. apply join_app; now destruct a, b. Qed.

Lemma add_close_line cs : cs <> [] -> line_of (add_close cs) = line_of cs ++ [rpar].
Proof.
  induction cs as [|c cs IH]; [congruence|]. intros _. destruct cs as [|d cs].
  - destruct c; unfold line_of; cbn [add_close map join render]; [reflexivity | now rewrite app_assoc].
  - assert (E : add_close (c :: d :: cs) = c :: add_close (d :: cs)) by (destruct c; reflexivity).
    rewrite E. assert (N : add_close (d :: cs) <> []) by (destruct d, cs; discriminate).
    rewrite (line_cons' c _ N), line_cons. rewrite IH by discriminate. now rewrite <- app_assoc.
Qed.

Lemma add_close_ok cs : forallb chunk_ok cs = true -> forallb chunk_ok (add_close cs) = true.
Proof.
  induction cs as [|c cs IH]; intros H; [reflexivity|]. cbn [forallb] in H. apply andb_true_iff in H as [Hc H].
  destruct cs as [|d cs].
  - destruct c as [w|v t]; cbn [add_close forallb chunk_ok] in *; rewrite andb_true_r in *.
    + unfold A.atom_ok in *. apply andb_true_iff in Hc as [Ha Ne]. rewrite forallb_app, Ha. destruct w; [discriminate Ne | reflexivity].
    + apply andb_true_iff in Hc as [Hv Ht]. now rewrite Hv, forallb_app, Ht.
  - assert (E : add_close (c :: d :: cs) = c :: add_close (d :: cs)) by (destruct c; reflexivity).
    rewrite E. cbn [forallb]. now rewrite Hc, IH.
Qed.

Lemma add_close_head cs : head_word cs -> head_word (add_close cs).
Proof.
  intros (w & r & ->). destruct r as [|d r]; [exists (w ++ [rpar]), []; reflexivity|].
  exists w, (add_close (d :: r)). reflexivity.
Qed.

Lemma add_open_line cs : head_word cs -> line_of (add_open cs) = lpar :: line_of cs.
Proof. intros (w & r & ->). cbn [add_open]. destruct r; reflexivity. Qed.

Lemma add_open_ok cs : head_word cs -> forallb chunk_ok cs = true -> forallb chunk_ok (add_open cs) = true.
Proof.
  intros (w & r & ->) H. cbn [add_open forallb chunk_ok] in *. apply andb_true_iff in H as [Hw Hr]. rewrite Hr, andb_true_r.
  unfold A.atom_ok in *. apply andb_true_iff in Hw as [Ha _]. cbn [forallb]. now rewrite Ha.
Qed.

(** characters of plain tokens are atom characters of the command line *)
Lemma plainish_atom (p : ascii -> bool) : (forall c, negb (p c) || A.atom_c c = true) ->
  forall t, forallb p t = true -> forallb A.atom_c t = true.
Proof. intros H t. apply forallb_impl. intros c Hc. specialize (H c). now rewrite Hc in H. Qed.

Lemma digit_atomc c : negb (is_digit c) || A.atom_c c = true.
Proof. revert c. ascii_sweep (fun c => negb (is_digit c) || A.atom_c c). Qed.
Lemma seqchar_atomc c : negb (FetchSearchExact.seqchar c) || A.atom_c c = true.
Proof. revert c. ascii_sweep (fun c => negb (FetchSearchExact.seqchar c) || A.atom_c c). Qed.
Lemma atomchar_atomc c : negb (atom_char c) || A.atom_c c = true.
Proof. revert c. ascii_sweep (fun c => negb (atom_char c) || A.atom_c c). Qed.

Lemma word_chunk t : A.atom_ok t = true -> tok_chunk t = CW t /\ chunk_ok (CW t) = true.
Proof.
  intros H. split; [|exact H]. unfold A.atom_ok in H. apply andb_true_iff in H as [Ha Ne].
  destruct t as [|c r]; [discriminate Ne|]. cbn [forallb] in Ha. apply andb_true_iff in Ha as [Hc _].
  apply P.atom_c_inv in Hc as [_ Q]. unfold tok_chunk. change T.DQUOTE with dq in Q. now rewrite Q.
Qed.

Lemma quote_chunk v : string_ok v = true -> tok_chunk (quote v) = CQ v [] /\ chunk_ok (CQ v []) = true.
Proof.
  intros H. unfold quote, tok_chunk. change (Ascii.eqb dq dq) with true. cbv iota. rewrite removelast_last.
  split; [reflexivity|]. cbn [chunk_ok forallb]. now rewrite H.
Qed.

Lemma atomok_of (t : str) : t <> [] -> forallb A.atom_c t = true -> A.atom_ok t = true.
Proof. intros N H. unfold A.atom_ok. rewrite H. destruct t; [congruence | reflexivity]. Qed.

Lemma date_atomc d : date_ok d = true -> forallb A.atom_c (print_date d) = true.
Proof.
  destruct d as [[dd mon] yyyy]. unfold date_ok.
  intros H. repeat (apply andb_true_iff in H as [H ?]).
  pose proof (plainish_atom _ digit_atomc) as D.
  destruct (sdate_val (dd, mon, yyyy)) eqn:Ev; [|discriminate]. unfold sdate_val in Ev.
  destruct ((1 <=? mon)%Z && (mon <=? 12)%Z) eqn:Em; [|discriminate].
  apply andb_true_iff in Em as [E1 E2]. apply Z.leb_le in E1, E2.
  assert (M : (mon = 1 \/ mon = 2 \/ mon = 3 \/ mon = 4 \/ mon = 5 \/ mon = 6 \/ mon = 7 \/ mon = 8 \/ mon = 9 \/ mon = 10 \/ mon = 11 \/ mon = 12)%Z) by lia.
  unfold print_date. rewrite forallb_app. apply andb_true_iff. split; [now apply D|].
  repeat (destruct M as [-> | M]); try subst mon; simpl; now apply D.
Qed.

Ltac fa := repeat first [apply Forall_nil | apply Forall_cons].

Lemma simple_chunks k : atomic k -> wf_key k = true ->
  forallb chunk_ok (map tok_chunk (key_tokens k)) = true /\ head_word (map tok_chunk (key_tokens k))
  /\ line_of (map tok_chunk (key_tokens k)) = join (key_tokens k) [sp].
Proof.
  intros Hat W.
  assert (G : forall ts, Forall (fun t => A.atom_ok t = true \/ exists v, t = quote v /\ string_ok v = true) ts ->
              forallb chunk_ok (map tok_chunk ts) = true /\ map render (map tok_chunk ts) = ts).
  { induction 1 as [|t ts Ht _ [I1 I2]]; [split; reflexivity|]. cbn [map forallb]. destruct Ht as [Ha | (v & -> & Hv)].
    - destruct (word_chunk t Ha) as [-> O]. cbn [render]. now rewrite O, I1, I2.
    - destruct (quote_chunk v Hv) as [-> O]. cbn [render]. rewrite app_nil_r. now rewrite O, I1, I2. }
  assert (K : forall t, A.atom_ok t = true -> A.atom_ok t = true \/ exists v, t = quote v /\ string_ok v = true) by (intros; now left).
  assert (Q : forall v, string_ok v = true -> A.atom_ok (quote v) = true \/ exists v', quote v = quote v' /\ string_ok v' = true)
    by (intros v Hv; right; now exists v).
  assert (HW : forall t ts, A.atom_ok t = true -> head_word (map tok_chunk (t :: ts))).
  { intros t ts Ha. cbn [map]. destruct (word_chunk t Ha) as [-> _]. now eexists; eexists. }
  assert (F : Forall (fun t => A.atom_ok t = true \/ exists v, t = quote v /\ string_ok v = true) (key_tokens k)
              /\ exists t ts, key_tokens k = t :: ts /\ A.atom_ok t = true).
  { destruct k; try contradiction; cbn [key_tokens wf_key] in *.
    - split; [fa; left; reflexivity | do 2 eexists; split; reflexivity].
    - split; [fa; left; destruct f; reflexivity | do 2 eexists; split; [reflexivity | destruct f; reflexivity]].
    - split; [fa; left; destruct f; reflexivity | do 2 eexists; split; [reflexivity | destruct f; reflexivity]].
    - split; [fa; left; reflexivity | do 2 eexists; split; reflexivity].
    - destruct (atom_facts w W) as (N & _). assert (Aw : A.atom_ok w = true).
      { apply atomok_of; [exact N|]. unfold atom_ok in W. destruct w; [discriminate|]. now apply (plainish_atom _ atomchar_atomc). }
      split; [fa; left; [reflexivity | exact Aw] | do 2 eexists; split; reflexivity].
    - destruct (atom_facts w W) as (N & _). assert (Aw : A.atom_ok w = true).
      { apply atomok_of; [exact N|]. unfold atom_ok in W. destruct w; [discriminate|]. now apply (plainish_atom _ atomchar_atomc). }
      split; [fa; left; [reflexivity | exact Aw] | do 2 eexists; split; reflexivity].
    - unfold set_ok in W. destruct (print_set_facts s W) as (_ & _ & HD & SC).
      assert (As : A.atom_ok (Spec.SeqSet.print s) = true).
      { apply atomok_of; [intros E; rewrite E in HD; discriminate | now apply (plainish_atom _ seqchar_atomc)]. }
      split; [fa; now left | do 2 eexists; split; [reflexivity | exact As]].
    - unfold set_ok in W. destruct (print_set_facts s W) as (_ & _ & HD & SC).
      assert (As : A.atom_ok (Spec.SeqSet.print s) = true).
      { apply atomok_of; [intros E; rewrite E in HD; discriminate | now apply (plainish_atom _ seqchar_atomc)]. }
      split; [fa; [left; reflexivity | now left] | do 2 eexists; split; reflexivity].
    - split; [fa; [left; destruct h; reflexivity | now apply Q] | do 2 eexists; split; [reflexivity | destruct h; reflexivity]].
    - apply andb_true_iff in W as [W1 W2].
      split; [fa; [left; reflexivity | apply Q; now apply field_name_string | now apply Q] | do 2 eexists; split; reflexivity].
    - split; [fa; [left; reflexivity | now apply Q] | do 2 eexists; split; reflexivity].
    - split; [fa; [left; reflexivity | now apply Q] | do 2 eexists; split; reflexivity].
    - destruct (numeral_digits n W) as [Hd Hne].
      split; [fa; left; [reflexivity | apply atomok_of; [exact Hne | now apply (plainish_atom _ digit_atomc)]] | do 2 eexists; split; reflexivity].
    - destruct (numeral_digits n W) as [Hd Hne].
      split; [fa; left; [reflexivity | apply atomok_of; [exact Hne | now apply (plainish_atom _ digit_atomc)]] | do 2 eexists; split; reflexivity].
    - assert (Ad : A.atom_ok (print_date d) = true).
      { apply atomok_of; [|now apply date_atomc]. destruct d as [[dd mon] yyyy]. unfold print_date. intros E. destruct dd; cbn [app] in E; discriminate E. }
      split; [fa; left; [destruct sent, c; reflexivity | exact Ad] | do 2 eexists; split; [reflexivity | destruct sent, c; reflexivity]].
    - unfold unknown_ok in W. apply andb_true_iff in W as [W _]. apply andb_true_iff in W as [W _].
      destruct (atom_facts name W) as (N & _). assert (An : A.atom_ok name = true).
      { apply atomok_of; [exact N|]. unfold atom_ok in W. destruct name; [discriminate|]. now apply (plainish_atom _ atomchar_atomc). }
      split; [fa; now left | do 2 eexists; split; [reflexivity | exact An]]. }
  destruct F as [F (t & ts & E & Ha)]. destruct (G _ F) as [G1 G2]. split; [exact G1|]. split.
  - rewrite E. now apply HW.
  - unfold line_of. now rewrite G2.
Qed.

Lemma head_word_nonempty cs : head_word cs -> cs <> [].
Proof. intros (w & r & ->). discriminate. Qed.

Lemma flat_chunks l :
  Forall (fun k => forallb chunk_ok (key_chunks k) = true /\ head_word (key_chunks k)
                   /\ line_of (key_chunks k) = join (key_tokens k) [sp]) l -> l <> [] ->
  forallb chunk_ok (flat_map key_chunks l) = true /\ head_word (flat_map key_chunks l)
  /\ line_of (flat_map key_chunks l) = join (flat_map key_tokens l) [sp].
Proof.
  induction 1 as [|k l (O & Hd & L) _ IH]; [congruence|]. intros _. cbn [flat_map].
  destruct l as [|k2 l].
  - cbn [flat_map]. rewrite !app_nil_r. auto.
  - destruct (IH ltac:(discriminate)) as (O2 & Hd2 & L2). split; [|split].
    + rewrite forallb_app. now rewrite O, O2.
    + destruct Hd as (w & r & E). rewrite E. now exists w, (r ++ flat_map key_chunks (k2 :: l)).
    + rewrite line_app by (now apply head_word_nonempty). rewrite L, L2.
      symmetry. apply join_app; [apply key_tokens_nonempty|].
      cbn [flat_map]. intros E. apply app_eq_nil in E as [E _]. now apply key_tokens_nonempty in E.
Qed.

Lemma key_chunks_ok k : wf_key k = true ->
  forallb chunk_ok (key_chunks k) = true /\ head_word (key_chunks k) /\ line_of (key_chunks k) = join (key_tokens k) [sp].
Proof.
  induction k as [k A0 | k IH | a b IHa IHb | l IH] using key_ind2; intros W.
  - assert (E : key_chunks k = map tok_chunk (key_tokens k)) by (destruct k; try reflexivity; contradiction).
    rewrite E. now apply simple_chunks.
  - cbn [wf_key key_chunks key_tokens] in *. destruct (IH W) as (O & Hd & L). split; [|split].
    + cbn [forallb]. now rewrite O.
    + now exists (S_ "NOT"), (key_chunks k).
    + rewrite (line_cons' (CW (S_ "NOT")) _ (head_word_nonempty _ Hd)). rewrite L. cbn [render].
      pose proof (key_tokens_nonempty k). destruct (key_tokens k); [congruence | reflexivity].
  - cbn [wf_key key_chunks key_tokens] in *. apply andb_true_iff in W as [W1 W2].
    destruct (IHa W1) as (O1 & Hd1 & L1). destruct (IHb W2) as (O2 & Hd2 & L2). split; [|split].
    + cbn [forallb]. rewrite forallb_app. now rewrite O1, O2.
    + now exists (S_ "OR"), (key_chunks a ++ key_chunks b).
    + assert (N : key_chunks a ++ key_chunks b <> []) by (destruct Hd1 as (w & r & ->); discriminate).
      rewrite (line_cons' (CW (S_ "OR")) _ N). rewrite line_app by (now apply head_word_nonempty). rewrite L1, L2. cbn [render].
      rewrite <- (join_app (key_tokens a) (key_tokens b)) by apply key_tokens_nonempty.
      pose proof (key_tokens_nonempty a). destruct (key_tokens a ++ key_tokens b) eqn:E; [|reflexivity].
      apply app_eq_nil in E as [E _]. congruence.
  - cbn [wf_key key_chunks key_tokens] in *. apply andb_true_iff in W as [W Ne].
    assert (Nl : l <> []) by (destruct l; [discriminate Ne | discriminate]).
    assert (F : Forall (fun k => forallb chunk_ok (key_chunks k) = true /\ head_word (key_chunks k)
                                 /\ line_of (key_chunks k) = join (key_tokens k) [sp]) l).
    { rewrite forallb_forall in W. rewrite Forall_forall in *. intros k Hk. apply IH; auto. }
    destruct (flat_chunks l F Nl) as (O & Hd & L).
    pose proof (add_close_head _ Hd) as Hd'. split; [|split].
    + apply add_open_ok; [exact Hd' | now apply add_close_ok].
    + destruct Hd' as (w & r & ->). now exists (lpar :: w), r.
    + rewrite add_open_line by exact Hd'. rewrite add_close_line by (now apply head_word_nonempty). rewrite L.
      unfold line_of. reflexivity.
Qed.

Definition prog_chunks (ks : list key) : list chunk := flat_map key_chunks ks.

Lemma prog_chunks_ok ks : wf_prog ks = true ->
  forallb chunk_ok (prog_chunks ks) = true /\ line_of (prog_chunks ks) = print_prog ks.
Proof.
  unfold wf_prog. destruct ks as [|k ks]; [discriminate|]. intros W.
  assert (F : Forall (fun k => forallb chunk_ok (key_chunks k) = true /\ head_word (key_chunks k)
                               /\ line_of (key_chunks k) = join (key_tokens k) [sp]) (k :: ks)).
  { rewrite forallb_forall in W. apply Forall_forall. intros x Hx. apply key_chunks_ok. now apply W. }
  destruct (flat_chunks _ F ltac:(discriminate)) as (O & _ & L). split; [exact O | exact L].
Qed.

(** the printed program survives SplitCommandLine and the re-join with single blanks *)
Theorem rejoin_prog ks : wf_prog ks = true ->
  join (T.split_command_line (print_prog ks)) [sp] = print_prog ks.
Proof.
  intros W. destruct (prog_chunks_ok ks W) as [O L]. rewrite <- L. now apply rejoin_line.
Qed.

Lemma split_prog_head ks : wf_prog ks = true ->
  exists w r, T.split_command_line (print_prog ks) = w :: r /\ A.atom_ok w = true.
Proof.
  intros W. destruct (prog_chunks_ok ks W) as [O L]. rewrite <- L, (split_line_chunks _ O).
  unfold wf_prog in W. destruct ks as [|k ks]; [discriminate|]. cbn [forallb] in W. apply andb_true_iff in W as [Wk _].
  destruct (key_chunks_ok k Wk) as (Ok & (w & r & E) & _). unfold prog_chunks. cbn [flat_map]. rewrite E. cbn [map app render].
  exists w, (map render r ++ map render (flat_map key_chunks ks)). rewrite map_app. split; [reflexivity|].
  rewrite E in Ok. cbn [forallb chunk_ok] in Ok. now apply andb_true_iff in Ok as [? _].
Qed.

(** the first field of a program of the fragment is never the word CHARSET *)
Lemma first_word_not_charset mb k : wf_key k = true -> key_class k mb = None ->
  exists w r, key_chunks k = CW w :: r /\ str_eqb (to_upper w) (S_ "CHARSET") = false.
Proof.
  intros W C. destruct k; cbn [key_class simple_class] in C; try discriminate.
  all: try (cbn [key_chunks key_tokens map]; do 2 eexists; split; [reflexivity | reflexivity]).
  - cbn [key_chunks key_tokens map]. do 2 eexists. split; [destruct f; reflexivity | destruct f; reflexivity].
  - cbn [key_chunks key_tokens map]. do 2 eexists. split; [destruct f; reflexivity | destruct f; reflexivity].
  - cbn [wf_key] in W. unfold set_ok in W. destruct (print_set_facts s W) as (U & _ & HD & SC).
    assert (As : A.atom_ok (Spec.SeqSet.print s) = true).
    { apply atomok_of; [intros E; rewrite E in HD; discriminate | now apply (plainish_atom _ seqchar_atomc)]. }
    cbn [key_chunks key_tokens map]. destruct (word_chunk _ As) as [-> _]. do 2 eexists. split; [reflexivity|].
    rewrite U. destruct (head_cases _ HD) as (c & r & -> & [D | ->]).
    + change (S_ "CHARSET") with ("C"%char :: S_ "HARSET"). cbn [str_eqb].
      destruct (Ascii.eqb_spec c "C"%char) as [->|_]; [discriminate D | reflexivity].
    + reflexivity.
  - cbn [key_chunks key_tokens map]. do 2 eexists. split; [destruct h; reflexivity | destruct h; reflexivity].
  - cbn [key_chunks key_tokens map]. do 2 eexists. split; [destruct sent, c; reflexivity | destruct sent, c; reflexivity].
  - (* parenthesised list *) cbn [wf_key] in W. apply andb_true_iff in W as [W Ne].
    destruct l as [|k l]; [discriminate Ne|]. cbn [forallb] in W. apply andb_true_iff in W as [Wk _].
    destruct (key_chunks_ok k Wk) as (_ & (w & r & E) & _).
    cbn [key_chunks flat_map]. rewrite E. cbn [app].
    assert (X : exists w' r', add_close (CW w :: r ++ flat_map key_chunks l) = CW w' :: r').
    { destruct (r ++ flat_map key_chunks l) as [|d r'']; [now exists (w ++ [rpar]), [] | now exists w, (add_close (d :: r''))]. }
    destruct X as (w' & r' & ->). cbn [add_open]. do 2 eexists. split; reflexivity.
Qed.

Lemma first_field_not_charset ks mb : wf_prog ks = true -> classify ks mb = None ->
  str_eqb (to_upper (nth 0 (T.split_command_line (print_prog ks)) [])) (S_ "CHARSET") = false.
Proof.
  intros W C. destruct (prog_chunks_ok ks W) as [O L]. rewrite <- L, (split_line_chunks _ O).
  unfold wf_prog in W. destruct ks as [|k ks]; [discriminate|]. cbn [forallb] in W. apply andb_true_iff in W as [Wk _].
  cbn [classify] in C. destruct (key_class k mb) eqn:Ck; [discriminate|].
  destruct (first_word_not_charset mb k Wk Ck) as (w & r & E & N). unfold prog_chunks. cbn [flat_map]. rewrite E. exact N.
Qed.
