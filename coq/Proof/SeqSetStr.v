(** String-level lemmas used by the C09 proofs: itoa/atoi round trip,
    split/join, replace, trim on the printed form of sequence sets. *)
From Coq Require Import String Ascii List Bool Arith ZArith Lia.
From Raven Require Import Base.GoStr Base.GoStrFacts Base.GoStrZ.
Import ListNotations.
Local Open Scope Z_scope.

(** ---- digits are none of the structural bytes ---- *)
Definition digit_ok (c : ascii) : bool :=
  negb (is_digit c)
  || (negb (is_space c) && negb (Ascii.eqb c "*") && negb (Ascii.eqb c ",")
      && negb (Ascii.eqb c ":") && negb (Ascii.eqb c "-") && negb (Ascii.eqb c "+")).

Lemma digit_ok_all : forall c, digit_ok c = true.
Proof. ascii_sweep digit_ok. Qed.

Lemma digit_facts c : is_digit c = true ->
  is_space c = false /\ Ascii.eqb c "*" = false /\ Ascii.eqb c "," = false
  /\ Ascii.eqb c ":" = false /\ Ascii.eqb c "-" = false /\ Ascii.eqb c "+" = false.
Proof.
  intros H. pose proof (digit_ok_all c) as K. unfold digit_ok in K. rewrite H in K. simpl in K.
  repeat (apply andb_true_iff in K; destruct K as [K ?]).
  repeat match goal with H : negb _ = true |- _ => apply negb_true_iff in H end.
  repeat split; assumption.
Qed.

Lemma eqb_swap (a b : ascii) : Ascii.eqb a b = Ascii.eqb b a.
Proof. destruct (Ascii.eqb_spec a b), (Ascii.eqb_spec b a); congruence. Qed.

(** ---- itoa / atoi ---- *)
Lemma digits_val_app a b acc : digits_val (a ++ b) acc = digits_val b (digits_val a acc).
Proof. revert acc; induction a as [|c a IH]; intros acc; simpl; [reflexivity | apply IH]. Qed.

Lemma digit_of_mod n : 0 <= n ->
  is_digit (ascii_of_N (48 + Z.to_N (n mod 10))) = true
  /\ digit_val (ascii_of_N (48 + Z.to_N (n mod 10))) = n mod 10.
Proof.
  intros Hn. assert (B : 0 <= n mod 10 < 10) by (apply Z.mod_pos_bound; lia).
  remember (n mod 10) as m eqn:E. clear E.
  assert (D : m = 0 \/ m = 1 \/ m = 2 \/ m = 3 \/ m = 4 \/ m = 5 \/ m = 6 \/ m = 7 \/ m = 8 \/ m = 9) by lia.
  repeat (destruct D as [D|D]; [subst m; vm_compute; split; reflexivity|]).
  subst m; vm_compute; split; reflexivity.
Qed.

Lemma pos_digits_S f n acc :
  pos_digits (S f) n acc =
  if n <? 10 then ascii_of_N (48 + Z.to_N (n mod 10)) :: acc
  else pos_digits f (n / 10) (ascii_of_N (48 + Z.to_N (n mod 10)) :: acc).
Proof. reflexivity. Qed.

Lemma pos_digits_spec f : forall n acc, 0 <= n < 10 ^ Z.of_nat (S f) ->
  exists ds, pos_digits (S f) n acc = ds ++ acc /\ ds <> [] /\ forallb is_digit ds = true
             /\ forall a, digits_val ds a = a * 10 ^ Z.of_nat (length ds) + n.
Proof.
  induction f as [|f IH]; intros n acc [Hn Hlt].
  - change (10 ^ Z.of_nat 1) with 10 in Hlt.
    destruct (digit_of_mod n Hn) as [Hd Hv].
    exists [ascii_of_N (48 + Z.to_N (n mod 10))]. rewrite pos_digits_S.
    replace (n <? 10) with true by (symmetry; apply Z.ltb_lt; lia).
    split; [reflexivity|]. split; [discriminate|]. split; [cbn [forallb]; rewrite Hd; reflexivity|].
    intros a. cbn [digits_val length]. rewrite Hv. rewrite Z.mod_small by lia.
    change (10 ^ Z.of_nat 1) with 10. lia.
  - destruct (digit_of_mod n Hn) as [Hd Hv].
    rewrite pos_digits_S. destruct (n <? 10) eqn:E.
    + apply Z.ltb_lt in E. exists [ascii_of_N (48 + Z.to_N (n mod 10))].
      split; [reflexivity|]. split; [discriminate|]. split; [cbn [forallb]; rewrite Hd; reflexivity|].
      intros a. cbn [digits_val length]. rewrite Hv. rewrite Z.mod_small by lia.
      change (10 ^ Z.of_nat 1) with 10. lia.
    + apply Z.ltb_ge in E.
      assert (Hq : 0 <= n / 10 < 10 ^ Z.of_nat (S f)).
      { split; [apply Z.div_pos; lia|]. apply Z.div_lt_upper_bound; [lia|].
        rewrite (Nat2Z.inj_succ (S f)) in Hlt. rewrite Z.pow_succ_r in Hlt by lia. lia. }
      destruct (IH (n / 10) (ascii_of_N (48 + Z.to_N (n mod 10)) :: acc) Hq) as (ds & E1 & Hne & Hdig & Hval).
      exists (ds ++ [ascii_of_N (48 + Z.to_N (n mod 10))]).
      split; [rewrite E1, <- app_assoc; reflexivity|].
      split; [intros C; apply app_eq_nil in C; destruct C; discriminate|].
      split; [rewrite forallb_app, Hdig; cbn [forallb]; rewrite Hd; reflexivity|].
      intros a. rewrite digits_val_app, Hval. cbn [digits_val]. rewrite Hv.
      rewrite app_length. cbn [length]. rewrite Nat2Z.inj_add. change (Z.of_nat 1) with 1.
      rewrite Z.pow_add_r by lia. change (10 ^ 1) with 10.
      pose proof (Z.div_mod n 10 ltac:(lia)) as DM. lia.
Qed.

Lemma itoa_spec n : 0 <= n <= max_int64 ->
  exists ds, itoa n = ds /\ ds <> [] /\ forallb is_digit ds = true /\ digits_val ds 0 = n.
Proof.
  intros [H0 H1]. unfold itoa. replace (n <? 0) with false by (symmetry; apply Z.ltb_ge; lia).
  assert (B : max_int64 < 10 ^ Z.of_nat 70) by (vm_compute; reflexivity).
  destruct (pos_digits_spec 69 n [] ltac:(lia)) as (ds & E & Hne & Hd & Hv).
  exists ds. rewrite E, app_nil_r. repeat split; try assumption. rewrite Hv. lia.
Qed.

Lemma itoa_digits n : 0 <= n <= max_int64 -> forallb is_digit (itoa n) = true.
Proof. intros H. destruct (itoa_spec n H) as (ds & E & _ & Hd & _). now rewrite E. Qed.

Lemma itoa_nonempty n : 0 <= n <= max_int64 -> itoa n <> [].
Proof. intros H. destruct (itoa_spec n H) as (ds & E & Hne & _). now rewrite E. Qed.

Lemma atoi_digits ds : ds <> [] -> forallb is_digit ds = true -> digits_val ds 0 <= max_int64 ->
  atoi ds = Some (digits_val ds 0).
Proof.
  intros Hne Hd Hle. destruct ds as [|c ds]; [congruence|].
  assert (Hc : is_digit c = true) by (simpl in Hd; now apply andb_true_iff in Hd).
  destruct (digit_facts c Hc) as (_ & _ & _ & _ & Hm & Hp).
  unfold atoi. rewrite Hm, Hp. rewrite Hd.
  replace (digits_val (c :: ds) 0 <=? max_int64) with true by (symmetry; apply Z.leb_le; assumption).
  reflexivity.
Qed.

Lemma atoi_itoa n : 0 <= n <= max_int64 -> atoi (itoa n) = Some n.
Proof.
  intros H. destruct (itoa_spec n H) as (ds & E & Hne & Hd & Hv). rewrite E.
  rewrite atoi_digits; try assumption; [now rewrite Hv | lia].
Qed.

Lemma atoi_lossy_itoa n : 0 <= n <= max_int64 -> atoi_lossy (itoa n) = n.
Proof. intros H. unfold atoi_lossy. now rewrite atoi_itoa. Qed.

(** ---- bytes absent from a string ---- *)
Lemma digits_no_byte ds c : forallb is_digit ds = true -> is_digit c = false -> contains_byte ds c = false.
Proof.
  intros Hd Hc. unfold contains_byte. induction ds as [|d ds IH]; [reflexivity|].
  simpl in *. apply andb_true_iff in Hd. destruct Hd as [H1 H2].
  rewrite IH by assumption. destruct (Ascii.eqb_spec c d) as [->|]; [congruence | reflexivity].
Qed.

Lemma digits_no_space ds : forallb is_digit ds = true -> forallb (fun c => negb (is_space c)) ds = true.
Proof.
  induction ds as [|d ds IH]; [reflexivity|]. simpl. intros H. apply andb_true_iff in H. destruct H as [H1 H2].
  destruct (digit_facts d H1) as (Hs & _). now rewrite Hs, IH.
Qed.

Lemma contains_byte_app a b c : contains_byte (a ++ b) c = contains_byte a c || contains_byte b c.
Proof. unfold contains_byte. apply existsb_app. Qed.

(** ---- trim ---- *)
Lemma drop_while_none f s : forallb (fun c => negb (f c)) s = true -> drop_while f s = s.
Proof.
  destruct s as [|c s]; [reflexivity|]. simpl. intros H. apply andb_true_iff in H. destruct H as [H _].
  apply negb_true_iff in H. now rewrite H.
Qed.

Lemma forallb_rev {A} (f : A -> bool) l : forallb f (rev l) = forallb f l.
Proof.
  induction l as [|x l IH]; [reflexivity|]. simpl. rewrite forallb_app, IH. simpl.
  rewrite andb_true_r. apply andb_comm.
Qed.

Lemma trim_space_id s : forallb (fun c => negb (is_space c)) s = true -> trim_space s = s.
Proof.
  intros H. unfold trim_space, trim_f, trim_left_f, trim_right_f.
  rewrite (drop_while_none _ s H). rewrite drop_while_none by (now rewrite forallb_rev).
  apply rev_involutive.
Qed.

(** ---- split ---- *)
Lemma split_byte_aux_nosep s sep cur :
  contains_byte s sep = false -> split_byte_aux s sep cur = [rev cur ++ s].
Proof.
  revert cur; induction s as [|d s IH]; intros cur H; simpl.
  - now rewrite app_nil_r.
  - unfold contains_byte in H. simpl in H. apply orb_false_iff in H. destruct H as [H1 H2].
    rewrite eqb_swap, H1. rewrite IH by exact H2. simpl. now rewrite <- app_assoc.
Qed.

Lemma split_byte_aux_sep a rest sep cur :
  contains_byte a sep = false ->
  split_byte_aux (a ++ sep :: rest) sep cur = (rev cur ++ a) :: split_byte_aux rest sep [].
Proof.
  revert cur; induction a as [|d a IH]; intros cur H; simpl.
  - now rewrite Ascii.eqb_refl, app_nil_r.
  - unfold contains_byte in H. simpl in H. apply orb_false_iff in H. destruct H as [H1 H2].
    rewrite eqb_swap, H1. rewrite IH by exact H2. simpl. now rewrite <- app_assoc.
Qed.

Lemma split_byte_nosep s sep : contains_byte s sep = false -> split_byte s sep = [s].
Proof. intros H. unfold split_byte. now rewrite split_byte_aux_nosep. Qed.

Lemma split_byte_two a b sep :
  contains_byte a sep = false -> contains_byte b sep = false ->
  split_byte (a ++ [sep] ++ b) sep = [a; b].
Proof.
  intros Ha Hb. unfold split_byte. simpl. rewrite split_byte_aux_sep by exact Ha.
  rewrite split_byte_aux_nosep by exact Hb. reflexivity.
Qed.

Lemma split_join l sep :
  l <> [] -> Forall (fun x => contains_byte x sep = false) l ->
  split_byte (join l [sep]) sep = l.
Proof.
  induction l as [|x l IH]; [congruence|]. intros _ HF. inversion HF as [|? ? Hx Hl]; subst.
  destruct l as [|y l].
  - simpl. now apply split_byte_nosep.
  - change (join (x :: y :: l) [sep]) with (x ++ [sep] ++ join (y :: l) [sep]).
    unfold split_byte. simpl app. rewrite split_byte_aux_sep by exact Hx. simpl.
    f_equal. apply IH; [discriminate | exact Hl].
Qed.

(** ---- replace ---- *)
Lemma replace_byte_app a b c y : replace_byte (a ++ b) c y = replace_byte a c y ++ replace_byte b c y.
Proof. unfold replace_byte. apply flat_map_app. Qed.

Lemma replace_byte_id s c y : contains_byte s c = false -> replace_byte s c y = s.
Proof.
  unfold replace_byte, contains_byte. induction s as [|d s IH]; [reflexivity|]. simpl.
  intros H. apply orb_false_iff in H. destruct H as [H1 H2].
  rewrite eqb_swap, H1. simpl. now rewrite IH.
Qed.

Lemma replace_byte_join l sep c y :
  Ascii.eqb sep c = false ->
  replace_byte (join l [sep]) c y = join (map (fun x => replace_byte x c y) l) [sep].
Proof.
  intros Hs. induction l as [|x l IH]; [reflexivity|].
  destruct l as [|x2 l]; [reflexivity|].
  change (join (x :: x2 :: l) [sep]) with (x ++ [sep] ++ join (x2 :: l) [sep]).
  rewrite !replace_byte_app, IH.
  assert (E : replace_byte [sep] c y = [sep]) by (unfold replace_byte; simpl; now rewrite Hs).
  rewrite E. reflexivity.
Qed.

(** ---- integer ranges ---- *)
Lemma in_zseq lo cnt i : In i (zseq lo cnt) <-> lo <= i < lo + Z.of_nat cnt.
Proof.
  revert lo; induction cnt as [|c IH]; intros lo.
  - simpl. lia.
  - cbn [zseq In]. rewrite IH. lia.
Qed.

Lemma in_zrange lo hi i : In i (zrange lo hi) <-> lo <= i <= hi.
Proof. unfold zrange. rewrite in_zseq. lia. Qed.
