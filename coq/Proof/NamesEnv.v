(** C11 across restarts and the two services: INBOX is in the table after EVERY
    history of command lines, restarts and deliveries, so the table is never empty
    and opening a store ([open_store], db.createDefaultMailboxes) never changes it. *)
From Coq Require Import String Ascii List Bool Arith ZArith Lia.
From Raven Require Import Base.GoStr Base.GoStrFacts Model.Pattern Model.CmdTokenizer Model.Names Spec.Names
  Proof.NamesRange Proof.NamesUpdates Proof.NamesParents.
Import ListNotations.

Definition has_inbox (bs : list mbox) : Prop := In INBOX (names bs).

Lemma has_inbox_app bs l : has_inbox bs -> has_inbox (bs ++ l).
Proof. unfold has_inbox, names. rewrite map_app, in_app_iff. auto. Qed.

Lemma create_missing_keeps ps bs : has_inbox bs -> has_inbox (create_missing ps bs).
Proof. intros H. unfold has_inbox. rewrite create_missing_ok, add_missing_names. auto. Qed.

Lemma create_box_keeps bs n bs' : create_box bs n = Some bs' -> has_inbox bs -> has_inbox bs'.
Proof.
  unfold create_box. destruct (is_nil n); [discriminate|]. destruct (exists_box bs n); [discriminate|].
  intros E H. injection E as <-. now apply has_inbox_app.
Qed.

Lemma handle_create_keeps st parts : has_inbox (boxes st) -> has_inbox (boxes (fst (handle_create st parts))).
Proof.
  intros H. unfold handle_create.
  repeat match goal with |- context [if ?b then _ else _] => destruct b; try exact H end.
  - destruct (create_box _ _) eqn:E; simpl.
    + eapply create_box_keeps; [exact E|]. now apply create_missing_keeps.
    + now apply create_missing_keeps.
  - destruct (create_box _ _) eqn:E; simpl; [eapply create_box_keeps; eauto | exact H].
Qed.

Lemma upper_inbox_neq n : str_eqb (to_upper n) INBOX = false -> n <> INBOX.
Proof. intros H ->. vm_compute in H. discriminate. Qed.

Lemma filter_keeps bs n : n <> INBOX -> has_inbox bs -> has_inbox (filter (fun b => negb (str_eqb (mb_name b) n)) bs).
Proof.
  unfold has_inbox, names. intros Hn H. apply in_map_iff in H as (b & E & Hb). apply in_map_iff.
  exists b. split; [exact E|]. apply filter_In. split; [exact Hb|].
  apply negb_true_iff, str_eqb_neq. congruence.
Qed.

Lemma db_delete_keeps bs n : has_inbox bs -> has_inbox (fst (db_delete bs n)).
Proof.
  intros H. unfold db_delete. destruct (str_eqb (to_upper n) INBOX) eqn:E; [exact H|].
  repeat match goal with |- context [if ?b then _ else _] => destruct b; try exact H end.
  simpl. apply filter_keeps; [now apply upper_inbox_neq | exact H].
Qed.

Lemma handle_delete_keeps st parts : has_inbox (boxes st) -> has_inbox (boxes (fst (handle_delete st parts))).
Proof.
  intros H. unfold handle_delete.
  repeat match goal with |- context [if ?b then _ else _] => destruct b; try exact H end.
  pose proof (db_delete_keeps (boxes st) (parse_quoted (nth 2 parts [])) H) as K.
  destruct (db_delete _ _). exact K.
Qed.

Lemma set_name_keeps old new bs : old <> INBOX -> has_inbox bs -> has_inbox (set_name old new bs).
Proof.
  unfold has_inbox. intros Ho H. rewrite names_set_name. apply in_map_iff. exists INBOX. split; [|exact H].
  destruct (str_eqb_spec INBOX old); [congruence | reflexivity].
Qed.

Lemma apply_updates_keeps us : forall bs bs',
  apply_updates us bs = Some bs' -> ~ In INBOX (map fst us) -> has_inbox bs -> has_inbox bs'.
Proof.
  induction us as [|[c n] us IH]; intros bs bs' E Hn H; simpl in E.
  - now injection E as <-.
  - unfold upd_name in E. destruct (negb (str_eqb c n) && exists_box bs n); [discriminate|].
    apply (IH _ _ E); [simpl in Hn; tauto|]. apply set_name_keeps; [simpl in Hn; intuition congruence | exact H].
Qed.

Lemma child_updates_keys old new cs : forall us, child_updates old new cs = Some us -> map fst us = cs.
Proof.
  induction cs as [|c cs IH]; intros us E; simpl in E; [now injection E as <-|].
  destruct (slice_from c _); [|discriminate]. destruct (child_updates old new cs); [|discriminate].
  injection E as <-. simpl. f_equal. now apply IH.
Qed.

Lemma inbox_no_child old : is_child old INBOX = false.
Proof.
  destruct (is_child old INBOX) eqn:E; [|reflexivity]. apply is_child_split in E as [r E].
  assert (K : In delim INBOX) by (rewrite E; apply in_or_app; right; simpl; auto).
  exfalso. vm_compute in K. intuition discriminate.
Qed.

Lemma rename_inbox_keeps bs new : has_inbox bs -> has_inbox (fst (rename_inbox bs new)).
Proof.
  intros H. unfold rename_inbox. destruct (exists_box bs new); [exact H|].
  destruct (find _ bs); [|exact H].
  destruct (create_box _ new) eqn:E; simpl; [|now apply create_missing_keeps].
  assert (K : has_inbox l) by (eapply create_box_keeps; [exact E | now apply create_missing_keeps]).
  unfold has_inbox, names in *. apply in_map_iff in K as (b & Eb & Hb). rewrite map_map. apply in_map_iff.
  exists b. split; [|exact Hb]. rewrite Eb, str_eqb_refl. reflexivity.
Qed.

Lemma db_rename_keeps bs old new : has_inbox bs -> has_inbox (fst (db_rename bs old new)).
Proof.
  intros H. unfold db_rename. destruct (str_eqb (to_upper new) INBOX); [exact H|].
  destruct (str_eqb (to_upper old) INBOX) eqn:Eo; [now apply rename_inbox_keeps|].
  destruct (negb (exists_box bs old)); [exact H|]. destruct (exists_box bs new); [exact H|].
  destruct (child_updates _ _ _) as [us|] eqn:Eu; [|exact H].
  destruct (upd_name _ _ _) as [bs2|] eqn:E2; [|exact H].
  destruct (apply_updates us bs2) as [bs3|] eqn:E3; [|exact H]. simpl.
  apply (apply_updates_keeps us bs2 bs3 E3).
  - rewrite (child_updates_keys _ _ _ _ Eu). intros Hin. apply filter_In in Hin as [_ Hin].
    rewrite child_range_is_child, inbox_no_child in Hin. discriminate.
  - unfold upd_name in E2. destruct (negb (str_eqb old new) && exists_box _ new); [discriminate|].
    injection E2 as <-. apply set_name_keeps; [now apply upper_inbox_neq | now apply create_missing_keeps].
Qed.

Lemma handle_rename_keeps st parts : has_inbox (boxes st) -> has_inbox (boxes (fst (handle_rename st parts))).
Proof.
  intros H. unfold handle_rename.
  repeat match goal with |- context [if ?b then _ else _] => destruct b; try exact H end.
  pose proof (db_rename_keeps (boxes st) (parse_quoted (nth 2 parts [])) (parse_quoted (nth 3 parts [])) H) as K.
  destruct (db_rename _ _ _). exact K.
Qed.

Lemma add_link_name b tok : mb_name (fst (add_link b tok)) = mb_name b.
Proof. unfold add_link. destruct (existsb _ _); reflexivity. Qed.

Lemma replace_box_names bs (t : str) (b b' : mbox) :
  mb_name b' = t ->
  names (map (fun x => if str_eqb (mb_name x) t then b' else x) bs) = names bs.
Proof.
  intros E. unfold names. rewrite map_map. apply map_ext. intros x.
  destruct (str_eqb_spec (mb_name x) t) as [->|]; [exact E | reflexivity].
Qed.

Lemma find_name (t : str) bs b : find (fun b => str_eqb (mb_name b) t) bs = Some b -> mb_name b = t.
Proof. intros H. apply find_some in H as [_ H]. now apply str_eqb_eq. Qed.

Lemma handle_append_keeps st parts : has_inbox (boxes st) -> has_inbox (boxes (fst (handle_append st parts))).
Proof.
  intros H. unfold handle_append. destruct (length parts <? 3); [exact H|].
  destruct (find _ _) as [b|] eqn:Ef; [|exact H].
  pose proof (add_link_name b (next_msg st)) as En. destruct (add_link b (next_msg st)) as [b' ok]. simpl in *.
  unfold has_inbox. rewrite (replace_box_names _ _ b b'); [exact H|]. rewrite En. now apply find_name in Ef.
Qed.

Lemma dispatch_keeps st parts : has_inbox (boxes st) -> has_inbox (boxes (fst (fst (dispatch st parts)))).
Proof.
  intros H. unfold dispatch. destruct (length parts <? 2); [exact H|].
  repeat match goal with |- context [if str_eqb ?a ?b then _ else _] => destruct (str_eqb a b) end;
    try exact H; unfold plain; simpl.
  - now apply handle_create_keeps.
  - now apply handle_delete_keeps.
  - now apply handle_rename_keeps.
  - unfold handle_subscribe. repeat match goal with |- context [if ?b then _ else _] => destruct b; try exact H end.
  - unfold handle_unsubscribe. repeat match goal with |- context [if ?b then _ else _] => destruct b; try exact H end.
  - unfold handle_list. repeat match goal with |- context [if ?b then _ else _] => destruct b; try exact H end.
  - unfold handle_lsub. repeat match goal with |- context [if ?b then _ else _] => destruct b; try exact H end.
  - unfold handle_status. repeat match goal with |- context [if ?b then _ else _] => destruct b; try exact H end.
    destruct (find _ _); [|exact H].
    repeat match goal with |- context [if ?b then _ else _] => destruct b; try exact H end.
    all: try exact H.
  - unfold handle_select. repeat match goal with |- context [if ?b then _ else _] => destruct b; try exact H end.
  - now apply handle_append_keeps.
Qed.

Lemma open_store_id st : has_inbox (boxes st) -> open_store st = st.
Proof.
  unfold open_store, has_inbox. destruct (boxes st) eqn:E; simpl; [tauto|reflexivity].
Qed.

Lemma deliver_keeps st spam : has_inbox (boxes st) -> has_inbox (boxes (fst (deliver st spam))).
Proof.
  intros H. unfold deliver. rewrite (open_store_id st H).
  set (t := if spam then S_ "Spam" else INBOX).
  set (bs := if exists_box (boxes st) t then boxes st else boxes st ++ [new_box t]).
  assert (Hb : has_inbox bs) by (unfold bs; destruct (exists_box (boxes st) t); [exact H | now apply has_inbox_app]).
  destruct (find _ bs) as [b|] eqn:Ef; [|exact H].
  pose proof (add_link_name b (next_msg st)) as En. destruct (add_link b (next_msg st)) as [b' ok]. simpl in *.
  unfold has_inbox. rewrite (replace_box_names _ _ b b'); [exact Hb|]. rewrite En. now apply find_name in Ef.
Qed.

Lemma run_step_keeps st e : has_inbox (boxes st) -> has_inbox (boxes (fst (fst (run_step st e)))).
Proof.
  intros H. destruct e as [c| |spam]; simpl.
  - apply dispatch_keeps, H.
  - now rewrite open_store_id.
  - now apply deliver_keeps.
Qed.

(** after every history INBOX is there *)
Theorem env_inbox h : forall st, has_inbox (boxes st) -> has_inbox (boxes (run_env st h)).
Proof.
  induction h as [|e h IH]; intros st H; simpl; [exact H|]. apply IH, run_step_keeps, H.
Qed.

Lemma init_has_inbox : has_inbox (boxes init_store).
Proof. left. reflexivity. Qed.

(** opening the store, restarting, logging in again: nothing changes, after any history *)
Theorem open_identity_everywhere h : open_store (run_env init_store h) = run_env init_store h.
Proof. apply open_store_id, env_inbox, init_has_inbox. Qed.

Theorem restart_changes_nothing h : run_step (run_env init_store h) ERestart = (run_env init_store h, ROk, []).
Proof. simpl. now rewrite open_identity_everywhere. Qed.

(** a delivery is the spec's delivery: its target folder is the only name it can add *)
Theorem deliver_is_spec h spam : deliver (run_env init_store h) spam = spec_deliver (run_env init_store h) spam.
Proof. unfold deliver. rewrite open_identity_everywhere. reflexivity. Qed.

Lemma spec_deliver_names st (spam : bool) :
  names (boxes (fst (spec_deliver st spam))) =
  names (boxes st) ++ (if exists_box (boxes st) (if spam then S_ "Spam" else INBOX) then [] else [if spam then S_ "Spam" else INBOX]).
Proof.
  unfold spec_deliver. set (t := if spam then S_ "Spam" else INBOX).
  set (bs := if exists_box (boxes st) t then boxes st else boxes st ++ [new_box t]).
  assert (Eb : names bs = names (boxes st) ++ (if exists_box (boxes st) t then [] else [t])).
  { unfold bs. destruct (exists_box (boxes st) t); [now rewrite app_nil_r|]. unfold names. now rewrite map_app. }
  destruct (find _ bs) as [b|] eqn:Ef.
  - pose proof (add_link_name b (next_msg st)) as En. destruct (add_link b (next_msg st)) as [b' ok]. simpl in *.
    rewrite (replace_box_names _ _ b b'); [exact Eb|]. rewrite En. now apply find_name in Ef.
  - exfalso. assert (Hin : In t (names bs)).
    { rewrite Eb. destruct (exists_box (boxes st) t) eqn:E; [rewrite app_nil_r; now apply exists_box_in|].
      apply in_or_app. right. simpl. auto. }
    unfold names in Hin. apply in_map_iff in Hin as (x & Ex & Hx).
    apply (find_none _ _ Ef) in Hx. rewrite Ex, str_eqb_refl in Hx. discriminate.
Qed.

Theorem deliver_names h (spam : bool) :
  names (boxes (fst (deliver (run_env init_store h) spam))) =
  names (boxes (run_env init_store h)) ++
  (if exists_box (boxes (run_env init_store h)) (if spam then S_ "Spam" else INBOX) then [] else [if spam then S_ "Spam" else INBOX]).
Proof. rewrite deliver_is_spec. apply spec_deliver_names. Qed.
