(** C07 — the well-formedness invariant that holds after EVERY micro-step
    (hence at every crash point): link rows have distinct row ids, message rows
    have distinct ids below the next rowid, and — "link last" — every link
    row refers to a COMPLETE message (all its header / address / part rows
    are there). *)
From Coq Require Import String Ascii List Bool ZArith Arith Lia.
From Raven Require Import Base.GoStr Model.Store Model.Ops Model.Micro Spec.UidSpec Proof.StoreInv
  Proof.MicroRefine Proof.MicroBase.
Import ListNotations.
Local Open Scope Z_scope.

Definition msg_done (d : dstore) (id : Z) : Prop :=
  exists m, In m (d_msgs d) /\ m_id m = id /\ complete m = true.

Definition links_complete (d : dstore) : Prop :=
  forall l, In l (links (d_st d)) -> msg_done d (lk_msg l).

Record WF (d : dstore) : Prop := mkWF {
  wf_ids : NoDup (map lk_id (links (d_st d)));
  wf_below : msgs_below d;
  wf_mids : NoDup (map m_id (d_msgs d));
  wf_complete : links_complete d
}.

(** ---- store-level frame relation ---------------------------------------------- *)

Definition Sub (s s' : store) : Prop :=
  (forall l', In l' (links s') -> exists l, In l (links s) /\ lk_msg l' = lk_msg l) /\
  next_msg s' = next_msg s /\
  (NoDup (map lk_id (links s)) -> NoDup (map lk_id (links s'))).

Lemma Sub_refl s : Sub s s.
Proof. repeat split; auto. intros l H. exists l. auto. Qed.

Lemma Sub_trans a b c : Sub a b -> Sub b c -> Sub a c.
Proof.
  intros (A1 & A2 & A3) (B1 & B2 & B3). repeat split; [|congruence|auto].
  intros l Hl. destruct (B1 l Hl) as (l1 & H1 & E1). destruct (A1 l1 H1) as (l0 & H0 & E0).
  exists l0. split; [auto|congruence].
Qed.

Lemma Sub_same_links s s' : links s' = links s -> next_msg s' = next_msg s -> Sub s s'.
Proof. intros E N. unfold Sub. rewrite E. repeat split; auto. intros l H. exists l. auto. Qed.

Lemma Sub_insert s msg mb uid fl s' :
  insert_link s msg mb uid fl = Some s' -> (exists l, In l (links s) /\ lk_msg l = msg) -> Sub s s'.
Proof.
  unfold insert_link. destruct (existsb _ _); [discriminate|]. intros E (l0 & H0 & E0). inversion E. subst s'.
  clear E. unfold Sub. cbn [links next_msg]. repeat split.
  - intros l' H. apply in_app_or in H. destruct H as [H|[<-|[]]].
    + exists l'. auto.
    + exists l0. split; auto.
  - intros N. rewrite map_app. cbn [map lk_id]. apply NoDup_app_one; auto.
    intros C. apply fresh_id_gt in C. lia.
Qed.

Lemma Sub_delete s p : Sub s (delete_links s p).
Proof.
  unfold Sub, delete_links, set_links. cbn [links next_msg]. repeat split.
  - intros l H. apply filter_In in H. exists l. tauto.
  - apply NoDup_map_filter.
Qed.

Lemma Sub_map_links s (g : link -> link) mbs lg us gs :
  (forall l, lk_id (g l) = lk_id l) -> (forall l, lk_msg (g l) = lk_msg l) ->
  Sub s (mkStore mbs (map g (links s)) (next_msg s) lg us gs).
Proof.
  intros Hi Hm. unfold Sub. cbn [links next_msg]. repeat split.
  - intros l H. apply in_map_iff in H. destruct H as (l0 & <- & H0). exists l0. auto.
  - rewrite map_map. erewrite map_ext; [eauto|]. intros a; cbn; symmetry; apply Hi.
Qed.

Lemma Sub_set_flags s mb u fl : Sub s (set_flags s mb u fl).
Proof.
  unfold set_flags, set_links. apply Sub_map_links; intros l; destruct (at_uid mb u l); reflexivity.
Qed.

Lemma Sub_set_next s mb n : Sub s (set_next s mb n).
Proof. now apply Sub_same_links. Qed.

Lemma Sub_reparent s old new s' : reparent s old new = Some s' -> Sub s s'.
Proof.
  unfold reparent. destruct (old =? new); [intros E; inversion E; apply Sub_refl|].
  destruct (existsb _ _); [discriminate|]. intros E. inversion E.
  apply Sub_map_links; intros l; destruct (in_mbox old l); reflexivity.
Qed.

Lemma Sub_create s n t s' id : create_mailbox_row s n t = Some (s', id) -> Sub s s'.
Proof.
  unfold create_mailbox_row. destruct n; [discriminate|]. destruct (find_name s _); [discriminate|].
  intros E. inversion E. now apply Sub_same_links.
Qed.

Lemma Sub_default_rows s t1 t2 t3 t4 t5 : Sub s (default_rows s t1 t2 t3 t4 t5).
Proof.
  unfold default_rows.
  assert (K : forall l s0, Sub s0 (fold_left (fun s' (nt : str * Z) => match create_mailbox_row s' (fst nt) (snd nt) with
                                            | Some (s'', _) => s'' | None => s' end) l s0)).
  { induction l as [|nt r IH]; intros s0; [apply Sub_refl|]. cbn [fold_left].
    destruct (create_mailbox_row s0 (fst nt) (snd nt)) as [[s1 i]|] eqn:Cr; [|apply IH].
    eapply Sub_trans; [eapply Sub_create; eauto|apply IH]. }
  apply K.
Qed.

Lemma Sub_rename_row s mb new s' : rename_row s mb new = Some s' -> Sub s s'.
Proof.
  unfold rename_row. destruct (find_id s mb); [|intros E; inversion E; apply Sub_refl].
  destruct (existsb _ _); [discriminate|]. intros E. inversion E. now apply Sub_same_links.
Qed.

Lemma Sub_rename_fold (new old : str) cs : forall acc s0 s',
  acc = Some s0 ->
  fold_left (fun acc c => match acc with
                          | None => None
                          | Some s' => rename_row s' (mb_id c) (new ++ skipn (length old) (mb_name c))
                          end) cs acc = Some s' -> Sub s0 s'.
Proof.
  induction cs as [|c r IH]; intros acc s0 s' -> H; simpl in H.
  - inversion H. apply Sub_refl.
  - destruct (rename_row s0 (mb_id c) _) as [s1|] eqn:R.
    + eapply Sub_trans; [eapply Sub_rename_row; eauto|]. exact (IH (Some s1) s1 s' eq_refl H).
    + exfalso. clear -H. induction r; simpl in H; [discriminate|auto].
Qed.

Lemma Sub_after_parents ps t : forall s, Sub s (after_parents s ps t).
Proof.
  induction ps as [|p r IH]; intros s; [apply Sub_refl|].
  unfold after_parents in *. cbn [fold_left]. destruct (find_name s p); [apply IH|].
  destruct (create_mailbox_row s p t) as [[s' i]|] eqn:Cr; [|apply IH].
  eapply Sub_trans; [eapply Sub_create; eauto|apply IH].
Qed.

Lemma Sub_rename_tx7 s mb old new ps t s' : rename_tx7 s mb old new ps t = Some s' -> Sub s s'.
Proof.
  unfold rename_tx7. set (s1 := after_parents s ps t).
  destruct (rename_row s1 mb new) as [s2|] eqn:R; [|discriminate].
  intros H. eapply Sub_trans; [apply Sub_after_parents|]. fold s1.
  eapply Sub_trans; [eapply Sub_rename_row; eauto|].
  exact (Sub_rename_fold new old _ (Some s2) s2 s' eq_refl H).
Qed.

Lemma find_link_in s mb u l : find_link s mb u = Some l -> In l (links s).
Proof. intros H. apply find_some in H. tauto. Qed.

Lemma Sub_uidcopy uids : forall s sel dest next s',
  uidcopy_loop s sel dest uids next = Some s' -> Sub s s'.
Proof.
  induction uids as [|u r IH]; intros s sel dest next s' H; simpl in H.
  - inversion H. apply Sub_set_next.
  - destruct (find_link s sel u) as [l|] eqn:F; [|eauto].
    destruct (insert_link s (lk_msg l) dest next _) as [s1|] eqn:I; [|discriminate].
    eapply Sub_trans; [eapply Sub_insert; eauto|eauto].
    exists l. split; [eapply find_link_in; eauto|reflexivity].
Qed.

Lemma Sub_copy seqs : forall s sel dest next s',
  copy_loop s sel dest seqs next = Some s' -> Sub s s'.
Proof.
  induction seqs as [|n r IH]; intros s sel dest next s' H; simpl in H.
  - inversion H. apply Sub_set_next.
  - destruct (nth_error (links_sorted s sel) _) as [l|] eqn:F; [|discriminate].
    destruct (insert_link s (lk_msg l) dest next _) as [s1|] eqn:I; [|discriminate].
    eapply Sub_trans; [eapply Sub_insert; eauto|eauto].
    exists l. split; [|reflexivity]. apply nth_error_In in F. unfold links_sorted in F.
    apply (proj1 (in_sort_by_uid _ _)) in F. unfold links_in in F. apply filter_In in F. tauto.
Qed.

Lemma Sub_move s msg src su dn fl :
  (exists l, In l (links s) /\ lk_msg l = msg) -> Sub s (fst (move_message s msg src su dn fl)).
Proof.
  intros Hm. unfold move_message. destruct (find_name s dn) as [dm|]; [|apply Sub_refl].
  destruct (mb_id dm =? src); [apply Sub_refl|].
  destruct (insert_link s msg (mb_id dm) _ fl) as [s1|] eqn:I; [|apply Sub_refl].
  cbn [fst]. eapply Sub_trans; [eapply Sub_insert; eauto|].
  eapply Sub_trans; [apply Sub_set_next|apply Sub_delete].
Qed.

Lemma Sub_uidstore_one s sel mode new u : Sub s (uidstore_one s sel mode new u).
Proof.
  unfold uidstore_one. destruct (find_link s sel u) as [l|] eqn:F; [|apply Sub_refl].
  assert (Hm : exists l0, In l0 (links s) /\ lk_msg l0 = lk_msg l)
    by (exists l; split; [eapply find_link_in; eauto|reflexivity]).
  destruct (negb _ && _).
  - pose proof (Sub_move s (lk_msg l) sel u SPAM (fremove NONJUNK (calc_flags (lk_flags l) new mode)) Hm) as X.
    destruct (move_message _ _ _ _ _ _) as [s1 ok]. destruct ok; [exact X|apply Sub_set_flags].
  - destruct (negb _ && _).
    + pose proof (Sub_move s (lk_msg l) sel u INBOX (fremove JUNK (calc_flags (lk_flags l) new mode)) Hm) as X.
      destruct (move_message _ _ _ _ _ _) as [s1 ok]. destruct ok; [exact X|apply Sub_set_flags].
    + apply Sub_set_flags.
Qed.

Lemma WF_sub d s' : WF d -> Sub (d_st d) s' -> WF (with_st d s').
Proof.
  intros [W1 W2 W3 W4] (S1 & S2 & S3). constructor; cbn [d_st d_msgs with_st]; auto.
  - intros m Hm. cbn [d_st d_msgs with_st]. rewrite S2. now apply W2.
  - intros l Hl. destruct (S1 l Hl) as (l0 & H0 & E). rewrite E. exact (W4 l0 H0).
Qed.

(** ---- guards -------------------------------------------------------------------- *)

(** what must hold when a step is issued for the invariant to survive it; the
    operation-level lemmas below show that the Go statement order provides it *)
Definition guard (d : dstore) (st : mstep) : Prop :=
  match st with
  | MInsHeader id | MInsAddress id | MInsPart id =>
      forall l, In l (links (d_st d)) -> lk_msg l <> id   (* rows are added to an unlinked message only *)
  | MInsLink msg _ _ _ => msg_done d msg                   (* link last *)
  | _ => True
  end.

Lemma WF_empty f n : WF (mkD f n empty_store [] [] 0).
Proof. constructor; cbn; try constructor; intros ? []. Qed.

Lemma upd_msg_ids f id l : (forall m, m_id (f m) = m_id m) -> map m_id (upd_msg f id l) = map m_id l.
Proof.
  intros Hf. unfold upd_msg. rewrite map_map. apply map_ext. intros m. destruct (m_id m =? id); auto.
Qed.

Lemma upd_msg_keeps f id l m : In m l -> m_id m <> id -> In m (upd_msg f id l).
Proof.
  intros H N. unfold upd_msg. apply in_map_iff. exists m. split; [|exact H].
  destruct (m_id m =? id) eqn:E; [apply Z.eqb_eq in E; contradiction|reflexivity].
Qed.

Lemma WF_upd d f id :
  (forall m, m_id (f m) = m_id m) ->
  WF d -> (forall l, In l (links (d_st d)) -> lk_msg l <> id) ->
  WF (with_msgs d (upd_msg f id (d_msgs d))).
Proof.
  intros Hf [W1 W2 W3 W4] G. constructor; cbn [d_st d_msgs with_msgs]; auto.
  - intros m Hm. cbn [d_st d_msgs with_msgs]. unfold upd_msg in Hm. apply in_map_iff in Hm.
    destruct Hm as (m0 & <- & H0). destruct (m_id m0 =? id); [rewrite Hf|]; now apply W2.
  - now rewrite upd_msg_ids.
  - intros l Hl. destruct (W4 l Hl) as (m & Hm & E & C). exists m. repeat split; auto.
    apply upd_msg_keeps; auto. rewrite E. now apply G.
Qed.

Lemma exec_WF d st : WF d -> guard d st -> WF (exec d st).
Proof.
  intros W G.
  assert (SubCase : forall s', Sub (d_st d) s' -> WF (with_st d s')) by (intros; now apply WF_sub).
  assert (OptCase : forall o, (forall s', o = Some s' -> Sub (d_st d) s') -> WF (opt_st d o)).
  { intros [s'|] H; cbn; [apply SubCase; auto|exact W]. }
  destruct st; cbn [exec guard] in *.
  - apply WF_empty.
  - destruct (_ && _); [|exact W]. destruct W. constructor; auto.
  - destruct (_ && _); [|exact W]. apply SubCase. now apply Sub_same_links.
  - destruct (_ && _); [|exact W]. apply OptCase. intros s' E.
    unfold insert_mailbox_row in E. destruct name; [discriminate|].
    destruct (find_name (d_st d) _); [discriminate|]. inversion E. now apply Sub_same_links.
  - destruct (_ && _); [|exact W]. destruct (mboxes (d_st d)); [|exact W]. apply SubCase. apply Sub_default_rows.
  - (* INSERT messages *)
    destruct W as [W1 W2 W3 W4]. unfold store_message. constructor; cbn [d_st d_msgs links next_msg]; auto.
    + intros m Hm. cbn [d_st d_msgs next_msg]. apply in_app_or in Hm. destruct Hm as [Hm|[<-|[]]].
      * apply W2 in Hm. lia.
      * cbn. lia.
    + rewrite map_app. cbn [map m_id]. apply NoDup_app_one; auto.
      intros C. apply in_map_iff in C. destruct C as (m & E & Hm). apply W2 in Hm. lia.
    + intros l Hl. destruct (W4 l Hl) as (m & Hm & E & C). exists m. repeat split; auto.
      cbn [d_msgs]. apply in_or_app. now left.
  - apply WF_upd; auto.
  - apply WF_upd; auto.
  - exact W.
  - apply WF_upd; auto.
  - apply SubCase. now apply Sub_same_links.
  - (* INSERT message_mailbox *)
    destruct (insert_link (d_st d) msg mb uid flags) as [s'|] eqn:I; [|exact W]. cbn [opt_st].
    destruct W as [W1 W2 W3 W4]. pose proof I as I'. unfold insert_link in I'.
    destruct (existsb _ _); [discriminate|]. inversion I' as [Es]. clear I' I. subst s'.
    constructor.
    + cbn [d_st d_msgs with_st links next_msg]. rewrite map_app. cbn [map lk_id]. apply NoDup_app_one; auto.
      intros C. apply fresh_id_gt in C. lia.
    + intros m Hm. cbn [d_st d_msgs with_st next_msg] in *. now apply W2.
    + exact W3.
    + intros l Hl. cbn [d_st with_st links] in Hl. apply in_app_or in Hl. destruct Hl as [Hl|[<-|[]]].
      * exact (W4 l Hl).
      * exact G.
  - destruct W. constructor; auto.
  - apply OptCase. intros s' E. eapply Sub_uidcopy; eauto.
  - apply OptCase. intros s' E. eapply Sub_copy; eauto.
  - apply SubCase. apply Sub_uidstore_one.
  - apply SubCase. apply Sub_delete.
  - apply SubCase. eapply Sub_trans; [apply Sub_delete|]. now apply Sub_same_links.
  - destruct (_ && _); [|exact W]. apply OptCase. intros s' E. eapply Sub_rename_tx7; eauto.
  - apply OptCase. intros s' E. unfold reparent_max in E. eapply Sub_trans; [apply Sub_set_next|eapply Sub_reparent; eauto].
  - destruct (existsb _ _); [exact W|]. destruct W. constructor; auto.
  - destruct W. constructor; auto.
Qed.

Fixpoint guards_along (d : dstore) (l : list mstep) : Prop :=
  match l with
  | [] => True
  | st :: r => guard d st /\ guards_along (exec d st) r
  end.

Lemma guards_app d a b : guards_along d (a ++ b) <-> guards_along d a /\ guards_along (run_steps d a) b.
Proof.
  revert d. induction a as [|x a IH]; intros d; simpl; [tauto|]. rewrite IH. unfold run_steps. simpl. tauto.
Qed.

Lemma prefix_WF l : forall d k, WF d -> guards_along d l -> WF (run_steps d (firstn k l)).
Proof.
  induction l as [|st r IH]; intros d k W G.
  - destruct k; exact W.
  - destruct k; [exact W|]. destruct G as [G1 G2]. unfold run_steps. cbn [firstn fold_left].
    apply IH; auto. now apply exec_WF.
Qed.

Lemma run_WF l d : WF d -> guards_along d l -> WF (run_steps d l).
Proof. intros W G. rewrite <- (firstn_all l). now apply prefix_WF. Qed.

(** steps whose guard is trivially true *)
Definition plain (st : mstep) : bool :=
  match st with
  | MInsHeader _ | MInsAddress _ | MInsPart _ | MInsLink _ _ _ _ => false
  | _ => true
  end.

Lemma guards_plain l : forall d, forallb plain l = true -> guards_along d l.
Proof.
  induction l as [|st r IH]; intros d H; simpl; [exact I|].
  simpl in H. apply andb_true_iff in H. destruct H as [H1 H2]. split; [|now apply IH].
  destruct st; try discriminate; exact I.
Qed.

(** ---- the operations provide the guards ---------------------------------------------- *)

(** row-insertion steps for message [id] *)
Definition row_of (id : Z) (st : mstep) : Prop :=
  st = MInsHeader id \/ st = MInsAddress id \/ st = MInsPart id \/ st = MBlob.

Lemma guards_rows id l : forall d,
  Forall (row_of id) l -> (forall x, In x (links (d_st d)) -> lk_msg x <> id) -> guards_along d l.
Proof.
  induction l as [|st r IH]; intros d F Fr; simpl; [exact I|].
  inversion F as [|? ? R F']; subst. destruct R as [-> | [-> | [-> | ->]]]; (split; [cbn; auto|apply IH; auto]).
Qed.

Lemma rows_forall id sh :
  Forall (row_of id) (repeat (MInsHeader id) (sh_hdr sh) ++ repeat (MInsAddress id) (sh_adr sh)
    ++ flat_map (fun b : bool => (if b then [MBlob] else []) ++ [MInsPart id]) (sh_parts sh)).
Proof.
  apply Forall_app. split; [|apply Forall_app; split].
  - apply Forall_forall. intros x H. apply repeat_spec in H. subst. left. reflexivity.
  - apply Forall_forall. intros x H. apply repeat_spec in H. subst. right. left. reflexivity.
  - apply Forall_forall. intros x H. apply in_flat_map in H. destruct H as (b & _ & H).
    unfold row_of. destruct b; simpl in H; intuition.
Qed.

Lemma WF_links_below d : WF d -> forall l, In l (links (d_st d)) -> lk_msg l < next_msg (d_st d).
Proof.
  intros [W1 W2 W3 W4] l Hl. destruct (W4 l Hl) as (m & Hm & E & _). apply W2 in Hm. lia.
Qed.

Lemma complete_done id sh : complete (done_msg id sh) = true.
Proof. unfold complete, done_msg. cbn. now rewrite !Nat.eqb_refl. Qed.

(** message rows, then UPDATE uid_next, then the link: the guards hold *)
Lemma guards_store_and_link d mb fl sh tail :
  WF d -> forallb plain tail = true ->
  guards_along d (msg_steps (next_msg (d_st d)) sh ++ add_steps (d_st d) (next_msg (d_st d)) mb fl ++ tail).
Proof.
  intros W Ht. set (id := next_msg (d_st d)).
  assert (Fr : forall x, In x (links (d_st d)) -> lk_msg x <> id).
  { intros x Hx. pose proof (WF_links_below d W x Hx). unfold id. lia. }
  apply guards_app. split.
  - unfold msg_steps. split; [exact I|]. apply (guards_rows id); [apply rows_forall|exact Fr].
  - unfold id. rewrite (msg_steps_refines d sh (wf_below d W)). apply guards_app. split.
    + unfold add_steps. cbn [d_st]. unfold store_message. cbn [fst].
      change (find_id (mkStore (mboxes (d_st d)) (links (d_st d)) (next_msg (d_st d) + 1)
                (glog (d_st d)) (gused (d_st d)) (gser (d_st d))) mb) with (find_id (d_st d) mb).
      destruct (find_id (d_st d) mb) as [m|]; [|split; exact I].
      split; [exact I|]. split; [|exact I]. cbn [guard exec d_msgs with_st].
      exists (done_msg (next_msg (d_st d)) sh). split; [apply in_or_app; right; now left|]. split; [reflexivity|apply complete_done].
    + now apply guards_plain.
Qed.

Lemma open_plain d t1 t2 t3 t4 t5 : forallb plain (open_steps d t1 t2 t3 t4 t5) = true.
Proof.
  unfold open_steps. rewrite !forallb_app. apply andb_true_iff. split; [|apply andb_true_iff; split].
  - destruct (d_file d); reflexivity.
  - apply forallb_forall. intros x H. apply in_map_iff in H. destruct H as (i & <- & _). reflexivity.
  - destruct (mboxes (d_st (file_of d))); reflexivity.
Qed.

Lemma parent_steps_plain ps t : forall s, forallb plain (parent_steps s ps t) = true.
Proof.
  induction ps as [|p r IH]; intros s; simpl; [reflexivity|].
  destruct (find_name s p); [apply IH|]. destruct (create_mailbox_row s p t) as [[s' i]|]; [|apply IH].
  simpl. apply IH.
Qed.

Lemma base_plain s o : forallb plain (base_steps s o) = true.
Proof.
  destruct o; cbn [base_steps]; try reflexivity.
  - destruct (resolve_uids s sel set); [reflexivity|]. destruct (find_name s dest); reflexivity.
  - destruct (resolve_seqs s sel set); [reflexivity|]. destruct (find_name s dest); reflexivity.
  - apply forallb_forall. intros x H. apply in_map_iff in H. destruct H as (i & <- & _). reflexivity.
  - apply forallb_forall. intros x H. apply in_map_iff in H. destruct H as (i & <- & _). reflexivity.
  - apply forallb_forall. intros x H. apply in_map_iff in H. destruct H as (i & <- & _). reflexivity.
  - destruct (trim_suffix name [SLASH]); [reflexivity|]. destruct (str_eqb _ _); [reflexivity|].
    destruct (is_role_ns _); [reflexivity|].
    destruct (find_name s _); [reflexivity|]. rewrite forallb_app, parent_steps_plain.
    destruct (create_mailbox_row _ _ _); reflexivity.
  - destruct name; [reflexivity|]. destruct (str_eqb _ _); [reflexivity|].
    destruct (find_name s _); [|reflexivity]. destruct (children s _); [|reflexivity].
    destruct (existsb _ _); reflexivity.
  - destruct old; [reflexivity|]. destruct new; [reflexivity|]. destruct (is_role_ns _); [reflexivity|].
    destruct (str_eqb _ _); [reflexivity|].
    destruct (str_eqb _ _).
    + destruct (find_name s _); [reflexivity|]. destruct (find_name s INBOX); [|reflexivity].
      rewrite forallb_app, parent_steps_plain.
      destruct (create_mailbox_row _ _ _) as [[? ?]|]; reflexivity.
    + destruct (find_name s _); [|reflexivity]. destruct (find_name s _); reflexivity.
Qed.

Lemma opened_WF d t1 t2 t3 t4 t5 : WF d -> WF (opened d t1 t2 t3 t4 t5).
Proof.
  intros W. rewrite <- open_refines. apply run_WF; auto. apply guards_plain, open_plain.
Qed.

(** every operation, started in a well-formed state, issues its steps in an
    order that provides all guards *)
Lemma micro_guards d o : WF d -> guards_along d (micro d o).
Proof.
  intros W. destruct o as [t1 t2 t3 t4 t5|f t sh|f fl sh|o|n|n]; cbn [micro].
  - apply guards_plain, open_plain.
  - destruct (ready d) eqn:Hr; [|exact I].
    unfold deliver_steps. destruct (find_name (d_st d) f) as [m|].
    + cbn [app]. apply guards_store_and_link; auto. destruct (add_ok _ _); reflexivity.
    + destruct (create_mailbox_row (d_st d) f t) as [[s' id]|] eqn:Cr; [|exact I].
      apply guards_app. split; [apply guards_plain; reflexivity|].
      rewrite (create_steps_refines d f t s' id Hr Cr).
      pose proof (guards_store_and_link (with_st d s') id [] sh
                    (if add_ok s' id then [MInsDelivery] else [])) as X.
      cbn [d_st with_st] in X. apply X.
      * apply WF_sub; auto. eapply Sub_create; eauto.
      * destruct (add_ok _ _); reflexivity.
  - destruct (ready d); [|exact I]. unfold append_steps.
    destruct (find_name (d_st d) f) as [m|]; [|exact I].
    pose proof (guards_store_and_link d (mb_id m) fl sh [] W eq_refl) as X.
    now rewrite !app_nil_r in X.
  - destruct (ready d); [|exact I]. apply guards_plain, base_plain.
  - destruct (ready d); [|exact I]. split; exact I.
  - destruct (ready d); [|exact I]. split; exact I.
Qed.

Lemma WF_absent : WF absent.
Proof. apply WF_empty. Qed.

(** ---- workloads ------------------------------------------------------------------------ *)

Lemma all_steps_guards h : forall d, WF d -> guards_along d (all_steps d h).
Proof.
  induction h as [|o r IH]; intros d W; cbn [all_steps]; [exact I|].
  apply guards_app. split; [now apply micro_guards|].
  apply IH. apply run_WF; auto. now apply micro_guards.
Qed.

(** THE PREFIX INVARIANT: at every crash point of every workload the durable
    state is well-formed; in particular every link refers to a complete message *)
Lemma crash_WF h k d : WF d -> WF (crash_at d h k).
Proof. intros W. unfold crash_at. apply prefix_WF; auto. now apply all_steps_guards. Qed.
