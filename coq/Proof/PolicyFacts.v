(** C17 — unconditional facts about the model (no finding-class hypothesis),
    the bridge from RCPT lines to addresses, and the refutation witnesses. *)
From Coq Require Import String Ascii List Bool Arith ZArith Lia.
From Raven Require Import Base.GoStr Model.Policy Spec.Policy
  Proof.PolicySpam Proof.PolicyParse Proof.PolicyRcpt Proof.PolicyData Proof.PolicyTxn.
Import ListNotations.
Local Open Scope Z_scope.

(* ---- RCPT lines of the plain shape TO:<addr> ---- *)

Definition rcpt_line (addr : str) : str := S_ "TO:<" ++ addr ++ S_ ">".

Definition no_gt (addr : str) : bool := negb (contains_byte addr ">"%char).

Lemma parse_rcpt_line addr : no_gt addr = true -> parse_rcpt_to (rcpt_line addr) = Some addr.
Proof.
  intros H. apply parse_rcpt_to_shape.
  apply (RS (S_ "TO:") [] addr []); try reflexivity; [now apply negb_true_iff in H | now left].
Qed.

Lemma handle_rcpts_lines cfg d : forall addrs rec,
  forallb no_gt addrs = true ->
  handle_rcpts cfg d rec (map rcpt_line addrs) = handle_rcpts_addr cfg d rec addrs.
Proof.
  induction addrs as [|a rest IH]; intros rec H; [reflexivity|].
  cbn [forallb] in H. apply andb_true_iff in H as [Ha Hr].
  cbn [map handle_rcpts handle_rcpts_addr]. unfold handle_rcpt. rewrite (parse_rcpt_line a Ha).
  destruct (max_recipients cfg <=? Z.of_nat (length rec)); [now rewrite IH|].
  destruct (handle_rcpt_addr cfg d rec a) as [r rec']. now rewrite IH.
Qed.

Lemma run_txn_lines cfg d addrs m :
  forallb no_gt addrs = true -> run_txn cfg d (map rcpt_line addrs) m = run_txn_addr cfg d addrs m.
Proof. intros H. unfold run_txn, run_txn_addr. now rewrite handle_rcpts_lines. Qed.

(* ---- recipient limit ---- *)

Lemma handle_rcpt_grows cfg d rec args :
  let rec' := snd (handle_rcpt cfg d rec args) in
  rec' = rec \/ (Z.of_nat (length rec) < max_recipients cfg /\ exists a, rec' = rec ++ [a]).
Proof.
  unfold handle_rcpt. destruct (max_recipients cfg <=? Z.of_nat (length rec)) eqn:E; [now left|].
  apply Z.leb_gt in E.
  destruct (parse_rcpt_to args) as [to|]; [|now left].
  unfold handle_rcpt_addr.
  destruct (match allowed_domains cfg with [] => None | _ => _ end); [now left|].
  destruct (if reject_unknown_user cfg then _ else None); [now left|].
  right. split; [exact E | now exists to].
Qed.

Lemma rcpt_limit_inv cfg d : forall lines rec,
  Z.of_nat (length rec) <= Z.max 0 (max_recipients cfg) ->
  Z.of_nat (length (snd (handle_rcpts cfg d rec lines))) <= Z.max 0 (max_recipients cfg).
Proof.
  induction lines as [|a rest IH]; intros rec H; [exact H|].
  cbn [handle_rcpts].
  pose proof (handle_rcpt_grows cfg d rec a) as G.
  destruct (handle_rcpt cfg d rec a) as [r rec'] eqn:EH. cbn [snd] in G.
  specialize (IH rec').
  destruct (handle_rcpts cfg d rec' rest) as [rs fin] eqn:ER. cbn [snd] in *.
  apply IH. destruct G as [->|[L [x ->]]]; [exact H|].
  rewrite app_length, Nat2Z.inj_add. cbn [length]. lia.
Qed.

Lemma rcpt_limit cfg d lines m :
  Z.of_nat (length (to_accepted (run_txn cfg d lines m))) <= Z.max 0 (max_recipients cfg).
Proof.
  unfold run_txn. pose proof (rcpt_limit_inv cfg d lines []) as H.
  destruct (handle_rcpts cfg d [] lines) as [rs fin]. cbn [snd to_accepted] in *. apply H. cbn. lia.
Qed.

Lemma rcpt_452_exact cfg d rec args :
  fst (handle_rcpt cfg d rec args) = RC452 <-> max_recipients cfg <= Z.of_nat (length rec).
Proof.
  unfold handle_rcpt. destruct (max_recipients cfg <=? Z.of_nat (length rec)) eqn:E.
  - apply Z.leb_le in E. cbn. tauto.
  - apply Z.leb_gt in E. split; [|lia].
    destruct (parse_rcpt_to args) as [to|]; cbn; [|discriminate].
    unfold handle_rcpt_addr.
    destruct (allowed_domains cfg) as [|a0 al].
    + destruct (reject_unknown_user cfg); [|discriminate].
      destruct (check_recipient_exists d to) as [[|]|]; discriminate.
    + destruct (extract_domain to) as [dm|]; [|discriminate].
      destruct (existsb (str_eqb dm) (a0 :: al)); [|discriminate].
      destruct (reject_unknown_user cfg); [|discriminate].
      destruct (check_recipient_exists d to) as [[|]|]; discriminate.
Qed.

(* ---- size limit ---- *)

Lemma size_within cfg d acc m :
  acc <> [] -> m_size m <= max_size cfg -> m_parse_ok m = true ->
  exists replies, do_reply (handle_data cfg d acc m) = DR_per replies /\ length replies = length acc.
Proof.
  intros HA HS HP. unfold handle_data. destruct acc as [|a acc]; [contradiction|].
  assert (E : (max_size cfg <? m_size m) = false) by (apply Z.ltb_ge; lia).
  rewrite E, HP. cbn [negb].
  destruct (deliver_to_multiple d (filter (fun r => negb (over_quota cfg d m r)) (a :: acc)) m (default_folder cfg)) as [results d'].
  cbn [do_reply]. eexists. split; [reflexivity|]. now rewrite map_length.
Qed.

Lemma size_over cfg d acc m :
  max_size cfg < m_size m ->
  do_db (handle_data cfg d acc m) = d /\ do_deliveries (handle_data cfg d acc m) = [] /\
  (do_reply (handle_data cfg d acc m) = DR_refused 552 (length acc) \/ do_reply (handle_data cfg d acc m) = DR503).
Proof.
  intros H. unfold handle_data. destruct acc; [cbn; auto|].
  assert (E : (max_size cfg <? m_size m) = true) by (apply Z.ltb_lt; lia).
  rewrite E. cbn. auto.
Qed.

(* ---- where an accepted message goes, unconditionally ---- *)

Lemma deliver_message_target d r m folder st f :
  fst (deliver_message d r m folder) = D_ok st f ->
  spec_target d r = Some st /\ f = determine_target_folder (header_map (m_headers m)) folder.
Proof.
  unfold deliver_message, spec_target, extract_local_part, extract_domain.
  destruct (extract_parts r) as [[n dom]|]; cbn [option_map fst snd]; [|discriminate].
  change (get_role_mailbox_by_email d r) with (is_role d r).
  set (tf := determine_target_folder (header_map (m_headers m)) folder).
  assert (FI : forall d0 st0, fst (file_into d0 st0 tf m) = D_ok st f -> st0 = st /\ f = tf).
  { intros d0 st0. unfold file_into. destruct tf; [discriminate|]. cbn. intros H. now injection H as -> ->. }
  destruct (is_role d r).
  - intros H. apply FI in H as [<- ->]. auto.
  - destruct (get_user_by_username d n dom).
    + intros H. apply FI in H as [<- ->]. auto.
    + destruct (user_row_exists d n dom); [discriminate|].
      intros H. apply FI in H as [<- ->]. auto.
Qed.

Lemma spec_target_roles d d' r : roles d' = roles d -> spec_target d' r = spec_target d r.
Proof. intros H. unfold spec_target, is_role. now rewrite H. Qed.

Lemma deliveries_target m folder : forall acc d r st f,
  In (r, D_ok st f) (fst (deliver_to_multiple d acc m folder)) ->
  spec_target d r = Some st /\ f = determine_target_folder (header_map (m_headers m)) folder.
Proof.
  induction acc as [|a acc IH]; intros d r st f; cbn [deliver_to_multiple]; [cbn; tauto|].
  pose proof (after_delivery m folder d a) as [HR _].
  destruct (deliver_message d a m folder) as [res d1] eqn:EM. cbn [snd] in HR.
  specialize (IH d1 r st f).
  destruct (deliver_to_multiple d1 acc m folder) as [more d2]. cbn [fst] in *.
  intros [H|H].
  - injection H as -> ->. apply (deliver_message_target d r m folder). now rewrite EM.
  - destruct (IH H) as [A B]. split; [|exact B]. now rewrite <- (spec_target_roles d d1 r HR).
Qed.

Lemma deliver_keys m folder : forall acc d, map fst (fst (deliver_to_multiple d acc m folder)) = acc.
Proof.
  induction acc as [|x l IH]; intros d0; [reflexivity|].
  cbn [deliver_to_multiple]. destruct (deliver_message d0 x m folder) as [res d1].
  specialize (IH d1). destruct (deliver_to_multiple d1 l m folder). cbn [fst map] in *. now f_equal.
Qed.

(** every message the model files for a transaction is filed in the store of
    exactly the address given in RCPT (role store iff enabled role address),
    in Spam iff the spam headers mark it, else in the default folder — for
    every configuration, database, recipient list and message *)
Lemma filed_where cfg d acc m r st f :
  In (r, D_ok st f) (do_deliveries (handle_data cfg d acc m)) ->
  In r acc /\ over_quota cfg d m r = false /\ spec_target d r = Some st /\ f = spec_folder cfg m.
Proof.
  unfold handle_data. destruct acc as [|a acc']; [cbn; tauto|].
  set (acc := a :: acc').
  destruct (max_size cfg <? m_size m); [cbn; tauto|].
  destruct (negb (m_parse_ok m)); [cbn; tauto|].
  set (L := filter (fun r => negb (over_quota cfg d m r)) acc).
  pose proof (deliveries_target m (default_folder cfg) L d r st f) as T.
  pose proof (deliver_keys m (default_folder cfg) L d) as K.
  destruct (deliver_to_multiple d L m (default_folder cfg)) as [results d'] eqn:ED.
  cbn [do_deliveries fst] in *. intros H. destruct (T H) as [A B]. rewrite spam_routing in B.
  assert (RL : In r L).
  { rewrite <- K. apply in_map_iff. now exists (r, D_ok st f). }
  apply filter_In in RL as [R1 R2]. apply negb_true_iff in R2. auto.
Qed.

(** the role store is used only for an address that IS (byte for byte) the
    address of an enabled role mailbox: no pattern or case twin *)
Lemma role_store_exact cfg d acc m r e f :
  In (r, D_ok (RoleStore e) f) (do_deliveries (handle_data cfg d acc m)) ->
  e = r /\ In (mkRole r true) (roles d).
Proof.
  intros H. apply filed_where in H as [_ [_ [T _]]].
  unfold spec_target in T. destruct (extract_parts r) as [[n dom]|]; [|discriminate].
  destruct (is_role d r) eqn:E; [|discriminate]. injection T as <-. split; [reflexivity|].
  unfold is_role in E. apply existsb_exists in E as [ro [Hin Hr]].
  apply andb_true_iff in Hr as [H1 H2]. apply str_eqb_eq in H1.
  destruct ro as [em en]. cbn in *. now subst.
Qed.

Lemma user_store_exact cfg d acc m r n dom f :
  In (r, D_ok (UserStore n dom) f) (do_deliveries (handle_data cfg d acc m)) ->
  extract_parts r = Some (n, dom) /\ is_role d r = false.
Proof.
  intros H. apply filed_where in H as [_ [_ [T _]]].
  unfold spec_target in T. destruct (extract_parts r) as [[n' dom']|]; [|discriminate].
  destruct (is_role d r); [discriminate|]. now injection T as -> ->.
Qed.

(* ---- the 250/550 replies of DATA say what each delivery did ---- *)

(** even with the same address given several times (the results map is keyed
    by address and keeps the last value) every recipient within quota is
    answered 250 exactly when ITS delivery filed the message, every recipient
    over quota is answered with a refusal and has no delivery — for every input *)
Lemma replies_truthful cfg d acc m replies :
  do_reply (handle_data cfg d acc m) = DR_per replies ->
  zip_outcomes (do_over_quota (handle_data cfg d acc m)) replies (do_deliveries (handle_data cfg d acc m))
    = weave (over_quota cfg d m) acc (map (fun kv => to_mo (snd kv)) (do_deliveries (handle_data cfg d acc m))) /\
  map fst (do_deliveries (handle_data cfg d acc m)) = filter (fun r => negb (over_quota cfg d m r)) acc /\
  length replies = length acc.
Proof.
  unfold handle_data. destruct acc as [|a acc']; [discriminate|].
  set (acc := a :: acc').
  destruct (max_size cfg <? m_size m); [discriminate|].
  destruct (negb (m_parse_ok m)); [discriminate|].
  set (over := over_quota cfg d m).
  set (L := filter (fun r => negb (over r)) acc).
  pose proof (all_results m (default_folder cfg) L d) as AR.
  pose proof (deliver_keys m (default_folder cfg) L d) as K.
  destruct (deliver_to_multiple d L m (default_folder cfg)) as [results d'] eqn:ED.
  cbn [do_reply do_deliveries do_over_quota fst] in *. intros H. injection H as <-.
  split; [|split; [exact K | unfold acc; cbn [length map]; f_equal; apply map_length]].
  apply (zip_weave (deliv_ok m (default_folder cfg) d) results over AR acc results); [auto | exact K].
Qed.

Lemma over_quota_meaning cfg d m r :
  over_quota cfg d m r = true <-> quota_enabled cfg = true /\ mailbox_usage d r + m_size m > quota_limit cfg.
Proof.
  change (over_quota cfg d m r) with (spec_over_quota cfg d m r).
  unfold spec_over_quota. rewrite andb_true_iff, Z.ltb_lt. split; intros [A B]; split; auto; lia.
Qed.

(* ---- witnesses ---- *)

Definition w_cfg (ru qe : bool) (ql : Z) : config :=
  mkConfig (S_ "INBOX") qe ql [] ru 1000 10.
Definition w_db : db :=
  mkDb [mkUser (S_ "bob") (S_ "a.org") true] [mkRole (S_ "support@a.org") true] [].
Definition w_msg : message := mkMsg 100 [] true.

(** quota enabled, limit 10 bytes, message of 100 bytes: refused with 552, not filed *)
Lemma quota_example :
  txn_outcomes (run_txn_addr (w_cfg false true 10) w_db [S_ "bob@a.org"; S_ "support@a.org"] w_msg) = [MRefused; MRefused] /\
  txn_outcomes (run_txn_addr (w_cfg false true 100) w_db [S_ "bob@a.org"; S_ "support@a.org"] w_msg)
    = [MFiled (UserStore (S_ "bob") (S_ "a.org")) (S_ "INBOX"); MFiled (RoleStore (S_ "support@a.org")) (S_ "INBOX")] /\
  msgs (do_db (to_data (run_txn_addr (w_cfg false true 10) w_db [S_ "bob@a.org"] w_msg))) = [].
Proof. vm_compute. auto. Qed.

(* ---- regression: the recipient test before the fix C17-3 (local part only, no role mailboxes) ---- *)

Definition old_check_recipient_exists (d : db) (recipient : str) : option bool :=
  match extract_local_part recipient with
  | None => None
  | Some username => Some (check_user_exists d username)
  end.
