(** C04 — the identity a session is bound to vs. the address verified. *)
From Coq Require Import String Ascii List Bool Arith NArith Lia.
From Raven Require Import Base.GoStr Spec.Json Model.Auth Spec.AuthSpec.
Import ListNotations.
Local Open Scope char_scope.

Lemma split_aux_acc s c cur :
  split_byte_aux s c cur =
  match split_byte_aux s c [] with
  | x :: l => (rev cur ++ x) :: l
  | [] => []
  end.
Proof.
  revert cur. induction s as [|d s IH]; intros cur; simpl.
  - now rewrite app_nil_r.
  - destruct (Ascii.eqb d c).
    + now rewrite app_nil_r.
    + rewrite (IH (d :: cur)), (IH [d]).
      destruct (split_byte_aux s c []) as [|x l]; [reflexivity|].
      simpl. now rewrite <- app_assoc.
Qed.

Lemma split_aux_nonempty s c cur : split_byte_aux s c cur <> [].
Proof. revert cur; induction s as [|d s IH]; intros cur; simpl; [discriminate|]. destruct (Ascii.eqb d c); [discriminate|apply IH]. Qed.

Lemma count_cons_eq c s : count_byte (c :: s) c = S (count_byte s c).
Proof. unfold count_byte. simpl. now rewrite Ascii.eqb_refl. Qed.

Lemma count_cons_neq c d s : Ascii.eqb c d = false -> count_byte (d :: s) c = count_byte s c.
Proof. intros H. unfold count_byte. simpl. now rewrite H. Qed.

Lemma contains_count s c : contains_byte s c = false <-> count_byte s c = 0.
Proof.
  induction s as [|d s IH]; simpl; [tauto|].
  unfold contains_byte in *. simpl. destruct (Ascii.eqb c d) eqn:E.
  - apply Ascii.eqb_eq in E; subst. rewrite count_cons_eq. simpl. split; discriminate.
  - rewrite (count_cons_neq _ _ _ E). simpl. exact IH.
Qed.

(** no separator: one piece *)
Lemma split_none s c : count_byte s c = 0 -> split_byte s c = [s].
Proof.
  unfold split_byte. induction s as [|d s IH]; intros H; simpl; [reflexivity|].
  destruct (Ascii.eqb d c) eqn:E.
  - apply Ascii.eqb_eq in E; subst. rewrite count_cons_eq in H. discriminate.
  - rewrite Ascii.eqb_sym in E. rewrite (count_cons_neq _ _ _ E) in H.
    rewrite split_aux_acc, (IH H). reflexivity.
Qed.

(** first separator: head piece and the split of the rest *)
Lemma split_first a b c : count_byte a c = 0 ->
  split_byte (a ++ c :: b) c = a :: split_byte b c.
Proof.
  unfold split_byte. induction a as [|d a IH]; intros H; simpl.
  - now rewrite Ascii.eqb_refl.
  - destruct (Ascii.eqb d c) eqn:E.
    + apply Ascii.eqb_eq in E; subst. rewrite count_cons_eq in H. discriminate.
    + rewrite Ascii.eqb_sym in E. rewrite (count_cons_neq _ _ _ E) in H.
      rewrite split_aux_acc, (IH H). reflexivity.
Qed.

Lemma first_occurrence s c : contains_byte s c = true ->
  exists a b, s = a ++ c :: b /\ count_byte a c = 0.
Proof.
  induction s as [|d s IH]; unfold contains_byte; simpl; [discriminate|].
  destruct (Ascii.eqb c d) eqn:E.
  - intros _. apply Ascii.eqb_eq in E; subst. now exists [], s.
  - simpl. intros H. destruct (IH H) as (a & b & -> & Ha).
    exists (d :: a), b. split; [reflexivity|]. now rewrite (count_cons_neq _ _ _ E).
Qed.

Lemma count_app a b c : count_byte (a ++ b) c = count_byte a c + count_byte b c.
Proof. unfold count_byte. now rewrite filter_app, app_length. Qed.

Lemma split_length s c : length (split_byte s c) = S (count_byte s c).
Proof.
  remember (length s) as n eqn:En. revert s En.
  induction n as [n IHn] using lt_wf_ind. intros s En.
  destruct (contains_byte s c) eqn:Hc.
  - destruct (first_occurrence _ _ Hc) as (a & b & -> & Ha).
    rewrite (split_first _ _ _ Ha), count_app, count_cons_eq, Ha. simpl.
    f_equal. apply (IHn (length b)); [|reflexivity]. subst n. rewrite app_length. simpl. lia.
  - apply contains_count in Hc. now rewrite (split_none _ _ Hc), Hc.
Qed.

(** (c): the row the session is bound to is the row of the verified address
    whenever the user name has at most one '@' *)
Theorem bound_identity d u : d <> [] -> count_byte u AT <= 1 ->
  store_of (address_of d u) (extract_username u, get_user_domain d u).
Proof.
  intros Hd Hc. unfold store_of, address_of, extract_username, get_user_domain. simpl fst; simpl snd.
  destruct (contains_byte u AT) eqn:Hat.
  - destruct (first_occurrence _ _ Hat) as (a & b & -> & Ha).
    rewrite count_app, count_cons_eq, Ha in Hc. simpl in Hc.
    assert (Hb : count_byte b AT = 0) by lia.
    rewrite (split_first _ _ _ Ha), (split_none _ _ Hb). reflexivity.
  - destruct d; [congruence|reflexivity].
Qed.

(** ... and is a DIFFERENT row whenever it has more (default domain without '@') *)
Theorem bound_identity_conv d u : d <> [] -> count_byte d AT = 0 -> 2 <= count_byte u AT ->
  ~ store_of (address_of d u) (extract_username u, get_user_domain d u).
Proof.
  intros Hd Hd0 Hc. unfold store_of, address_of, extract_username, get_user_domain. simpl fst; simpl snd.
  destruct (contains_byte u AT) eqn:Hat.
  - destruct (first_occurrence _ _ Hat) as (a & b & -> & Ha).
    rewrite count_app, count_cons_eq, Ha in Hc. simpl in Hc.
    rewrite (split_first _ _ _ Ha).
    pose proof (split_length b AT) as L.
    destruct (split_byte b AT) as [|x [|y l]] eqn:E; simpl in L; try lia.
    simpl. destruct d as [|d0 d]; [congruence|].
    intros H. apply app_inv_head in H. injection H as H. subst b.
    lia.
  - apply contains_count in Hat. lia.
Qed.
