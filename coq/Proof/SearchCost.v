(** fix c12-8 computes the same key lengths as the recursive searchKeyLength, with one
    step per token; the old evaluation cost is quadratic on nested keys. *)
From Coq Require Import List Arith Lia.
From Raven Require Import Model.SearchCost.
Import ListNotations.

Lemma klen_f_indep : forall f1 f2 l, length l < f1 -> length l < f2 -> klen_f f1 l = klen_f f2 l.
Proof.
  induction f1 as [|f1 IH]; intros f2 l H1 H2; [lia|].
  destruct f2 as [|f2]; [lia|].
  destruct l as [|k r]; [reflexivity|]. simpl in H1, H2.
  destruct k; cbn [klen_f]; try reflexivity.
  - f_equal. apply IH; lia.
  - rewrite (IH f2 r) by lia.
    rewrite (IH f2 (skipn (klen_f f2 r) r)); [reflexivity| |];
      (pose proof (skipn_length (klen_f f2 r) r); lia).
Qed.

Lemma klen_not r : klen (KNot :: r) = 1 + klen r.
Proof. reflexivity. Qed.

Lemma klen_f_or f r : klen_f (S f) (KOr :: r) = 1 + klen_f f r + klen_f f (skipn (klen_f f r) r).
Proof. reflexivity. Qed.

Lemma klen_or r : klen (KOr :: r) = 1 + klen r + klen (skipn (klen r) r).
Proof.
  unfold klen. change (length (KOr :: r)) with (S (length r)). rewrite klen_f_or.
  f_equal. apply klen_f_indep; pose proof (skipn_length (klen_f (S (length r)) r) r); lia.
Qed.

(** the table of fix c12-8 holds searchKeyLength(tokens, i) at every position i (and the
    default 1 beyond the end): the fix does not change any result *)
Theorem lens_correct : forall l i, nth i (lens l) 1 = klen (skipn i l).
Proof.
  induction l as [|k r IH]; intros i.
  - destruct i; reflexivity.
  - destruct i as [|i].
    + cbn [lens nth skipn]. destruct k; try reflexivity.
      * rewrite klen_not. rewrite (IH 0). reflexivity.
      * rewrite klen_or. rewrite (IH 0). cbn [skipn]. rewrite (IH (klen r)). reflexivity.
    + cbn [lens nth skipn]. apply IH.
Qed.

Theorem lens_length : forall l, length (lens l) = length l.
Proof. induction l as [|k r IH]; simpl; [reflexivity | now rewrite IH]. Qed.

Theorem new_cost_linear : forall l, new_cost l <= 3 * length l.
Proof.
  intros l. unfold new_cost.
  assert (H : forall (f : kind -> bool) m, length (filter f m) <= length m).
  { intros f m. induction m as [|x m IH]; simpl; [lia|]. destruct (f x); simpl; lia. }
  specialize (H (fun k => match k with KNot | KOr => true | _ => false end) l). lia.
Qed.

(** the old cost on the two chains of the cost probe: measured by computation
    (activations of searchKeyLength during one evaluation) *)
Example old_cost_not_chain :
  map (fun n => ecost (not_chain n)) [5; 10; 20; 40] = [15; 55; 210; 820]           (* n(n+1)/2 *)
  /\ map (fun n => new_cost (not_chain n)) [5; 10; 20; 40] = [16; 31; 61; 121].
Proof. vm_compute. split; reflexivity. Qed.

Example old_cost_or_not_chain :
  map (fun n => ecost (or_not_chain n)) [5; 10; 20; 40] = [80; 310; 1220; 4840]     (* 3n^2 + n *)
  /\ map (fun n => length (or_not_chain n)) [5; 10; 20; 40] = [16; 31; 61; 121]
  /\ map (fun n => new_cost (or_not_chain n)) [5; 10; 20; 40] = [36; 71; 141; 281].
Proof. vm_compute. repeat split; reflexivity. Qed.
