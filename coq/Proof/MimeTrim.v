(** C02 — string lemmas: trimming is idempotent, splitting a value without
    CRLF, header lookup. *)
From Coq Require Import String Ascii List Bool Arith NArith ZArith Lia.
From Raven Require Import Base.GoStr Base.GoStrMime Spec.Mime Model.MimeHeaders Model.MimeStore.
Import ListNotations.

Lemma dw_idem f s : drop_while f (drop_while f s) = drop_while f s.
Proof.
  induction s as [|a s IH]; simpl; [reflexivity|].
  destruct (f a) eqn:E; [exact IH|]. simpl. now rewrite E.
Qed.

Lemma dw_app_last f A c : f c = false -> drop_while f (A ++ [c]) = drop_while f A ++ [c].
Proof.
  intros H. induction A as [|a A IH]; simpl.
  - now rewrite H.
  - destruct (f a); [exact IH | reflexivity].
Qed.

Lemma dw_head f s :
  drop_while f s = [] \/ exists c Y, drop_while f s = c :: Y /\ f c = false.
Proof.
  induction s as [|a s IH]; simpl; [now left|].
  destruct (f a) eqn:E; [exact IH|]. right. now exists a, s.
Qed.

Lemma trim_right_idem f s : trim_right_f f (trim_right_f f s) = trim_right_f f s.
Proof. unfold trim_right_f. now rewrite rev_involutive, dw_idem. Qed.

Lemma trim_right_cons f c Y : f c = false ->
  trim_right_f f (c :: Y) = c :: rev (drop_while f (rev Y)).
Proof.
  intros H. unfold trim_right_f. simpl. rewrite (dw_app_last f (rev Y) c H).
  rewrite rev_app_distr. reflexivity.
Qed.

Lemma trim_f_idem f s : trim_f f (trim_f f s) = trim_f f s.
Proof.
  unfold trim_f, trim_left_f.
  destruct (dw_head f s) as [E | (c & Y & E & Hc)]; rewrite E.
  - reflexivity.
  - rewrite (trim_right_cons f c Y Hc). simpl. rewrite Hc.
    rewrite <- (trim_right_cons f c Y Hc). apply trim_right_idem.
Qed.

Lemma trim_space_idem s : trim_space (trim_space s) = trim_space s.
Proof. apply trim_f_idem. Qed.

Lemma trim_space_sp s : trim_space (S_ " " ++ s) = trim_space s.
Proof. reflexivity. Qed.

(** a value without CRLF is one line *)
Lemma split_aux_none sep : forall fuel s cur,
  index s sep = None -> split_aux fuel s sep cur = [rev cur ++ s].
Proof.
  induction fuel as [|f IH]; intros s cur H; simpl; [reflexivity|].
  destruct s as [|c s'].
  - now rewrite app_nil_r.
  - simpl in H. destruct (has_prefix (c :: s') sep) eqn:P; [discriminate|].
    destruct (index s' sep) eqn:I; [discriminate|].
    rewrite (IH s' (c :: cur) I). simpl. now rewrite <- app_assoc.
Qed.

Lemma split_no_fold v : has_fold v = false -> split v crlf = [v].
Proof.
  unfold has_fold, contains, split. intros H.
  destruct (index v crlf) eqn:I; [discriminate|].
  now rewrite (split_aux_none crlf _ v [] I).
Qed.

Lemma hdr_store_no_fold n v : has_fold v = false -> hdr_store (n, v) = (trim_space n, trim_space v).
Proof.
  intros H. unfold hdr_store. simpl. rewrite (split_no_fold v H). simpl. now rewrite app_nil_r.
Qed.

Lemma is_ct_name_trim n : is_ct_name (trim_space n) = is_ct_name n.
Proof. unfold is_ct_name. now rewrite trim_space_idem. Qed.

Lemma fst_hdr_store h : fst (hdr_store h) = trim_space (fst h).
Proof. unfold hdr_store. destruct (split (snd h) crlf); reflexivity. Qed.
