(** C02 — string lemmas: trimming (idempotent; trimming by a smaller set first
    does not matter), split/join, header lookup, what [hdr_store] keeps. *)
From Coq Require Import String Ascii List Bool Arith NArith ZArith Lia.
From Raven Require Import Base.GoStr Base.GoStrFacts Base.GoStrMime Spec.Mime Model.MimeHeaders Model.MimeStore.
Import ListNotations.

Lemma dw_idem f s : drop_while f (drop_while f s) = drop_while f s.
Proof.
  induction s as [|a s IH]; simpl; [reflexivity|].
  destruct (f a) eqn:E; [exact IH|]. simpl. now rewrite E.
Qed.

Lemma dw_app_last f A c : f c = false -> drop_while f (A ++ [c]) = drop_while f A ++ [c].
Proof.
  intros H. induction A as [|a A IH]; simpl.
  - now rewrite H.
  - destruct (f a); [exact IH | reflexivity].
Qed.

Lemma dw_head f s :
  drop_while f s = [] \/ exists c Y, drop_while f s = c :: Y /\ f c = false.
Proof.
  induction s as [|a s IH]; simpl; [now left|].
  destruct (f a) eqn:E; [exact IH|]. right. now exists a, s.
Qed.

Lemma dw_app f A B :
  drop_while f (A ++ B) = if forallb f A then drop_while f B else drop_while f A ++ B.
Proof.
  induction A as [|a A IH]; simpl; [reflexivity|].
  destruct (f a); simpl; [exact IH | reflexivity].
Qed.

Lemma dw_all f A : forallb f A = true -> drop_while f A = [].
Proof.
  induction A as [|a A IH]; simpl; [reflexivity|].
  destruct (f a); simpl; [exact IH | discriminate].
Qed.

(** the appended text is empty or starts with an octet that is kept *)
Lemma dw_app_stop f A R :
  (R = [] \/ exists c R', R = c :: R' /\ f c = false) ->
  drop_while f (A ++ R) = drop_while f A ++ R.
Proof.
  intros H. rewrite dw_app. destruct (forallb f A) eqn:E; [|reflexivity].
  rewrite (dw_all f A E). destruct H as [-> | (c & R' & -> & Hc)]; simpl; [reflexivity|now rewrite Hc].
Qed.

Lemma trim_right_idem f s : trim_right_f f (trim_right_f f s) = trim_right_f f s.
Proof. unfold trim_right_f. now rewrite rev_involutive, dw_idem. Qed.

Lemma trim_right_cons f c Y : f c = false ->
  trim_right_f f (c :: Y) = c :: rev (drop_while f (rev Y)).
Proof.
  intros H. unfold trim_right_f. simpl. rewrite (dw_app_last f (rev Y) c H).
  rewrite rev_app_distr. reflexivity.
Qed.

Lemma trim_f_idem f s : trim_f f (trim_f f s) = trim_f f s.
Proof.
  unfold trim_f, trim_left_f.
  destruct (dw_head f s) as [E | (c & Y & E & Hc)]; rewrite E.
  - reflexivity.
  - rewrite (trim_right_cons f c Y Hc). simpl. rewrite Hc.
    rewrite <- (trim_right_cons f c Y Hc). apply trim_right_idem.
Qed.

Lemma trim_space_idem s : trim_space (trim_space s) = trim_space s.
Proof. apply trim_f_idem. Qed.

Lemma trim_space_sp s : trim_space (S_ " " ++ s) = trim_space s.
Proof. reflexivity. Qed.

Section Sub.
Variables f g : ascii -> bool.
Hypothesis sub : forall c, f c = true -> g c = true.

Lemma dw_sub s : drop_while g (drop_while f s) = drop_while g s.
Proof.
  induction s as [|a s IH]; simpl; [reflexivity|].
  destruct (f a) eqn:E.
  - rewrite (sub a E). exact IH.
  - reflexivity.
Qed.

Lemma trf_sub s : trim_right_f g (trim_right_f f s) = trim_right_f g s.
Proof. unfold trim_right_f. now rewrite rev_involutive, dw_sub. Qed.
End Sub.

(** left and right trimming commute *)
Lemma trf_dw_comm g x : trim_right_f g (drop_while g x) = drop_while g (trim_right_f g x).
Proof.
  induction x as [|c x IH]; [reflexivity|].
  destruct (g c) eqn:E.
  - simpl drop_while at 1. rewrite E.
    unfold trim_right_f at 2. simpl rev. rewrite dw_app.
    destruct (forallb g (rev x)) eqn:A.
    + simpl. rewrite E. simpl.
      assert (X : drop_while g x = []).
      { apply dw_all. rewrite <- (rev_involutive x). rewrite forallb_forall in *.
        intros y Hy. apply A. now apply in_rev in Hy. }
      rewrite X. reflexivity.
    + rewrite rev_app_distr. simpl. rewrite E. exact IH.
  - simpl drop_while at 1. rewrite E.
    rewrite (trim_right_cons g c x E). simpl. now rewrite E.
Qed.

Lemma trim_after_smaller (f1 f2 g : ascii -> bool) s :
  (forall c, f1 c = true -> g c = true) -> (forall c, f2 c = true -> g c = true) ->
  trim_f g (trim_right_f f2 (drop_while f1 s)) = trim_f g s.
Proof.
  intros S1 S2. unfold trim_f, trim_left_f.
  rewrite trf_dw_comm, (trf_sub f2 g S2), <- trf_dw_comm, (dw_sub f1 g S1). reflexivity.
Qed.

(** ---- strings.Split / Join *)
Lemma split_aux_nonempty sep : forall fuel s cur, split_aux fuel s sep cur <> [].
Proof.
  induction fuel as [|f IH]; intros s cur; simpl; [discriminate|].
  destruct s as [|c s']; [discriminate|].
  destruct (has_prefix (c :: s') sep); [discriminate | apply IH].
Qed.

Lemma join_split_aux sep : forall fuel s cur, join (split_aux fuel s sep cur) sep = rev cur ++ s.
Proof.
  induction fuel as [|f IH]; intros s cur; simpl split_aux.
  - reflexivity.
  - destruct s as [|c s'].
    + simpl. now rewrite app_nil_r.
    + destruct (has_prefix (c :: s') sep) eqn:P.
      * apply has_prefix_spec in P as [r E].
        assert (SK : skipn (length sep) (c :: s') = r).
        { rewrite E. rewrite skipn_app, Nat.sub_diag, skipn_all. reflexivity. }
        rewrite SK.
        pose proof (IH r []) as J. pose proof (split_aux_nonempty sep f r []) as NE.
        destruct (split_aux f r sep []) as [|y l] eqn:Q; [congruence|].
        change (join (rev cur :: y :: l) sep) with (rev cur ++ sep ++ join (y :: l) sep).
        rewrite J. simpl. now rewrite E.
      * rewrite IH. simpl. now rewrite <- app_assoc.
Qed.

Lemma join_split v sep : join (split v sep) sep = v.
Proof. unfold split. now rewrite join_split_aux. Qed.

Lemma join_cons_flat sep : forall ls l0, join (l0 :: ls) sep = l0 ++ flat_map (fun l => sep ++ l) ls.
Proof.
  induction ls as [|l1 ls IH]; intros l0.
  - simpl. now rewrite app_nil_r.
  - change (join (l0 :: l1 :: ls) sep) with (l0 ++ sep ++ join (l1 :: ls) sep).
    rewrite IH. simpl. now rewrite <- app_assoc.
Qed.

(** ---- what extractAllHeaders keeps of one field *)
Lemma sp_tab_is_space c : is_sp_tab c = true -> is_space c = true.
Proof.
  revert c. intros c H.
  assert (K : implb (is_sp_tab c) (is_space c) = true).
  { revert c H. intros c _. revert c. ascii_sweep (fun c => implb (is_sp_tab c) (is_space c)). }
  rewrite H in K. exact K.
Qed.

Lemma ws4_is_space c : in_set ws4 c = true -> is_space c = true.
Proof.
  intros H.
  assert (K : implb (in_set ws4 c) (is_space c) = true).
  { revert c H. intros c _. revert c. ascii_sweep (fun c => implb (in_set ws4 c) (is_space c)). }
  rewrite H in K. exact K.
Qed.

Lemma hdr_store_value n v : trim_space (snd (hdr_store (n, v))) = trim_space v.
Proof.
  unfold hdr_store. cbn [snd fst].
  pose proof (join_split v crlf) as J.
  destruct (split v crlf) as [|l0 ls] eqn:Q.
  - simpl in J. now subst v.
  - cbn [snd]. rewrite join_cons_flat in J.
    unfold save_value, trim_right, trim_left_f.
    rewrite <- (dw_app_stop is_sp_tab l0 (flat_map (fun l => crlf ++ l) ls)).
    + rewrite J. apply trim_after_smaller; [apply sp_tab_is_space | apply ws4_is_space].
    + destruct ls as [|l1 ls']; [now left|]. right. simpl. eexists _, _. split; [reflexivity|]. reflexivity.
Qed.

Lemma fst_hdr_store h : fst (hdr_store h) = trim_space (fst h).
Proof. unfold hdr_store. destruct (split (snd h) crlf); reflexivity. Qed.

Lemma is_ct_name_trim n : is_ct_name (trim_space n) = is_ct_name n.
Proof. unfold is_ct_name. now rewrite trim_space_idem. Qed.

Lemma is_cte_name_trim n : is_cte_name (trim_space n) = is_cte_name n.
Proof. unfold is_cte_name. now rewrite trim_space_idem. Qed.

(** every field keeps its name and value up to surrounding white space *)
Lemma hdr_kept h : hdr_eqv h (out_hdr (hdr_store h)) = true.
Proof.
  destruct h as [n v]. unfold hdr_eqv, out_hdr. cbn [fst snd].
  rewrite fst_hdr_store. cbn [fst]. rewrite trim_space_sp, hdr_store_value, trim_space_idem, !str_eqb_refl.
  reflexivity.
Qed.
