(** C20 — proofs about the session handlers of Model/Lifecycle.v *)
From Coq Require Import String Ascii List Bool ZArith NArith Arith Lia.
From Raven Require Import Base.GoStr Model.Lifecycle Model.LifecycleSrv Model.LifecycleWrite Spec.Lifecycle.
Import ListNotations.

(* ---------------- generic run lemmas ---------------- *)

Lemma irun_cons s e es : fst (irun s (e :: es)) = fst (irun (fst (istep s e)) es).
Proof. cbn [irun]. destruct (istep s e) as [s1 r]. cbn [fst]. destruct (irun s1 es). reflexivity. Qed.

Lemma lrun_cons cf s e es : fst (lrun cf s (e :: es)) = fst (lrun cf (fst (lstep cf s e)) es).
Proof. cbn [lrun]. destruct (lstep cf s e) as [s1 r]. cbn [fst]. destruct (lrun cf s1 es). reflexivity. Qed.

Lemma srun_cons sh m e es : fst (srun sh m (e :: es)) = fst (srun sh (fst (sstep sh m e)) es).
Proof. cbn [srun]. destruct (sstep sh m e) as [s1 r]. cbn [fst]. destruct (srun sh s1 es). reflexivity. Qed.

Lemma irun_app s a b : fst (irun s (a ++ b)) = fst (irun (fst (irun s a)) b).
Proof.
  revert s. induction a as [|e a IH]; intro s; [reflexivity|].
  rewrite <- app_comm_cons, !irun_cons. apply IH.
Qed.

Lemma lrun_app cf s a b : fst (lrun cf s (a ++ b)) = fst (lrun cf (fst (lrun cf s a)) b).
Proof.
  revert s. induction a as [|e a IH]; intro s; [reflexivity|].
  rewrite <- app_comm_cons, !lrun_cons. apply IH.
Qed.

(* ---------------- IMAP ---------------- *)

Lemma istep_done s e : i_mode s = IDone -> fst (istep s e) = s.
Proof. destruct s as [m a se t]; cbn [i_mode]; intro H; subst m; reflexivity. Qed.

Lemma irun_done s es : i_mode s = IDone -> fst (irun s es) = s.
Proof.
  revert s. induction es as [|e es IH]; intros s H; [reflexivity|].
  rewrite irun_cons, istep_done by exact H. apply IH, H.
Qed.

Lemma i_two_steps s e1 e2 :
  is_nodata e1 = true -> is_nodata e2 = true ->
  i_mode (fst (istep (fst (istep s e1)) e2)) = IDone.
Proof.
  intros H1 H2.
  destruct e1 as [l1 o1| | |]; try discriminate H1; destruct e2 as [l2 o2| | |]; try discriminate H2;
    destruct s as [m a se t]; destruct m; reflexivity.
Qed.

Lemma i_nodata_terminates s es :
  no_data es = true -> imap_steps_bound <= length es ->
  i_mode (fst (irun s es)) = IDone.
Proof.
  intros Hn Hl. destruct es as [|e1 [|e2 es]]; simpl in Hl; try (unfold imap_steps_bound in Hl; lia).
  unfold no_data in Hn. simpl in Hn. apply andb_prop in Hn as [H1 Hn]. apply andb_prop in Hn as [H2 _].
  rewrite !irun_cons. rewrite irun_done; apply i_two_steps; assumption.
Qed.

Lemma gone_nodata es : all_gone es = true -> no_data es = true.
Proof.
  unfold all_gone, no_data. induction es as [|e es IH]; simpl; [reflexivity|].
  intro H. apply andb_prop in H as [H1 H2]. rewrite IH by exact H2. destruct e; simpl in *; try discriminate; reflexivity.
Qed.

Lemma silent_nodata es : all_silent es = true -> no_data es = true.
Proof.
  unfold all_silent, no_data. induction es as [|e es IH]; simpl; [reflexivity|].
  intro H. apply andb_prop in H as [H1 H2]. rewrite IH by exact H2. destruct e; simpl in *; try discriminate; reflexivity.
Qed.

(** (a) the client is gone — from EVERY state, IDLE included *)
Lemma imap_gone_terminates s es :
  all_gone es = true -> imap_steps_bound <= length es -> i_done (fst (irun s es)) = true.
Proof.
  intros Hg Hl. unfold i_done. rewrite i_nodata_terminates; try assumption; try reflexivity.
  apply gone_nodata, Hg.
Qed.

(** (b) the client is silent *)
Lemma imap_silent_terminates s es :
  all_silent es = true -> imap_steps_bound <= length es -> i_done (fst (irun s es)) = true.
Proof.
  intros Hg Hl. unfold i_done. rewrite i_nodata_terminates; try assumption; try reflexivity.
  apply silent_nodata, Hg.
Qed.

Lemma imap_silence_time s :
  exists t, i_silence_ms 3 s = Some t /\ (t <= imap_silence_bound)%N.
Proof.
  destruct s as [m a se t]; destruct m; destruct a, se, t; eexists;
    (split; [vm_compute; reflexivity | vm_compute; discriminate]).
Qed.

Lemma imap_deadlines m :
  m <> IDone -> exists d, ideadline m = Some d /\ (0 < d)%N /\ (d <= 1800000)%N.
Proof.
  destruct m; intro H; try (exfalso; apply H; reflexivity); cbn [ideadline]; eexists; (split; [reflexivity|]); split; vm_compute; congruence.
Qed.

(** from every state, any single silence or disconnection leads to the
    command loop or to the end *)
Lemma imap_nodata_step s e :
  is_nodata e = true ->
  let s' := fst (istep s e) in i_mode s' = IDone \/ i_mode s' = ICmd.
Proof.
  intro H. destruct e as [l o| | |]; try discriminate H;
    destruct s as [m a se t]; destruct m; cbn; auto.
Qed.

Definition idle_prefix : list event :=
  [Data (S_ "a LOGIN u p") true; Data (S_ "b SELECT INBOX") true; Data (S_ "c IDLE") true].

Lemma idle_prefix_reaches : i_mode (fst (irun (i_init true) idle_prefix)) = IIdle.
Proof. vm_compute. reflexivity. Qed.

(** regression witnesses: the traces on which raven used to run for ever *)
Lemma imap_idle_gone_ends :
  i_done (fst (irun (i_init true) (idle_prefix ++ [Eof; Eof]))) = true /\
  i_done (fst (irun (i_init true) (idle_prefix ++ [Timeout; ReadErr]))) = true /\
  i_silence_ms 3 (fst (irun (i_init true) idle_prefix)) = Some 1800000%N.
Proof. vm_compute. repeat split; reflexivity. Qed.

(** the behaviour before fixes C20-1/C20-2, as a function of its own (it does
    not mention the current model): every failed poll read left IDLE where it was *)
Definition old_idle_poll (idling : bool) (e : event) : bool :=
  match e with Data l _ => if is_done_word l then false else idling | _ => idling end.

Lemma old_idle_never_ended es : no_data es = true -> fold_left old_idle_poll es true = true.
Proof.
  induction es as [|e es IH]; [reflexivity|]. unfold no_data. simpl. intro H. apply andb_prop in H as [H1 H2].
  destruct e; try discriminate H1; simpl; apply IH, H2.
Qed.

(* ---------------- LMTP ---------------- *)

Lemma lstep_done cf s e : l_mode s = LDone -> fst (lstep cf s e) = s.
Proof. destruct s as [m a b c]; cbn [l_mode]; intro H; subst m; reflexivity. Qed.

Lemma lrun_done cf s es : l_mode s = LDone -> fst (lrun cf s es) = s.
Proof.
  revert s. induction es as [|e es IH]; intros s H; [reflexivity|].
  rewrite lrun_cons, lstep_done by exact H. apply IH, H.
Qed.

Lemma l_two_steps cf s e1 e2 :
  is_nodata e1 = true -> is_nodata e2 = true ->
  l_mode (fst (lstep cf (fst (lstep cf s e1)) e2)) = LDone.
Proof.
  intros H1 H2.
  destruct e1 as [l1 o1| | |]; try discriminate H1; destruct e2 as [l2 o2| | |]; try discriminate H2;
    destruct s as [m a b c]; destruct m; reflexivity.
Qed.

Lemma lmtp_nodata_terminates cf s es :
  no_data es = true -> lmtp_steps_bound <= length es -> l_done (fst (lrun cf s es)) = true.
Proof.
  intros Hn Hl. destruct es as [|e1 [|e2 es]]; simpl in Hl; try (unfold lmtp_steps_bound in Hl; lia).
  unfold no_data in Hn. simpl in Hn. apply andb_prop in Hn as [H1 Hn]. apply andb_prop in Hn as [H2 _].
  rewrite !lrun_cons. unfold l_done. rewrite lrun_done; rewrite l_two_steps; try assumption; reflexivity.
Qed.

Lemma lmtp_silence_time cf s :
  exists t, l_silence_ms cf 3 s = Some t /\ (t <= 2 * lc_timeout_ms cf)%N.
Proof.
  destruct s as [m a b c]; destruct m; cbn [l_silence_ms ldeadline l_mode lstep l_set fst]; eexists; (split; [reflexivity|]); lia.
Qed.

(** QUIT is the only line that ends the session; a read failure is the only
    other way *)
Lemma lmtp_quit_ends cf s ok : l_mode s = LCmd -> l_done (fst (lstep cf s (Data (S_ "QUIT") ok))) = true.
Proof. destruct s as [m a b c]; cbn [l_mode]; intro H; subst m; destruct a, b, ok; vm_compute; reflexivity. Qed.

(* ---------------- SASL ---------------- *)

Lemma sasl_nodata_terminates sh m es :
  no_data es = true -> sasl_steps_bound <= length es -> s_done (fst (srun sh m es)) = true.
Proof.
  intros Hn Hl. destruct es as [|e es]; simpl in Hl; try (unfold sasl_steps_bound in Hl; lia).
  unfold no_data in Hn. simpl in Hn. apply andb_prop in Hn as [H1 _].
  rewrite srun_cons.
  assert (Hd : fst (sstep sh m e) = SDone) by (destruct e as [l o| | |]; try discriminate H1; destruct m; reflexivity).
  rewrite Hd. clear. induction es as [|e es IH]; [reflexivity|]. rewrite srun_cons. exact IH.
Qed.

Lemma sasl_deadline m : m <> SDone -> sdeadline m = Some 30000%N.
Proof. destruct m; intro H; [reflexivity | exfalso; apply H; reflexivity]. Qed.

(** once Shutdown has begun, a connection survives only lines of a single
    field (which do not re-arm the 30 s deadline): any request that is answered
    is the last one, and any failed read ends the handler *)
Lemma sasl_shutdown_ends_connection m e :
  s_done (fst (sstep true m e)) = true \/
  (exists l o, e = Data l o /\ snd (sstep true m e) = 0 /\ fst (sstep true m e) = m).
Proof.
  destruct m; [|left; reflexivity].
  destruct e as [l o| | |]; try (left; reflexivity).
  cbn [sstep]. destruct (max_token <=? N.of_nat (length l))%N; [left; reflexivity|].
  destruct (length (split_tab l) <? 2); [right; exists l, o; repeat split; reflexivity | left; reflexivity].
Qed.
