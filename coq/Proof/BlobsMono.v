(** C15: blob rows persist (same id, hash and stored form) and reference
    counts never decrease along any history; a store whose hash lookup is
    stale (another session wrote in between) behaves like a sequential store
    with some database outcome. *)
From Coq Require Import String Ascii List Bool Arith Lia.
From Raven Require Import Base.GoStr Model.Blobs Proof.BlobsInv.
Import ListNotations.

Definition persists (bl bl' : list blobrow) : Prop :=
  forall id b, get_blob bl id = Some b ->
  exists b', get_blob bl' id = Some b' /\ b_key b' = b_key b /\ b_form b' = b_form b /\ b_refs b <= b_refs b'.

Lemma persists_refl bl : persists bl bl.
Proof. intros id b H. exists b. repeat split; auto. Qed.

Lemma persists_trans a b c : persists a b -> persists b c -> persists a c.
Proof.
  intros H1 H2 id x Hx. destruct (H1 _ _ Hx) as (y & Hy & K1 & F1 & R1).
  destruct (H2 _ _ Hy) as (z & Hz & K2 & F2 & R2). exists z. repeat split; try congruence. lia.
Qed.

Lemma persists_incr bl id : persists bl (incr_ref bl id).
Proof.
  intros i b H. rewrite get_blob_incr, H. simpl.
  destruct (Nat.eqb i id); eexists; split; try reflexivity; simpl; repeat split; lia.
Qed.

Lemma persists_app bl x : persists bl (bl ++ [x]).
Proof. intros i b H. exists b. split; [apply get_blob_app_old; assumption|repeat split; lia]. Qed.

Section Mono.
Variable key : str -> str -> str.
Variable okey : str -> str.
Hypothesis okey_ne : forall a, okey a <> [].

Lemma persists_store_blob f bl enc content d r bl' :
  store_blob key f bl enc content d = (r, bl') -> persists bl bl'.
Proof.
  unfold store_blob. destruct d.
  - destruct (find_key bl (key enc content)); intros H; inversion H; subst;
      [apply persists_incr|apply persists_app].
  - intros H; inversion H; subst. apply persists_refl.
Qed.

Lemma persists_link f stored bl p d0 r bl' row bl'' :
  call_ok okey f stored (p_content p) ->
  store_blob key f bl (p_enc p) (p_content p) d0 = (r, bl') ->
  link_or_inline p r bl' stored = (row, bl'') ->
  persists bl bl''.
Proof.
  intros C Hs Hl. unfold link_or_inline in Hl.
  destruct r as [id|]; [|inversion Hl; subst; eapply persists_store_blob; eassumption].
  destruct (blob_holds bl' id (p_content p) stored) eqn:Hh; inversion Hl; subst.
  - eapply persists_store_blob; eassumption.
  - destruct d0; [|rewrite store_blob_fail in Hs; discriminate].
    destruct (give_back_keeps_row key okey okey_ne _ _ _ _ _ _ _ C Hs Hh) as (_ & ->).
    apply persists_refl.
Qed.

Lemma persists_store_part s3on w p o d row w' o' d' :
  store_part key okey s3on w p o d = (row, w', o', d') -> persists (w_blobs w) (w_blobs w').
Proof.
  unfold store_part. destruct (out_of_line p); [|intros E; inversion E; subst; apply persists_refl].
  destruct s3on.
  - destruct (s3_store okey (w_objs w) (p_content p) o) as [[[r objs'] o1] lg] eqn:Es.
    destruct (take d) as [d0 d1]. destruct r as [k|].
    + rewrite (s3_store_key okey _ _ _ _ _ _ _ Es).
      destruct (store_blob key (FS3 (okey (p_content p))) (w_blobs w) (p_enc p) (p_content p) d0) as [r bl'] eqn:Eb.
      destruct (link_or_inline p r bl' (Some (okey (p_content p)))) as [row0 bl''] eqn:El.
      intros E; inversion E; subst; simpl.
      eapply persists_link; [right; split; reflexivity|eassumption|eassumption].
    + destruct (store_blob key (FLocal (p_content p)) (w_blobs w) (p_enc p) (p_content p) d0) as [r bl'] eqn:Eb.
      destruct (link_or_inline p r bl' None) as [row0 bl''] eqn:El.
      intros E; inversion E; subst; simpl.
      eapply persists_link; [left; split; reflexivity|eassumption|eassumption].
  - destruct (take d) as [d0 d1].
    destruct (store_blob key (FLocal (p_content p)) (w_blobs w) (p_enc p) (p_content p) d0) as [r bl'] eqn:Eb.
    destruct (link_or_inline p r bl' None) as [row0 bl''] eqn:El.
    intros E; inversion E; subst; simpl.
    eapply persists_link; [left; split; reflexivity|eassumption|eassumption].
Qed.

Lemma persists_store_parts s3on ps : forall w o d acc rows w',
  store_parts key okey s3on w ps o d acc = (rows, w') -> persists (w_blobs w) (w_blobs w').
Proof.
  induction ps as [|p ps IH]; intros w o d acc rows w' E; simpl in E.
  - inversion E; subst. apply persists_refl.
  - destruct (store_part key okey s3on w p o d) as [[[row w1] o1] d1] eqn:Ep.
    eapply persists_trans; [eapply persists_store_part; eassumption|eapply IH; eassumption].
Qed.

Lemma persists_step w e : persists (w_blobs w) (w_blobs (step key okey w e)).
Proof.
  destruct e as [s3on o d ps|ks]; simpl; [|apply persists_refl].
  unfold store_msg. destruct (store_parts key okey s3on w ps o d []) as [rows w'] eqn:E. simpl.
  eapply persists_store_parts; eassumption.
Qed.

Lemma persists_fold evs : forall w, persists (w_blobs w) (w_blobs (fold_left (step key okey) evs w)).
Proof.
  induction evs as [|e evs IH]; intros w; simpl; [apply persists_refl|].
  eapply persists_trans; [apply persists_step|apply IH].
Qed.

(** refcounts only grow, blob rows are never removed or rewritten *)
Lemma run_persists evs more : persists (w_blobs (run key okey evs)) (w_blobs (run key okey (evs ++ more))).
Proof. unfold run. rewrite fold_left_app. apply persists_fold. Qed.

(* ---- concurrency: a store whose SELECT-by-hash was done against an earlier
   table.  [looked] is the stale result; the write happens against [bl]:
   UPDATE for a row that was found, INSERT otherwise — which fails on
   UNIQUE(sha256_hash) when another session inserted the hash meanwhile. *)
Definition write_stale (f : form) (bl : list blobrow) (enc content : str) (looked : option nat)
  : option nat * list blobrow :=
  match looked with
  | Some id => (Some id, incr_ref bl id)
  | None => match find_key bl (key enc content) with
            | None => (Some (S (length bl)), bl ++ [mkBlob (key enc content) f 1])
            | Some _ => (None, bl)
            end
  end.

Lemma find_key_from_unique i bl k n b :
  NoDup (map b_key bl) -> nth_error bl n = Some b -> b_key b = k -> find_key_from i bl k = Some (i + n).
Proof.
  revert i n; induction bl as [|x bl IH]; intros i n N H K; [destruct n; discriminate|].
  simpl. inversion N as [|? ? Nin N']; subst. destruct n; simpl in H.
  - inversion H; subst. rewrite str_eqb_refl. f_equal. lia.
  - destruct (str_eqb_spec (b_key x) (b_key b)) as [E|E].
    + exfalso. apply Nin. rewrite E. apply in_map. eapply nth_error_In; eassumption.
    + rewrite (IH (S i) n N' H eq_refl). f_equal. lia.
Qed.

(** a lookup made against an earlier table [bl0] *)
Definition looked_in (bl0 : list blobrow) (enc content : str) : option nat := find_key bl0 (key enc content).

(** every interleaving reduces to the sequential store with SOME database
    outcome: the stale-lookup write against a later table equals store_blob
    with outcome OOk, or (UNIQUE conflict) with outcome OFail *)
Lemma write_stale_sequential f bl0 bl enc content :
  persists bl0 bl -> NoDup (map b_key bl) ->
  exists d0, write_stale f bl enc content (looked_in bl0 enc content) = store_blob key f bl enc content d0.
Proof.
  intros P N. unfold write_stale, looked_in.
  destruct (find_key bl0 (key enc content)) as [id|] eqn:L.
  - destruct (find_key_some _ _ _ L) as (b0 & Hb0 & K0).
    destruct (P _ _ Hb0) as (b & Hb & K & _ & _).
    exists OOk. unfold store_blob.
    destruct id as [|n]; [discriminate|]. simpl in Hb.
    assert (F : find_key bl (key enc content) = Some (S n)).
    { unfold find_key. rewrite (find_key_from_unique 1 bl (key enc content) n b N Hb); [reflexivity|congruence]. }
    rewrite F. reflexivity.
  - destruct (find_key bl (key enc content)) as [id|] eqn:F.
    + exists OFail. reflexivity.
    + exists OOk. unfold store_blob. rewrite F. reflexivity.
Qed.

End Mono.

(* ---- regression examples about WRONG code (seeded changes C02-4, C08-4);
   they do not mention the current model's store loop *)

(** db.DecrementBlobReference with its delete-at-zero, on the table as a list
    of optional rows (None = deleted) *)
Fixpoint release_from (i : nat) (bl : list (option blobrow)) (id : nat) : list (option blobrow) :=
  match bl with
  | [] => []
  | x :: r =>
      (if Nat.eqb i id then
         match x with
         | Some b => if Nat.leb (b_refs b) 1 then None else Some (mkBlob (b_key b) (b_form b) (Nat.pred (b_refs b)))
         | None => None
         end
       else x) :: release_from (S i) r id
  end.
Definition release (bl : list (option blobrow)) (id : nat) := release_from 1 bl id.
