(** C11: the intermediate paths of HandleCreate / RenameMailboxPerUser are the
    proper prefixes that end before a '/', and creating the missing ones. *)
From Coq Require Import String Ascii List Bool Arith ZArith Lia.
From Raven Require Import Base.GoStr Base.GoStrFacts Base.Like Model.Pattern Model.Names Spec.Names Proof.NamesUpdates.
Import ListNotations.

Lemma split_byte_aux_nonempty s sep cur : split_byte_aux s sep cur <> [].
Proof. revert cur; induction s as [|c s IH]; intros cur; simpl; [discriminate|]. destruct (Ascii.eqb c sep); [discriminate|apply IH]. Qed.

Lemma parent_paths_split s : forall cur acc first,
  (first = true -> acc = []) ->
  parent_paths (split_byte_aux s delim cur) acc first =
  prefixes_at_delim (rev ((if first then [] else acc ++ [delim]) ++ rev cur)) s.
Proof.
  induction s as [|c s IH]; intros cur acc first Hf; simpl; [reflexivity|].
  destruct (Ascii.eqb c delim) eqn:Ec.
  - simpl. destruct (split_byte_aux s delim []) eqn:Es; [exfalso; eapply split_byte_aux_nonempty; eauto|].
    rewrite <- Es. rewrite rev_involutive.
    assert (Ecur : (if first then acc else acc ++ [delim]) ++ rev cur = (if first then [] else acc ++ [delim]) ++ rev cur).
    { destruct first; [rewrite (Hf eq_refl); reflexivity | reflexivity]. }
    rewrite Ecur. f_equal.
    rewrite IH by discriminate. simpl. rewrite app_nil_r.
    apply Ascii.eqb_eq in Ec. subst c.
    rewrite (rev_app_distr _ [delim]). reflexivity.
  - rewrite IH by exact Hf. simpl. f_equal.
    rewrite app_assoc. rewrite (rev_app_distr _ [c]). reflexivity.
Qed.

Lemma paths_of_raw n : paths_of n = raw_parents n.
Proof. unfold paths_of, split_byte, raw_parents. now rewrite parent_paths_split. Qed.

Lemma prefixes_in p s : forall pre,
  In p (prefixes_at_delim pre s) <-> exists a r, s = a ++ delim :: r /\ p = rev pre ++ a.
Proof.
  induction s as [|c s IH]; intros pre; simpl.
  - split; [tauto|]. intros (a & r & E & _). destruct a; discriminate.
  - rewrite in_app_iff, IH. split.
    + intros [H|(a & r & -> & ->)].
      * destruct (Ascii.eqb_spec c delim) as [->|]; [|contradiction]. destruct H as [<-|[]].
        exists [], s. rewrite app_nil_r. auto.
      * exists (c :: a), r. simpl. rewrite <- app_assoc. auto.
    + intros (a & r & E & ->). destruct a as [|d a]; simpl in E; injection E as -> ->.
      * left. rewrite Ascii.eqb_refl. rewrite app_nil_r. simpl. auto.
      * right. exists a, r. simpl. rewrite <- app_assoc. auto.
Qed.

Lemma raw_parents_in p n : In p (raw_parents n) <-> exists r, n = p ++ delim :: r.
Proof.
  unfold raw_parents. rewrite prefixes_in. simpl. split.
  - intros (a & r & -> & ->). eauto.
  - intros (r & ->). eauto.
Qed.

Lemma raw_parents_child p n : In p (raw_parents n) <-> is_child p n = true.
Proof. rewrite raw_parents_in, is_child_split. reflexivity. Qed.

Lemma contains_byte_false_no_parents n : contains_byte n delim = false -> raw_parents n = [].
Proof.
  intros H. destruct (raw_parents n) as [|p l] eqn:E; [reflexivity|].
  assert (Hin : In p (raw_parents n)) by (rewrite E; simpl; auto).
  apply raw_parents_in in Hin as (r & ->). unfold contains_byte in H.
  rewrite existsb_app in H. apply orb_false_iff in H as [_ H]. cbn in H. discriminate.
Qed.

Lemma create_missing_ok ps : forall bs,
  create_missing ps bs = add_missing (filter parent_name ps) bs.
Proof.
  induction ps as [|p ps IH]; intros bs; simpl; [reflexivity|].
  unfold create_missing in *. simpl. unfold create_missing_step at 2. unfold create_box, parent_name.
  destruct (equal_fold p INBOX) eqn:Hi; simpl.
  - rewrite andb_false_r. apply IH.
  - rewrite andb_true_r. destruct (is_nil p) eqn:Hp; simpl.
    + destruct (exists_box bs p); apply IH.
    + unfold add_missing. simpl. destruct (exists_box bs p) eqn:E; apply IH.
Qed.

(** the parent paths the code walks are the spec's parents *)
Lemma create_missing_parents n bs : create_missing (paths_of n) bs = add_missing (parents n) bs.
Proof. rewrite create_missing_ok, paths_of_raw. reflexivity. Qed.

Lemma parents_child p n : In p (parents n) -> is_child p n = true.
Proof. unfold parents. intros H. apply filter_In in H as [H _]. now apply raw_parents_child. Qed.

Lemma add_missing_names ps : forall bs m,
  In m (names (add_missing ps bs)) <-> In m (names bs) \/ In m ps.
Proof.
  induction ps as [|p ps IH]; intros bs m; unfold add_missing in *; simpl; [tauto|].
  rewrite IH. destruct (exists_box bs p) eqn:E.
  - apply exists_box_in in E. split; [tauto|]. intros [H|[<-|H]]; auto.
  - unfold names. rewrite map_app, in_app_iff. simpl. tauto.
Qed.

Lemma NoDup_snoc {A} (l : list A) x : NoDup l -> ~ In x l -> NoDup (l ++ [x]).
Proof.
  induction 1 as [|a l Ha Hl IH]; intros Hx; simpl.
  - constructor; [simpl; tauto|constructor].
  - constructor.
    + rewrite in_app_iff. simpl in *. intuition congruence.
    + apply IH. simpl in Hx. tauto.
Qed.

Lemma add_missing_nodup ps : forall bs, NoDup (names bs) -> NoDup (names (add_missing ps bs)).
Proof.
  induction ps as [|p ps IH]; intros bs H; unfold add_missing in *; simpl; [exact H|].
  apply IH. destruct (exists_box bs p) eqn:E; [exact H|].
  apply exists_box_false in E. unfold names in *. rewrite map_app. simpl.
  now apply NoDup_snoc.
Qed.
