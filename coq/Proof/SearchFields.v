(** C19 — the keys that read the message text: headerFieldValues computes the
    unfolded values of the field's occurrences (Spec.Search.field_values),
    hasHeader decides whether there is one, BODY searches the body. *)
From Coq Require Import String Ascii List Bool Arith NArith ZArith Lia.
From Raven Require Import Base.GoStr Base.GoStrFacts Model.Search Model.SearchText Spec.Search Model.SearchClass
  Proof.SearchTok Proof.SearchAtoms.
Import ListNotations.
Local Arguments Ascii.eqb : simpl never.

Lemma header_lines_nonempty lines : Forall (fun l => l <> []) (header_lines lines).
Proof.
  induction lines as [|l ls IH]; [constructor|]. cbn [header_lines].
  destruct (trim_right l [CR]) eqn:E; [constructor|]. constructor; [discriminate | exact IH].
Qed.

(** ** headerFieldValues *)
Section Hfv.
Variable name : str.
Notation fc := (to_upper name ++ [colon]).
Notation isf := (fun f : str * str => is_field name (fst f)).

(** the loop's state against the field under construction; [done] = the values
    of the completed occurrences *)
Definition hfv_rel (it : bool) (acc : list str) (cur : option (str * str)) (done : list str) : Prop :=
  if it then exists first conts, cur = Some (first, conts) /\ is_field name first = true
                                 /\ acc = (value_after_colon first ++ conts) :: rev done
  else acc = rev done /\ match cur with Some (first, _) => is_field name first = false | None => True end.

Lemma hfv_inv lines : Forall (fun l => l <> []) lines -> forall it acc cur done, hfv_rel it acc cur done ->
  hfv_loop lines fc it acc = done ++ map field_value (filter isf (unfold_fields lines cur)).
Proof.
  induction 1 as [|line ls Hne _ IH]; intros it acc cur done R.
  - cbn [hfv_loop unfold_fields]. destruct it.
    + destruct R as (first & conts & -> & F & ->). cbn [filter fst]. rewrite F. cbn [map field_value fst snd rev].
      now rewrite rev_involutive.
    + destruct R as [-> C]. rewrite rev_involutive.
      destruct cur as [[first conts]|]; cbn [filter fst]; [rewrite C|]; cbn [map]; now rewrite app_nil_r.
  - destruct line as [|c l]; [congruence|]. cbn [hfv_loop unfold_fields is_wsp_line].
    destruct (Ascii.eqb c sp || Ascii.eqb c tab) eqn:W.
    + (* continuation line *)
      destruct it.
      * destruct R as (first & conts & -> & F & ->).
        apply IH. cbn [hfv_rel]. exists first, (conts ++ c :: l). repeat split; [exact F|].
        unfold field_value. now rewrite app_assoc.
      * destruct R as [-> C]. apply IH. cbn [hfv_rel]. split; [reflexivity|].
        destruct cur as [[first conts]|]; exact C.
    + (* a new field starts: the one under construction is complete *)
      fold (is_field name (c :: l)).
      destruct it.
      * destruct R as (first & conts & -> & F & ->).
        cbn [app filter fst]. rewrite F. cbn [map field_value fst snd].
        destruct (is_field name (c :: l)) eqn:N.
        -- rewrite (IH true _ (Some (c :: l, [])) (done ++ [value_after_colon first ++ conts])).
           ++ now rewrite <- app_assoc.
           ++ cbn [hfv_rel]. exists (c :: l), []. repeat split; [exact N|]. rewrite app_nil_r, rev_app_distr. reflexivity.
        -- rewrite (IH false _ (Some (c :: l, [])) (done ++ [value_after_colon first ++ conts])).
           ++ now rewrite <- app_assoc.
           ++ cbn [hfv_rel]. split; [now rewrite rev_app_distr | exact N].
      * destruct R as [-> C].
        assert (Z0 : forall X, map field_value (filter isf (match cur with Some f => [f] | None => [] end ++ X))
                           = map field_value (filter isf X)).
        { intros X. destruct cur as [[first conts]|]; [|reflexivity]. cbn [app filter fst]. now rewrite C. }
        etransitivity; [|rewrite Z0; reflexivity].
        destruct (is_field name (c :: l)) eqn:N.
        -- apply IH. cbn [hfv_rel]. exists (c :: l), []. repeat split; [exact N|]. now rewrite app_nil_r.
        -- apply IH. cbn [hfv_rel]. split; [reflexivity | exact N].
Qed.

Lemma header_field_values_spec raw : header_field_values raw name = field_values raw name.
Proof.
  unfold header_field_values, field_values, fields_of.
  rewrite (hfv_inv _ (header_lines_nonempty _) false [] None []); [reflexivity|].
  cbn [hfv_rel]. split; [reflexivity | exact I].
Qed.
End Hfv.

(** headerContains decides the field semantics *)
Lemma header_contains_spec raw name v : header_contains raw name v = field_matches raw name v.
Proof. unfold header_contains, field_matches. now rewrite header_field_values_spec. Qed.

(** ** hasHeader: HEADER f "" *)
Lemma contains_empty s : contains s [] = true.
Proof. unfold contains. destruct s; reflexivity. Qed.

Lemma upper_not_wsp x : (32 <? byte_of x)%N = true ->
  Ascii.eqb (upper_c x) sp = false /\ Ascii.eqb (upper_c x) tab = false.
Proof.
  intros H.
  assert (K : negb (32 <? byte_of x)%N || (negb (Ascii.eqb (upper_c x) sp) && negb (Ascii.eqb (upper_c x) tab)) = true).
  { clear H. revert x. ascii_sweep (fun x => negb (32 <? byte_of x)%N || (negb (Ascii.eqb (upper_c x) sp) && negb (Ascii.eqb (upper_c x) tab))). }
  rewrite H in K. cbn [negb orb] in K. apply andb_true_iff in K as [K1 K2]. now apply negb_true_iff in K1, K2.
Qed.

Lemma wsp_not_field f c l : field_name_ok f = true -> Ascii.eqb c sp || Ascii.eqb c tab = true -> is_field f (c :: l) = false.
Proof.
  unfold field_name_ok. destruct f as [|x f]; [discriminate|]. intros H W.
  cbn [forallb] in H. apply andb_true_iff in H as [H _]. repeat (apply andb_true_iff in H as [H _]).
  destruct (upper_not_wsp x H) as [E1 E2].
  unfold is_field. cbn [to_upper map app has_prefix].
  apply orb_true_iff in W as [W | W]; apply Ascii.eqb_eq in W; subst c.
  - replace (upper_c sp) with sp by reflexivity. now rewrite E1.
  - replace (upper_c tab) with tab by reflexivity. now rewrite E2.
Qed.

Lemma has_header_inv f lines : field_name_ok f = true -> Forall (fun l => l <> []) lines -> forall cur,
  existsb (is_field f) lines || match cur with Some (a, _) => is_field f a | None => false end
  = existsb (fun _ => true) (filter (fun fl : str * str => is_field f (fst fl)) (unfold_fields lines cur)).
Proof.
  intros Hf. induction 1 as [|line ls Hne _ IH]; intros cur.
  - cbn [existsb unfold_fields orb]. destruct cur as [[a c]|]; [|reflexivity]. cbn [filter fst]. destruct (is_field f a); reflexivity.
  - destruct line as [|c l]; [congruence|]. cbn [existsb unfold_fields is_wsp_line].
    destruct (Ascii.eqb c sp || Ascii.eqb c tab) eqn:W.
    + rewrite (wsp_not_field f c l Hf W). cbn [orb]. rewrite <- IH. destruct cur as [[a c0]|]; reflexivity.
    + rewrite filter_app, existsb_app, <- IH. cbn [orb].
      destruct cur as [[a c0]|]; cbn [filter fst]; [destruct (is_field f a)|]; cbn [existsb orb];
        destruct (is_field f (c :: l)), (existsb (is_field f) ls); reflexivity.
Qed.

Lemma has_header_spec raw f : field_name_ok f = true -> has_header raw f = field_matches raw f [].
Proof.
  intros Hf. change (has_header raw f) with (existsb (is_field f) (header_lines (split_byte raw LF))).
  unfold field_matches, field_values, fields_of.
  pose proof (has_header_inv f _ Hf (header_lines_nonempty (split_byte raw LF)) None) as E. rewrite orb_false_r in E.
  rewrite E.
  induction (filter _ _) as [|x xs IHx]; [reflexivity|]. cbn [existsb map]. cbn [to_upper map]. now rewrite contains_empty.
Qed.

Lemma matches_header_spec m f v : field_name_ok f = true ->
  matches_header m f v = field_matches (m_text m) f v.
Proof.
  intros Hf. unfold matches_header. destruct v as [|x v]; [now apply has_header_spec|].
  rewrite header_contains_spec. unfold field_matches. now rewrite to_upper_idem.
Qed.

Lemma matches_hdr_spec m h v :
  matches_header_or_body m (hdr_kw h) v = field_matches (m_text m) (hdr_field h) v.
Proof.
  destruct h; cbn [hdr_kw hdr_field matches_header_or_body]; rewrite header_contains_spec; unfold field_matches;
    now rewrite to_upper_idem.
Qed.

(** ** BODY *)
Lemma index_skipn sub : forall s i, index s sub = Some i -> skipn i s = sub ++ skipn (i + length sub) s.
Proof.
  induction s as [|c s IH]; intros i H; cbn [index] in H.
  - destruct (has_prefix [] sub) eqn:P; [|discriminate]. injection H as <-. destruct sub; [reflexivity | discriminate].
  - destruct (has_prefix (c :: s) sub) eqn:P.
    + injection H as <-. apply has_prefix_spec in P as [r E]. rewrite E. cbn [skipn Nat.add]. now rewrite skipn_app, Nat.sub_diag, skipn_all.
    + destruct (index s sub) as [j|] eqn:J; [|discriminate]. injection H as <-. cbn [skipn Nat.add]. now apply IH.
Qed.

Lemma contains_skip1 c rest x w : Ascii.eqb x c = false -> contains (c :: rest) (x :: w) = contains rest (x :: w).
Proof. intros E. rewrite contains_cons. cbn [has_prefix]. now rewrite E. Qed.

Lemma upper_not_crlf x : qchar_ok x = true -> Ascii.eqb (upper_c x) CR = false /\ Ascii.eqb (upper_c x) LF = false.
Proof.
  unfold qchar_ok. intros H. repeat (apply andb_true_iff in H as [H ?]).
  repeat match goal with X : negb _ = true |- _ => apply negb_true_iff in X end.
  split.
  - destruct (Ascii.eqb_spec (upper_c x) CR) as [E|]; [|reflexivity]. apply (upper_c_fix_inv CR) in E; [|reflexivity|reflexivity].
    subst. discriminate.
  - destruct (Ascii.eqb_spec (upper_c x) LF) as [E|]; [|reflexivity]. apply (upper_c_fix_inv LF) in E; [|reflexivity|reflexivity].
    subst. discriminate.
Qed.

Lemma matches_body_spec m v : string_ok v = true ->
  matches_header_or_body m KwBODY v
  = match body_of (m_text m) with Some b => contains (to_upper b) (to_upper v) | None => false end.
Proof.
  intros Hv. cbn [matches_header_or_body]. unfold body_of, crlfcrlf.
  assert (P : forall sub B, (sub = [CR; LF; CR; LF] \/ sub = [LF; LF]) ->
              contains (to_upper (sub ++ B)) (to_upper v) = contains (to_upper B) (to_upper v)).
  { intros sub B Hs. destruct v as [|x v]; [now rewrite !contains_empty|].
    cbn [string_ok forallb] in Hv. apply andb_true_iff in Hv as [Hx _]. destruct (upper_not_crlf x Hx) as [E1 E2].
    rewrite to_upper_app. cbn [to_upper map].
    destruct Hs as [-> | ->].
    - change (to_upper [CR; LF; CR; LF]) with [CR; LF; CR; LF]. cbn [app]. now rewrite !contains_skip1 by assumption.
    - change (to_upper [LF; LF]) with [LF; LF]. cbn [app]. now rewrite !contains_skip1 by assumption. }
  destruct (index (m_text m) [CR; LF; CR; LF]) as [i|] eqn:I1.
  - rewrite (index_skipn _ _ _ I1). cbn [length]. now apply P; left.
  - destruct (index (m_text m) [LF; LF]) as [i|] eqn:I2; [|reflexivity].
    rewrite (index_skipn _ _ _ I2). cbn [length]. now apply P; right.
Qed.
