(** C08 — first open of a store (Model/ConcInit.v): with BEGIN IMMEDIATE no
    session fails, whatever the interleaving and the number of sessions; the
    five default mailboxes are committed exactly once. *)
From Coq Require Import List Bool Arith Lia ZArith.
From Raven Require Import Model.Conc Model.ConcInit Proof.ConcInv.
Import ListNotations.

Definition all_imm (c : icfg) : Prop :=
  forall i t, nth_error (ths c) i = Some t -> it_mode t = Immediate.

Definition in_tx (t : ithread) : bool :=
  match it_st t with IIns _ | ICommit => true | _ => false end.
Definition opened (t : ithread) : bool :=
  match it_st t with IDeliver | IDone => true | _ => false end.

Record IInv (c : icfg) : Prop := mkIInv {
  ii_imm : all_imm c;
  ii_one : forall i j ti tj, i <> j -> nth_error (ths c) i = Some ti -> nth_error (ths c) j = Some tj ->
           holds_w ti = true -> holds_w tj = true -> False;
  ii_tx : forall i t, nth_error (ths c) i = Some t -> in_tx t = true -> defaults c = 0;
  ii_open : forall i t, nth_error (ths c) i = Some t -> opened t = true -> defaults c = 1;
  ii_le : defaults c <= 1;
  ii_nofail : forall i t, nth_error (ths c) i = Some t -> is_ifail t = false
}.

Lemma others_false p l i :
  others p l i = false ->
  forall j t, j <> i -> nth_error l j = Some t -> p t = false.
Proof.
  unfold others. intros H j t NE N.
  destruct (p t) eqn:P; auto. exfalso.
  assert (X : existsb (fun j0 => negb (Nat.eqb j0 i) &&
             match nth_error l j0 with Some t0 => p t0 | None => false end) (seq 0 (length l)) = true).
  { apply existsb_exists. exists j. split.
    - apply in_seq. split; [lia|]. simpl. apply nth_error_Some. congruence.
    - rewrite N, P. destruct (Nat.eqb_spec j i); [contradiction|reflexivity]. }
  congruence.
Qed.

Lemma iinit_inv modes : Forall (fun m => m = Immediate) modes -> IInv (iinit modes).
Proof.
  intros F. unfold iinit.
  assert (ST : forall i t, nth_error (map (fun m => mkIT m ICount) modes) i = Some t ->
               it_st t = ICount /\ it_mode t = Immediate).
  { intros i t H. apply nth_error_In in H. apply in_map_iff in H. destruct H as (m & <- & Hm).
    rewrite Forall_forall in F. split; [reflexivity|apply F; exact Hm]. }
  split; cbn [defaults ths]; auto.
  - intros i t H. apply (ST i t H).
  - intros i j ti tj _ Hi _ W. destruct (ST _ _ Hi) as [S M]. unfold holds_w in W. rewrite S, M in W. discriminate.
  - intros i t H X. destruct (ST _ _ H) as [S _]. unfold opened in X. rewrite S in X. discriminate.
  - intros i t H. destruct (ST _ _ H) as [S _]. unfold is_ifail. rewrite S. reflexivity.
Qed.

Lemma isched_step_inv c i : IInv c -> IInv (isched_step c i).
Proof.
  intros I. unfold isched_step. destruct (nth_error (ths c) i) as [t|] eqn:N; [|exact I].
  destruct I as [IM ONE TX OP LE NF].
  pose proof (IM i t N) as Mt. pose proof (NF i t N) as Ft.
  assert (NR : forall t' j tj, nth_error (replace i t' (ths c)) j = Some tj ->
               (j = i /\ tj = t') \/ (j <> i /\ nth_error (ths c) j = Some tj)).
  { intros t' j tj H. rewrite nth_error_replace in H. destruct (Nat.eqb_spec j i) as [->|NE].
    - rewrite N in H. injection H as <-. auto.
    - auto. }
  (* a step that leaves [defaults] alone and produces thread t' *)
  assert (KEEP : forall t', it_mode t' = Immediate ->
            (holds_w t' = true -> holds_w t = true \/ others holds_w (ths c) i = false) ->
            (in_tx t' = true -> defaults c = 0) ->
            (opened t' = true -> defaults c = 1) ->
            is_ifail t' = false ->
            forall st, IInv (mkIC (defaults c) st (replace i t' (ths c)))).
  { intros t' M' W' T' O' F' st. split; cbn [defaults ths]; auto.
    - intros j tj H. destruct (NR _ _ _ H) as [[-> ->]|[_ H']]; eauto.
    - intros j k tj tk NE Hj Hk Wj Wk.
      destruct (NR _ _ _ Hj) as [[-> ->]|[NEj Hj']]; destruct (NR _ _ _ Hk) as [[-> ->]|[NEk Hk']].
      + congruence.
      + destruct (W' Wj) as [A|A]; [eapply (ONE i k); eauto|].
        rewrite (others_false _ _ _ A k tk NEk Hk') in Wk. discriminate.
      + destruct (W' Wk) as [A|A]; [eapply (ONE j i); eauto|].
        rewrite (others_false _ _ _ A j tj NEj Hj') in Wj. discriminate.
      + eapply (ONE j k); eauto.
    - intros j tj H X. destruct (NR _ _ _ H) as [[-> ->]|[_ H']]; eauto.
    - intros j tj H X. destruct (NR _ _ _ H) as [[-> ->]|[_ H']]; eauto.
    - intros j tj H. destruct (NR _ _ _ H) as [[-> ->]|[_ H']]; eauto. }
  assert (SAME : IInv (mkIC (defaults c) (stored c) (replace i t (ths c)))).
  { apply KEEP; [exact Mt | intros W; left; exact W | intros X; eapply TX; eauto | intros X; eapply OP; eauto | exact Ft]. }
  destruct t as [m st]. cbn [it_mode it_st] in *. subst m. unfold istep. cbn [it_mode it_st].
  destruct st as [| | |k| | | |]; cbn [defaults stored ths].
  - (* ICount *)
    destruct (Nat.eqb_spec (defaults c) 0) as [E|E]; apply KEEP; auto; try discriminate;
      try (intros _; left; reflexivity); try (intros _; lia).
  - (* IBegin *)
    destruct (others holds_w (ths c) i) eqn:OW; [exact SAME|].
    apply KEEP; auto; try discriminate.
  - (* IRecount *)
    destruct (Nat.eqb_spec (defaults c) 0) as [E|E]; apply KEEP; auto; try discriminate;
      try (intros _; left; reflexivity); try (intros _; lia).
  - (* IIns k *)
    assert (D0 : defaults c = 0) by (eapply TX; eauto).
    destruct k as [|[|k]].
    + apply KEEP; auto; try discriminate; try (intros _; left; reflexivity).
    + rewrite D0. cbn [Nat.eqb]. rewrite <- D0.
      apply KEEP; auto; try discriminate; try (intros _; left; reflexivity).
    + destruct (Nat.ltb (S (S k)) 9); apply KEEP; auto; try discriminate; try (intros _; left; reflexivity).
  - (* ICommit *)
    assert (D0 : defaults c = 0) by (eapply TX; eauto).
    destruct (others holds_s (ths c) i) eqn:OS; [exact SAME|]. cbn [defaults stored ths].
    split; cbn [defaults ths]; try lia.
    + intros j tj H. destruct (NR _ _ _ H) as [[-> ->]|[_ H']]; eauto.
    + intros j k tj tk NE Hj Hk Wj Wk.
      destruct (NR _ _ _ Hj) as [[-> ->]|[NEj Hj']]; destruct (NR _ _ _ Hk) as [[-> ->]|[NEk Hk']];
        try discriminate. eapply (ONE j k); eauto.
    + intros j tj H X. destruct (NR _ _ _ H) as [[-> ->]|[NE H']]; [discriminate|]. exfalso.
      apply (ONE i j _ tj (fun E => NE (eq_sym E)) N H'); [reflexivity|].
      pose proof (IM j tj H') as Mj. unfold holds_w, in_tx in *. rewrite Mj. destruct (it_st tj); auto; discriminate.
    + intros j tj H. destruct (NR _ _ _ H) as [[-> ->]|[_ H']]; eauto.
  - (* IDeliver *)
    assert (D1 : defaults c = 1) by (eapply OP; eauto).
    destruct (others holds_w (ths c) i || others holds_s (ths c) i); [exact SAME|].
    rewrite D1. cbn [Nat.eqb]. rewrite <- D1. apply KEEP; auto; discriminate.
  - exact SAME.
  - exact SAME.
Qed.

Lemma irun_inv sch : forall c, IInv c -> IInv (irun sch c).
Proof.
  induction sch as [|i r IH]; simpl; intros c I; auto. apply IH. apply isched_step_inv. exact I.
Qed.

(** every schedule, any number of sessions, both store kinds *)
Lemma c08_first_open_l : forall modes sch,
  Forall (fun m => m = Immediate) modes ->
  let c := irun sch (iinit modes) in
  (forall i t, nth_error (ths c) i = Some t -> it_st t <> IFail) /\
  defaults c <= 1 /\
  (forall i t, nth_error (ths c) i = Some t -> it_st t = IDone -> defaults c = 1).
Proof.
  intros modes sch F c. pose proof (irun_inv sch _ (iinit_inv modes F)) as I. fold c in I.
  repeat split.
  - intros i t N E. pose proof (ii_nofail _ I i t N) as X. unfold is_ifail in X. rewrite E in X. discriminate.
  - apply (ii_le _ I).
  - intros i t N E. apply (ii_open _ I i t N). unfold opened. rewrite E. reflexivity.
Qed.

Lemma c08_first_open_kind_l : forall kd k sch,
  let c := irun sch (iinit_kind kd k) in
  (forall i t, nth_error (ths c) i = Some t -> it_st t <> IFail) /\
  defaults c <= 1 /\
  (forall i t, nth_error (ths c) i = Some t -> it_st t = IDone -> defaults c = 1).
Proof.
  intros kd k sch. apply c08_first_open_l. apply Forall_forall. intros m H.
  apply repeat_spec in H. subst m. destruct kd; reflexivity.
Qed.

(** the DEFERRED variant is refuted by the two-step interleaving: A has executed
    its first INSERT (holds RESERVED), B counts, begins, recounts and must
    upgrade: database is locked, at once *)
Lemma c08_deferred_refuted_l :
  let c := irun [0; 0; 0; 0; 1; 1; 1; 1]%nat (iinit [Deferred; Deferred]) in
  map it_st (ths c) = [IIns 1; IFail].
Proof. vm_compute. reflexivity. Qed.

(** and nothing is stored twice or lost in the hold schedules of the suite *)
Lemma c08_hold_cases_l :
  forall h, h <= 15 -> eval_hold (Immediate, h) =
    (1%Z, 1%Z, 1%Z, 2%Z, if (2 <=? h) && (h <=? 13) then 0%Z else 1%Z).
Proof.
  intros h H. do 16 (destruct h as [|h]; [vm_compute; reflexivity|]). lia.
Qed.
