(** C09: the finding classes are inhabited by violating inputs (witnesses by
    computation), plain COPY is BAD for every command line, and the
    positive results outside the classes for EXPUNGE, SEARCH, UID SEARCH. *)
From Coq Require Import String Ascii List Bool Arith ZArith Lia.
From Raven Require Import Base.GoStr Base.GoStrFacts Base.GoStrZ Model.SeqSet Model.Expunge
  Spec.SeqSet Spec.SeqSetFindings Proof.SeqSetStr Proof.SeqSetParse Proof.ExpungeReplay Proof.DeletedWord.
Import ListNotations.
Local Open Scope Z_scope.

(** ---- plain COPY (after fix F1: the dispatcher passes parts[1:]) ---- *)
Theorem plain_copy_set_exact : forall (tag w mbox : str) (rest : list str) (s : seqset) (total : Z),
  wf s = true -> in64 total ->
  match plain_copy (tag :: w :: print s :: mbox :: rest) total with
  | None => addressed s total = []                      (* BAD only when nothing is addressed *)
  | Some l => forall i, In i l <-> In i (addressed s total)
  end.
Proof.
  intros tag w mbox rest s total H Ht. unfold plain_copy, dispatch_copy_args, copy_set_arg.
  cbn [tl length Nat.ltb Nat.leb nth_error].
  destruct (parse_seqset_db (print s) total) as [|x l] eqn:P.
  - destruct (addressed s total) as [|y r] eqn:A; [reflexivity|]. exfalso.
    assert (K : In y (parse_seqset_db (print s) total)) by (apply store_set_exact; auto; rewrite A; now left).
    rewrite P in K. contradiction.
  - intros i. rewrite <- P. now apply store_set_exact.
Qed.

(** ---- FETCH n (after the fix: numbered from n, n < 1 is BAD) ---- *)
Lemma filter_eq_zseq k : forall cnt lo,
  filter (fun i => i =? k) (zseq lo cnt) = if (lo <=? k) && (k <? lo + Z.of_nat cnt) then [k] else [].
Proof.
  induction cnt as [|c IH]; intros lo.
  - simpl. replace (k <? lo + 0) with (k <? lo) by (f_equal; lia).
    destruct (lo <=? k) eqn:A, (k <? lo) eqn:B; try reflexivity.
    apply Z.leb_le in A. apply Z.ltb_lt in B. lia.
  - cbn [zseq filter]. rewrite IH. rewrite Nat2Z.inj_succ.
    destruct (lo =? k) eqn:E.
    + apply Z.eqb_eq in E. subst lo.
      replace (k + 1 <=? k) with false by (symmetry; apply Z.leb_gt; lia).
      replace (k <=? k) with true by (symmetry; apply Z.leb_le; lia).
      replace (k <? k + Z.succ (Z.of_nat c)) with true by (symmetry; apply Z.ltb_lt; lia). reflexivity.
    + apply Z.eqb_neq in E.
      destruct (lo + 1 <=? k) eqn:A, (lo <=? k) eqn:B;
        try apply Z.leb_le in A; try apply Z.leb_gt in A; try apply Z.leb_le in B; try apply Z.leb_gt in B; try lia.
      * replace (k <? lo + 1 + Z.of_nat c) with (k <? lo + Z.succ (Z.of_nat c)) by (f_equal; lia). reflexivity.
      * reflexivity.
Qed.

Lemma zfirstn_0 {A} (l : list A) : zfirstn 0 l = [].
Proof. destruct l; reflexivity. Qed.

Lemma zfirstn1_zskipn (l : list Z) : forall j, 0 <= j ->
  zfirstn 1 (zskipn j l) = if j <? Z.of_nat (length l) then [nth (Z.to_nat j) l 0] else [].
Proof.
  induction l as [|x l IH]; intros j Hj.
  - simpl. replace (j <? 0) with false by (symmetry; apply Z.ltb_ge; lia). reflexivity.
  - cbn [zskipn length]. rewrite Nat2Z.inj_succ. destruct (j <=? 0) eqn:E.
    + apply Z.leb_le in E. assert (j = 0) by lia. subst j. cbn [zfirstn]. change (1 <=? 0) with false. cbv iota.
      change (1 - 1) with 0. rewrite zfirstn_0.
      replace (0 <? Z.succ (Z.of_nat (length l))) with true by (symmetry; apply Z.ltb_lt; lia). reflexivity.
    + apply Z.leb_gt in E. rewrite IH by lia.
      replace (j <? Z.succ (Z.of_nat (length l))) with (j - 1 <? Z.of_nat (length l))
        by (destruct (j - 1 <? Z.of_nat (length l)) eqn:A; symmetry; [apply Z.ltb_lt; apply Z.ltb_lt in A | apply Z.ltb_ge; apply Z.ltb_ge in A]; lia).
      replace (Z.to_nat j) with (S (Z.to_nat (j - 1))) by lia. reflexivity.
Qed.

Theorem fetch_single_exact : forall (k : Z) (uids : list Z), 1 <= k < 4294967296 ->
  fetch_inline (itoa k) uids = Some (expected_fetch [One (Num k)] uids).
Proof.
  intros k uids Hk. assert (Hi : in64 k) by (unfold in64, max_int64; lia).
  pose proof (itoa_digits k Hi) as D.
  assert (NC : contains_byte (itoa k) c_colon = false) by (apply digits_no_byte; [exact D | reflexivity]).
  unfold fetch_inline. rewrite (split_byte_nosep _ _ NC). cbv iota beta.
  assert (E1 : str_eqb (itoa k) (S_ "1:*") = false).
  { destruct (str_eqb (itoa k) (S_ "1:*")) eqn:E; [|reflexivity]. apply str_eqb_eq in E. rewrite E in NC. discriminate. }
  assert (E2 : str_eqb (itoa k) s_star = false).
  { apply (print_num_star_eq (Num k)). cbn [wf_num]. apply andb_true_iff. split; [apply Z.leb_le | apply Z.ltb_lt]; lia. }
  rewrite E1, E2. cbn [orb]. rewrite atoi_itoa by exact Hi.
  replace (k <? 1) with false by (symmetry; apply Z.ltb_ge; lia). f_equal.
  unfold sql_limit_offset. change (1 <? 0) with false. cbv iota. rewrite zfirstn1_zskipn by lia.
  unfold expected_fetch, addressed, zrange.
  rewrite (filter_ext _ (fun i => i =? k)) by (intros i; unfold denote; simpl; apply orb_false_r).
  rewrite filter_eq_zseq.
  replace (1 <=? k) with true by (symmetry; apply Z.leb_le; lia). cbn [andb].
  replace (k <? 1 + Z.of_nat (Z.to_nat (Z.of_nat (length uids) - 1 + 1))) with (k - 1 <? Z.of_nat (length uids))
    by (destruct (k - 1 <? Z.of_nat (length uids)) eqn:A; symmetry; [apply Z.ltb_lt; apply Z.ltb_lt in A | apply Z.ltb_ge; apply Z.ltb_ge in A]; lia).
  destruct (k - 1 <? Z.of_nat (length uids)); reflexivity.
Qed.

(** the command word is never a sequence set (why the old dispatch, which handed
    the handler the word COPY as the set, answered BAD) *)
Lemma copy_word_is_no_set total : parse_seqset_db (S_ "COPY") total = [].
Proof. unfold parse_seqset_db. destruct (total =? 0); reflexivity. Qed.

(** ---- EXPUNGE removes exactly the messages carrying the \Deleted atom ---- *)
Theorem expunge_exact_deleted mbox :
  NoDup (map m_id mbox) -> flags_blank_ws mbox = true ->
  snd (handle_expunge mbox) = filter (fun m => negb (has_deleted (m_flags m))) mbox
  /\ handle_close mbox = filter (fun m => negb (has_deleted (m_flags m))) mbox
  /\ replay (fst (handle_expunge mbox)) mbox = snd (handle_expunge mbox).
Proof.
  intros Hnd Hc. pose proof (expunge_replay mbox Hnd) as R. destruct (handle_expunge mbox) as [ns mb].
  destruct R as [R1 R2]. cbn [fst snd]. rewrite close_exact by exact Hnd.
  assert (K : forall m, In m mbox -> sql_deleted (m_flags m) = has_deleted (m_flags m)).
  { intros m Hm. apply sql_deleted_is_flag_atom. unfold flags_blank_ws in Hc. rewrite forallb_forall in Hc. now apply Hc. }
  rewrite <- (filter_deleted_spec mbox K). subst mb. auto.
Qed.

(** ---- SEARCH <set> outside the classes ---- *)
Lemma to_upper_digits ds : forallb is_digit ds = true -> to_upper ds = ds.
Proof.
  induction ds as [|c ds IH]; [reflexivity|]. simpl. intros H. apply andb_true_iff in H. destruct H as [Hc Hd].
  rewrite IH by exact Hd. f_equal. unfold upper_c.
  assert (K : forall c, negb (is_digit c) || negb (is_lower c) = true)
    by (ascii_sweep (fun c => negb (is_digit c) || negb (is_lower c))).
  specialize (K c). rewrite Hc in K. simpl in K. apply negb_true_iff in K. now rewrite K.
Qed.

Lemma digits_seqchars ds : forallb is_digit ds = true ->
  forallb (fun c => Ascii.eqb c c_colon || Ascii.eqb c c_star || is_digit c) ds = true.
Proof.
  induction ds as [|c ds IH]; [reflexivity|]. simpl. intros H. apply andb_true_iff in H. destruct H as [Hc Hd].
  rewrite Hc, IH by exact Hd. now rewrite !orb_true_r.
Qed.

Definition numv (n : Z) : Prop := 1 <= n < 4294967296.
Lemma numv_in64 n : numv n -> in64 n. Proof. unfold numv, in64, max_int64. lia. Qed.

Lemma itoa_head n : in64 n -> exists c r, itoa n = c :: r /\ is_digit c = true /\ forallb is_digit r = true.
Proof.
  intros H. pose proof (itoa_digits n H) as D. pose proof (itoa_nonempty n H) as N.
  destruct (itoa n) as [|c r]; [congruence|]. simpl in D. apply andb_true_iff in D. destruct D. now exists c, r.
Qed.

Lemma search_one_num k total : numv k ->
  search_set (itoa k) total = filter (fun i => i =? k) (zrange 1 total).
Proof.
  intros Hk. pose proof (numv_in64 k Hk) as Hi. pose proof (itoa_digits k Hi) as D.
  unfold search_set. rewrite to_upper_digits by exact D.
  destruct (itoa_head k Hi) as (c & r & E & Hc & Hr).
  assert (IS : is_sequence_set (itoa k) = true).
  { unfold is_sequence_set. destruct (str_eqb (itoa k) s_star); [reflexivity|].
    rewrite digits_seqchars by exact D. rewrite E, Hc. reflexivity. }
  rewrite IS. apply filter_ext. intros i. unfold matches_sequence_set.
  rewrite digits_no_byte by (try reflexivity; exact D).
  assert (NS : str_eqb (itoa k) s_star = false).
  { rewrite E. destruct (digit_facts c Hc) as (_ & Hs & _). unfold s_star, c_star. simpl. now rewrite Hs. }
  rewrite NS. simpl. rewrite atoi_itoa by exact Hi. apply Z.eqb_sym.
Qed.

Lemma range_string_facts x y :
  forallb is_digit x = true -> x <> [] ->
  (forallb is_digit y = true \/ y = s_star) ->
  is_sequence_set (x ++ [c_colon] ++ y) = true
  /\ to_upper (x ++ [c_colon] ++ y) = x ++ [c_colon] ++ y
  /\ contains_byte (x ++ [c_colon] ++ y) c_colon = true
  /\ str_eqb (x ++ [c_colon] ++ y) s_star = false
  /\ split_byte (x ++ [c_colon] ++ y) c_colon = [x; y].
Proof.
  intros Dx Nx Hy.
  assert (Cy : contains_byte y c_colon = false) by (destruct Hy as [Dy| ->]; [now apply digits_no_byte | reflexivity]).
  assert (Uy : to_upper y = y) by (destruct Hy as [Dy| ->]; [now apply to_upper_digits | reflexivity]).
  assert (Sy : forallb (fun c => Ascii.eqb c c_colon || Ascii.eqb c c_star || is_digit c) y = true)
    by (destruct Hy as [Dy| ->]; [now apply digits_seqchars | reflexivity]).
  assert (CC : contains_byte (x ++ [c_colon] ++ y) c_colon = true).
  { rewrite !contains_byte_app. replace (contains_byte [c_colon] c_colon) with true by reflexivity.
    now rewrite orb_true_l, orb_true_r. }
  assert (NS : str_eqb (x ++ [c_colon] ++ y) s_star = false).
  { destruct (str_eqb (x ++ [c_colon] ++ y) s_star) eqn:Es; [|reflexivity].
    apply str_eqb_eq in Es. rewrite Es in CC. discriminate. }
  repeat split; try assumption.
  - unfold is_sequence_set. rewrite NS. rewrite !forallb_app, (digits_seqchars x Dx), Sy.
    destruct x as [|c r]; [congruence|]. simpl in Dx. apply andb_true_iff in Dx. destruct Dx as [Hc _].
    cbn [app]. rewrite Hc. reflexivity.
  - rewrite !to_upper_app, (to_upper_digits x Dx), Uy. reflexivity.
  - apply split_byte_two; [now apply digits_no_byte | exact Cy].
Qed.

Theorem search_set_exact : forall (s : seqset) (total : Z),
  wf s = true -> in64 total -> classify_search s total = None ->
  search_set (print s) total = addressed s total.
Proof.
  intros s total H Ht Hc. unfold addressed.
  destruct s as [|it [|it2 s]]; [discriminate| |destruct it; [destruct a|destruct a, b]; discriminate].
  unfold print. cbn [map join]. unfold wf in H. cbn [forallb] in H. rewrite andb_true_r in H.
  destruct it as [[k|]|[a|] [b|]]; cbn [wf_item wf_num] in H; cbn [classify_search] in Hc; cbn [print_item print_num];
    change (":"%char) with c_colon; change ["*"%char] with s_star.
  - (* n *)
    assert (Hk : numv k) by (apply andb_true_iff in H; destruct H as [H1 H2]; apply Z.leb_le in H1; apply Z.ltb_lt in H2; unfold numv; lia).
    rewrite search_one_num by exact Hk. apply filter_ext. intros i. unfold denote. simpl. now rewrite orb_false_r.
  - (* "*" *)
    destruct (2 <=? total) eqn:E; [discriminate|]. apply Z.leb_gt in E.
    unfold search_set. change (to_upper s_star) with s_star. change (is_sequence_set s_star) with true. cbv iota.
    apply filter_ext_in. intros i Hi. apply in_zrange in Hi. unfold denote. simpl.
    rewrite orb_false_r. symmetry. apply Z.eqb_eq. lia.
  - (* a:b *)
    apply andb_true_iff in H. destruct H as [Ha Hb].
    assert (Hka : numv a) by (apply andb_true_iff in Ha; destruct Ha as [H1 H2]; apply Z.leb_le in H1; apply Z.ltb_lt in H2; unfold numv; lia).
    assert (Hkb : numv b) by (apply andb_true_iff in Hb; destruct Hb as [H1 H2]; apply Z.leb_le in H1; apply Z.ltb_lt in H2; unfold numv; lia).
    pose proof (numv_in64 a Hka) as Ia. pose proof (numv_in64 b Hkb) as Ib.
    destruct (range_string_facts (itoa a) (itoa b) (itoa_digits a Ia) (itoa_nonempty a Ia) (or_introl (itoa_digits b Ib)))
      as (IS & UP & CC & NS & SP).
    unfold search_set. rewrite UP, IS. apply filter_ext_in. intros i Hi. apply in_zrange in Hi.
    unfold matches_sequence_set. rewrite CC, NS, SP. cbn [negb andb].
    assert (SA : str_eqb (itoa a) s_star = false) by (apply (print_num_star_eq (Num a)); exact Ha).
    assert (SB : str_eqb (itoa b) s_star = false) by (apply (print_num_star_eq (Num b)); exact Hb).
    rewrite SA, SB, !atoi_lossy_itoa by assumption.
    unfold denote. simpl. rewrite orb_false_r.
    destruct ((b <? a) && (b <=? total)) eqn:E; [discriminate|].
    apply andb_false_iff in E. unfold numv in *.
    destruct E as [E|E]; [apply Z.ltb_ge in E | apply Z.leb_gt in E];
      apply eq_true_iff_eq; rewrite !andb_true_iff, !Z.leb_le; lia.
  - (* a:* *)
    assert (Hka : numv a) by (apply andb_true_iff in H; destruct H as [Ha _]; apply andb_true_iff in Ha; destruct Ha as [H1 H2]; apply Z.leb_le in H1; apply Z.ltb_lt in H2; unfold numv; lia).
    pose proof (numv_in64 a Hka) as Ia.
    destruct (range_string_facts (itoa a) s_star (itoa_digits a Ia) (itoa_nonempty a Ia) (or_intror eq_refl))
      as (IS & UP & CC & NS & SP).
    unfold search_set. rewrite UP, IS.
    apply filter_ext_in. intros i Hi. apply in_zrange in Hi.
    unfold matches_sequence_set. rewrite CC, NS, SP. cbn [negb andb].
    assert (SA : str_eqb (itoa a) s_star = false).
    { apply (print_num_star_eq (Num a)). apply andb_true_iff in H. tauto. }
    rewrite SA, atoi_lossy_itoa by assumption. change (str_eqb s_star s_star) with true. cbv iota.
    unfold denote. simpl. rewrite orb_false_r.
    destruct ((total <? a) && (1 <=? total)) eqn:E1; [discriminate|].
    destruct (999999 <? total) eqn:E2; [discriminate|]. apply Z.ltb_ge in E2.
    apply andb_false_iff in E1. unfold numv in *.
    destruct E1 as [E|E]; [apply Z.ltb_ge in E | apply Z.leb_gt in E];
      apply eq_true_iff_eq; rewrite !andb_true_iff, !Z.leb_le; lia.
  - (* *:b *)
    destruct (2 <=? total) eqn:E; [discriminate|]. apply Z.leb_gt in E.
    assert (Hb : wf_num (Num b) = true) by (apply andb_true_iff in H; tauto).
    assert (Hkb : numv b) by (cbn [wf_num] in Hb; apply andb_true_iff in Hb; destruct Hb as [H1 H2]; apply Z.leb_le in H1; apply Z.ltb_lt in H2; unfold numv; lia).
    pose proof (numv_in64 b Hkb) as Ib. pose proof (itoa_digits b Ib) as Db.
    unfold search_set.
    assert (UP : to_upper (s_star ++ [c_colon] ++ itoa b) = s_star ++ [c_colon] ++ itoa b)
      by (rewrite !to_upper_app, (to_upper_digits _ Db); reflexivity).
    rewrite UP.
    assert (IS : is_sequence_set (s_star ++ [c_colon] ++ itoa b) = true).
    { unfold is_sequence_set.
      assert (NS0 : str_eqb (s_star ++ [c_colon] ++ itoa b) s_star = false) by reflexivity.
      rewrite NS0. rewrite !forallb_app, (digits_seqchars _ Db). reflexivity. }
    rewrite IS. apply filter_ext_in. intros i Hi. apply in_zrange in Hi.
    assert (i = 1 /\ total = 1) as [-> ->] by lia.
    unfold matches_sequence_set.
    assert (CC : contains_byte (s_star ++ [c_colon] ++ itoa b) c_colon = true) by reflexivity.
    assert (NS : str_eqb (s_star ++ [c_colon] ++ itoa b) s_star = false) by reflexivity.
    rewrite CC, NS. cbn [negb andb].
    assert (SP : split_byte (s_star ++ [c_colon] ++ itoa b) c_colon = [s_star; itoa b])
      by (apply split_byte_two; [reflexivity | now apply digits_no_byte]).
    rewrite SP. change (str_eqb s_star s_star) with true. cbv iota.
    assert (SB : str_eqb (itoa b) s_star = false).
    { apply (print_num_star_eq (Num b)). exact Hb. }
    rewrite SB, atoi_lossy_itoa by assumption. unfold denote. simpl. rewrite orb_false_r.
    unfold numv in Hkb. apply eq_true_iff_eq; rewrite !andb_true_iff, !Z.leb_le; lia.
  - (* *:* *)
    destruct (2 <=? total) eqn:E; [discriminate|]. apply Z.leb_gt in E.
    apply filter_ext_in. intros i Hi. apply in_zrange in Hi.
    assert (i = 1 /\ total = 1) as [-> ->] by lia. reflexivity.
Qed.

(** ---- UID SEARCH UID a:b, a <= b ---- *)
Theorem uidsearch_set_exact : forall (s : seqset) (uids : list Z),
  wf s = true -> classify_uidsearch s = None ->
  uidsearch_set (print s) uids = addressed_uids s uids.
Proof.
  intros s uids H Hc.
  destruct s as [|[[k|]|[a|] [b|]] [|it2 s]]; try discriminate.
  cbn [classify_uidsearch] in Hc. destruct (b <? a) eqn:E; [discriminate|]. apply Z.ltb_ge in E.
  unfold wf in H. cbn [forallb wf_item wf_num] in H. rewrite andb_true_r in H.
  apply andb_true_iff in H. destruct H as [Ha Hb].
  assert (Ia : in64 a) by (apply (wf_num_in64 (Num a) Ha 0); unfold in64, max_int64; lia).
  assert (Ib : in64 b) by (apply (wf_num_in64 (Num b) Hb 0); unfold in64, max_int64; lia).
  unfold print. cbn [map join print_item print_num].
  destruct (range_string_facts (itoa a) (itoa b) (itoa_digits a Ia) (itoa_nonempty a Ia) (or_introl (itoa_digits b Ib)))
    as (_ & _ & CC & _ & SP).
  unfold uidsearch_set. change (":"%char) with c_colon. rewrite CC, SP, !atoi_lossy_itoa by assumption.
  unfold addressed_uids. apply filter_ext. intros u. unfold denote. simpl. rewrite orb_false_r.
  rewrite Z.min_l, Z.max_r by lia. reflexivity.
Qed.

(** class search_huge, without enumerating a million numbers *)
Lemma search_num_star a total : numv a ->
  search_set (itoa a ++ [c_colon] ++ s_star) total
  = filter (fun i => (a <=? i) && (i <=? 999999)) (zrange 1 total).
Proof.
  intros Hka. pose proof (numv_in64 a Hka) as Ia.
  destruct (range_string_facts (itoa a) s_star (itoa_digits a Ia) (itoa_nonempty a Ia) (or_intror eq_refl))
    as (IS & UP & CC & NS & SP).
  unfold search_set. rewrite UP, IS. apply filter_ext. intros i.
  unfold matches_sequence_set. rewrite CC, NS, SP. cbn [negb andb].
  assert (SA : str_eqb (itoa a) s_star = false).
  { apply (print_num_star_eq (Num a)). unfold numv in Hka. cbn [wf_num].
    apply andb_true_iff. split; [apply Z.leb_le | apply Z.ltb_lt]; lia. }
  rewrite SA, atoi_lossy_itoa by assumption. reflexivity.
Qed.

Lemma search_huge_refuted : exists s n i,
  wf s = true /\ classify_search s n = Some F_search_huge
  /\ In i (addressed s n) /\ ~ In i (search_set (print s) n).
Proof.
  exists [Range (Num 999998) Star], 1000000, 1000000.
  split; [reflexivity|]. split; [reflexivity|].
  assert (G : forall n, 999999 < n ->
            In n (addressed [Range (Num 999998) Star] n) /\ ~ In n (search_set (print [Range (Num 999998) Star]) n)).
  { intros n Hn. split.
    - unfold addressed. apply filter_In. split; [apply in_zrange; lia|].
      unfold denote, denote_item, val. cbn [existsb]. rewrite orb_false_r.
      apply andb_true_iff. split; apply Z.leb_le; lia.
    - change (print [Range (Num 999998) Star]) with (itoa 999998 ++ [c_colon] ++ s_star).
      rewrite search_num_star by (unfold numv; lia).
      intros H. apply filter_In in H. destruct H as [_ H]. apply andb_true_iff in H. destruct H as [_ H].
      apply Z.leb_le in H. lia. }
  apply G. lia.
Qed.
