(** C09: the finding classes are inhabited by violating inputs (witnesses by
    computation), plain COPY is BAD for every command line, and the
    positive results outside the classes for EXPUNGE, SEARCH, UID SEARCH. *)
From Coq Require Import String Ascii List Bool Arith ZArith Lia.
From Raven Require Import Base.GoStr Base.GoStrFacts Base.GoStrZ Model.SeqSet Model.Expunge
  Spec.SeqSet Spec.SeqSetFindings Proof.SeqSetStr Proof.SeqSetParse Proof.ExpungeReplay Proof.DeletedWord.
Import ListNotations.
Local Open Scope Z_scope.

(** ---- plain COPY (after fix F1: the dispatcher passes parts[1:]) ---- *)
Theorem plain_copy_set_exact : forall (tag w mbox : str) (rest : list str) (s : seqset) (total : Z),
  wf s = true -> in64 total ->
  match plain_copy (tag :: w :: print s :: mbox :: rest) total with
  | None => addressed s total = []                      (* BAD only when nothing is addressed *)
  | Some l => forall i, In i l <-> In i (addressed s total)
  end.
Proof.
  intros tag w mbox rest s total H Ht. unfold plain_copy, dispatch_copy_args, copy_set_arg.
  cbn [tl length Nat.ltb Nat.leb nth_error].
  destruct (parse_seqset_db (print s) total) as [|x l] eqn:P.
  - destruct (addressed s total) as [|y r] eqn:A; [reflexivity|]. exfalso.
    assert (K : In y (parse_seqset_db (print s) total)) by (apply store_set_exact; auto; rewrite A; now left).
    rewrite P in K. contradiction.
  - intros i. rewrite <- P. now apply store_set_exact.
Qed.

(** the command word is never a sequence set (why the old dispatch, which handed
    the handler the word COPY as the set, answered BAD) *)
Lemma copy_word_is_no_set total : parse_seqset_db (S_ "COPY") total = [].
Proof. unfold parse_seqset_db. destruct (total =? 0); reflexivity. Qed.

(** ---- EXPUNGE removes exactly the messages carrying the \Deleted atom ---- *)
Theorem expunge_exact_deleted mbox :
  NoDup (map m_id mbox) -> flags_blank_ws mbox = true ->
  snd (handle_expunge mbox) = filter (fun m => negb (has_deleted (m_flags m))) mbox
  /\ handle_close mbox = filter (fun m => negb (has_deleted (m_flags m))) mbox
  /\ replay (fst (handle_expunge mbox)) mbox = snd (handle_expunge mbox).
Proof.
  intros Hnd Hc. pose proof (expunge_replay mbox Hnd) as R. destruct (handle_expunge mbox) as [ns mb].
  destruct R as [R1 R2]. cbn [fst snd]. rewrite close_exact by exact Hnd.
  assert (K : forall m, In m mbox -> sql_deleted (m_flags m) = has_deleted (m_flags m)).
  { intros m Hm. apply sql_deleted_is_flag_atom. unfold flags_blank_ws in Hc. rewrite forallb_forall in Hc. now apply Hc. }
  rewrite <- (filter_deleted_spec mbox K). subst mb. auto.
Qed.

(** ---- SEARCH <set> outside the classes ---- *)
