(** C02 — part 2: the rebuild of the rows of a well-formed tree is the tree
    (with every leaf replaced by its image), for every position of the tree
    inside a larger row list. *)
From Coq Require Import String Ascii List Bool Arith NArith ZArith Lia.
From Raven Require Import Base.GoStr Base.GoStrMime Spec.Mime Model.MimeHeaders Model.MimeStore
  Proof.MimeBlob Proof.MimeRows Proof.MimeTree.
Import ListNotations.

Definition post_clean (a n : nat) (post : list ppart) : Prop :=
  Forall (fun x => forall j, pp_parent x = Some j -> j < a \/ a + n <= j) post.

Definition pc2 (par e : nat) (post : list ppart) : Prop :=
  Forall (fun x => forall j, pp_parent x = Some j -> j <= par \/ e <= j) post.

Lemma pok_lt : forall l b, pok b l -> Forall (fun x => forall j, pp_parent x = Some j -> j < b + length l) l.
Proof.
  induction l as [|x l IH]; intros b H; [constructor|].
  destruct H as [H1 H2]. constructor.
  - intros j E. rewrite E in H1. simpl. lia.
  - apply IH in H2. eapply Forall_impl; [|exact H2]. intros y Hy j E. apply Hy in E. simpl. lia.
Qed.

(** children of the node whose row is [x] at index [a] *)
Lemma children_at d x TL post a :
  length d = a -> pok 0 d -> plt (pp_parent x) a -> post_clean a (S (length TL)) post ->
  children (rowsP_aux [] (d ++ (x :: TL) ++ post)) a
  = filter (isk (Some a)) (ixf (S a) (rowsP_aux (d ++ [x]) TL)).
Proof.
  intros Hd Hp Hx Hc. unfold children. rewrite indexed_ixf.
  change (fun jr : nat * row => opt_nat_eqb (r_parent (snd jr)) (Some a)) with (isk (Some a)).
  rewrite rowsP_aux_app. cbn [app]. cbn [rowsP_aux]. rewrite rowsP_aux_app.
  rewrite ixf_app, filter_app, rowsP_aux_length. cbn [Nat.add]. rewrite Hd.
  rewrite filter_none_k.
  2:{ apply pok_lt in Hp. eapply Forall_impl; [|exact Hp]. intros y Hy E. apply Hy in E. lia. }
  cbn [app]. rewrite ixf_cons. cbn [filter].
  assert (E1 : isk (Some a) (a, mk_row (S (length (filter (same_parent x) d))) (parent_db d x) x None) = false).
  { unfold isk. cbn. destruct (opt_nat_eqb (parent_db d x) (Some a)) eqn:E; [|reflexivity].
    apply opt_nat_eqb_eq, parent_db_some in E. rewrite E in Hx. simpl in Hx. lia. }
  rewrite E1. rewrite ixf_app, filter_app.
  rewrite (filter_none_k a post).
  2:{ eapply Forall_impl; [|exact Hc]. intros y Hy E. apply Hy in E. lia. }
  rewrite app_nil_r.
  apply sort_sorted, filter_sorted.
Qed.

Definition node_ok (t : mime) : Prop :=
  forall p a d post fuel x tl,
    length d = a -> plt p a -> wf_tree t = true -> need t <= fuel ->
    pok 0 d -> post_clean a (length (seg p a t)) post ->
    seg p a t = x :: tl ->
    build fuel [] (rowsP_aux [] (d ++ seg p a t ++ post)) a
          (mk_row (S (length (filter (same_parent x) d))) (parent_db d x) x None) = tmap t.

(** every row produced for the parts of a container points at the container or behind [a] *)
Lemma segs_parents par : forall ks a, par < a ->
  Forall (fun x => exists j, pp_parent x = Some j /\ (j = par \/ a <= j)) (segs par a ks).
Proof.
  induction ks as [|t r IH]; intros a Ha; [constructor|].
  rewrite segs_cons. apply Forall_app. split.
  - pose proof (seg_tl_ge t (Some par) a) as G.
    destruct (seg (Some par) a t) as [|x tl0] eqn:E; [constructor|]. constructor.
    + exists par. split; [|now left].
      destruct t as [l|st' ks'].
      * simpl in E. rewrite parse_leaf_parent in E. destruct (parse_leaf None l); [|discriminate].
        injection E as <- _. reflexivity.
      * rewrite seg_multi in E. injection E as <- _. reflexivity.
    + cbn [List.tl] in G. eapply Forall_impl; [|exact G]. intros y (j & Hj & Hle). exists j. split; [exact Hj | now right].
  - specialize (IH (a + length (seg (Some par) a t))).
    eapply Forall_impl; [|apply IH; lia]. intros y (j & Hj & [Ej | Hle]); exists j; (split; [exact Hj|]); [now left | right; lia].
Qed.

Lemma kids_ok : forall ks, Forall node_ok ks ->
  forall par D post f b,
    length D = b -> par < b -> forallb wf_tree ks = true -> Forall (fun t => need t <= f) ks ->
    pok 0 D -> pc2 par (b + length (segs par b ks)) post ->
    map (fun jr => build f [] (rowsP_aux [] (D ++ segs par b ks ++ post)) (fst jr) (snd jr))
        (filter (isk (Some par)) (ixf b (rowsP_aux D (segs par b ks))))
    = map tmap ks.
Proof.
  intros ks H. induction H as [|t r Ht _ IH]; intros par D post f b HD Hpar W N PD PC; [reflexivity|].
  simpl in W. apply andb_true_iff in W as [W1 W2].
  inversion N as [|? ? N1 N2]; subst.
  destruct (seg_head t (Some par) (length D) W1) as (x & tl & Es & Px).
  rewrite segs_cons in *. rewrite Es in *.
  rewrite (rowsP_aux_app (x :: tl) D), ixf_app, filter_app, map_app, rowsP_aux_length.
  cbn [map]. change (tmap t :: map tmap r) with ([tmap t] ++ map tmap r). f_equal.
  - (* the first part *)
    cbn [rowsP_aux]. rewrite ixf_cons. cbn [filter].
    assert (E : isk (Some par) (length D, mk_row (S (length (filter (same_parent x) D))) (parent_db D x) x None) = true).
    { unfold isk. cbn. unfold parent_db. rewrite Px. apply Nat.ltb_lt in Hpar. rewrite Hpar. simpl. apply Nat.eqb_refl. }
    rewrite E.
    rewrite filter_none_k.
    2:{ pose proof (seg_tl_ge t (Some par) (length D)) as G. rewrite Es in G. cbn [List.tl] in G.
        eapply Forall_impl; [|exact G]. intros y (j & Hj & Hle) Q. rewrite Q in Hj. injection Hj as <-. lia. }
    cbn [map fst snd]. f_equal.
    rewrite <- app_assoc. rewrite <- Es.
    assert (PC' : post_clean (length D) (length (seg (Some par) (length D) t))
                             (segs par (length D + length (seg (Some par) (length D) t)) r ++ post)).
    { unfold post_clean. apply Forall_app. split.
      * eapply Forall_impl; [|apply (segs_parents par r); lia].
        intros y (j & Hj & [Ej | Hle]) j' E'; rewrite E' in Hj; injection Hj as Ejj; subst j'; [left; lia | right; lia].
      * eapply Forall_impl; [|exact PC]. intros y Hy j E'. apply Hy in E' as [E'|E']; [left; lia|right].
        rewrite Es. rewrite app_length in E'. simpl in E'. simpl. lia. }
    exact (Ht (Some par) (length D) D _ f x tl eq_refl Hpar W1 N1 PD PC' Es).
  - (* the others *)
    rewrite <- Es.
    replace (D ++ (seg (Some par) (length D) t ++ segs par (length D + length (seg (Some par) (length D) t)) r) ++ post)
      with ((D ++ seg (Some par) (length D) t) ++ segs par (length D + length (seg (Some par) (length D) t)) r ++ post)
      by (now rewrite <- !app_assoc).
    apply IH; try assumption.
    + now rewrite app_length.
    + lia.
    + apply pok_app. split; [exact PD|]. apply seg_pok. simpl. exact Hpar.
    + rewrite Es in *. rewrite app_length in PC. unfold pc2 in *.
      eapply Forall_impl; [|exact PC]. intros y Hy j E'. apply Hy in E' as [E'|E']; [now left|right]. lia.
Qed.

Lemma need_kids st ks f : need (Multi st ks) <= S f -> Forall (fun t => need t <= f) ks.
Proof.
  simpl. intros H. apply le_S_n in H. revert H. induction ks as [|t r IH]; intros H; constructor; simpl in H; [lia | apply IH; lia].
Qed.

Lemma container_is_multipart p st : is_multipart_type (pp_type (container_part p st)) = true.
Proof. unfold is_multipart_type, container_part. cbn [pp_type]. unfold to_lower. rewrite map_app. reflexivity. Qed.

Lemma multipart_prefix st : is_multipart_type (s_multipart_ ++ to_lower st) = true.
Proof. unfold is_multipart_type, to_lower. rewrite map_app. reflexivity. Qed.

Theorem all_nodes_ok : forall t, node_ok t.
Proof.
  induction t as [l|st ks IH] using mime_ind2; unfold node_ok; intros p a d post fuel x tl Hd Hp W N PD PC Es.
  - (* leaf *)
    assert (TL : tl = []).
    { simpl in Es. destruct (parse_leaf p l); [injection Es as _ <-; reflexivity | discriminate]. }
    subst tl. rewrite Es in *.
    assert (EM : emit_leaf [] (mk_row (S (length (filter (same_parent x) d))) (parent_db d x) x None) = leaf_image l).
    { simpl in Es. rewrite parse_leaf_parent in Es. unfold leaf_image.
      destruct (parse_leaf None l) as [x0|]; [|discriminate]. injection Es as <-. destruct x0. reflexivity. }
    assert (HX : pp_parent x = p).
    { simpl in Es. rewrite parse_leaf_parent in Es. destruct (parse_leaf None l); [|discriminate]. injection Es as <-. reflexivity. }
    destruct fuel as [|f]; cbn [build tmap].
    + now rewrite EM.
    + rewrite children_at; try assumption; [|now rewrite HX].
      cbn [rowsP_aux ixf]. simpl filter. cbn [nonempty_l]. rewrite andb_false_r. now rewrite EM.
  - (* container *)
    rewrite seg_multi in Es. injection Es as <- <-. rewrite seg_multi in *.
    destruct fuel as [|f]; [simpl in N; lia|].
    cbn [build tmap]. cbn [length] in PC.
    rewrite children_at; try assumption.
    cbn [r_part pp_type container_part]. rewrite multipart_prefix. cbn [andb].
    simpl in W. apply andb_true_iff in W as [W0 W].
    assert (K : map (fun jr => build f [] (rowsP_aux [] (d ++ (container_part p st :: segs a (S a) ks) ++ post)) (fst jr) (snd jr))
                    (filter (isk (Some a)) (ixf (S a) (rowsP_aux (d ++ [container_part p st]) (segs a (S a) ks))))
                = map tmap ks).
    { replace (d ++ (container_part p st :: segs a (S a) ks) ++ post)
        with ((d ++ [container_part p st]) ++ segs a (S a) ks ++ post) by (rewrite <- app_assoc; reflexivity).
      apply kids_ok; try assumption.
      - rewrite app_length. simpl. lia.
      - lia.
      - eapply need_kids; exact N.
      - apply pok_app. split; [exact PD|]. simpl. rewrite Hd. split; [exact Hp | exact I].
      - unfold pc2, post_clean in *. eapply Forall_impl; [|exact PC]. intros y Hy j E. apply Hy in E as [E|E]; [left; lia | right; lia]. }
    destruct (filter (isk (Some a)) (ixf (S a) (rowsP_aux (d ++ [container_part p st]) (segs a (S a) ks)))) as [|c cs] eqn:F.
    + simpl in K. destruct ks; [discriminate W0 | discriminate K].
    + cbn [nonempty_l]. rewrite K. reflexivity.
Qed.
