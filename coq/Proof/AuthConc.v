(** C04 — concurrent logins: for every interleaving of the steps of N
    sessions, the backend receives each session's own encoding, and a session
    finishes exactly as it would alone with the backend's answer to ITS body. *)
From Coq Require Import String Ascii List Bool Arith Lia Permutation.
From Raven Require Import Base.GoStr Spec.Json Model.Auth Spec.AuthSpec Proof.AuthFlow.
Import ListNotations.

Section Conc.
  Variable sess : nat -> csession.
  Variable bk : str -> outcome.

  Definition answer_to (i : nat) : outcome :=
    match request_of (sess i) with Some body => bk body | None => Refused end.

  Definition cinv (st : cstate) : Prop :=
    (forall i r, pend st i = Some r -> r = request_of (sess i))
    /\ (forall body, In body (recv st) -> exists i, request_of (sess i) = Some body)
    /\ (forall i o, outs st i = Some o -> o = finish (sess i) (answer_to i)).

  Lemma upd_same {A} (f : nat -> A) i v : upd f i v i = v.
  Proof. unfold upd. now rewrite Nat.eqb_refl. Qed.

  Lemma upd_other {A} (f : nat -> A) i j v : j <> i -> upd f i v j = f j.
  Proof. intros H. unfold upd. apply Nat.eqb_neq in H. now rewrite H. Qed.

  Lemma finish_local_refusal s o : request_of s = None -> finish s o = finish s Refused.
  Proof.
    unfold request_of, finish, authenticate_user. destruct (cs_d s); [reflexivity|].
    destruct (multi_at (cs_u s)); [reflexivity|discriminate].
  Qed.

  Lemma cstep_inv st e : cinv st -> cinv (cstep sess bk st e).
  Proof.
    intros (I1 & I2 & I3). destruct e as [i|i]; simpl.
    - split; [|split]; simpl; auto.
      intros j r. destruct (Nat.eq_dec j i) as [->|N].
      + rewrite upd_same. intros H; now injection H as <-.
      + rewrite (upd_other _ _ _ _ N). apply I1.
    - destruct (pend st i) as [[body|]|] eqn:P.
      + pose proof (I1 _ _ P) as R. split; [|split]; simpl; auto.
        * intros b Hb. apply in_app_or in Hb as [Hb|[<-|[]]]; [now apply I2|]. now exists i.
        * intros j o. destruct (Nat.eq_dec j i) as [->|N].
          -- rewrite upd_same. intros H; injection H as <-. unfold answer_to. now rewrite <- R.
          -- rewrite (upd_other _ _ _ _ N). apply I3.
      + pose proof (I1 _ _ P) as R. split; [|split]; simpl; auto.
        intros j o. destruct (Nat.eq_dec j i) as [->|N].
        * rewrite upd_same. intros H; injection H as <-. unfold answer_to. now rewrite <- R.
        * rewrite (upd_other _ _ _ _ N). apply I3.
      + now split.
  Qed.

  Lemma fold_inv sched st : cinv st -> cinv (fold_left (cstep sess bk) sched st).
  Proof. revert st; induction sched as [|e l IH]; intros st H; simpl; [exact H|]. apply IH. now apply cstep_inv. Qed.

  (** for EVERY schedule (any order, any repetition of steps) *)
  Theorem conc_own_credentials sched :
    let st := run_sched sess bk sched in
    (forall body, In body (recv st) -> exists i, request_of (sess i) = Some body)
    /\ (forall i o, outs st i = Some o -> o = finish (sess i) (answer_to i)).
  Proof.
    assert (H : cinv (run_sched sess bk sched)).
    { apply fold_inv. repeat split; simpl; intros; try discriminate; contradiction. }
    destruct H as (_ & H2 & H3). split; assumption.
  Qed.

  (** schedules of the program: a session sends only after it rendered *)
  Fixpoint wf_sched (rendered : list nat) (sched : list cev) : bool :=
    match sched with
    | [] => true
    | Render i :: r => wf_sched (i :: rendered) r
    | Send i :: r => existsb (Nat.eqb i) rendered && wf_sched rendered r
    end.

  Definition sends (sched : list cev) : list nat :=
    flat_map (fun e => match e with Send i => [i] | Render _ => [] end) sched.

  Definition olist {A} (o : option A) : list A := match o with Some x => [x] | None => [] end.

  Lemma cstep_send_some st i body : pend st i = Some (Some body) ->
    cstep sess bk st (Send i)
    = mk_cstate (pend st) (recv st ++ [body]) (upd (outs st) i (Some (finish (sess i) (bk body)))).
  Proof. intros H. simpl. now rewrite H. Qed.

  Lemma cstep_send_none st i : pend st i = Some None ->
    cstep sess bk st (Send i)
    = mk_cstate (pend st) (recv st) (upd (outs st) i (Some (finish (sess i) Refused))).
  Proof. intros H. simpl. now rewrite H. Qed.

  Lemma recv_of_sends sched : forall st R,
    wf_sched R sched = true ->
    (forall i, In i R -> pend st i = Some (request_of (sess i))) ->
    recv (fold_left (cstep sess bk) sched st)
    = recv st ++ flat_map (fun i => olist (request_of (sess i))) (sends sched).
  Proof.
    induction sched as [|e l IH]; intros st R W HR; cbn [fold_left].
    - simpl. now rewrite app_nil_r.
    - destruct e as [i|i]; simpl in W.
      + rewrite (IH _ (i :: R) W); [reflexivity|].
        intros j [<-|Hj]; simpl.
        * now rewrite upd_same.
        * destruct (Nat.eq_dec j i) as [->|N]; [now rewrite upd_same|].
          rewrite (upd_other _ _ _ _ N). now apply HR.
      + apply andb_true_iff in W as [Wi W]. apply existsb_exists in Wi as (j & Hj & E).
        apply Nat.eqb_eq in E. subst j. pose proof (HR _ Hj) as Hp.
        destruct (request_of (sess i)) as [body|] eqn:Rq.
        * rewrite (cstep_send_some _ _ _ Hp), (IH _ R W); simpl; [now rewrite Rq, <- app_assoc|exact HR].
        * rewrite (cstep_send_none _ _ Hp), (IH _ R W); simpl; [now rewrite Rq|exact HR].
  Qed.

  (** when every session 0..N-1 sends once: the multiset of bodies received is
      the multiset of the sessions' own encodings *)
  Theorem conc_multiset sched N :
    wf_sched [] sched = true -> Permutation (sends sched) (seq 0 N) ->
    Permutation (recv (run_sched sess bk sched))
                (flat_map (fun i => olist (request_of (sess i))) (seq 0 N)).
  Proof.
    intros W P. unfold run_sched. rewrite (recv_of_sends _ cinit [] W); [|intros i []].
    simpl. now apply Permutation_flat_map.
  Qed.

  (** session i is authenticated only if the backend accepted the encoding of
      ITS credentials; with a sound EnsureUserAndMailboxes it is then bound to
      the store of its address *)
  Theorem conc_session_spec sched i o :
    outs (run_sched sess bk sched) i = Some o ->
    ensure_sound (cs_ens (sess i)) ->
    in_domain (cs_d (sess i)) (cs_u (sess i)) (cs_p (sess i)) = true ->
    imap_spec (cs_d (sess i)) (cs_u (sess i)) (cs_p (sess i)) (accepted (answer_to i)) o.
  Proof.
    intros H ES D. destruct (conc_own_credentials sched) as [_ K].
    rewrite (K _ _ H). unfold finish. now apply imap_attempt_spec.
  Qed.
End Conc.
