(** C10 — where the faithful model still violates the statement (one witness
    per finding class), and the witnesses of the classes repaired in the fix
    wave, which now behave as the statement demands (the same histories are
    replayed against the implementation on every run from corpus/C10/). *)
From Coq Require Import String Ascii List Bool Arith ZArith.
From Raven Require Import Base.GoStr Model.Flags Model.FlagStore Spec.FlagHistory Spec.FlagOracle.
Import ListNotations.
Local Open Scope Z_scope.

Definition env0 := mkEnv 1.
Definition st0 := mkSt [] [(1,1);(2,1);(3,1);(4,1);(5,1)] 1 (Some 5).
Definition one (n : Z) : seqset := [(Some n, Some n)].

(** the step violates the reference semantics, visibly in mailbox [mb] *)
Definition refutes (c : cls) (pre : list op) (o : op) (mb : Z) : Prop :=
  let s := run env0 st0 pre in
  uniq_keys_b (links s) = true /\ classify env0 s o = Some c /\
  view_eqb (view (links (step env0 s o)) mb) (view (links (spec_step env0 s o)) mb) = false.

(** UID STORE 1 +FLAGS (Junk \Seen) in INBOX: re-filed in Spam without NonJunk *)
Lemma refuted_junk_move :
  refutes JunkMove [OAppend 1 [NONJUNK]] (OUidStore false false 1 (one 1) IT_ADD [JUNK; SEEN]) 1
  /\ view (links (run env0 st0 [OAppend 1 [NONJUNK]; OUidStore false false 1 (one 1) IT_ADD [JUNK; SEEN]])) 5
     = [(1, [JUNK; SEEN])].
Proof. vm_compute. repeat split. Qed.

(** ---- repaired classes: the old witnesses, now without any class and with
    the outcome the statement demands ---- *)

(** EXAMINE INBOX; STORE 1 +FLAGS (\Deleted); CLOSE: nothing happens *)
Lemma fixed_examine_writes :
  let h := [OAppend 1 [SEEN]; OStore true false 1 (one 1) IT_ADD [DELETED]; OExpunge true 1] in
  hist_class env0 st0 h = None /\ view (links (run env0 st0 h)) 1 = [(1, [SEEN])].
Proof. vm_compute. split; reflexivity. Qed.

(** STORE 1 +FLAGS (NonJunk \Seen) in INBOX: both flags are stored in place *)
Lemma fixed_junk_same_mailbox :
  let h := [OAppend 1 [S_ "kw"]; OStore false false 1 (one 1) IT_ADD [NONJUNK; SEEN]] in
  hist_class env0 st0 h = None /\ view (links (run env0 st0 h)) 1 = [(1, [S_ "kw"; NONJUNK; SEEN])].
Proof. vm_compute. split; reflexivity. Qed.

(** UID COPY 1 INBOX; STORE 1 +FLAGS (\Flagged): the copy (uid 2) keeps its flags *)
Lemma fixed_same_mailbox_copy :
  let h := [OAppend 1 [S_ "kw"]; OUidCopy 1 (one 1) 1; OStore false false 1 (one 1) IT_ADD [S_ "\Flagged"]] in
  hist_class env0 st0 h = None
  /\ view (links (run env0 st0 h)) 1 = [(1, [S_ "kw"; S_ "\Flagged"]); (2, [S_ "kw"; RECENT])].
Proof. vm_compute. split; reflexivity. Qed.

(** 3 messages; STORE 1:2 +FLAGS (Junk): exactly messages 1 and 2 are re-filed
    (still class junk_move), message 3 stays *)
Lemma fixed_junk_shift :
  let h := [OAppend 1 [S_ "a1"]; OAppend 1 [S_ "a2"]; OAppend 1 [S_ "a3"];
            OStore false false 1 [(Some 1, Some 2)] IT_ADD [JUNK]] in
  view (links (run env0 st0 h)) 1 = [(3, [S_ "a3"])]
  /\ view (links (run env0 st0 h)) 5 = [(1, [S_ "a1"; JUNK]); (2, [S_ "a2"; JUNK])].
Proof. vm_compute. split; reflexivity. Qed.

(** KEYWORD Junk does not find NonJunk; \Seenish does not make a message seen *)
Lemma fixed_substring :
  let fl := [NONJUNK; S_ "\Seenish"] in
  key_holds (KHas JUNK) fl = false /\ key_holds (KHas SEEN) fl = false
  /\ unseen_count [mkLink 1 1 1 fl] 1 = 1 /\ first_unseen [mkLink 1 1 1 fl] 1 = Some 1.
Proof. vm_compute. repeat split. Qed.

(** flag names are case-insensitive (fix 06): "+FLAGS (\seen)" on \Seen adds
    nothing, "-FLAGS (\seen)" removes \Seen, "\deleted" is expunged, "\seen"
    counts as seen, \recent cannot be named, COPY adds no second \Recent *)
Lemma fixed_flag_case :
  calculate_new_flags [SEEN; S_ "kw"] [S_ "\seen"; S_ "KW"; S_ "\recent"] IT_ADD = [SEEN; S_ "kw"]
  /\ calculate_new_flags [SEEN; S_ "kw"] [S_ "\seen"] IT_DEL = [S_ "kw"]
  /\ calculate_new_flags [] [S_ "\Seen"; S_ "\seen"; S_ "\SEEN"] IT_FLAGS = [S_ "\Seen"]
  /\ view (links (run env0 st0 [OAppend 1 [S_ "\deleted"]; OAppend 1 [S_ "\DeletedX"]; OExpunge false 1])) 1 = [(2, [S_ "\DeletedX"])]
  /\ unseen_count [mkLink 1 1 1 [S_ "\seen"]; mkLink 2 1 2 [S_ "\Seenish"]] 1 = 1
  /\ copy_flags [S_ "\recent"] = [S_ "\recent"].
Proof. vm_compute. repeat split. Qed.

(** only RFC 3501 flags are accepted (fix 07): STORE 1 +FLAGS (x)y) and
    APPEND INBOX (a DQUOTE b) are refused and change nothing *)
Lemma fixed_flag_atom :
  let h := [OAppend 1 [S_ "kw"]; OStore false false 1 (one 1) IT_ADD [S_ "x)y"; SEEN];
            OUidStore false false 1 (one 1) IT_FLAGS [S_ "a\b"]; OAppend 1 [S_ "a""b"]; OAppend 1 [S_ "\*"]] in
  view (links (run env0 st0 h)) 1 = [(1, [S_ "kw"])] /\ next_of (nexts (run env0 st0 h)) 1 = 2.
Proof. vm_compute. split; reflexivity. Qed.

(** RENAME Spam x (no mailbox named Spam): the auto-move fails and the flags are
    stored in place, with or without .SILENT, +FLAGS and FLAGS; after CREATE
    Spam a newly added Junk moves the message into the new mailbox (id 6) *)
Lemma move_fails_example :
  let h := [OAppend 1 [S_ "kw"]; OAppend 1 []; ODropSpam false;
            OStore false false 1 (one 2) IT_ADD [JUNK; S_ "\Flagged"];
            OUidStore false true 1 (one 1) IT_FLAGS [JUNK; SEEN]] in
  hist_class env0 st0 h = None
  /\ view (links (run env0 st0 h)) 1 = [(1, [JUNK; SEEN]); (2, [JUNK; S_ "\Flagged"])]
  /\ unseen_count (links (run env0 st0 h)) 1 = 1
  /\ search (links (run env0 st0 h)) 1 (KHas JUNK) = [1; 2]
  /\ view (links (run env0 st0 (h ++ [OCreateSpam 6; OUidStore false false 1 (one 2) IT_DEL [JUNK];
                                        OUidStore false false 1 (one 2) IT_ADD [JUNK]]))) 6 = [(1, [S_ "\Flagged"; JUNK])].
Proof. vm_compute. repeat split. Qed.
