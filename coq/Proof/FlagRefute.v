(** C10 — where the faithful model violates the statement: one concrete
    witness per finding class (the same histories are replayed against the
    implementation on every run from corpus/C10/). *)
From Coq Require Import String Ascii List Bool Arith ZArith.
From Raven Require Import Base.GoStr Model.Flags Model.FlagStore Spec.FlagHistory Spec.FlagOracle.
Import ListNotations.
Local Open Scope Z_scope.

Definition env0 := mkEnv 1 5.
Definition st0 := mkSt [] [(1,1);(2,1);(3,1);(4,1);(5,1)] 1.
Definition one (n : Z) : seqset := [(Some n, Some n)].

(** the step violates the reference semantics, visibly in mailbox [mb] *)
Definition refutes (c : cls) (pre : list op) (o : op) (mb : Z) : Prop :=
  let s := run env0 st0 pre in
  uniq_keys_b (links s) = true /\ classify env0 s o = Some c /\
  view_eqb (view (links (step env0 s o)) mb) (view (links (spec_step env0 s o)) mb) = false.

(** EXAMINE INBOX; STORE 1 +FLAGS (\Deleted) *)
Lemma refuted_examine_writes :
  refutes ExamineWrites [OAppend 1 [SEEN]] (OStore true false 1 (one 1) IT_ADD [DELETED]) 1.
Proof. vm_compute. repeat split. Qed.

(** ... and CLOSE then removes the message *)
Lemma refuted_examine_close :
  view (links (run env0 st0 [OAppend 1 [SEEN]; OStore true false 1 (one 1) IT_ADD [DELETED]; OExpunge true 1])) 1 = []
  /\ view (links (spec_run env0 st0 [OAppend 1 [SEEN]; OStore true false 1 (one 1) IT_ADD [DELETED]; OExpunge true 1])) 1 = [(1, [SEEN])].
Proof. vm_compute. split; reflexivity. Qed.

(** 3 messages; STORE 1:2 +FLAGS (Junk): messages 1 and 3 leave, 2 is untouched *)
Lemma refuted_junk_shift :
  refutes JunkShift [OAppend 1 [S_ "a1"]; OAppend 1 [S_ "a2"]; OAppend 1 [S_ "a3"]]
          (OStore false false 1 [(Some 1, Some 2)] IT_ADD [JUNK]) 1
  /\ view (links (run env0 st0 [OAppend 1 [S_ "a1"]; OAppend 1 [S_ "a2"]; OAppend 1 [S_ "a3"];
                                 OStore false false 1 [(Some 1, Some 2)] IT_ADD [JUNK]])) 1 = [(2, [S_ "a2"])].
Proof. vm_compute. repeat split. Qed.

(** UID STORE 1 +FLAGS (Junk \Seen) in INBOX: re-filed in Spam without NonJunk *)
Lemma refuted_junk_move :
  refutes JunkMove [OAppend 1 [NONJUNK]] (OUidStore false false 1 (one 1) IT_ADD [JUNK; SEEN]) 1
  /\ view (links (run env0 st0 [OAppend 1 [NONJUNK]; OUidStore false false 1 (one 1) IT_ADD [JUNK; SEEN]])) 5
     = [(1, [JUNK; SEEN])].
Proof. vm_compute. repeat split. Qed.

(** STORE 1 +FLAGS (NonJunk \Seen) in INBOX: nothing is stored *)
Lemma refuted_junk_noop :
  refutes JunkNoop [OAppend 1 [S_ "kw"]] (OStore false false 1 (one 1) IT_ADD [NONJUNK; SEEN]) 1
  /\ view (links (run env0 st0 [OAppend 1 [S_ "kw"]; OStore false false 1 (one 1) IT_ADD [NONJUNK; SEEN]])) 1
     = [(1, [S_ "kw"])].
Proof. vm_compute. repeat split. Qed.

(** UID COPY 1 INBOX; STORE 1 +FLAGS (\Flagged): the copy (uid 2) is flagged too *)
Lemma refuted_same_mailbox_copy :
  refutes SameMailboxCopy [OAppend 1 [S_ "kw"]; OUidCopy 1 (one 1) 1]
          (OStore false false 1 (one 1) IT_ADD [S_ "\Flagged"]) 1.
Proof. vm_compute. repeat split. Qed.

(** the auto-move of such a message deletes both rows *)
Lemma refuted_same_mailbox_copy_junk :
  view (links (run env0 st0 [OAppend 1 [S_ "kw"]; OUidCopy 1 (one 1) 1; OStore false false 1 (one 1) IT_ADD [JUNK]])) 1 = [].
Proof. vm_compute. reflexivity. Qed.

(** substring tests: KEYWORD Junk finds NonJunk; \Seenish makes a message seen *)
Lemma refuted_substring :
  let fl := [NONJUNK; S_ "\Seenish"] in
  no_proper_super fl JUNK = false /\ no_proper_super_ci fl SEEN = false
  /\ key_holds (KHas JUNK) fl = true /\ spec_key_holds (KHas JUNK) fl = false
  /\ key_holds (KHas SEEN) fl = true /\ spec_key_holds (KHas SEEN) fl = false
  /\ unseen_count [mkLink 1 1 1 fl] 1 = 0 /\ spec_unseen_count [mkLink 1 1 1 fl] 1 = 1.
Proof. vm_compute. repeat split. Qed.
