(** C04 — the LOGIN line: for blank-free, quote-free arguments (atom or quoted
    form) raven hands exactly the supplied user name and password on. *)
From Coq Require Import String Ascii List Bool Arith NArith Lia.
From Raven Require Import Base.GoStr Base.GoStrFacts Spec.Json Model.Auth Spec.AuthSpec.
Import ListNotations.
Local Open Scope char_scope.

Definition nsp (w : str) : bool := forallb (fun c => negb (is_space c)) w.
Definition allsp (w : str) : bool := forallb is_space w.

Lemma fields_aux_word w rest cur : nsp w = true ->
  fields_aux (w ++ rest) cur = fields_aux rest (rev w ++ cur).
Proof.
  revert cur; induction w as [|c w IH]; intros cur H; [reflexivity|].
  simpl in H. apply andb_true_iff in H as [Hc Hw]. apply negb_true_iff in Hc.
  simpl. rewrite Hc, (IH _ Hw). now rewrite <- app_assoc.
Qed.

Lemma fields_aux_trailing s t cur : allsp t = true -> fields_aux (s ++ t) cur = fields_aux s cur.
Proof.
  intros Ht. revert cur. induction s as [|c s IH]; intros cur; simpl.
  - revert cur. induction t as [|d t IHt]; intros cur; [reflexivity|].
    simpl in Ht. apply andb_true_iff in Ht as [Hd Ht]. simpl. rewrite Hd.
    destruct cur; rewrite (IHt Ht); reflexivity.
  - destruct (is_space c); [destruct cur|]; now rewrite ?IH.
Qed.

Lemma drop_while_decomp f (l : str) : exists t, l = t ++ drop_while f l /\ forallb f t = true.
Proof.
  induction l as [|c l (t & E & Ht)]; [now exists []|]. simpl. destruct (f c) eqn:Fc.
  - exists (c :: t). simpl. rewrite Fc, Ht. split; [now f_equal|reflexivity].
  - now exists [].
Qed.

Lemma forallb_rev {A} (f : A -> bool) l : forallb f (rev l) = forallb f l.
Proof. induction l as [|x l IH]; [reflexivity|]. simpl. rewrite forallb_app, IH. simpl. rewrite andb_true_r. apply andb_comm. Qed.

Lemma fields_drop_leading s : fields (drop_while is_space s) = fields s.
Proof.
  unfold fields. induction s as [|c s IH]; [reflexivity|]. simpl. destruct (is_space c) eqn:E; [exact IH|].
  simpl. now rewrite E.
Qed.

Lemma fields_trim_space s : fields (trim_space s) = fields s.
Proof.
  unfold trim_space, trim_f, trim_right_f, trim_left_f.
  rewrite <- (fields_drop_leading s).
  remember (drop_while is_space s) as x eqn:Ex. clear Ex s.
  destruct (drop_while_decomp is_space (rev x)) as (t & E & Ht).
  remember (rev (drop_while is_space (rev x))) as y eqn:Ey.
  assert (E2 : x = y ++ rev t).
  { subst y. rewrite <- rev_app_distr, <- E. now rewrite rev_involutive. }
  rewrite E2. unfold fields. rewrite fields_aux_trailing; [reflexivity|].
  unfold allsp. now rewrite forallb_rev.
Qed.

(** four blank-free non-empty words separated by single blanks, then CRLF *)
Lemma fields_four w1 w2 w3 w4 :
  nsp w1 = true -> nsp w2 = true -> nsp w3 = true -> nsp w4 = true ->
  w1 <> [] -> w2 <> [] -> w3 <> [] -> w4 <> [] ->
  fields (w1 ++ " " :: w2 ++ " " :: w3 ++ " " :: w4 ++ crlf) = [w1; w2; w3; w4].
Proof.
  intros N1 N2 N3 N4 E1 E2 E3 E4. unfold fields.
  assert (step : forall w rest, nsp w = true -> w <> [] ->
            fields_aux (w ++ " " :: rest) [] = w :: fields_aux rest []).
  { intros w rest N E. rewrite (fields_aux_word _ _ _ N), app_nil_r. simpl.
    destruct (rev w) eqn:R; [|now rewrite <- R, rev_involutive].
    apply (f_equal (@rev ascii)) in R. rewrite rev_involutive in R. simpl in R. congruence. }
  rewrite (step _ _ N1 E1), (step _ _ N2 E2), (step _ _ N3 E3).
  rewrite (fields_aux_word _ _ _ N4), app_nil_r. simpl.
  destruct (rev w4) eqn:R; [|now rewrite <- R, rev_involutive].
  apply (f_equal (@rev ascii)) in R. rewrite rev_involutive in R. simpl in R. congruence.
Qed.

(** trimming a set of octets from a string that has none of them *)
Lemma drop_while_none f (s : str) : forallb (fun c => negb (f c)) s = true -> drop_while f s = s.
Proof. destruct s as [|c s]; [reflexivity|]. simpl. intros H. apply andb_true_iff in H as [H _]. apply negb_true_iff in H. now rewrite H. Qed.

Lemma trim_f_none f (s : str) : forallb (fun c => negb (f c)) s = true -> trim_f f s = s.
Proof.
  intros H. unfold trim_f, trim_right_f, trim_left_f. rewrite (drop_while_none _ _ H).
  rewrite drop_while_none; [apply rev_involutive|]. now rewrite forallb_rev.
Qed.

Lemma trim_quoted (u : str) : forallb (fun c => negb (in_set [DQ] c)) u = true ->
  trim (DQ :: u ++ [DQ]) [DQ] = u.
Proof.
  intros H. unfold trim, trim_f, trim_right_f, trim_left_f.
  assert (Q : in_set [DQ] DQ = true) by reflexivity.
  cbn [drop_while]. rewrite Q.
  destruct u as [|c u].
  - simpl. reflexivity.
  - assert (Hc : in_set [DQ] c = false).
    { simpl in H. apply andb_true_iff in H as [H _]. now apply negb_true_iff in H. }
    change ((c :: u) ++ [DQ]) with (c :: (u ++ [DQ])). cbn [drop_while]. rewrite Hc.
    change (c :: u ++ [DQ]) with ((c :: u) ++ [DQ]). remember (c :: u) as v eqn:Ev.
    rewrite rev_app_distr. cbn [rev app drop_while]. rewrite Q.
    rewrite drop_while_none; [apply rev_involutive|]. now rewrite forallb_rev.
Qed.

Lemma forallb_impl {A} (f g : A -> bool) l :
  (forall x, f x = true -> g x = true) -> forallb f l = true -> forallb g l = true.
Proof. intros I. induction l as [|x l IH]; [reflexivity|]. simpl. rewrite !andb_true_iff. intros [H1 H2]. split; auto. Qed.

Lemma token_c_inv c : token_c c = true ->
  is_space c = false /\ Ascii.eqb c DQ = false /\ Ascii.eqb c BSL = false.
Proof. unfold token_c. rewrite !andb_true_iff, !negb_true_iff. tauto. Qed.

Lemma token_inv u : token u = true ->
  nsp u = true /\ forallb (fun c => negb (in_set [DQ] c)) u = true
  /\ flat_map (fun c => if Ascii.eqb c DQ || Ascii.eqb c BSL then [BSL; c] else [c]) u = u.
Proof.
  intros T. split; [|split].
  - revert T. apply forallb_impl. intros c H. apply token_c_inv in H as (S & _ & _). now rewrite S.
  - revert T. apply forallb_impl. intros c H. apply token_c_inv in H as (_ & Q & _).
    unfold in_set. cbn [existsb]. now rewrite Q.
  - induction u as [|c u IH]; [reflexivity|]. cbn [token forallb] in T. apply andb_true_iff in T as [Hc Hu].
    apply token_c_inv in Hc as (_ & Q & B). cbn [flat_map]. rewrite Q, B. cbn [orb app]. now rewrite (IH Hu).
Qed.

Lemma render_props f u : token u = true -> (f = Atom -> u <> []) ->
  nsp (render f u) = true /\ render f u <> [] /\ trim (render f u) [DQ] = u.
Proof.
  intros T NE. destruct (token_inv _ T) as (N & D & F). destruct f; simpl render.
  - split; [exact N|]. split; [now apply NE|]. now apply trim_f_none.
  - unfold imap_quote. rewrite F. split.
    + unfold nsp in *. simpl. rewrite forallb_app, N. reflexivity.
    + split; [discriminate|]. now apply trim_quoted.
Qed.

Lemma classify_login_none fu fp u p : classify_login fu fp u p = None ->
  token u = true /\ token p = true /\ (fu = Atom -> u <> []) /\ (fp = Atom -> p <> []).
Proof.
  unfold classify_login.
  destruct (token u) eqn:Tu, (token p) eqn:Tp; simpl; try (destruct fu; discriminate);
    try (destruct fu, fp; destruct u; discriminate).
  destruct fu, fp, u, p; simpl; try discriminate; intros _; repeat split; congruence.
Qed.

(** LOGIN: credentials supplied as atoms or quoted strings made of blank-free,
    quote-free, backslash-free ASCII octets reach authenticateUser unaltered *)
Theorem login_args_exact tag fu fp u p :
  nsp tag = true -> tag <> [] ->
  classify_login fu fp u p = None ->
  login_creds false true (login_line tag fu fp u p) = Creds u p.
Proof.
  intros Nt Et C. destruct (classify_login_none _ _ _ _ C) as (Tu & Tp & Eu & Ep).
  destruct (render_props fu u Tu Eu) as (Nu & NEu & Ru).
  destruct (render_props fp p Tp Ep) as (Np & NEp & Rp).
  unfold login_creds, login_line. rewrite fields_trim_space.
  change (tag ++ S_ " LOGIN " ++ render fu u ++ S_ " " ++ render fp p ++ crlf)
    with (tag ++ " " :: S_ "LOGIN" ++ " " :: render fu u ++ " " :: render fp p ++ crlf).
  rewrite fields_four; auto; try discriminate.
  cbn -[trim]. now rewrite Ru, Rp.
Qed.
