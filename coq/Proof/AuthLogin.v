(** C04 — the LOGIN line: user name and password written as atoms or as quoted
    strings (any octets) reach authenticateUser exactly as supplied. *)
From Coq Require Import String Ascii List Bool Arith NArith Lia.
From Raven Require Import Base.GoStr Base.GoStrFacts Spec.Json Model.CmdTokenizer Model.Auth Spec.CmdArgs Spec.AuthSpec Proof.CmdTokenizer.
Import ListNotations.
Local Open Scope char_scope.

Definition nsp (w : str) : bool := forallb (fun c => negb (is_space c)) w.
Definition allsp (w : str) : bool := forallb is_space w.

Lemma fields_aux_word w rest cur : nsp w = true ->
  fields_aux (w ++ rest) cur = fields_aux rest (rev w ++ cur).
Proof.
  revert cur; induction w as [|c w IH]; intros cur H; [reflexivity|].
  simpl in H. apply andb_true_iff in H as [Hc Hw]. apply negb_true_iff in Hc.
  simpl. rewrite Hc, (IH _ Hw). now rewrite <- app_assoc.
Qed.

Lemma fields_aux_trailing s t cur : allsp t = true -> fields_aux (s ++ t) cur = fields_aux s cur.
Proof.
  intros Ht. revert cur. induction s as [|c s IH]; intros cur; simpl.
  - revert cur. induction t as [|d t IHt]; intros cur; [reflexivity|].
    simpl in Ht. apply andb_true_iff in Ht as [Hd Ht]. simpl. rewrite Hd.
    destruct cur; rewrite (IHt Ht); reflexivity.
  - destruct (is_space c); [destruct cur|]; now rewrite ?IH.
Qed.

Lemma drop_while_decomp f (l : str) : exists t, l = t ++ drop_while f l /\ forallb f t = true.
Proof.
  induction l as [|c l (t & E & Ht)]; [now exists []|]. simpl. destruct (f c) eqn:Fc.
  - exists (c :: t). simpl. rewrite Fc, Ht. split; [now f_equal|reflexivity].
  - now exists [].
Qed.

Lemma forallb_rev {A} (f : A -> bool) l : forallb f (rev l) = forallb f l.
Proof. induction l as [|x l IH]; [reflexivity|]. simpl. rewrite forallb_app, IH. simpl. rewrite andb_true_r. apply andb_comm. Qed.

Lemma fields_drop_leading s : fields (drop_while is_space s) = fields s.
Proof.
  unfold fields. induction s as [|c s IH]; [reflexivity|]. simpl. destruct (is_space c) eqn:E; [exact IH|].
  simpl. now rewrite E.
Qed.

Lemma fields_trim_space s : fields (trim_space s) = fields s.
Proof.
  unfold trim_space, trim_f, trim_right_f, trim_left_f.
  rewrite <- (fields_drop_leading s).
  remember (drop_while is_space s) as x eqn:Ex. clear Ex s.
  destruct (drop_while_decomp is_space (rev x)) as (t & E & Ht).
  remember (rev (drop_while is_space (rev x))) as y eqn:Ey.
  assert (E2 : x = y ++ rev t).
  { subst y. rewrite <- rev_app_distr, <- E. now rewrite rev_involutive. }
  rewrite E2. unfold fields. rewrite fields_aux_trailing; [reflexivity|].
  unfold allsp. now rewrite forallb_rev.
Qed.

(** four blank-free non-empty words separated by single blanks, then CRLF *)
Lemma fields_four w1 w2 w3 w4 :
  nsp w1 = true -> nsp w2 = true -> nsp w3 = true -> nsp w4 = true ->
  w1 <> [] -> w2 <> [] -> w3 <> [] -> w4 <> [] ->
  fields (w1 ++ " " :: w2 ++ " " :: w3 ++ " " :: w4 ++ crlf) = [w1; w2; w3; w4].
Proof.
  intros N1 N2 N3 N4 E1 E2 E3 E4. unfold fields.
  assert (step : forall w rest, nsp w = true -> w <> [] ->
            fields_aux (w ++ " " :: rest) [] = w :: fields_aux rest []).
  { intros w rest N E. rewrite (fields_aux_word _ _ _ N), app_nil_r. simpl.
    destruct (rev w) eqn:R; [|now rewrite <- R, rev_involutive].
    apply (f_equal (@rev ascii)) in R. rewrite rev_involutive in R. simpl in R. congruence. }
  rewrite (step _ _ N1 E1), (step _ _ N2 E2), (step _ _ N3 E3).
  rewrite (fields_aux_word _ _ _ N4), app_nil_r. simpl.
  destruct (rev w4) eqn:R; [|now rewrite <- R, rev_involutive].
  apply (f_equal (@rev ascii)) in R. rewrite rev_involutive in R. simpl in R. congruence.
Qed.

(** trimming a set of octets from a string that has none of them *)
Lemma drop_while_none f (s : str) : forallb (fun c => negb (f c)) s = true -> drop_while f s = s.
Proof. destruct s as [|c s]; [reflexivity|]. simpl. intros H. apply andb_true_iff in H as [H _]. apply negb_true_iff in H. now rewrite H. Qed.

Lemma trim_f_none f (s : str) : forallb (fun c => negb (f c)) s = true -> trim_f f s = s.
Proof.
  intros H. unfold trim_f, trim_right_f, trim_left_f. rewrite (drop_while_none _ _ H).
  rewrite drop_while_none; [apply rev_involutive|]. now rewrite forallb_rev.
Qed.

Lemma forallb_impl {A} (f g : A -> bool) l :
  (forall x, f x = true -> g x = true) -> forallb f l = true -> forallb g l = true.
Proof. intros I. induction l as [|x l IH]; [reflexivity|]. simpl. rewrite !andb_true_iff. intros [H1 H2]. split; auto. Qed.


(** trimming white space off a string whose first and last octets are not white space *)
Lemma trim_space_ends a m z t : is_space a = false -> is_space z = false -> allsp t = true ->
  trim_space ((a :: m ++ [z]) ++ t) = a :: m ++ [z].
Proof.
  intros Ha Hz Ht. unfold trim_space, trim_f, trim_right_f, trim_left_f.
  change ((a :: m ++ [z]) ++ t) with (a :: ((m ++ [z]) ++ t)). cbn [drop_while]. rewrite Ha.
  change (a :: (m ++ [z]) ++ t) with ((a :: m ++ [z]) ++ t).
  rewrite rev_app_distr.
  assert (D1 : forall x y : str, forallb is_space x = true -> drop_while is_space (x ++ y) = drop_while is_space y).
  { induction x as [|c x IH]; intros y H; [reflexivity|]. simpl in H. apply andb_true_iff in H as [H1 H2]. simpl. now rewrite H1, IH. }
  rewrite D1 by (unfold allsp in Ht; now rewrite forallb_rev).
  change (a :: m ++ [z]) with ((a :: m) ++ [z]). rewrite rev_app_distr. cbn [rev app drop_while]. rewrite Hz.
  change (z :: rev m ++ [a]) with ([z] ++ rev (a :: m)). rewrite rev_app_distr, rev_involutive. reflexivity.
Qed.

Lemma atom_first_last s : atom_ok s = true ->
  (exists a r, s = a :: r /\ is_space a = false) /\ (exists r z, s = r ++ [z] /\ is_space z = false).
Proof.
  unfold atom_ok. rewrite andb_true_iff. intros [H N]. destruct s as [|a r]; [discriminate|]. split.
  - exists a, r. split; [reflexivity|]. simpl in H. apply andb_true_iff in H as [Ha _]. now apply atom_c_inv in Ha as [Sa _].
  - destruct (exists_last (l := a :: r)) as (r' & z & E); [discriminate|]. exists r', z. split; [exact E|].
    rewrite E, forallb_app in H. apply andb_true_iff in H as [_ Hz]. simpl in Hz. rewrite andb_true_r in Hz.
    now apply atom_c_inv in Hz as [Sz _].
Qed.

Lemma render_last f s : arg_ok (f, s) = true -> exists r z, render_arg f s = r ++ [z] /\ is_space z = false.
Proof.
  destruct f; cbn [arg_ok fst snd render_arg]; intros A.
  - now destruct (atom_first_last _ A) as [_ H].
  - unfold quote_string. eexists (DQUOTE :: _), DQUOTE. split; [reflexivity|reflexivity].
Qed.

(** LOGIN: user name and password supplied as atoms or as quoted strings of
    arbitrary octets reach authenticateUser unaltered *)
Theorem login_args_exact tag fu fp u p :
  atom_ok tag = true -> arg_ok (fu, u) = true -> arg_ok (fp, p) = true ->
  login_creds false true (login_line tag fu fp u p) = Creds u p.
Proof.
  intros At Au Ap. unfold login_creds, login_line.
  set (args := [(AtomForm, tag); (AtomForm, S_ "LOGIN"); (fu, u); (fp, p)]).
  assert (Aall : forallb arg_ok args = true).
  { unfold args. cbn [forallb]. rewrite Au, Ap. cbn [arg_ok fst snd]. rewrite At. reflexivity. }
  (* the line without its CRLF *)
  assert (Trim : trim_space (render_line args ++ crlf) = render_line args).
  { destruct (atom_first_last _ At) as [(a & r & Et & Sa) _].
    destruct (render_last _ _ Ap) as (rp & z & Ep & Sz).
    unfold args. cbn [render_line fst snd]. change (render_arg AtomForm tag) with tag. change (render_arg AtomForm (S_ "LOGIN")) with (S_ "LOGIN"). rewrite Ep, Et.
    replace ((a :: r) ++ " " :: S_ "LOGIN" ++ " " :: render_arg fu u ++ " " :: rp ++ [z])
      with (a :: (r ++ " " :: S_ "LOGIN" ++ " " :: render_arg fu u ++ " " :: rp) ++ [z]).
    - apply trim_space_ends; auto.
    - simpl. f_equal. rewrite <- !app_assoc. simpl. rewrite <- !app_assoc. reflexivity. }
  rewrite Trim, (split_roundtrip _ Aall). unfold args. cbn [map fst snd]. change (render_arg AtomForm tag) with tag. change (render_arg AtomForm (S_ "LOGIN")) with (S_ "LOGIN").
  change (str_eqb (to_upper (S_ "LOGIN")) (S_ "LOGIN")) with true. cbv iota.
  now rewrite (parse_render _ _ Au), (parse_render _ _ Ap).
Qed.
