(** C19 — witnesses: for every class of [classify] a concrete well-formed
    program and mailbox on which raven's evaluator (the model) leaves the
    specification.  The same witnesses are in corpus/C19 and are replayed on
    the implementation by every run of the check. *)
From Coq Require Import String Ascii List Bool Arith NArith ZArith.
From Raven Require Import Base.GoStr Model.Search Model.SearchText Spec.Search Model.SearchClass.
From Raven Require Spec.SeqSet Model.CmdTokenizer.
Import ListNotations.
Local Open Scope Z_scope.

Definition nl : str := [CR; LF].
Definition wit_m1 : str :=
  S_ "From: alice@example.com" ++ nl ++ S_ "Subject: Hello  World" ++ nl ++ S_ "Date: Mon, 02 Jan 2006 15:04:05 -0700" ++ nl
  ++ S_ "X-A: one" ++ nl ++ S_ "X-A: two" ++ nl ++ nl ++ S_ "body one" ++ nl.
Definition wit_m2 : str :=
  S_ "From: bob@example.com" ++ nl ++ S_ "Subject: other" ++ nl ++ S_ "Date: 03 Jan 2006 10:00:00 +0000" ++ nl ++ nl ++ S_ "body two" ++ nl.
Definition wit_m3 : str :=
  S_ "From: carol@example.com" ++ nl ++ S_ "Subject: third" ++ nl ++ nl ++ S_ "body three" ++ nl.
Definition wit_mb : list smsg :=
  [ mk_smsg 1 [S_ "\Seen"] wit_m1 (2026, 10, 1); mk_smsg 2 [S_ "foobar"] wit_m2 (2026, 10, 1); mk_smsg 3 [] wit_m3 (2026, 10, 1) ].

Definition sone (n : Z) : Spec.SeqSet.item := Spec.SeqSet.One (Spec.SeqSet.Num n).
Definition srange (a b : Z) : Spec.SeqSet.item := Spec.SeqSet.Range (Spec.SeqSet.Num a) (Spec.SeqSet.Num b).
Definition t_ : str := S_ "t".
Definition search_line (ks : list key) (mb : list smsg) : reply :=
  search_cmd (t_ :: S_ "SEARCH" :: Model.CmdTokenizer.split_command_line (print_prog ks)) (to_msgs mb).
Definition uid_search_line (ks : list key) (mb : list smsg) : reply :=
  uid_search_cmd (t_ :: S_ "UID" :: S_ "SEARCH" :: Model.CmdTokenizer.split_command_line (print_prog ks)) (to_msgs mb).

(** a well-formed program of class [c] whose SEARCH reply violates the specification *)
Definition refutes (c : cls) (ks : list key) (mb : list smsg) : Prop :=
  wf_prog ks = true /\ classify_line ks mb = Some c /\ reply_ok (search_line ks mb) (spec_search ks mb) = false.

Ltac witness ks := exists ks, wit_mb; vm_compute; repeat split; reflexivity.

(** regression (fix 32751d9, SEARCH sets follow RFC 3501): a comma list was an
    unknown token (matched everything), "*" matched everything, a reversed range
    nothing; the former witnesses meet the specification *)
Lemma sets_repaired :
  search_line [KSeq [sone 1; sone 3]] wit_mb = ROk [1; 3]
  /\ search_line [KSeq [Spec.SeqSet.One Spec.SeqSet.Star]] wit_mb = ROk [3]
  /\ search_line [KSeq [srange 3 1]] wit_mb = ROk [1; 2; 3]
  /\ search_line [KUid [Spec.SeqSet.Range (Spec.SeqSet.Num 2) Spec.SeqSet.Star; sone 1]; KNot (KSeq [sone 2])] wit_mb = ROk [1; 3]
  /\ classify_line [KUid [Spec.SeqSet.Range (Spec.SeqSet.Num 2) Spec.SeqSet.Star; sone 1]; KNot (KSeq [sone 2])] wit_mb = None.
Proof. vm_compute. repeat split; reflexivity. Qed.
(** regression (fix "NOT and OR take complete search keys"): NOT / OR took one
    token plus at most one argument and a parenthesised list was an unknown
    token that matched everything; the former witnesses, and nested forms, now
    meet the specification *)
Definition ex_nested : list key :=
  [ KOr (KGroup [KHas FSeen; KHdr HFrom (S_ "alice")]) (KNot (KOr (KHeader (S_ "Subject") (S_ "other")) (KNot (KGroup [KGroup [KText (S_ "three")]])))) ].
Lemma arity_repaired :
  search_line [KGroup [KHas FSeen]] wit_mb = ROk [1]
  /\ search_line [KNot (KHeader (S_ "Subject") (S_ "hello"))] wit_mb = ROk [2; 3]
  /\ wf_prog ex_nested = true /\ classify_line ex_nested wit_mb = None
  /\ print_prog ex_nested = S_ "OR (SEEN FROM ""alice"") NOT OR HEADER ""Subject"" ""other"" NOT ((TEXT ""three""))"
  /\ search_line ex_nested wit_mb = ROk [1; 3] /\ spec_search ex_nested wit_mb = SOk [1; 3].
Proof. vm_compute. repeat split; reflexivity. Qed.
Lemma refuted_unknown_key : exists ks mb, refutes CUnknownKey ks mb.
Proof. witness [KUnknown (S_ "FOO")]. Qed.
(** regression (fix 378938d): flags used to be tested with strings.Contains on
    the flag string, so KEYWORD foo matched a message flagged foobar; hasFlag
    compares whole flags and the former witness now meets the specification *)
Lemma substring_flag_repaired :
  contains (S_ "\Seen foobar") (S_ "foo") = true /\ has_flag_go (S_ "\Seen foobar") (S_ "foo") = false
  /\ wf_prog [KKeyword (S_ "foo")] = true /\ classify_line [KKeyword (S_ "foo")] wit_mb = None
  /\ reply_ok (search_line [KKeyword (S_ "foo")] wit_mb) (spec_search [KKeyword (S_ "foo")] wit_mb) = true.
Proof. vm_compute. repeat split; reflexivity. Qed.
(** regression (fixes "SEARCH matches each occurrence of a header field" and
    "SENT* keys read RFC 5322 dates"): headerContains concatenated the values of
    repeated fields (X-A: one / X-A: two matched "et") and re-spaced folded
    lines; matchesSentDate parsed only RFC1123(Z), so a Date: without day of
    week never matched.  The former witnesses meet the specification. *)
Definition fold_msg : str :=
  S_ "Subject: first" ++ nl ++ S_ "  second   line" ++ nl ++ S_ "Date: 3 Jan 2006" ++ nl ++ S_ " 10:00 +0000" ++ nl ++ nl ++ S_ "b" ++ nl.
Lemma text_keys_repaired :
  search_line [KHeader (S_ "X-A") (S_ "et")] wit_mb = ROk []
  /\ search_line [KHeader (S_ "X-A") (S_ "two")] wit_mb = ROk [1]
  /\ search_line [KDate true COn (S_ "3", 1, S_ "2006")] wit_mb = ROk [2]
  /\ classify_line [KHeader (S_ "X-A") (S_ "et"); KDate true COn (S_ "3", 1, S_ "2006")] wit_mb = None
  /\ field_values fold_msg (S_ "subject") = [S_ " first  second   line"]
  /\ sent_date fold_msg = Some (2006, 1, 3).
Proof. vm_compute. repeat split; reflexivity. Qed.
(** regression (fix "a Date: field folded with a tab" and tokenizer fix 2599345):
    a Date: field folded with a horizontal tab has its sent date; runs of blanks and
    tabs inside a quoted search string reach the evaluator unchanged, also inside a
    parenthesised list *)
Definition tab_mb : list smsg :=
  [ mk_smsg 1 [] (S_ "Date: Mon, 02 Jan 2006" ++ nl ++ [tab] ++ S_ "15:04:05 +0000" ++ nl ++ nl ++ S_ "x" ++ nl) (2026, 10, 1) ].
Lemma line_repaired :
  search_line [KDate true COn (S_ "2", 1, S_ "2006")] tab_mb = ROk [1]
  /\ search_line [KHdr HSubject (S_ "Hello  World")] wit_mb = ROk [1]
  /\ search_line [KGroup [KHdr HSubject (S_ "Hello  World"); KNot (KText ([tab] ++ S_ " x"))]] wit_mb = ROk [1]
  /\ Model.CmdTokenizer.split_command_line (print_prog [KGroup [KHdr HSubject (S_ "a  b")]]) = [S_ "(SUBJECT"; S_ """a  b"")"].
Proof. vm_compute. repeat split; reflexivity. Qed.
(** regression (fix "UID SEARCH runs the SEARCH evaluator"): uid.handleUIDSearch
    was a separate implementation that evaluated only ALL and the first UID a:b
    (UID SEARCH UNSEEN returned every UID, UID SEARCH UID 2 nothing); the former
    witnesses now meet the specification, and a class of SEARCH is the same class
    of UID SEARCH *)
Lemma uid_search_repaired :
  uid_search_line [KUn FSeen] wit_mb = ROk [2; 3]
  /\ reply_ok (uid_search_line [KUn FSeen] wit_mb) (spec_uid_search [KUn FSeen] wit_mb) = true
  /\ uid_search_line [KUid [sone 2]] wit_mb = ROk [2]
  /\ reply_ok (uid_search_line [KUid [sone 2]] wit_mb) (spec_uid_search [KUid [sone 2]] wit_mb) = true
  /\ uid_search_line [KNot (KHas FSeen); KHdr HFrom (S_ "bob")] wit_mb = ROk [2].
Proof. vm_compute. repeat split; reflexivity. Qed.

(** regression (fix bb43d4f): OR followed by one operand with argument and
    nothing else used to read tokens[i] out of range (the process ended); the
    evaluator now answers "no match" for every message, and no input makes it panic *)
Lemma or_panic_repaired :
  search (to_msgs wit_mb) (S_ "OR FROM x") = Some []
  /\ search_cmd (t_ :: S_ "SEARCH" :: Model.CmdTokenizer.split_command_line (S_ "OR FROM x")) (to_msgs wit_mb) = ROk [].
Proof. vm_compute. split; reflexivity. Qed.

(** regression (seeded change C19-1): the SENT* keys use the calendar date AS
    WRITTEN in the Date: field, whatever its zone offset and time of day
    (23:30 -0500 is 04:30 UTC of the next day; 00:30 +0530 is 19:00 UTC of the
    previous day; 13:59 +1400 is 23:59 UTC of the previous day) *)
Definition zone_mb : list smsg :=
  [ mk_smsg 1 [] (S_ "Date: Mon, 01 Jan 2024 23:30:00 -0500" ++ nl ++ nl ++ S_ "x" ++ nl) (2026, 10, 1);
    mk_smsg 2 [] (S_ "Date: Wed, 03 Jan 2024 00:30:00 +0530" ++ nl ++ nl ++ S_ "y" ++ nl) (2026, 10, 1);
    mk_smsg 3 [] (S_ "Date: Tue, 02 Jan 2024 13:59:00 +1400" ++ nl ++ nl ++ S_ "z" ++ nl) (2026, 10, 1) ].
Definition d2024 (d : string) : sdate := (S_ d, 1, S_ "2024").
Lemma sent_date_as_written :
  map (fun m => sent_date (s_text m)) zone_mb = [Some (2024, 1, 1); Some (2024, 1, 3); Some (2024, 1, 2)]
  /\ classify_line [KNot (KDate true COn (d2024 "2"))] zone_mb = None
  /\ search_line [KDate true COn (d2024 "1")] zone_mb = ROk [1]
  /\ search_line [KNot (KDate true COn (d2024 "2"))] zone_mb = ROk [1; 2]
  /\ search_line [KOr (KDate true CBefore (d2024 "2")) (KDate true CSince (d2024 "3"))] zone_mb = ROk [1; 2].
Proof. vm_compute. repeat split; reflexivity. Qed.

(** regression (seeded change C19-2): a copied message is listed once per copy,
    with the same text and possibly byte-identical flags; every entry is judged on
    its own sequence number, UID and internal date (c19_search_exact quantifies
    over such mailboxes as over any other) *)
Definition copy_mb : list smsg :=
  [ mk_smsg 1 [S_ "\Recent"] wit_m2 (2026, 10, 1); mk_smsg 2 [S_ "\Recent"] wit_m2 (2026, 10, 2); mk_smsg 3 [S_ "\Recent"] wit_m3 (2026, 10, 2) ].
Definition one_ (n : Z) : key := KSeq [sone n].
Lemma copied_entries_on_their_own :
  classify_line [KOr (one_ 2) (KHdr HFrom (S_ "carol"))] copy_mb = None
  /\ search_line [one_ 1] copy_mb = ROk [1] /\ search_line [one_ 2] copy_mb = ROk [2]
  /\ search_line [KNot (one_ 1)] copy_mb = ROk [2; 3]
  /\ search_line [KOr (one_ 2) (KHdr HFrom (S_ "carol"))] copy_mb = ROk [2; 3]
  /\ search_line [KUid [srange 2 3]] copy_mb = ROk [2; 3]
  /\ search_line [KDate false COn (S_ "1", 10, S_ "2026")] copy_mb = ROk [1].
Proof. vm_compute. repeat split; reflexivity. Qed.
