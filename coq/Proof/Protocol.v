(** Proofs about the connection transition system of Model/Protocol.v, for ANY
    facts table satisfying the boolean predicates (C06 gate, STARTTLS, tagged
    completions, failed SELECT). *)
From Coq Require Import String List Bool Arith Lia.
From Raven Require Import Model.ProtoFacts Model.Protocol.
Import ListNotations.
Local Open Scope string_scope.
Local Open Scope list_scope.

(** ---------- small facts ---------- *)

Lemma site_eqb_eq a b : site_eqb a b = true -> a = b.
Proof.
  unfold site_eqb. destruct a, b; simpl.
  rewrite !andb_true_iff, !String.eqb_eq, !kind_eqb_eq, !Bool.eqb_true_iff.
  intros [[[[[[[[[[? ?] ?] ?] ?] ?] ?] ?] ?] ?] ?]. subst. reflexivity.
Qed.

Lemma sites_of_in t w s : In s (sites_of t w) -> In s (f_sites t) /\ s_cmd s = w.
Proof. unfold sites_of. rewrite filter_In, String.eqb_eq. tauto. Qed.

Lemma visits_in_table_in t w e :
  visits_in_table t w e = true -> forall v, In v (e_visits e) -> In v (f_sites t) /\ s_cmd v = w.
Proof.
  unfold visits_in_table. rewrite forallb_forall. intros H v Hv.
  specialize (H v Hv). rewrite existsb_exists in H. destruct H as [x [Hx Heq]].
  apply site_eqb_eq in Heq. subst x. apply sites_of_in. exact Hx.
Qed.

(** the row condition of [guards_ok] *)
Definition row_ok (s : site) : bool :=
  match s_kind s with
  | AccUserSelf | AccUserOther | AccSelected | AccRole | AccShared =>
      s_auth s || (s_tls s && s_ok200 s)
  | Backend => s_tls s
  | SetAuth => s_tls s && s_ok200 s && is_login (s_cmd s)
  | UseSel => s_auth s && s_sel s
  | SetSel => is_select (s_cmd s)
  | SetField => is_select (s_cmd s) || (s_tls s && s_ok200 s)
  | Restart => String.eqb (s_cmd s) "STARTTLS"
  end.

Lemma guards_ok_row t : guards_ok t = true -> forall s, In s (f_sites t) -> row_ok s = true.
Proof. unfold guards_ok. rewrite forallb_forall. intros H s Hs. exact (H s Hs). Qed.

(** ---------- C06 (a)(b)(c): the gate ---------- *)

Definition Inv (st : cstate) : Prop :=
  (c_sel st = true -> c_auth st = true) /\ (c_auth st = true -> c_tls st = true).

(** what an event may be, relative to the state BEFORE its command line *)
Definition ev_ok (st : cstate) (e : env) (ev : event) : Prop :=
  match ev with
  | Touch _ => c_auth st = true \/ (c_tls st = true /\ e_ok200 e = true)
  | UseSelId => c_auth st = true /\ c_sel st = true
  | BackendReq => c_tls st = true
  | Authd _ => c_tls st = true /\ e_ok200 e = true
  | Tagged _ => True
  end.

(** relation between the pre-state of the command and the state during its visits *)
Definition During (e : env) (st0 st : cstate) : Prop :=
  c_tls st = c_tls st0 /\ c_sel st = c_sel st0 /\
  (c_auth st0 = true -> c_auth st = true) /\
  (c_auth st = true -> c_auth st0 = true \/ (c_tls st0 = true /\ e_ok200 e = true)).

Lemma During_refl e st : During e st st.
Proof. unfold During. tauto. Qed.

Lemma implb_true a b : implb a b = true -> a = true -> b = true.
Proof. destruct a, b; simpl; congruence. Qed.

Lemma visit_ok e st0 st evs s st' evs' :
  Inv st0 -> During e st0 st -> row_ok s = true ->
  visit e (Some (st, evs)) s = Some (st', evs') ->
  During e st0 st' /\ exists new, evs' = evs ++ new /\ Forall (ev_ok st0 e) new.
Proof.
  intros [Hsa Hat] (Htls & Hsel & Hup & Hdown) Hrow Hv.
  unfold visit in Hv. destruct (enabled st e s) eqn:En; [|discriminate].
  unfold enabled in En. rewrite !andb_true_iff in En.
  destruct En as [[[[[[Ea Es] Et] Eo] _] _] _].
  pose proof (implb_true _ _ Ea) as Ea'. pose proof (implb_true _ _ Es) as Es'.
  pose proof (implb_true _ _ Et) as Et'. pose proof (implb_true _ _ Eo) as Eo'.
  unfold row_ok in Hrow.
  assert (Htouch : s_auth s || (s_tls s && s_ok200 s) = true ->
                   c_auth st0 = true \/ (c_tls st0 = true /\ e_ok200 e = true)).
  { intro H. apply orb_true_iff in H. destruct H as [H|H].
    - apply Hdown. apply Ea'. exact H.
    - apply andb_true_iff in H. destruct H as [H1 H2]. right. split.
      + rewrite <- Htls. apply Et'. exact H1.
      + apply Eo'. exact H2. }
  destruct (s_kind s) eqn:K; simpl in Hv; inversion Hv; subst st' evs'; clear Hv.
  all: try (split; [unfold During; tauto|]).
  all: try (eexists; split; [reflexivity|]; constructor; [|constructor]; simpl; auto).
  - (* Backend *) rewrite <- Htls. apply Et'. exact Hrow.
  - (* SetAuth *)
    apply andb_true_iff in Hrow. destruct Hrow as [Hrow _].
    apply andb_true_iff in Hrow. destruct Hrow as [H1 H2].
    assert (T : c_tls st0 = true) by (rewrite <- Htls; apply Et'; exact H1).
    assert (O : e_ok200 e = true) by (apply Eo'; exact H2).
    split.
    + unfold During; simpl. repeat split; auto.
    + eexists; split; [reflexivity|]. constructor; [|constructor]. simpl. auto.
  - (* SetSel *) exists []. rewrite app_nil_r. split; [reflexivity|constructor].
  - (* SetField *) exists []. rewrite app_nil_r. split; [reflexivity|constructor].
  - (* UseSel *)
    apply andb_true_iff in Hrow. destruct Hrow as [H1 H2].
    assert (S0 : c_sel st0 = true) by (rewrite <- Hsel; apply Es'; exact H2).
    split; [apply Hsa; exact S0 | exact S0].
  - (* Restart *) exists []. rewrite app_nil_r. split; [reflexivity|constructor].
Qed.

Lemma visits_ok e st0 : Inv st0 ->
  forall vs st evs st' evs',
  During e st0 st -> (forall v, In v vs -> row_ok v = true) ->
  fold_left (visit e) vs (Some (st, evs)) = Some (st', evs') ->
  During e st0 st' /\ exists new, evs' = evs ++ new /\ Forall (ev_ok st0 e) new.
Proof.
  intros HI vs. induction vs as [|v vs IH]; intros st evs st' evs' HD Hrows Hf.
  - simpl in Hf. inversion Hf; subst. split; [exact HD|]. exists []. rewrite app_nil_r. split; [reflexivity|constructor].
  - cbn [fold_left] in Hf.
    destruct (visit e (Some (st, evs)) v) as [[st1 evs1]|] eqn:V.
    + destruct (visit_ok e st0 st evs v st1 evs1 HI HD (Hrows v (or_introl eq_refl)) V) as [HD1 [n1 [E1 F1]]].
      destruct (IH st1 evs1 st' evs' HD1 (fun x Hx => Hrows x (or_intror Hx)) Hf) as [HD2 [n2 [E2 F2]]].
      split; [exact HD2|]. exists (n1 ++ n2). subst. rewrite app_assoc. split; [reflexivity|].
      apply Forall_app. split; assumption.
    + exfalso. clear -Hf. induction vs as [|x xs IHx]; cbn [fold_left] in Hf; [discriminate|]. apply IHx. exact Hf.
Qed.

Lemma Inv_of_During e st0 st : Inv st0 -> During e st0 st -> Inv st.
Proof.
  intros [Hsa Hat] (Htls & Hsel & Hup & Hdown). split.
  - intro H. apply Hup. apply Hsa. rewrite <- Hsel. exact H.
  - intro H. rewrite Htls. destruct (Hdown H) as [H0|[H0 _]]; [apply Hat; exact H0 | exact H0].
Qed.

Lemma Inv_init tls : Inv (init_state tls).
Proof. split; simpl; intro; discriminate. Qed.

Lemma do_select_ok clears st e st' evs :
  Inv st -> do_select clears st e = (st', evs) -> Inv st' /\ Forall (ev_ok st e) evs.
Proof.
  intros HI H. pose proof HI as [Hsa Hat]. unfold do_select in H.
  destruct (c_auth st) eqn:A; simpl in H.
  2:{ inversion H; subst. split; [exact HI | constructor]. }
  assert (T : c_tls st = true) by (apply Hat; reflexivity).
  assert (EV : forall s, ev_ok st e (Touch s)) by (intro s; simpl; left; exact A).
  destruct clears, (e_target e) as [found| | |r|r found]; simpl in H;
    try destruct (e_assigned e (c_user st) r); try destruct found; simpl in H; inversion H; subst; clear H;
    (split; [split; simpl; intros; auto | repeat constructor; auto]).
Qed.

Lemma step_ok t st w e st' evs :
  guards_ok t = true -> Inv st -> step t st w e = Some (st', evs) ->
  Inv st' /\ Forall (ev_ok st e) evs.
Proof.
  intros G HI Hs. unfold step in Hs.
  destruct (visits_in_table t w e) eqn:VT; simpl in Hs; [|discriminate].
  destruct (is_select w) eqn:SEL.
  { destruct (do_select (f_select_clears t) st e) as [s1 e1] eqn:D. inversion Hs; subst.
    eapply do_select_ok; eassumption. }
  destruct (String.eqb w "STARTTLS") eqn:ST.
  { pose proof HI as [Hsa Hat].
    destruct (c_tls st) eqn:T; [inversion Hs; subst; split; [exact HI | constructor]|].
    destruct (e_handshake e); simpl in Hs; [|inversion Hs; subst; split; [exact HI | constructor]].
    destruct (find _ _) as [s|]; [|inversion Hs; subst; split; [exact HI | constructor]].
    destruct (String.eqb (s_arg s) "fresh,tlsConn").
    { inversion Hs; subst. split; [apply Inv_init | constructor]. }
    destruct (String.eqb (s_arg s) "stale,tlsConn").
    { inversion Hs; subst. split; [split; simpl; intros; auto | constructor]. }
    inversion Hs; subst; split; [exact HI | constructor]. }
  destruct (fold_left (visit e) (e_visits e) (Some (st, []))) as [[s1 e1]|] eqn:F; [|discriminate].
  destruct (f_auth_final t && existsb _ e1 && negb (e_reply_ok e)); [discriminate|].
  inversion Hs; subst; clear Hs.
  assert (Rows : forall v, In v (e_visits e) -> row_ok v = true).
  { intros v Hv. apply (guards_ok_row t G). apply (visits_in_table_in t w e VT v Hv). }
  destruct (visits_ok e st HI (e_visits e) st [] s1 evs (During_refl e st) Rows F) as [HD [new [E Fa]]].
  simpl in E. subst evs. split; [|exact Fa].
  pose proof (Inv_of_During e st s1 HI HD) as [I1 I2].
  destruct (is_unselect w && c_auth st && c_sel st); [|split; assumption].
  split; simpl; [intro; discriminate | exact I2].
Qed.

Definition obs_ok (o : obs) : Prop := Inv (o_pre o) /\ Forall (ev_ok (o_pre o) (o_env o)) (o_events o).

Lemma run_ok t : guards_ok t = true ->
  forall cmds st stf tr, Inv st -> run t st cmds = Some (stf, tr) -> Inv stf /\ Forall obs_ok tr.
Proof.
  intros G cmds. induction cmds as [|[w e] rest IH]; intros st stf tr HI Hr; simpl in Hr.
  - inversion Hr; subst. split; [exact HI|constructor].
  - destruct (step t st w e) as [[st1 evs]|] eqn:S; [|discriminate].
    destruct (run t st1 rest) as [[sf tr1]|] eqn:R; [|discriminate].
    inversion Hr; subst; clear Hr.
    destruct (step_ok t st w e st1 evs G HI S) as [I1 F1].
    destruct (IH st1 stf tr1 I1 R) as [If Ft].
    split; [exact If|]. constructor; [split; assumption | exact Ft].
Qed.

(** full statement for runs from a fresh connection of either kind *)
Lemma gate_of_table t : guards_ok t = true ->
  forall tls cmds stf tr, run t (init_state tls) cmds = Some (stf, tr) ->
  Inv stf /\ Forall obs_ok tr.
Proof. intros G tls cmds stf tr. apply run_ok; [exact G | apply Inv_init]. Qed.

(** ---------- C06 (d): STARTTLS ---------- *)

Lemma starttls_fresh t st e st' evs :
  restart_ok t = true -> c_tls st = false -> e_handshake e = true ->
  step t st "STARTTLS" e = Some (st', evs) -> st' = init_state true /\ evs = [].
Proof.
  intros R T H S. unfold step in S.
  destruct (visits_in_table t "STARTTLS" e); simpl in S; [|discriminate].
  change (is_select "STARTTLS") with false in S. cbv iota in S.
  change (String.eqb "STARTTLS" "STARTTLS") with true in S. cbv iota in S.
  rewrite T, H in S. simpl in S.
  unfold restart_ok in R. apply andb_true_iff in R. destruct R as [Rex Rall].
  rewrite forallb_forall in Rall.
  destruct (find (fun s => kind_eqb (s_kind s) Restart) (sites_of t "STARTTLS")) as [s|] eqn:F.
  - apply find_some in F. destruct F as [Hin Hk].
    apply sites_of_in in Hin. destruct Hin as [Hin _].
    specialize (Rall s Hin). rewrite Hk in Rall. simpl in Rall. rewrite Rall in S.
    inversion S. split; reflexivity.
  - exfalso. rewrite existsb_exists in Rex. destruct Rex as [x [Hx Hk]].
    pose proof (find_none _ _ F x Hx) as N. cbv beta in N. congruence.
Qed.

(** on a connection that already is TLS, STARTTLS changes nothing *)
Lemma starttls_on_tls t st e st' evs :
  c_tls st = true -> step t st "STARTTLS" e = Some (st', evs) -> st' = st /\ evs = [].
Proof.
  intros T S. unfold step in S.
  destruct (visits_in_table t "STARTTLS" e); simpl in S; [|discriminate].
  change (is_select "STARTTLS") with false in S. cbv iota in S.
  change (String.eqb "STARTTLS" "STARTTLS") with true in S. cbv iota in S.
  rewrite T in S. inversion S. split; reflexivity.
Qed.

(** ---------- C06 (e): tagged completions ---------- *)

Lemma replies_once t : replies_ok t = true -> forall w, replies_of t w = (1, 1).
Proof.
  unfold replies_ok. rewrite !andb_true_iff. intros [[D A] _] w. unfold replies_of.
  destruct (find _ (f_replies t)) as [r|] eqn:F.
  - apply find_some in F. destruct F as [Hin _]. rewrite forallb_forall in A.
    specialize (A r Hin). destruct (snd r) as [mn mx]. apply andb_true_iff in A. destruct A as [A1 A2].
    apply Nat.eqb_eq in A1, A2. subst. reflexivity.
  - rewrite D. reflexivity.
Qed.

(** ---------- C06 (f): failed SELECT ---------- *)

Definition select_succeeds (st : cstate) (e : env) : bool :=
  match e_target e with
  | TPersonal found => found
  | TRole r found => e_assigned e (c_user st) r && found
  | _ => false
  end.

Lemma failed_select_unselects st e st' evs :
  c_auth st = true -> select_succeeds st e = false ->
  do_select true st e = (st', evs) -> c_sel st' = false.
Proof.
  intros A F H. unfold do_select in H. rewrite A in H. simpl in H.
  unfold select_succeeds in F.
  destruct (e_target e) as [found| | |r|r found]; simpl in H;
    try destruct (e_assigned e (c_user st) r); try destruct found; simpl in F; try discriminate;
    inversion H; subst; reflexivity.
Qed.

Lemma failed_select_step t st w e st' evs :
  f_select_clears t = true -> is_select w = true -> c_auth st = true ->
  select_succeeds st e = false -> step t st w e = Some (st', evs) -> c_sel st' = false.
Proof.
  intros C W A F S. unfold step in S.
  destruct (visits_in_table t w e); simpl in S; [|discriminate].
  rewrite W, C in S. destruct (do_select true st e) as [s1 e1] eqn:D. inversion S; subst.
  eapply failed_select_unselects; eassumption.
Qed.

Lemma successful_select_selects st e clears st' evs :
  c_auth st = true -> select_succeeds st e = true ->
  do_select clears st e = (st', evs) -> c_sel st' = true /\ c_origin st' = selected_store st'.
Proof.
  intros A F H. unfold do_select in H. rewrite A in H. simpl in H.
  unfold select_succeeds in F.
  destruct clears, (e_target e) as [found| | |r|r found]; simpl in H; try discriminate;
    try destruct (e_assigned e (c_user st) r); try destruct found; simpl in F; try discriminate;
    inversion H; subst; split; reflexivity.
Qed.

(** without the clearing, a failed SELECT keeps the previous selection (the
    behaviour of the tree before the fix; kept as a regression witness) *)
Lemma unfixed_failed_select_keeps :
  let st := mk_c true true true 1 false 0 (Personal 1) [] in
  let e := mk_env false 0 [] (fun _ _ => false) 0 0 [] (TPersonal false) false false in
  select_succeeds st e = false /\ c_sel (fst (do_select false st e)) = true.
Proof. vm_compute. split; reflexivity. Qed.

(** ---------- C06 (e) at the level of received lines ---------- *)
From Raven Require Import Base.GoStr Model.ProtoLine.

Lemma one_tagged_per_line t : replies_ok t = true -> f_short_tagged t = true ->
  forall line, 1 <= length (fields (trim_space line)) -> tagged_for_line t line = (1, 1).
Proof.
  intros R ST line L. unfold tagged_for_line, classify_line.
  destruct (fields (trim_space line)) as [|a [|b l]]; simpl in L; try lia.
  - rewrite ST. reflexivity.
  - apply replies_once. exact R.
Qed.

(** regression witness: before the fix (f_short_tagged = false) a tag-only line got no tagged completion *)
Lemma tag_only_line_was_untagged t : f_short_tagged t = false ->
  tagged_for_line t (S_ "a1") = (0, 0) /\ classify_line (S_ "a1") = LShort (S_ "a1").
Proof. intro H. unfold tagged_for_line. split; [|vm_compute; reflexivity].
  change (classify_line (S_ "a1")) with (LShort (S_ "a1")). rewrite H. reflexivity. Qed.

(** ---------- the session becomes authenticated only in a login line that is
    answered OK, on TLS, after a 200 ---------- *)

Definition has_authd (evs : list event) : bool :=
  existsb (fun ev => match ev with Authd _ => true | _ => false end) evs.

Lemma visit_auth_source e st evs s st' evs' :
  visit e (Some (st, evs)) s = Some (st', evs') ->
  (c_auth st' = true -> c_auth st = true \/ (kind_eqb (s_kind s) SetAuth = true /\ has_authd evs' = true))
  /\ (has_authd evs = true -> has_authd evs' = true).
Proof.
  unfold visit. destruct (enabled st e s); [|discriminate].
  intro H. inversion H; subst; clear H. unfold has_authd.
  destruct (s_kind s); simpl; rewrite ?existsb_app; simpl; rewrite ?orb_true_r, ?orb_false_r; split; auto;
    try (intro A; left; exact A); try (intro A; rewrite A; reflexivity).
Qed.

Lemma visits_auth_source e : forall vs st evs st' evs',
  fold_left (visit e) vs (Some (st, evs)) = Some (st', evs') ->
  (c_auth st' = true -> c_auth st = true \/ (has_authd evs' = true /\ exists v, In v vs /\ kind_eqb (s_kind v) SetAuth = true))
  /\ (has_authd evs = true -> has_authd evs' = true).
Proof.
  induction vs as [|v vs IH]; intros st evs st' evs' Hf.
  - simpl in Hf. inversion Hf; subst. split; auto.
  - cbn [fold_left] in Hf.
    destruct (visit e (Some (st, evs)) v) as [[st1 evs1]|] eqn:V.
    + destruct (visit_auth_source e st evs v st1 evs1 V) as [A1 M1].
      destruct (IH st1 evs1 st' evs' Hf) as [A2 M2]. split.
      * intro A. destruct (A2 A) as [B|[B [x [Hx Kx]]]].
        -- destruct (A1 B) as [C|[K C]]; [left; exact C|].
           right. split; [apply M2; exact C|]. exists v. split; [left; reflexivity | exact K].
        -- right. split; [exact B|]. exists x. split; [right; exact Hx | exact Kx].
      * intro H. apply M2. apply M1. exact H.
    + exfalso. clear -Hf. induction vs as [|x xs IHx]; cbn [fold_left] in Hf; [discriminate|]. apply IHx. exact Hf.
Qed.

Lemma has_authd_in evs : has_authd evs = true -> exists u, In (Authd u) evs.
Proof.
  unfold has_authd. rewrite existsb_exists. intros [ev [Hin H]]. destruct ev; try discriminate. exists u. exact Hin.
Qed.

Lemma auth_only_by_accepted_login t st w e st' evs :
  guards_ok t = true -> f_auth_final t = true -> Inv st ->
  step t st w e = Some (st', evs) -> c_auth st = false -> c_auth st' = true ->
  is_login w = true /\ e_reply_ok e = true /\ c_tls st = true /\ e_ok200 e = true.
Proof.
  intros G AF HI Hs A0 A1.
  destruct (step_ok t st w e st' evs G HI Hs) as [_ EV].
  unfold step in Hs.
  destruct (visits_in_table t w e) eqn:VT; simpl in Hs; [|discriminate].
  destruct (is_select w) eqn:SEL.
  { exfalso. destruct (do_select (f_select_clears t) st e) as [s1 e1] eqn:D. inversion Hs; subst.
    unfold do_select in D. rewrite A0 in D. simpl in D. inversion D; subst. congruence. }
  destruct (String.eqb w "STARTTLS") eqn:ST.
  { exfalso. destruct (c_tls st); [inversion Hs; subst; congruence|].
    destruct (e_handshake e); simpl in Hs; [|inversion Hs; subst; congruence].
    destruct (find _ _) as [s|]; [|inversion Hs; subst; congruence].
    destruct (String.eqb (s_arg s) "fresh,tlsConn"); [inversion Hs; subst; simpl in A1; discriminate|].
    destruct (String.eqb (s_arg s) "stale,tlsConn"); inversion Hs; subst; simpl in A1; congruence. }
  destruct (fold_left (visit e) (e_visits e) (Some (st, []))) as [[s1 e1]|] eqn:F; [|discriminate].
  destruct (visits_auth_source e (e_visits e) st [] s1 e1 F) as [Src _].
  destruct (f_auth_final t && has_authd e1 && negb (e_reply_ok e)) eqn:FIN;
    [unfold has_authd in FIN; rewrite FIN in Hs; discriminate|].
  unfold has_authd in FIN. rewrite FIN in Hs. fold (has_authd e1) in FIN.
  inversion Hs; subst; clear Hs.
  assert (A1' : c_auth s1 = true).
  { destruct (is_unselect w && c_auth st && c_sel st); simpl in A1; exact A1. }
  destruct (Src A1') as [B|[HA [v [Hv Kv]]]]; [congruence|].
  destruct (visits_in_table_in t w e VT v Hv) as [Hin Hc].
  pose proof (guards_ok_row t G v Hin) as Row. unfold row_ok in Row.
  apply kind_eqb_eq in Kv. rewrite Kv in Row.
  rewrite !andb_true_iff in Row. destruct Row as [_ Rl]. rewrite Hc in Rl.
  assert (RO : e_reply_ok e = true).
  { rewrite AF, HA in FIN. simpl in FIN. destruct (e_reply_ok e); [reflexivity | discriminate]. }
  destruct (has_authd_in evs HA) as [u Hu].
  rewrite Forall_forall in EV. specialize (EV _ Hu). simpl in EV.
  tauto.
Qed.
