(** C08 — store-level lemmas for the concurrent model: what ONE atomic
    operation ([Model.Conc.aop]: CREATE, UID COPY, UID STORE incl. the Junk move,
    EXPUNGE) can do to the link table, whatever state it runs in:
    [Ext]   UNIQUE(mailbox_id,uid) is preserved, every link's message id comes
            from a link that was there before, no message row is allocated;
    [Keeps] (CREATE, UID COPY) every link stays, under its key and message. *)
From Coq Require Import String Ascii List Bool ZArith Lia.
From Raven Require Import Base.GoStr Model.Store Model.Ops Model.Conc Proof.StoreInv.
Import ListNotations.
Local Open Scope Z_scope.

Definition lkey (l : link) : Z * Z := (lk_mbox l, lk_uid l).
Definition uniq (s : store) : Prop := NoDup (map lkey (links s)).

Record Ext (s s' : store) : Prop := mkExt {
  ext_uniq : uniq s -> uniq s';
  ext_msgs : forall l', In l' (links s') -> exists l, In l (links s) /\ lk_msg l = lk_msg l';
  ext_next : next_msg s' = next_msg s
}.

Definition Keeps (s s' : store) : Prop :=
  forall l, In l (links s) -> exists l', In l' (links s') /\ lkey l' = lkey l /\ lk_msg l' = lk_msg l.

Lemma Ext_refl s : Ext s s.
Proof. split; auto. intros l' H. exists l'. auto. Qed.

Lemma Ext_trans a b c : Ext a b -> Ext b c -> Ext a c.
Proof.
  intros [U1 M1 N1] [U2 M2 N2]. split; auto.
  - intros l'' H. destruct (M2 l'' H) as (l' & H' & E'). destruct (M1 l' H') as (l & Hl & E).
    exists l. split; auto. congruence.
  - congruence.
Qed.

Lemma Ext_same s s' : links s' = links s -> next_msg s' = next_msg s -> Ext s s'.
Proof.
  intros E N. split; auto.
  - unfold uniq. rewrite E. auto.
  - intros l' H. rewrite E in H. exists l'. auto.
Qed.

Lemma Keeps_refl s : Keeps s s.
Proof. intros l H. exists l. auto. Qed.
Lemma Keeps_trans a b c : Keeps a b -> Keeps b c -> Keeps a c.
Proof.
  intros K1 K2 l H. destruct (K1 l H) as (l' & H' & E1 & E2).
  destruct (K2 l' H') as (l'' & H'' & E3 & E4). exists l''. repeat split; auto; congruence.
Qed.
Lemma Keeps_same s s' : links s' = links s -> Keeps s s'.
Proof. intros E l H. exists l. rewrite E. auto. Qed.

(** ---- INSERT with UNIQUE(mailbox_id, uid) ------------------------------------ *)

Lemma at_uid_key mb u l : at_uid mb u l = true <-> lkey l = (mb, u).
Proof.
  unfold at_uid, lkey. rewrite andb_true_iff, !Z.eqb_eq. split.
  - intros [-> ->]. reflexivity.
  - intros [= -> ->]. auto.
Qed.

Lemma insert_link_shape s msg mb u fl s' :
  insert_link s msg mb u fl = Some s' ->
  existsb (at_uid mb u) (links s) = false /\
  links s' = links s ++ [mkLink (fresh_id (map lk_id (links s))) msg mb u fl (gser s)] /\
  next_msg s' = next_msg s /\ mboxes s' = mboxes s.
Proof.
  unfold insert_link. destruct (existsb (at_uid mb u) (links s)) eqn:E; [discriminate|].
  intros [= <-]. simpl. auto.
Qed.

Lemma insert_link_uniq s msg mb u fl s' :
  insert_link s msg mb u fl = Some s' -> uniq s -> uniq s'.
Proof.
  intros H U. destruct (insert_link_shape _ _ _ _ _ _ H) as (E & L & _ & _).
  unfold uniq. rewrite L, map_app. simpl. apply NoDup_app_one; auto.
  intros C. apply in_map_iff in C. destruct C as (l & K & Hl).
  assert (X : existsb (at_uid mb u) (links s) = true).
  { apply existsb_exists. exists l. split; auto. apply at_uid_key. exact K. }
  congruence.
Qed.

Lemma insert_link_in s msg mb u fl s' l' :
  insert_link s msg mb u fl = Some s' -> In l' (links s') ->
  In l' (links s) \/ (lk_msg l' = msg /\ lkey l' = (mb, u)).
Proof.
  intros H I. destruct (insert_link_shape _ _ _ _ _ _ H) as (_ & L & _ & _).
  rewrite L in I. apply in_app_or in I. destruct I as [I|[<-|[]]]; auto.
Qed.

Lemma insert_link_incl s msg mb u fl s' :
  insert_link s msg mb u fl = Some s' -> incl (links s) (links s').
Proof.
  intros H. destruct (insert_link_shape _ _ _ _ _ _ H) as (_ & L & _ & _).
  rewrite L. apply incl_appl, incl_refl.
Qed.

Lemma insert_link_new s msg mb u fl s' :
  insert_link s msg mb u fl = Some s' ->
  exists l, In l (links s') /\ lk_msg l = msg /\ lkey l = (mb, u).
Proof.
  intros H. destruct (insert_link_shape _ _ _ _ _ _ H) as (_ & L & _ & _).
  eexists. rewrite L. split; [apply in_or_app; right; left; reflexivity|]. auto.
Qed.

Lemma Ext_insert s l0 mb u fl s' :
  In l0 (links s) -> insert_link s (lk_msg l0) mb u fl = Some s' -> Ext s s'.
Proof.
  intros I H. split.
  - apply (insert_link_uniq _ _ _ _ _ _ H).
  - intros l' Hl. destruct (insert_link_in _ _ _ _ _ _ _ H Hl) as [A|[A _]].
    + exists l'. auto.
    + exists l0. auto.
  - apply (insert_link_shape _ _ _ _ _ _ H).
Qed.

Lemma Keeps_insert s msg mb u fl s' : insert_link s msg mb u fl = Some s' -> Keeps s s'.
Proof. intros H l I. exists l. split; auto. apply (insert_link_incl _ _ _ _ _ _ H). exact I. Qed.

(** ---- DELETE, UPDATE flags ------------------------------------------------------ *)

Lemma Ext_delete s p : Ext s (delete_links s p).
Proof.
  split.
  - unfold uniq, delete_links. simpl. apply NoDup_map_filter.
  - unfold delete_links. simpl. intros l' H. apply filter_In in H. exists l'. tauto.
  - reflexivity.
Qed.

Lemma Ext_set_flags s mb u fl : Ext s (set_flags s mb u fl).
Proof.
  split.
  - unfold uniq, set_flags. simpl. rewrite map_map.
    intros H. erewrite map_ext; [exact H|]. intros l. simpl. destruct (at_uid mb u l); reflexivity.
  - unfold set_flags. simpl. intros l' H. apply in_map_iff in H. destruct H as (l & E & Hl).
    exists l. split; auto. subst l'. destruct (at_uid mb u l); reflexivity.
  - reflexivity.
Qed.

(** ---- UID COPY --------------------------------------------------------------------- *)

Lemma find_link_in s mb u l : find_link s mb u = Some l -> In l (links s).
Proof. unfold find_link. intros H. apply find_some in H. tauto. Qed.

Lemma uidcopy_loop_ext uids : forall s sel dest next s',
  uidcopy_loop s sel dest uids next = Some s' -> Ext s s' /\ Keeps s s'.
Proof.
  induction uids as [|u r IH]; simpl; intros s sel dest next s' H.
  - injection H as <-. split; [apply Ext_same | apply Keeps_same]; reflexivity.
  - destruct (find_link s sel u) as [l|] eqn:F; [|eauto].
    destruct (insert_link s (lk_msg l) dest next (add_recent (lk_flags l))) as [s1|] eqn:I; [|discriminate].
    destruct (IH _ _ _ _ _ H) as [E K]. split.
    + eapply Ext_trans; [|exact E]. eapply Ext_insert; eauto. eapply find_link_in; eauto.
    + eapply Keeps_trans; [|exact K]. eapply Keeps_insert; eauto.
Qed.

Lemma op_uidcopy_ext s sel set d :
  Ext s (fst (op_uidcopy s sel set d)) /\ Keeps s (fst (op_uidcopy s sel set d)).
Proof.
  unfold op_uidcopy. destruct (resolve_uids s sel set) as [|u r] eqn:R.
  { cbn [fst]. split; [apply Ext_refl | apply Keeps_refl]. }
  destruct (find_name s d) as [m|].
  2:{ cbn [fst]. split; [apply Ext_refl | apply Keeps_refl]. }
  destruct (uidcopy_loop s sel (mb_id m) (u :: r) (mb_next m)) as [s'|] eqn:L.
  - cbn [fst]. eapply uidcopy_loop_ext; eauto.
  - cbn [fst]. split; [apply Ext_refl | apply Keeps_refl].
Qed.

(** ---- UID STORE (with the Junk / NonJunk move) ---------------------------------------- *)

Lemma move_message_ext s l0 src srcuid dn fl :
  In l0 (links s) -> Ext s (fst (move_message s (lk_msg l0) src srcuid dn fl)).
Proof.
  intros I. unfold move_message. destruct (find_name s dn) as [d|]; [|apply Ext_refl].
  destruct (mb_id d =? src); [apply Ext_refl|].
  destruct (insert_link s (lk_msg l0) (mb_id d) (mb_next d) fl) as [s1|] eqn:E; cbn [fst].
  - eapply Ext_trans; [eapply Ext_insert; eauto |].
    eapply Ext_trans; [|apply Ext_delete]. apply Ext_same; reflexivity.
  - apply Ext_refl.
Qed.

Lemma uidstore_one_ext s sel mode new u : Ext s (uidstore_one s sel mode new u).
Proof.
  unfold uidstore_one. destruct (find_link s sel u) as [l|] eqn:F; [|apply Ext_refl].
  pose proof (find_link_in _ _ _ _ F) as I.
  destruct (negb (fmem JUNK (lk_flags l)) && fmem JUNK (calc_flags (lk_flags l) new mode)).
  - pose proof (move_message_ext s l sel u SPAM (fremove NONJUNK (calc_flags (lk_flags l) new mode)) I) as M.
    destruct (move_message s (lk_msg l) sel u SPAM _) as [s1 ok]. simpl in M.
    destruct ok; [exact M | apply Ext_set_flags].
  - destruct (negb (fmem NONJUNK (lk_flags l)) && fmem NONJUNK (calc_flags (lk_flags l) new mode)).
    + pose proof (move_message_ext s l sel u INBOX (fremove JUNK (calc_flags (lk_flags l) new mode)) I) as M.
      destruct (move_message s (lk_msg l) sel u INBOX _) as [s1 ok]. simpl in M.
      destruct ok; [exact M | apply Ext_set_flags].
    + apply Ext_set_flags.
Qed.

Lemma uidstore_fold_ext sel mode new uids : forall s,
  Ext s (fold_left (fun s' u => uidstore_one s' sel mode new u) uids s).
Proof.
  induction uids as [|u r IH]; simpl; intros s; [apply Ext_refl|].
  eapply Ext_trans; [apply uidstore_one_ext | apply IH].
Qed.

(** ---- CREATE ---------------------------------------------------------------------------- *)

Lemma create_row_links s n t s' id :
  create_mailbox_row s n t = Some (s', id) -> links s' = links s /\ next_msg s' = next_msg s.
Proof.
  unfold create_mailbox_row. destruct n; [discriminate|].
  destruct (find_name s (a :: n)); [discriminate|]. intros [= <- _]. simpl. auto.
Qed.

Lemma create_or_same_links s n t :
  links (create_or_same s n t) = links s /\ next_msg (create_or_same s n t) = next_msg s.
Proof.
  unfold create_or_same. destruct (create_mailbox_row s n t) as [[s' id]|] eqn:C; auto.
  apply (create_row_links _ _ _ _ _ C).
Qed.

Lemma add_defaults_links s t :
  links (add_defaults s t) = links s /\ next_msg (add_defaults s t) = next_msg s.
Proof.
  unfold add_defaults.
  repeat match goal with |- context [create_or_same ?a ?b ?c] =>
    let H := fresh in destruct (create_or_same_links a b c) as [H ?]; rewrite H; clear H;
    match goal with E : next_msg (create_or_same a b c) = _ |- _ => rewrite E; clear E end end.
  auto.
Qed.

Lemma create_parents_links s name t :
  links (fst (create_parents s name t)) = links s /\
  next_msg (fst (create_parents s name t)) = next_msg s.
Proof.
  unfold create_parents. destruct (contains_byte name SLASH); cbn [fst]; auto.
  generalize (parent_paths name). intros ps. revert s.
  induction ps as [|p r IH]; simpl; intros s; auto.
  assert (X : forall s', links s' = links s -> next_msg s' = next_msg s ->
    links (fold_left (fun s'0 p0 => match p0 with
            | [] => s'0
            | _ :: _ => if equal_fold p0 INBOX then s'0 else
               match find_name s'0 p0 with
               | Some _ => s'0
               | None => match create_mailbox_row s'0 p0 t with Some (s'', _) => s'' | None => s'0 end
               end end) r s') = links s /\
    next_msg (fold_left (fun s'0 p0 => match p0 with
            | [] => s'0
            | _ :: _ => if equal_fold p0 INBOX then s'0 else
               match find_name s'0 p0 with
               | Some _ => s'0
               | None => match create_mailbox_row s'0 p0 t with Some (s'', _) => s'' | None => s'0 end
               end end) r s') = next_msg s).
  { intros s' E1 E2. destruct (IH s') as [A B]. split; congruence. }
  destruct p as [|c p]; [apply X; auto|].
  destruct (equal_fold (c :: p) INBOX); [apply X; auto|].
  destruct (find_name s (c :: p)); [apply X; auto|].
  destruct (create_mailbox_row s (c :: p) t) as [[s2 id]|] eqn:C; [|apply X; auto].
  destruct (create_row_links _ _ _ _ _ C). apply X; auto.
Qed.

Lemma op_create_links s n t :
  links (fst (op_create s n t)) = links s /\ next_msg (fst (op_create s n t)) = next_msg s.
Proof.
  unfold op_create. destruct (trim_suffix n [SLASH]) as [|c name] eqn:T; [cbn [fst]; auto|].
  destruct (str_eqb (to_upper (c :: name)) INBOX); [cbn [fst]; auto|].
  destruct (is_role_ns (c :: name)); [cbn [fst]; auto|].
  destruct (find_name s (c :: name)); [cbn [fst]; auto|].
  destruct (create_parents_links s (c :: name) t) as [P1 P2].
  destruct (create_mailbox_row (fst (create_parents s (c :: name) t)) (c :: name) t) as [[s2 id]|] eqn:C;
    cbn [fst]; auto.
  destruct (create_row_links _ _ _ _ _ C). split; congruence.
Qed.

(** ---- every atomic operation ------------------------------------------------------------- *)

Lemma atomic_ext a s : Ext s (fst (step s (aop_op a))).
Proof.
  destruct a; simpl.
  - destruct (op_create_links s name t). apply Ext_same; auto.
  - apply op_uidcopy_ext.
  - unfold op_uidstore. simpl. apply uidstore_fold_ext.
  - unfold op_expunge. simpl. apply Ext_delete.
Qed.

Lemma atomic_keeps a s : keeps (PAtomic a) = true -> Keeps s (fst (step s (aop_op a))).
Proof.
  destruct a; simpl; try discriminate; intros _.
  - destruct (op_create_links s name t). apply Keeps_same; auto.
  - apply op_uidcopy_ext.
Qed.

Lemma atomic_simple a s : simple (PAtomic a) = true ->
  links (fst (step s (aop_op a))) = links s.
Proof.
  destruct a; simpl; try discriminate; intros _. apply op_create_links.
Qed.
