(** C08 — (e) outside the finding classes, decided by COMPLETE enumeration of
    the schedule tree for a few small thread sets (the bound is part of the
    statement), and the initial store facts. *)
From Coq Require Import String Ascii List Bool ZArith Lia Arith.
From Raven Require Import Base.GoStr Model.Store Model.Ops Model.Conc Proof.StoreInv
  Proof.ConcStore Proof.ConcInv Proof.ConcAck.
Import ListNotations.

Lemma store_ok_init_l : forall t, store_ok (init t) /\ msgs_nodup (init t).
Proof.
  intros t. unfold store_ok, msgs_nodup, uniq, init, init5. simpl. repeat split; try constructor.
  intros l [].
Qed.

Definition no_failure (c : config) : bool := forallb (fun th => negb (is_failst th)) (c_threads c).

(** depth-first walk over every schedule of at most [n] steps of [k] threads;
    a branch ends where [step_class] flags a race *)
Fixpoint dfs (k n : nat) (c : config) : bool :=
  no_failure c &&
  match n with
  | O => true
  | S n' => forallb (fun i => match step_class c i with
                              | Some _ => true
                              | None => dfs k n' (sched_step c i)
                              end) (seq 0 k)
  end.

Lemma dfs_sound k : forall n c, dfs k n c = true ->
  forall sch, (length sch <= n)%nat -> Forall (fun i => (i < k)%nat) sch ->
  classify_from c sch = None -> no_failure (run_sched sch c) = true.
Proof.
  induction n as [|n IH]; intros c D sch L F C.
  - destruct sch; [|simpl in L; lia]. simpl in *. rewrite andb_true_iff in D. tauto.
  - destruct sch as [|i r].
    + simpl in *. rewrite andb_true_iff in D. tauto.
    + simpl in D. rewrite andb_true_iff in D. destruct D as [_ D].
      rewrite forallb_forall in D. inversion F as [|? ? Hi Fr]; subst.
      specialize (D i). simpl in C. destruct (step_class c i); [discriminate|].
      simpl. apply IH; auto.
      * apply D. apply in_seq. lia.
      * simpl in L. lia.
Qed.

Local Open Scope Z_scope.
Definition D_ : str := S_ "D".
Definition bounded_cases : list (list prog * nat) :=
  [ ([PDeliver INBOX 0; PDeliver INBOX 0], 13%nat);
    ([PDeliver INBOX 0; PAppend INBOX [S_ "\Seen"]], 13%nat);
    ([PAppend INBOX []; PAppend INBOX []], 13%nat);
    ([PDeliver INBOX 0; PDeliver SPAM 0], 13%nat);
    ([PDeliver D_ 5; PDeliver D_ 6], 13%nat);
    ([PDeliver INBOX 0; PDeliver INBOX 0; PAppend INBOX []], 10%nat) ].

Definition bounded_check : bool :=
  forallb (fun '(ps, n) => dfs (length ps) n (init_cfg (init 0) ps)) bounded_cases.

Lemma bounded_check_ok : bounded_check = true.
Proof. vm_compute. reflexivity. Qed.

Lemma c08_bounded_l : forall ps n sch,
  In (ps, n) bounded_cases -> (length sch <= n)%nat ->
  Forall (fun i => (i < length ps)%nat) sch ->
  classify (init 0) ps sch = None ->
  no_failure (run_sched sch (init_cfg (init 0) ps)) = true.
Proof.
  intros ps n sch I L F C. pose proof bounded_check_ok as B. unfold bounded_check in B.
  rewrite forallb_forall in B. specialize (B _ I). cbn beta iota in B.
  eapply dfs_sound; eauto.
Qed.
