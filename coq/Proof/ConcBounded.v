(** C08 — (e) for thread sets that contain UID COPY / UID STORE (Junk move) /
    EXPUNGE threads competing with deliveries for uid_next: decided by COMPLETE
    enumeration of the schedule tree for a few small thread sets (the bounds are
    part of the statement).  The unbounded theorem (Proof/ConcNoFail.v) covers
    deliveries, appends and CREATE. *)
From Coq Require Import String Ascii List Bool ZArith Lia Arith.
From Raven Require Import Base.GoStr Model.Store Model.Ops Model.Conc Proof.StoreInv
  Proof.ConcStore Proof.ConcInv Proof.ConcAck.
Import ListNotations.

Lemma store_ok_init_l : forall t, store_ok (init t) /\ msgs_nodup (init t).
Proof.
  intros t. unfold store_ok, msgs_nodup, uniq, init, init5. simpl. repeat split; try constructor.
  intros l [].
Qed.

(** no delivery / append thread has been refused, UNIQUE and UIDNEXT hold *)
Definition no_failure (c : config) : bool :=
  forallb (fun th => negb (is_failst th)) (c_threads c)
  && nodup_keys (links (c_store c)) && next_above_b (c_store c).

(** depth-first walk over every schedule of at most [n] steps of [k] threads;
    a step of a thread that has replied (or does not exist) changes nothing and
    is not walked again *)
Definition branch (dfs' : config -> bool) (c : config) (i : tid) : bool :=
  match thread_at c i with
  | Some th => if finished th then true else dfs' (sched_step c i)
  | None => true
  end.

Fixpoint dfs (k n : nat) (c : config) : bool :=
  no_failure c &&
  match n with
  | O => true
  | S n' => forallb (branch (dfs k n') c) (seq 0 k)
  end.

Lemma dfs_mono k : forall n c, dfs k (S n) c = true -> dfs k n c = true.
Proof.
  induction n as [|n IH]; intros c D.
  - simpl in *. rewrite andb_true_iff in *. tauto.
  - change (dfs k (S (S n)) c) with (no_failure c && forallb (branch (dfs k (S n)) c) (seq 0 k)) in D.
    change (dfs k (S n) c) with (no_failure c && forallb (branch (dfs k n) c) (seq 0 k)).
    rewrite andb_true_iff in *. destruct D as [A D]. split; auto.
    rewrite forallb_forall in *. intros i Hi. specialize (D i Hi). unfold branch in *.
    destruct (thread_at c i) as [th|]; auto. destruct (finished th); auto.
Qed.

Lemma replace_same {A} : forall (l : list A) i x, nth_error l i = Some x -> replace i x l = l.
Proof.
  induction l as [|y r IH]; intros i x H; destruct i; simpl in *; try discriminate.
  - injection H as ->. reflexivity.
  - rewrite IH; auto.
Qed.

Lemma finished_noop s th : finished th = true -> thread_step s th = (s, th).
Proof. destruct th as [[f t|f fl|a|f t ti|ti] st]; destruct st; simpl; try discriminate; reflexivity. Qed.

Lemma sched_step_noop c i :
  match thread_at c i with Some th => finished th = true | None => True end -> sched_step c i = c.
Proof.
  unfold thread_at, sched_step. destruct (nth_error (c_threads c) i) as [th|] eqn:N; auto.
  intros F. rewrite (finished_noop _ _ F). rewrite replace_same; auto. destruct c; reflexivity.
Qed.

Lemma dfs_sound k : forall n c, dfs k n c = true ->
  forall sch, (length sch <= n)%nat -> Forall (fun i => (i < k)%nat) sch ->
  no_failure (run_sched sch c) = true.
Proof.
  induction n as [|n IH]; intros c D sch L F.
  - destruct sch; [|simpl in L; lia]. simpl in *. rewrite andb_true_iff in D. tauto.
  - destruct sch as [|i r].
    + simpl in *. rewrite andb_true_iff in D. tauto.
    + pose proof (dfs_mono k n c D) as Dm.
      simpl in D. rewrite andb_true_iff in D. destruct D as [_ D].
      rewrite forallb_forall in D. inversion F as [|? ? Hi Fr]; subst.
      assert (Hin : In i (seq 0 k)) by (apply in_seq; lia).
      specialize (D i Hin). unfold branch in D. simpl in L. simpl.
      destruct (thread_at c i) as [th|] eqn:T.
      * destruct (finished th) eqn:Fi.
        -- rewrite sched_step_noop; [|rewrite T; exact Fi]. apply IH; auto. lia.
        -- apply IH; auto. lia.
      * rewrite sched_step_noop; [|rewrite T; exact I]. apply IH; auto. lia.
Qed.

Local Open Scope Z_scope.
(** a store with two messages in INBOX (row 1) *)
Definition s2 : store := fst (op_append (fst (op_append (init 0) INBOX [])) INBOX [S_ "\Deleted"]).

Definition bounded_cases : list (list prog * nat) :=
  [ ([PDeliver INBOX 0; PAtomic (AUidCopy 1 [URange 1 9] INBOX); PAppend INBOX []], 12%nat);
    ([PDeliver SPAM 0; PAtomic (AUidStore 1 [UOne 1] SAdd [JUNK]); PDeliver SPAM 0], 12%nat);
    ([PDeliver INBOX 0; PAtomic (AExpunge 1); PAtomic (AUidCopy 1 [UOne 2] INBOX)], 12%nat);
    ([PDeliver (S_ "D") 5; PDeliver (S_ "D") 6; PAtomic (ACreate (S_ "D") 7)], 12%nat) ].

Definition bounded_check : bool :=
  forallb (fun '(ps, n) => dfs (length ps) n (init_cfg s2 ps)) bounded_cases.

Lemma bounded_check_ok : bounded_check = true.
Proof. vm_compute. reflexivity. Qed.

Lemma c08_bounded_l : forall ps n sch,
  In (ps, n) bounded_cases -> (length sch <= n)%nat ->
  Forall (fun i => (i < length ps)%nat) sch ->
  no_failure (run_sched sch (init_cfg s2 ps)) = true.
Proof.
  intros ps n sch I L F. pose proof bounded_check_ok as B. unfold bounded_check in B.
  rewrite forallb_forall in B. specialize (B _ I). cbn beta iota in B.
  eapply dfs_sound; eauto.
Qed.
