(** C09: after "FETCH resolves its sequence set like STORE and COPY" and
    "SEARCH sequence sets follow RFC 3501", FETCH <set> and SEARCH <set> address
    exactly the denoted messages, for every well-formed set and every mailbox. *)
From Coq Require Import String Ascii List Bool Arith ZArith Lia.
From Raven Require Import Base.GoStr Base.GoStrFacts Base.GoStrZ Model.SeqSet Model.Expunge Spec.SeqSet
  Proof.SeqSetStr Proof.SeqSetParse Proof.ExpungeReplay Proof.DeletedWord.
Import ListNotations.
Local Open Scope Z_scope.

(** ---- bounds of printed numbers ---- *)
Lemma valid_bound_print a : wf_num a = true -> valid_bound (print_num a) = true.
Proof.
  intros H. unfold valid_bound. rewrite print_num_star_eq by exact H. destruct a as [n|]; [|reflexivity].
  cbn [print_num]. assert (Hi : in64 n) by (apply (wf_num_in64 (Num n) H 0); unfold in64, max_int64; lia).
  rewrite atoi_itoa by exact Hi. cbn [wf_num] in H. apply andb_true_iff in H. destruct H as [H1 _].
  apply Z.leb_le in H1. replace (n <? 1) with false by (symmetry; apply Z.ltb_ge; lia). reflexivity.
Qed.

Lemma bound_print a largest : wf_num a = true -> sequence_set_bound (print_num a) largest = Some (val largest a).
Proof.
  intros H. unfold sequence_set_bound. rewrite print_num_star_eq by exact H. destruct a as [n|]; [|reflexivity].
  cbn [print_num val]. assert (Hi : in64 n) by (apply (wf_num_in64 (Num n) H 0); unfold in64, max_int64; lia).
  rewrite atoi_itoa by exact Hi. cbn [wf_num] in H. apply andb_true_iff in H. destruct H as [H1 _].
  apply Z.leb_le in H1. replace (0 <? n) with true by (symmetry; apply Z.ltb_lt; lia). reflexivity.
Qed.

Lemma split_item it : wf_item it = true ->
  split_byte (print_item it) c_colon =
  match it with One a => [print_num a] | Range a b => [print_num a; print_num b] end.
Proof.
  destruct it as [a|a b]; cbn [wf_item print_item]; intros H.
  - apply split_byte_nosep. now apply print_num_no_byte.
  - apply andb_true_iff in H. destruct H as [Ha Hb]. change (":"%char) with c_colon.
    apply split_byte_two; now apply print_num_no_byte.
Qed.

Lemma valid_print s : wf s = true -> valid_seqset (print s) = true.
Proof.
  intros H. destruct (wf_forall s H) as [_ Hall]. unfold valid_seqset. rewrite split_print by exact H.
  apply forallb_forall. intros x Hx. apply in_map_iff in Hx. destruct Hx as (it & <- & Hit).
  specialize (Hall it Hit). rewrite split_item by exact Hall. destruct it as [a|a b]; cbn [wf_item] in Hall.
  - cbn. now rewrite valid_bound_print.
  - apply andb_true_iff in Hall. destruct Hall as [Ha Hb]. cbn. now rewrite !valid_bound_print.
Qed.

(** ---- rows and their numbers ---- *)
Lemma label_from_map : forall l k,
  label_from k l = map (fun i => (i, nth (Z.to_nat (i - k)) l 0)) (zseq k (length l)).
Proof.
  induction l as [|u l IH]; intros k; [reflexivity|]. cbn [label_from length zseq map].
  replace (k - k) with 0 by lia. cbn [Z.to_nat nth]. f_equal. rewrite IH.
  apply map_ext_in. intros i Hi. apply in_zseq in Hi. f_equal.
  replace (Z.to_nat (i - k)) with (S (Z.to_nat (i - (k + 1)))) by lia. reflexivity.
Qed.

Lemma label_from_all uids :
  label_from 1 uids = map (fun i => (i, nth1 uids i 0)) (zrange 1 (Z.of_nat (length uids))).
Proof.
  rewrite label_from_map. unfold zrange, nth1.
  replace (Z.to_nat (Z.of_nat (length uids) - 1 + 1)) with (length uids) by lia. reflexivity.
Qed.

Lemma label_zfirstn : forall l k c, label_from k (zfirstn c l) = zfirstn c (label_from k l).
Proof.
  induction l as [|u l IH]; intros k c; [reflexivity|]. cbn [zfirstn label_from].
  destruct (c <=? 0); [reflexivity|]. cbn [label_from]. now rewrite IH.
Qed.

Lemma label_ge : forall l k p, In p (label_from k l) -> k <= fst p.
Proof.
  induction l as [|u l IH]; intros k p H; [contradiction|]. cbn in H. destruct H as [<-|H]; [cbn; lia|].
  specialize (IH _ _ H). lia.
Qed.

Lemma filter_none {A} (P : A -> bool) l : (forall x, In x l -> P x = false) -> filter P l = [].
Proof.
  induction l as [|x l IH]; intros H; [reflexivity|]. cbn. rewrite (H x (or_introl eq_refl)).
  apply IH. intros y Hy. apply H. now right.
Qed.

Lemma filter_zfirstn_labels (P : Z * Z -> bool) : forall l k c, 0 <= c ->
  (forall p, In p (label_from k l) -> k + c <= fst p -> P p = false) ->
  filter P (zfirstn c (label_from k l)) = filter P (label_from k l).
Proof.
  induction l as [|u l IH]; intros k c Hc H; [reflexivity|].
  destruct (c <=? 0) eqn:E.
  - pose proof E as E0. apply Z.leb_le in E.
    assert (N : filter P (label_from k (u :: l)) = []).
    { apply filter_none. intros p Hp. apply H; [exact Hp|]. pose proof (label_ge (u :: l) k p Hp). lia. }
    rewrite N. cbn [label_from zfirstn]. now rewrite E0.
  - cbn [label_from zfirstn]. rewrite E. apply Z.leb_gt in E. cbn [filter]. rewrite IH; [reflexivity | lia |].
    intros p Hp Hk. apply H; [now right | lia].
Qed.

Lemma filter_map {A B} (P : B -> bool) (f : A -> B) l : filter P (map f l) = map f (filter (fun x => P (f x)) l).
Proof. induction l as [|x l IH]; [reflexivity|]. cbn. destruct (P (f x)); cbn; now rewrite IH. Qed.

(** ---- FETCH ---- *)
Theorem fetch_set_exact : forall (s : seqset) (uids : list Z),
  wf s = true -> Z.of_nat (length uids) <= max_int64 ->
  fetch_inline (print s) uids = Some (expected_fetch s uids).
Proof.
  intros s uids H Hlen. set (n := Z.of_nat (length uids)).
  assert (Ht : in64 n) by (unfold in64, n; lia).
  unfold fetch_inline. rewrite valid_print by exact H. cbn [negb]. fold n.
  set (seqs := parse_seqset_db (print s) n).
  assert (Hmem : forall i, In i seqs <-> In i (addressed s n)) by (intros i; now apply store_set_exact).
  assert (Hb : forall i, In i seqs -> 1 <= i <= n) by (intros i Hi; apply (addressed_bounds s); now apply Hmem).
  change (fold_right Z.max 0 seqs) with (max_uid seqs).
  unfold expected_fetch. fold n. destruct (max_uid seqs =? 0) eqn:E.
  - apply Z.eqb_eq in E. destruct (addressed s n) as [|y r] eqn:A; [reflexivity|]. exfalso.
    assert (Hy : In y seqs) by (apply Hmem; now left).
    pose proof (max_uid_ge seqs y Hy). specialize (Hb y Hy). lia.
  - apply Z.eqb_neq in E. f_equal. unfold sql_limit_offset. rewrite zskipn_0.
    assert (Hpos : 0 <= max_uid seqs).
    { destruct seqs as [|x l]; [cbn; lia|]. pose proof (max_uid_ge (x :: l) x (or_introl eq_refl)).
      specialize (Hb x (or_introl eq_refl)). lia. }
    replace (max_uid seqs <? 0) with false by (symmetry; apply Z.ltb_ge; exact Hpos).
    rewrite label_zfirstn. rewrite filter_zfirstn_labels; [| exact Hpos |].
    + rewrite label_from_all. fold n. rewrite filter_map. unfold addressed. f_equal.
      apply filter_ext_in. intros i Hi. cbn [fst].
      destruct (denote s n i) eqn:D.
      * apply existsb_exists. exists i. split; [|apply Z.eqb_refl]. apply Hmem. unfold addressed.
        apply filter_In. now split.
      * destruct (existsb (Z.eqb i) seqs) eqn:X; [|reflexivity].
        apply existsb_exists in X. destruct X as (j & Hj & Ej). apply Z.eqb_eq in Ej. subst j.
        apply Hmem in Hj. unfold addressed in Hj. apply filter_In in Hj. destruct Hj as [_ Hd]. congruence.
    + intros p Hp Hk. destruct (existsb (Z.eqb (fst p)) seqs) eqn:X; [|reflexivity].
      apply existsb_exists in X. destruct X as (j & Hj & Ej). apply Z.eqb_eq in Ej.
      pose proof (max_uid_ge seqs j Hj). lia.
Qed.

(** ---- SEARCH ---- *)
Definition seqchar (c : ascii) : bool :=
  Ascii.eqb c c_colon || Ascii.eqb c c_star || Ascii.eqb c c_comma || is_digit c.

Lemma seqchar_not_lower : forall c, negb (seqchar c) || negb (is_lower c) = true.
Proof. ascii_sweep (fun c => negb (seqchar c) || negb (is_lower c)). Qed.

Lemma to_upper_seqchars x : forallb seqchar x = true -> to_upper x = x.
Proof.
  unfold to_upper. induction x as [|c x IH]; [reflexivity|]. cbn [forallb map]. intros H.
  apply andb_true_iff in H. destruct H as [Hc Hx].
  rewrite IH by exact Hx. f_equal. unfold upper_c. pose proof (seqchar_not_lower c) as K. rewrite Hc in K.
  cbn in K. apply negb_true_iff in K. now rewrite K.
Qed.

Lemma digits_seqchar ds : forallb is_digit ds = true -> forallb seqchar ds = true.
Proof.
  induction ds as [|c ds IH]; [reflexivity|]. cbn. intros H. apply andb_true_iff in H. destruct H as [Hc Hd].
  unfold seqchar at 1. rewrite Hc, IH by exact Hd. now rewrite !orb_true_r.
Qed.

Lemma print_num_seqchar a : wf_num a = true -> forallb seqchar (print_num a) = true.
Proof.
  destruct a as [n|]; intros H; [|reflexivity]. apply digits_seqchar, itoa_digits.
  apply (wf_num_in64 (Num n) H 0). unfold in64, max_int64. lia.
Qed.

Lemma print_item_seqchar it : wf_item it = true -> forallb seqchar (print_item it) = true.
Proof.
  destruct it as [a|a b]; cbn [wf_item print_item]; intros H.
  - now apply print_num_seqchar.
  - apply andb_true_iff in H. destruct H as [Ha Hb]. rewrite !forallb_app, !print_num_seqchar by assumption. reflexivity.
Qed.

Lemma join_seqchar l : (forall x, In x l -> forallb seqchar x = true) -> forallb seqchar (join l [c_comma]) = true.
Proof.
  induction l as [|x l IH]; intros H; [reflexivity|]. destruct l as [|y l].
  - cbn. apply H. now left.
  - change (join (x :: y :: l) [c_comma]) with (x ++ [c_comma] ++ join (y :: l) [c_comma]).
    rewrite !forallb_app. rewrite (H x (or_introl eq_refl)). rewrite IH by (intros z Hz; apply H; now right). reflexivity.
Qed.

Definition head_ok (x : str) : bool := match x with c :: _ => is_digit c || Ascii.eqb c c_star | [] => false end.

Lemma head_ok_app x y : head_ok x = true -> head_ok (x ++ y) = true.
Proof. destruct x; [discriminate | intros H; exact H]. Qed.

Lemma print_num_head a : wf_num a = true -> head_ok (print_num a) = true.
Proof.
  destruct a as [n|]; intros H; [|reflexivity]. cbn [print_num].
  assert (Hi : in64 n) by (apply (wf_num_in64 (Num n) H 0); unfold in64, max_int64; lia).
  pose proof (itoa_digits n Hi) as D. pose proof (itoa_nonempty n Hi) as N.
  destruct (itoa n) as [|c r]; [congruence|]. cbn in D. apply andb_true_iff in D. destruct D as [Hc _].
  cbn. now rewrite Hc.
Qed.

Lemma print_head s : wf s = true -> head_ok (print s) = true.
Proof.
  intros H. destruct (wf_forall s H) as [_ Hall]. destruct s as [|it r]; [discriminate|].
  assert (Hit : head_ok (print_item it) = true).
  { specialize (Hall it (or_introl eq_refl)). destruct it as [a|a b]; cbn [wf_item print_item] in *.
    - now apply print_num_head.
    - apply andb_true_iff in Hall. destruct Hall as [Ha _]. apply head_ok_app. now apply print_num_head. }
  unfold print. cbn [map]. destruct (map print_item r) as [|y l]; [exact Hit|].
  change (join (print_item it :: y :: l) [","%char]) with (print_item it ++ [","%char] ++ join (y :: l) [","%char]).
  now apply head_ok_app.
Qed.

Lemma between_same lo i : (lo <=? i) && (i <=? lo) = (i =? lo).
Proof. apply eq_true_iff_eq. rewrite andb_true_iff, !Z.leb_le, Z.eqb_eq. lia. Qed.

Lemma matches_item it largest i : wf_item it = true ->
  matches_part i largest (print_item it) = denote_item largest it i.
Proof.
  intros H. unfold matches_part. rewrite split_item by exact H. destruct it as [a|a b]; cbn [wf_item] in H.
  - rewrite bound_print by exact H. cbn [denote_item]. apply between_same.
  - apply andb_true_iff in H. destruct H as [Ha Hb]. rewrite !bound_print by assumption. cbn [denote_item].
    destruct (val largest b <? val largest a) eqn:E; apply eq_true_iff_eq; rewrite !andb_true_iff, !Z.leb_le;
      [apply Z.ltb_lt in E | apply Z.ltb_ge in E]; lia.
Qed.

Lemma existsb_ext_in {A} (f g : A -> bool) l : (forall x, In x l -> f x = g x) -> existsb f l = existsb g l.
Proof.
  induction l as [|x l IH]; intros H; [reflexivity|]. cbn. rewrite (H x (or_introl eq_refl)).
  f_equal. apply IH. intros y Hy. apply H. now right.
Qed.

Theorem matches_set_exact : forall (s : seqset) (largest i : Z),
  wf s = true -> matches_sequence_set i (print s) largest = denote s largest i.
Proof.
  intros s largest i H. destruct (wf_forall s H) as [_ Hall]. unfold matches_sequence_set, denote.
  rewrite split_print by exact H. rewrite existsb_map. apply existsb_ext_in.
  intros it Hit. now apply matches_item, Hall.
Qed.

Theorem search_set_exact : forall (s : seqset) (total : Z),
  wf s = true -> search_set (print s) total = addressed s total.
Proof.
  intros s total H. destruct (wf_forall s H) as [_ Hall].
  assert (SC : forallb seqchar (print s) = true).
  { unfold print. apply join_seqchar. intros x Hx. apply in_map_iff in Hx. destruct Hx as (it & <- & Hit).
    now apply print_item_seqchar, Hall. }
  unfold search_set, addressed. rewrite (to_upper_seqchars _ SC).
  assert (IS : is_sequence_set (print s) = true).
  { unfold is_sequence_set. destruct (str_eqb (print s) s_star); [reflexivity|].
    pose proof (print_head s H) as Hd. unfold head_ok in Hd.
    assert (E : forallb (fun c => Ascii.eqb c c_colon || Ascii.eqb c c_star || Ascii.eqb c c_comma || is_digit c) (print s) = true)
      by exact SC.
    rewrite E. exact Hd. }
  rewrite IS. apply filter_ext. intros i. now apply matches_set_exact.
Qed.

(** ---- UID SEARCH UID <set> (through the common evaluator since e09cd6b) ---- *)
Theorem uidsearch_set_exact : forall (s : seqset) (uids : list Z),
  wf s = true -> uidsearch_set (print s) uids = addressed_uids s uids.
Proof.
  intros s uids H. unfold uidsearch_set, addressed_uids. apply filter_ext. intros u.
  rewrite max_uid_same. now apply matches_set_exact.
Qed.
