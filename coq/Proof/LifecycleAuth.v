(** C20 — proofs about the bounded call to the authentication backend *)
From Coq Require Import List Bool NArith Arith Lia.
From Raven Require Import Base.GoStr Model.Lifecycle Model.LifecycleAuth Spec.Lifecycle Proof.Lifecycle.
Import ListNotations.

(** a client with Client.Timeout = T: whatever the backend does, the call is back within T *)
Lemma call_bounded c T b : hc_total c = Some T -> exists t, call_time c b = Some t /\ (t <= T)%N.
Proof.
  intro H. unfold call_time, headers_at. rewrite H.
  destruct (hc_header c) as [h|]; destruct b as [| |th|th|th tb|ok th];
    try (eexists; split; [reflexivity | lia]);
    match goal with |- context [(?l <? th)%N] => destruct (l <? th)%N eqn:E end;
    try (eexists; split; [reflexivity | lia]);
    apply N.ltb_ge in E;
    destruct (hc_drains c); cbn [negb]; try (eexists; split; [reflexivity | unfold cap; rewrite ?H; lia]);
    try (rewrite H; eexists; split; [reflexivity | lia]).
Qed.

(** ... and without it (per-phase transport timeouts only, or none) some backend keeps the call for ever *)
Lemma seeded_client_wedged th : (th <= auth_timeout)%N -> call_time seeded_client (BHeadersStall th) = None.
Proof.
  intro H. unfold call_time, headers_at, seeded_client. cbn [hc_total hc_header hc_drains].
  apply N.ltb_ge in H. rewrite H. reflexivity.
Qed.

Lemma seeded_client_trickle th : (th <= auth_timeout)%N -> call_time seeded_client (BTrickle th) = None.
Proof.
  intro H. unfold call_time, headers_at, seeded_client. cbn [hc_total hc_header hc_drains].
  apply N.ltb_ge in H. rewrite H. reflexivity.
Qed.

Lemma unbounded_client_wedged : call_time unbounded_client BAcceptSilent = None /\ call_time unbounded_client BNeverAccepts = None.
Proof. split; reflexivity. Qed.

(** a backend that never gets as far as the headers is a refusal, never a success *)
Lemma no_headers_no_success c b : snd (headers_at c b) = false -> call_ok c b = false.
Proof. unfold call_ok. destruct (headers_at c b) as [t g]. cbn. intros ->. reflexivity. Qed.

(** the facts of the tree give every auth path the 10 s bound *)
Lemma facts_bound f b :
  facts_ok f = true ->
  (exists t, call_time (client_of (lf_imap_auth_timeout f)) b = Some t /\ (t <= auth_timeout)%N) /\
  (exists t, call_time (client_of (lf_sasl_auth_timeout f)) b = Some t /\ (t <= auth_timeout)%N) /\
  lf_ssl_handshake_deadline f = Some 30000%N.
Proof.
  unfold facts_ok. destruct f as [[a|] [s|] [h|]]; cbn; try discriminate. intro H.
  apply andb_prop in H as [H H3]. apply andb_prop in H as [H1 H2].
  apply N.eqb_eq in H1, H2, H3. subst.
  repeat split; try (apply (call_bounded _ auth_timeout); reflexivity).
Qed.

(** handler lifetime once its client is gone or silent, an auth call being in
    flight at that moment: the call (<= T) and then what Proof/Lifecycle.v
    bounds — IMAP: the silence time of the state the command leaves; SASL: one
    read deadline *)
Lemma imap_lifetime_bounded c T b (s : istate) :
  hc_total c = Some T ->
  exists t r, call_time c b = Some t /\ i_silence_ms 3 s = Some r /\ (t + r <= T + imap_silence_bound)%N.
Proof.
  intro H. destruct (call_bounded c T b H) as [t [Ht Hle]]. destruct (imap_silence_time s) as [r [Hr Hr2]].
  exists t, r. repeat split; try assumption. lia.
Qed.

Lemma sasl_lifetime_bounded c T b :
  hc_total c = Some T -> exists t, call_time c b = Some t /\ (t + 30000 <= T + 30000)%N.
Proof. intro H. destruct (call_bounded c T b H) as [t [Ht Hle]]. exists t. split; [exact Ht | lia]. Qed.

(** the implicit-TLS port: a client that connects and never completes the
    handshake is dropped by the handshake deadline; afterwards the session is
    an ordinary IMAP session *)
Lemma ssl_no_handshake_ends e : is_nodata e = true -> i_done (fst (istep i_init_ssl e)) = true.
Proof. destruct e; try discriminate; reflexivity. Qed.

Lemma ssl_silence_time : i_silence_ms 3 i_init_ssl = Some 30000%N.
Proof. vm_compute. reflexivity. Qed.
