(** C02 — what store + rebuild do to one leaf: media type, charset, file
    name, content-id and the decoded content (up to a final line break) are
    those of the submitted leaf. *)
From Coq Require Import String Ascii List Bool Arith NArith ZArith Lia.
From Raven Require Import Base.GoStr Base.GoStrFacts Base.GoStrMime Spec.Mime Model.MimeHeaders Model.MimeStore
  Proof.MimeTrim Proof.MimeRows Proof.MimeTree.
Import ListNotations.

(** ---- case folding *)
Lemma upper_lower_c c : upper_c (lower_c c) = upper_c c.
Proof. apply Ascii.eqb_eq. revert c. ascii_sweep (fun c => Ascii.eqb (upper_c (lower_c c)) (upper_c c)). Qed.
Lemma lower_upper_c c : lower_c (upper_c c) = lower_c c.
Proof. apply Ascii.eqb_eq. revert c. ascii_sweep (fun c => Ascii.eqb (lower_c (upper_c c)) (lower_c c)). Qed.

Lemma to_upper_to_lower s : to_upper (to_lower s) = to_upper s.
Proof. unfold to_upper, to_lower. rewrite map_map. apply map_ext, upper_lower_c. Qed.
Lemma to_lower_to_upper s : to_lower (to_upper s) = to_lower s.
Proof. unfold to_upper, to_lower. rewrite map_map. apply map_ext, lower_upper_c. Qed.

Lemma equal_fold_lower x y : equal_fold x y = str_eqb (to_lower x) (to_lower y).
Proof.
  unfold equal_fold.
  destruct (str_eqb_spec (to_upper x) (to_upper y)) as [E|N], (str_eqb_spec (to_lower x) (to_lower y)) as [E'|N']; try reflexivity.
  - exfalso. apply N'. rewrite <- (to_lower_to_upper x), <- (to_lower_to_upper y). now rewrite E.
  - exfalso. apply N. rewrite <- (to_upper_to_lower x), <- (to_upper_to_lower y). now rewrite E'.
Qed.

Lemma equal_fold_self_lower x : equal_fold x (to_lower x) = true.
Proof. unfold equal_fold. rewrite to_upper_to_lower. apply str_eqb_refl. Qed.

(** ---- suffixes *)
Lemma has_suffix_app s p : has_suffix (s ++ p) p = true.
Proof. unfold has_suffix. rewrite rev_app_distr. apply has_prefix_app. Qed.

Lemma has_suffix_split s p : has_suffix s p = true -> exists s0, s = s0 ++ p.
Proof.
  unfold has_suffix. intros H. apply has_prefix_spec in H as [r E].
  exists (rev r). rewrite <- (rev_involutive s), E, rev_app_distr, rev_involutive. reflexivity.
Qed.

Lemma drop_final_crlf_app c : drop_final_crlf (c ++ crlf) = c.
Proof.
  unfold drop_final_crlf. rewrite has_suffix_app. rewrite app_length. simpl length.
  replace (length c + 2 - 2) with (length c) by lia. rewrite firstn_app, Nat.sub_diag, firstn_all. simpl. now rewrite app_nil_r.
Qed.

(** appending CRLF unless it is there, then cutting one CRLF: equal up to a final line break *)
Lemma final_break_ok c :
  eq_upto_final_break c (drop_final_crlf (if has_suffix c crlf then c else c ++ crlf)) = true.
Proof.
  unfold eq_upto_final_break. destruct (has_suffix c crlf) eqn:E.
  - apply has_suffix_split in E as [c0 ->]. rewrite drop_final_crlf_app.
    rewrite (str_eqb_refl (c0 ++ crlf)). now rewrite !orb_true_r.
  - rewrite drop_final_crlf_app. now rewrite str_eqb_refl.
Qed.

(** ---- base64: only CR and LF change *)
Lemma strip_app a b : strip_crlf (a ++ b) = strip_crlf a ++ strip_crlf b.
Proof. apply filter_app. Qed.

Lemma strip_idem s : strip_crlf (strip_crlf s) = strip_crlf s.
Proof.
  unfold strip_crlf. induction s as [|c s IH]; simpl; [reflexivity|].
  destruct (negb (is_crlf_c c)) eqn:E; simpl; [rewrite E; now rewrite IH | exact IH].
Qed.

Lemma strip_wrap_aux : forall fuel s, length s < fuel -> strip_crlf (wrap76_aux fuel s) = strip_crlf s.
Proof.
  induction fuel as [|f IH]; intros s H; [lia|].
  destruct s as [|c s']; [reflexivity|].
  cbn [wrap76_aux]. rewrite !strip_app. rewrite IH.
  - change (strip_crlf crlf) with (@nil ascii). cbn [app]. rewrite <- strip_app, firstn_skipn. reflexivity.
  - rewrite skipn_length. simpl in *. lia.
Qed.

Lemma strip_wrap s : strip_crlf (wrap76 s) = strip_crlf s.
Proof. apply strip_wrap_aux. lia. Qed.

Lemma strip_drop_final s : strip_crlf (drop_final_crlf s) = strip_crlf s.
Proof.
  unfold drop_final_crlf. destruct (has_suffix s crlf) eqn:E; [|reflexivity].
  apply has_suffix_split in E as [s0 ->]. rewrite app_length. simpl length.
  replace (length s0 + 2 - 2) with (length s0) by lia. rewrite firstn_app, Nat.sub_diag, firstn_all. simpl.
  rewrite app_nil_r, strip_app. change (strip_crlf crlf) with (@nil ascii). now rewrite app_nil_r.
Qed.

Lemma strip_written cte c : strip_crlf (drop_final_crlf (written_content cte c)) = strip_crlf c.
Proof.
  rewrite strip_drop_final. unfold written_content.
  set (c' := if equal_fold (trim_space cte) s_base64 && negb (already_wrapped c) then wrap76 (strip_crlf c) else c).
  assert (E : strip_crlf c' = strip_crlf c).
  { unfold c'. destruct (equal_fold (trim_space cte) s_base64 && negb (already_wrapped c)); [|reflexivity].
    now rewrite strip_wrap, strip_idem. }
  destruct (has_suffix c' crlf); [exact E|]. rewrite strip_app, E. change (strip_crlf crlf) with (@nil ascii). now rewrite app_nil_r.
Qed.

Lemma b64_written cte c : b64_decode (drop_final_crlf (written_content cte c)) = b64_decode c.
Proof. unfold b64_decode. now rewrite strip_written. Qed.

(** ---- a well-formed leaf *)
Definition eff_fn (l : leaf) : str := match l_filename l with [] => l_ctname l | f => f end.

Definition wf_leaf (l : leaf) : bool :=
  str_eqb (trim_space (l_cte l)) (l_cte l)
  && (if str_eqb (cte_norm (l_cte l)) s_base64 then match b64_decode (l_body l) with Some _ => true | None => false end else true)
  && (if str_eqb (cte_norm (l_cte l)) s_qp then match qp_decode (l_body l) with Some _ => true | None => false end else true)
  && (match eff_fn l with [] => true | f => negb (is_blank f) end).

Lemma eff_type_nonempty l : eff_type l <> [].
Proof. unfold eff_type. destruct (l_type l); discriminate. Qed.

Lemma to_lower_nonempty s : s <> [] -> to_lower s <> [].
Proof. destruct s; [congruence | discriminate]. Qed.

Lemma is_blank_nil : is_blank [] = true. Proof. reflexivity. Qed.

Lemma trimmed_not_blank x : trim_space x = x -> x <> [] -> is_blank x = false.
Proof. unfold is_blank. intros -> H. destruct x; [congruence | reflexivity]. Qed.

Theorem leaf_roundtrip l : wf_leaf l = true -> leaf_equiv l (leaf_image l) = true.
Proof.
  unfold wf_leaf. rewrite !andb_true_iff. intros [[[WT WB] WQ] WF].
  apply str_eqb_eq in WT.
  assert (NORM : cte_norm (l_cte l) = to_lower (l_cte l)) by (unfold cte_norm; now rewrite WT).
  assert (QPF : equal_fold (l_cte l) s_qp = str_eqb (cte_norm (l_cte l)) s_qp) by (rewrite equal_fold_lower, NORM; reflexivity).
  assert (B64F : equal_fold (trim_space (l_cte l)) s_base64 = str_eqb (cte_norm (l_cte l)) s_base64)
    by (rewrite equal_fold_lower; reflexivity).
  unfold leaf_image, parse_leaf. rewrite QPF.
  (* the three ways content travels *)
  assert (CONTENT : exists content cte',
     (if str_eqb (cte_norm (l_cte l)) s_qp then qp_decode (l_body l) else Some (l_body l)) = Some content
     /\ cte' = (if str_eqb (cte_norm (l_cte l)) s_qp then [] else l_cte l)
     /\ forall is_text : bool,
        eq_upto_final_break (decode (l_cte l) (l_body l))
          (decode (if negb (is_blank cte') then cte' else if is_text then S_ "7bit" else [])
                  (drop_final_crlf (written_content cte' content))) = true).
  { destruct (str_eqb (cte_norm (l_cte l)) s_qp) eqn:Q.
    - (* quoted-printable: decoded by the multipart reader, stored raw *)
      destruct (qp_decode (l_body l)) as [d|] eqn:D; [|discriminate].
      exists d, []. split; [reflexivity|]. split; [reflexivity|]. intros is_text.
      unfold decode. apply str_eqb_eq in Q. rewrite Q. cbn [str_eqb]. 
      change (str_eqb s_qp s_base64) with false. change (str_eqb s_qp s_qp) with true. cbv iota. rewrite D.
      rewrite is_blank_nil. cbn [negb].
      assert (W : written_content [] d = if has_suffix d crlf then d else d ++ crlf) by reflexivity.
      rewrite W. destruct is_text; apply final_break_ok.
    - exists (l_body l), (l_cte l). split; [reflexivity|]. split; [reflexivity|]. intros is_text.
      destruct (str_eqb (cte_norm (l_cte l)) s_base64) eqn:B.
      + (* base64: line breaks may move *)
        assert (NB : is_blank (l_cte l) = false).
        { apply trimmed_not_blank; [exact WT|]. intros E. rewrite E in B. discriminate B. }
        rewrite NB. cbn [negb]. unfold decode. rewrite B, b64_written.
        destruct (b64_decode (l_body l)); [|discriminate]. unfold eq_upto_final_break. now rewrite str_eqb_refl.
      + (* identity encodings *)
        assert (W : written_content (l_cte l) (l_body l) = if has_suffix (l_body l) crlf then l_body l else l_body l ++ crlf).
        { unfold written_content. rewrite B64F. reflexivity. }
        rewrite W.
        assert (DL : decode (l_cte l) (l_body l) = l_body l) by (unfold decode; now rewrite B, Q).
        rewrite DL.
        assert (DR : forall x, decode (if negb (is_blank (l_cte l)) then l_cte l else if is_text then S_ "7bit" else []) x = x).
        { intros x. destruct (is_blank (l_cte l)); cbn [negb].
          - destruct is_text; reflexivity.
          - unfold decode. now rewrite B, Q. }
        rewrite DR. apply final_break_ok. }
  destruct CONTENT as (content & cte' & PC & -> & DEC).
  rewrite PC. unfold leaf_equiv, emit_leaf. cbn [r_part pp_type pp_charset pp_cte pp_disp pp_filename pp_cid].
  fold (eff_fn l).
  set (is_text := has_prefix (to_lower (to_lower (eff_type l))) s_text_).
  set (has_fn := negb (is_blank (eff_fn l))).
  unfold row_content. cbn [r_blob r_part pp_text].
  (* the pair (disposition, file name) *)
  set (DF := if negb (is_blank (l_disp l))
             then (if has_fn && negb (contains (to_lower (l_disp l)) (S_ "filename="))
                   then l_disp l ++ S_ "; filename=" ++ q (eff_fn l) else l_disp l,
                   if has_fn || contains (to_lower (l_disp l)) (S_ "filename=") then eff_fn l else [])
             else if negb is_text && has_fn then (S_ "attachment; filename=" ++ q (eff_fn l), eff_fn l) else ([], [])).
  assert (FN : (match snd DF with [] => (if is_blank (l_disp l) && has_fn then eff_fn l else []) | f => f end) = eff_fn l).
  { unfold DF, has_fn. destruct (eff_fn l) as [|f0 fr] eqn:EF.
    - change (negb (is_blank [])) with false. rewrite !andb_false_r. cbn [orb andb].
      destruct (is_blank (l_disp l)); cbn [negb snd]; [reflexivity|]. now destruct (contains _ _).
    - cbn [negb] in WF. rewrite WF. cbn [negb andb orb].
      destruct (is_blank (l_disp l)); cbn [negb andb]; [|reflexivity].
      destruct is_text; reflexivity. }
  destruct DF as [disp fname] eqn:EDF. cbn [snd] in FN.
  cbn [l_type l_charset l_ctname l_cte l_disp l_filename l_cid l_body].
  rewrite !andb_true_iff. repeat split.
  - (* media type *)
    unfold eff_type at 2. cbn [l_type].
    destruct (to_lower (eff_type l)) eqn:E; [exfalso; eapply to_lower_nonempty; [apply eff_type_nonempty | exact E]|].
    rewrite <- E. apply equal_fold_self_lower.
  - (* charset *)
    unfold eff_charset at 2. cbn [l_type l_charset].
    destruct (to_lower (eff_type l)) eqn:E; [exfalso; eapply to_lower_nonempty; [apply eff_type_nonempty | exact E]|].
    apply str_eqb_refl.
  - (* file name *)
    unfold effective_filename. cbn [l_filename l_ctname]. fold (eff_fn l).
    rewrite FN. apply str_eqb_refl.
  - (* content-id *)
    destruct (is_blank (l_cid l)) eqn:BL; cbn [negb]; [|apply str_eqb_refl].
    unfold is_blank in BL. destruct (trim_space (l_cid l)); [reflexivity | discriminate].
  - (* decoded content *)
    apply DEC.
Qed.

(** ---- whole trees *)
Fixpoint wf_leaves (t : mime) : bool :=
  match t with
  | Leaf l => wf_leaf l
  | Multi _ ks => forallb wf_leaves ks
  end.

Lemma tree_equiv : forall t, wf_leaves t = true -> mime_equiv t (tmap t) = true.
Proof.
  induction t as [l|st ks IH] using mime_ind2; intros W.
  - simpl. now apply leaf_roundtrip.
  - simpl in W. cbn [tmap mime_equiv]. rewrite equal_fold_self_lower. cbn [andb].
    induction IH as [|t r Ht _ IHr]; [reflexivity|].
    simpl in W. apply andb_true_iff in W as [W1 W2]. cbn [map]. rewrite (Ht W1). cbn [andb]. exact (IHr W2).
Qed.

Lemma kids_equiv_tmap ks : forallb wf_leaves ks = true -> kids_equiv ks (map tmap ks) = true.
Proof.
  induction ks as [|t r IH]; intros W; [reflexivity|].
  simpl in W. apply andb_true_iff in W as [W1 W2]. cbn [map kids_equiv]. now rewrite (tree_equiv t W1), (IH W2).
Qed.
