(** C02 — what store + rebuild do to one leaf: media type, charset, file
    name, content-id and the decoded content (up to a final line break) are
    those of the submitted leaf. *)
From Coq Require Import String Ascii List Bool Arith NArith ZArith Lia.
From Raven Require Import Base.GoStr Base.GoStrFacts Base.GoStrMime Spec.Mime Model.MimeHeaders Model.MimeStore
  Proof.MimeTrim Proof.MimeRows Proof.MimeTree.
Import ListNotations.

(** ---- case folding *)
Lemma upper_lower_c c : upper_c (lower_c c) = upper_c c.
Proof. apply Ascii.eqb_eq. revert c. ascii_sweep (fun c => Ascii.eqb (upper_c (lower_c c)) (upper_c c)). Qed.
Lemma lower_upper_c c : lower_c (upper_c c) = lower_c c.
Proof. apply Ascii.eqb_eq. revert c. ascii_sweep (fun c => Ascii.eqb (lower_c (upper_c c)) (lower_c c)). Qed.

Lemma to_upper_to_lower s : to_upper (to_lower s) = to_upper s.
Proof. unfold to_upper, to_lower. rewrite map_map. apply map_ext, upper_lower_c. Qed.
Lemma to_lower_to_upper s : to_lower (to_upper s) = to_lower s.
Proof. unfold to_upper, to_lower. rewrite map_map. apply map_ext, lower_upper_c. Qed.

Lemma equal_fold_lower x y : equal_fold x y = str_eqb (to_lower x) (to_lower y).
Proof.
  unfold equal_fold.
  destruct (str_eqb_spec (to_upper x) (to_upper y)) as [E|N], (str_eqb_spec (to_lower x) (to_lower y)) as [E'|N']; try reflexivity.
  - exfalso. apply N'. rewrite <- (to_lower_to_upper x), <- (to_lower_to_upper y). now rewrite E.
  - exfalso. apply N. rewrite <- (to_upper_to_lower x), <- (to_upper_to_lower y). now rewrite E'.
Qed.

Lemma equal_fold_self_lower x : equal_fold x (to_lower x) = true.
Proof. unfold equal_fold. rewrite to_upper_to_lower. apply str_eqb_refl. Qed.

(** ---- suffixes *)
Lemma has_suffix_app s p : has_suffix (s ++ p) p = true.
Proof. unfold has_suffix. rewrite rev_app_distr. apply has_prefix_app. Qed.

Lemma has_suffix_split s p : has_suffix s p = true -> exists s0, s = s0 ++ p.
Proof.
  unfold has_suffix. intros H. apply has_prefix_spec in H as [r E].
  exists (rev r). rewrite <- (rev_involutive s), E, rev_app_distr, rev_involutive. reflexivity.
Qed.

Lemma drop_final_crlf_app c : drop_final_crlf (c ++ crlf) = c.
Proof.
  unfold drop_final_crlf. rewrite has_suffix_app. rewrite app_length. simpl length.
  replace (length c + 2 - 2) with (length c) by lia. rewrite firstn_app, Nat.sub_diag, firstn_all. simpl. now rewrite app_nil_r.
Qed.

Lemma written_back c : drop_final_crlf (written_content c) = c.
Proof. apply drop_final_crlf_app. Qed.

(** ---- a well-formed leaf *)
Definition eff_fn (l : leaf) : str := match l_filename l with [] => l_ctname l | f => f end.

Definition wf_leaf (l : leaf) : bool :=
  str_eqb (trim_space (l_cte l)) (l_cte l)
  && (if str_eqb (cte_norm (l_cte l)) s_qp then match qp_decode (l_body l) with Some _ => true | None => false end else true)
  && (match eff_fn l with [] => true | f => negb (is_blank f) end).

Lemma eff_type_nonempty l : eff_type l <> [].
Proof. unfold eff_type. destruct (l_type l); discriminate. Qed.

Lemma to_lower_nonempty s : s <> [] -> to_lower s <> [].
Proof. destruct s; [congruence | discriminate]. Qed.

Lemma is_blank_nil : is_blank [] = true. Proof. reflexivity. Qed.

Lemma trimmed_not_blank x : trim_space x = x -> x <> [] -> is_blank x = false.
Proof. unfold is_blank. intros -> H. destruct x; [congruence | reflexivity]. Qed.

Theorem leaf_roundtrip l : wf_leaf l = true -> leaf_equiv l (leaf_image l) = true.
Proof.
  unfold wf_leaf. rewrite !andb_true_iff. intros [[WT WQ] WF].
  apply str_eqb_eq in WT.
  assert (NORM : cte_norm (l_cte l) = to_lower (l_cte l)) by (unfold cte_norm; now rewrite WT).
  assert (QPF : equal_fold (l_cte l) s_qp = str_eqb (cte_norm (l_cte l)) s_qp) by (rewrite equal_fold_lower, NORM; reflexivity).
  unfold leaf_image, parse_leaf. rewrite QPF.
  (* the two ways content travels *)
  assert (CONTENT : exists content cte',
     (if str_eqb (cte_norm (l_cte l)) s_qp then qp_decode (l_body l) else Some (l_body l)) = Some content
     /\ cte' = (if str_eqb (cte_norm (l_cte l)) s_qp then [] else l_cte l)
     /\ forall is_text : bool,
        str_eqb (decode (l_cte l) (l_body l))
          (decode (if negb (is_blank cte') then cte' else if is_text then S_ "7bit" else []) content) = true).
  { destruct (str_eqb (cte_norm (l_cte l)) s_qp) eqn:Q.
    - (* quoted-printable: decoded by the multipart reader, stored and returned raw *)
      destruct (qp_decode (l_body l)) as [d|] eqn:D; [|discriminate].
      exists d, []. split; [reflexivity|]. split; [reflexivity|]. intros is_text.
      unfold decode at 1. apply str_eqb_eq in Q. rewrite Q.
      change (str_eqb s_qp s_base64) with false. change (str_eqb s_qp s_qp) with true. cbv iota. rewrite D.
      rewrite is_blank_nil. cbn [negb]. destruct is_text; apply str_eqb_refl.
    - (* every other encoding: the octets and the encoding name come back as they were *)
      exists (l_body l), (l_cte l). split; [reflexivity|]. split; [reflexivity|]. intros is_text.
      destruct (is_blank (l_cte l)) eqn:BL; cbn [negb]; [|apply str_eqb_refl].
      assert (E : l_cte l = []).
      { unfold is_blank in BL. rewrite WT in BL. destruct (l_cte l); [reflexivity | discriminate]. }
      rewrite E. destruct is_text; apply str_eqb_refl. }
  destruct CONTENT as (content & cte' & PC & -> & DEC).
  rewrite PC. unfold leaf_equiv, emit_leaf. cbn [r_part pp_type pp_charset pp_cte pp_disp pp_filename pp_cid].
  fold (eff_fn l).
  set (is_text := has_prefix (to_lower (to_lower (eff_type l))) s_text_).
  set (has_fn := negb (is_blank (eff_fn l))).
  unfold row_content. cbn [r_blob r_part pp_text]. rewrite written_back.
  (* the pair (disposition, file name) *)
  set (DF := if negb (is_blank (l_disp l))
             then (if has_fn && negb (contains (to_lower (l_disp l)) (S_ "filename="))
                   then l_disp l ++ S_ "; filename=" ++ q (eff_fn l) else l_disp l,
                   if has_fn || contains (to_lower (l_disp l)) (S_ "filename=") then eff_fn l else [])
             else if negb is_text && has_fn then (S_ "attachment; filename=" ++ q (eff_fn l), eff_fn l) else ([], [])).
  assert (FN : (match snd DF with [] => (if is_blank (l_disp l) && has_fn then eff_fn l else []) | f => f end) = eff_fn l).
  { unfold DF, has_fn. destruct (eff_fn l) as [|f0 fr] eqn:EF.
    - change (negb (is_blank [])) with false. rewrite !andb_false_r. cbn [orb andb].
      destruct (is_blank (l_disp l)); cbn [negb snd]; [reflexivity|]. now destruct (contains _ _).
    - cbn [negb] in WF. rewrite WF. cbn [negb andb orb].
      destruct (is_blank (l_disp l)); cbn [negb andb]; [|reflexivity].
      destruct is_text; reflexivity. }
  destruct DF as [disp fname] eqn:EDF. cbn [snd] in FN.
  cbn [l_type l_charset l_ctname l_cte l_disp l_filename l_cid l_body].
  rewrite !andb_true_iff. repeat split.
  - (* media type *)
    unfold eff_type at 2. cbn [l_type].
    destruct (to_lower (eff_type l)) eqn:E; [exfalso; eapply to_lower_nonempty; [apply eff_type_nonempty | exact E]|].
    rewrite <- E. apply equal_fold_self_lower.
  - (* charset *)
    unfold eff_charset at 2. cbn [l_type l_charset].
    destruct (to_lower (eff_type l)) eqn:E; [exfalso; eapply to_lower_nonempty; [apply eff_type_nonempty | exact E]|].
    apply str_eqb_refl.
  - (* file name *)
    unfold effective_filename. cbn [l_filename l_ctname]. fold (eff_fn l).
    rewrite FN. apply str_eqb_refl.
  - (* content-id *)
    destruct (is_blank (l_cid l)) eqn:BL; cbn [negb]; [|apply str_eqb_refl].
    unfold is_blank in BL. destruct (trim_space (l_cid l)); [reflexivity | discriminate].
  - (* decoded content: identical *)
    apply DEC.
Qed.

(** a leaf that is not quoted-printable comes back with the very octets it had *)
Theorem leaf_body_exact l :
  equal_fold (l_cte l) s_qp = false -> l_body (leaf_image l) = l_body l.
Proof.
  intros Q. unfold leaf_image, parse_leaf. rewrite Q. unfold emit_leaf.
  cbn [r_part pp_type pp_charset pp_cte pp_disp pp_filename pp_cid]. unfold row_content. cbn [r_blob r_part pp_text].
  rewrite written_back.
  match goal with |- l_body (let '(_, _) := ?X in _) = _ => destruct X end. reflexivity.
Qed.

(** the property's own wording (equal up to a final line break) follows from identity *)
Lemma exact_implies_upto a b : str_eqb a b = true -> eq_upto_final_break a b = true.
Proof. unfold eq_upto_final_break. intros ->. reflexivity. Qed.

(** ---- whole trees *)
Fixpoint wf_leaves (t : mime) : bool :=
  match t with
  | Leaf l => wf_leaf l
  | Multi _ ks => forallb wf_leaves ks
  end.

Lemma tree_equiv : forall t, wf_leaves t = true -> mime_equiv t (tmap t) = true.
Proof.
  induction t as [l|st ks IH] using mime_ind2; intros W.
  - simpl. now apply leaf_roundtrip.
  - simpl in W. cbn [tmap mime_equiv]. rewrite equal_fold_self_lower. cbn [andb].
    induction IH as [|t r Ht _ IHr]; [reflexivity|].
    simpl in W. apply andb_true_iff in W as [W1 W2]. cbn [map]. rewrite (Ht W1). cbn [andb]. exact (IHr W2).
Qed.

Lemma kids_equiv_tmap ks : forallb wf_leaves ks = true -> kids_equiv ks (map tmap ks) = true.
Proof.
  induction ks as [|t r IH]; intros W; [reflexivity|].
  simpl in W. apply andb_true_iff in W as [W1 W2]. cbn [map kids_equiv]. now rewrite (tree_equiv t W1), (IH W2).
Qed.
