(** C15: the theorems about Model/Blobs.v (proofs; statements are repeated
    in Properties/C15.v). *)
From Coq Require Import String Ascii List Bool Arith Lia.
From Raven Require Import Base.GoStr Model.BlobCodec Model.Blobs Spec.BlobSpec Proof.BlobsInv.
Import ListNotations.

Definition rd {A B C} (x : A * B * C) : A := fst (fst x).

Section Main.
Variable key : str -> str -> str.
Variable okey : str -> str.
(** sha256 does not collide on object contents, and its hex form is not empty *)
Hypothesis okey_inj : forall a b, okey a = okey b -> a = b.
Hypothesis okey_ne : forall a, okey a <> [].

Definition row_of (w : world) (m k : nat) : option partrow :=
  match nth_error (w_msgs w) m with Some rows => nth_error rows k | None => None end.

Lemma row_of_ok evs m k row :
  row_of (run key okey evs) m k = Some row ->
  row_ok key okey (w_blobs (run key okey evs)) row /\ objs_ok okey (w_objs (run key okey evs)).
Proof.
  intros H. pose proof (run_inv key okey okey_ne evs) as I. unfold winv in I. rewrite app_nil_r in I.
  split; [|exact (i_objs _ _ _ _ _ I)].
  pose proof (i_rows _ _ _ _ _ I) as R. rewrite Forall_forall in R. apply R.
  unfold row_of in H. destruct (nth_error (w_msgs _) m) as [rows|] eqn:E; [|discriminate].
  unfold all_rows. apply in_concat. exists rows. split; eapply nth_error_In; eassumption.
Qed.

(** (a)+(d) EVERY read of EVERY stored part returns the part's own octets, or
    reports an error — and then a backend did fail *)
Lemma read_own_octets evs m k row s3on o :
  row_of (run key okey evs) m k = Some row ->
  spec_read (r_own row) (read_failed s3on (run key okey evs) row o)
            (rd (read_part s3on (run key okey evs) row o)).
Proof.
  intros H. destruct (row_of_ok _ _ _ _ H) as (R & O).
  set (w := run key okey evs) in *. clearbody w. clear H.
  unfold row_ok in R. unfold read_part, read_failed, rd, spec_read.
  destruct (r_blob row) as [id|]; [|exact R].
  destruct R as (b & Hb & _ & F). rewrite Hb in *. unfold form_ok in F.
  destruct (b_form b) as [c|kk]; simpl in F.
  - apply str_eqb_eq in F. exact F.
  - apply str_eqb_eq in F. subst kk.
    destruct (okey (r_own row)) as [|c0 k0] eqn:EK; [exfalso; eapply okey_ne; eassumption|].
    rewrite <- EK in *.
    destruct s3on; simpl; [|reflexivity].
    destruct (take o) as [g o']. simpl. destruct g; simpl; [|reflexivity].
    unfold has_obj. destruct (lookup (w_objs w) (okey (r_own row))) as [c|] eqn:L; simpl; [|reflexivity].
    symmetry. apply okey_inj. apply O. exact L.
Qed.

(** (d) in EVERY state: when the backend fails for a read, the read is an error *)
Lemma read_failure_is_error w row s3on o :
  read_failed s3on w row o = true -> rd (read_part s3on w row o) = None.
Proof.
  unfold read_failed, read_part, rd. intros F.
  destruct (r_blob row) as [id|]; [|discriminate].
  destruct (get_blob (w_blobs w) id) as [b|]; [|discriminate].
  destruct (b_form b) as [x|kk]; [discriminate|].
  destruct kk as [|c0 k0]; [reflexivity|].
  destruct s3on; simpl in *; [|reflexivity].
  destruct (take o) as [g o']. simpl in *. destruct g; [|reflexivity]. simpl in *.
  unfold has_obj in F. destruct (lookup (w_objs w) (c0 :: k0)); [discriminate|reflexivity].
Qed.

(** ... and an error is reported ONLY when the backend failed *)
Lemma error_only_if_failed evs m k row s3on o :
  row_of (run key okey evs) m k = Some row ->
  rd (read_part s3on (run key okey evs) row o) = None ->
  read_failed s3on (run key okey evs) row o = true.
Proof.
  intros H E. pose proof (read_own_octets _ _ _ _ s3on o H) as S.
  rewrite E in S. exact S.
Qed.

Lemma read_never_foreign evs m k row s3on o :
  row_of (run key okey evs) m k = Some row ->
  rd (read_part s3on (run key okey evs) row o) = Some (r_own row) \/
  rd (read_part s3on (run key okey evs) row o) = None.
Proof.
  intros H. pose proof (read_own_octets _ _ _ _ s3on o H) as S.
  destruct (rd (read_part s3on (run key okey evs) row o)) as [s|]; [left|right; reflexivity].
  simpl in S. congruence.
Qed.

(** every row that points at a blob points at a blob holding its own text *)
Lemma linked_blob_holds_own evs m k row id :
  row_of (run key okey evs) m k = Some row -> r_blob row = Some id ->
  exists b, get_blob (w_blobs (run key okey evs)) id = Some b /\ form_is_own okey (b_form b) (r_own row) = true.
Proof.
  intros H B. destruct (row_of_ok _ _ _ _ H) as (R & _). unfold row_ok in R. rewrite B in R.
  destruct R as (b & Hb & _ & F). exists b. split; assumption.
Qed.

(** (b) stored once, reference count = number of part rows using the blob *)
Lemma refcount_exact evs id b :
  get_blob (w_blobs (run key okey evs)) id = Some b ->
  b_refs b = refcount id (all_rows (run key okey evs)).
Proof.
  intros H. pose proof (run_inv key okey okey_ne evs) as I. unfold winv in I. rewrite app_nil_r in I.
  exact (i_refs _ _ _ _ _ I _ _ H).
Qed.

Lemma keys_stored_once evs : NoDup (map b_key (w_blobs (run key okey evs))).
Proof. exact (i_nodup _ _ _ _ _ (run_inv key okey okey_ne evs)). Qed.

Lemma nodup_nth {A} (l : list A) i j x :
  NoDup l -> nth_error l i = Some x -> nth_error l j = Some x -> i = j.
Proof.
  intros N Hi Hj. rewrite NoDup_nth_error in N. apply N; [|congruence].
  apply nth_error_Some. congruence.
Qed.

Lemma same_content_same_blob evs m1 k1 m2 k2 r1 r2 i1 i2 :
  row_of (run key okey evs) m1 k1 = Some r1 -> row_of (run key okey evs) m2 k2 = Some r2 ->
  r_blob r1 = Some i1 -> r_blob r2 = Some i2 ->
  key (r_enc r1) (r_own r1) = key (r_enc r2) (r_own r2) -> i1 = i2.
Proof.
  intros H1 H2 B1 B2 K.
  destruct (row_of_ok _ _ _ _ H1) as (R1 & _). destruct (row_of_ok _ _ _ _ H2) as (R2 & _).
  unfold row_ok in *. rewrite B1 in R1. rewrite B2 in R2.
  destruct R1 as (b1 & G1 & K1 & _). destruct R2 as (b2 & G2 & K2 & _).
  pose proof (keys_stored_once evs) as N.
  destruct i1 as [|n1]; [discriminate|]. destruct i2 as [|n2]; [discriminate|]. simpl in G1, G2.
  f_equal. eapply (nodup_nth _ n1 n2 (b_key b1) N).
  - rewrite nth_error_map, G1. reflexivity.
  - rewrite nth_error_map, G2. simpl. congruence.
Qed.

(** (c) every store, under every fault oracle, leaves every part somewhere *)
Lemma store_never_drops evs s3on o d ps :
  exists rows,
    w_msgs (run key okey (evs ++ [EStore s3on o d ps])) = w_msgs (run key okey evs) ++ [rows] /\
    map r_own rows = map p_content ps /\
    Forall (row_ok key okey (w_blobs (run key okey (evs ++ [EStore s3on o d ps])))) rows.
Proof.
  unfold run. rewrite fold_left_app. simpl. fold (run key okey evs).
  pose proof (run_inv key okey okey_ne evs) as I.
  destruct (store_msg_inv key okey okey_ne s3on _ ps o d I) as (rows & I' & M & Own & _).
  exists rows. split; [exact M|split; [exact Own|]].
  unfold winv in I'. rewrite app_nil_r in I'. pose proof (i_rows _ _ _ _ _ I') as R.
  unfold all_rows in R. rewrite M, concat_app in R. apply Forall_app in R. destruct R as [_ R].
  simpl in R. rewrite app_nil_r in R. exact R.
Qed.

(** (c) a part whose dedup key is new is readable by the configuration that
    stored it, whatever the object store and the database did during the store *)
Lemma store_fault_falls_back w s3on p o d row w' o' d' :
  objs_ok okey (w_objs w) ->
  find_key (w_blobs w) (key (p_enc p) (p_content p)) = None ->
  store_part key okey s3on w p o d = (row, w', o', d') ->
  rd (read_part s3on w' row []) = Some (p_content p).
Proof.
  intros O Fr E. unfold store_part in E.
  (* with a fresh hash the row is new and holds the part's octets, or the database failed *)
  assert (New : forall f stored d0 r bl' row0 bl'',
            call_ok okey f stored (p_content p) ->
            store_blob key f (w_blobs w) (p_enc p) (p_content p) d0 = (r, bl') ->
            link_or_inline p r bl' stored = (row0, bl'') ->
            (row0 = inline_row p) \/
            (row0 = blob_row p (S (length (w_blobs w))) /\
             bl'' = w_blobs w ++ [mkBlob (key (p_enc p) (p_content p)) f 1])).
  { intros f stored d0 r bl' row0 bl'' C H L. unfold store_blob in H. destruct d0.
    - rewrite Fr in H. inversion H; subst. unfold link_or_inline in L.
      rewrite (new_row_holds okey okey_ne _ _ _ _ _ C) in L. inversion L; subst. right; split; reflexivity.
    - inversion H; subst. inversion L; subst. left; reflexivity. }
  destruct (out_of_line p); [|inversion E; subst; reflexivity].
  destruct s3on.
  - destruct (s3_store okey (w_objs w) (p_content p) o) as [[[r objs'] o1] lg] eqn:Es.
    destruct (take d) as [d0 d1]. destruct r as [k|].
    + destruct (s3_store_some okey _ _ _ _ _ _ _ okey_inj O Es) as (-> & L).
      destruct (store_blob key (FS3 (okey (p_content p))) (w_blobs w) (p_enc p) (p_content p) d0) as [r bl'] eqn:Eb.
      destruct (link_or_inline p r bl' (Some (okey (p_content p)))) as [row0 bl''] eqn:El.
      inversion E; subst.
      destruct (New _ _ _ _ _ _ _ (or_intror (conj eq_refl eq_refl)) Eb El) as [->|[-> ->]]; [reflexivity|].
      unfold read_part, rd. cbn [r_blob blob_row w_blobs w_objs]. rewrite get_blob_app_new. cbn [b_form].
      destruct (okey (p_content p)) as [|c0 k0] eqn:EK; [exfalso; eapply okey_ne; eassumption|].
      simpl. rewrite L. reflexivity.
    + destruct (store_blob key (FLocal (p_content p)) (w_blobs w) (p_enc p) (p_content p) d0) as [r bl'] eqn:Eb.
      destruct (link_or_inline p r bl' None) as [row0 bl''] eqn:El.
      inversion E; subst.
      destruct (New _ _ _ _ _ _ _ (or_introl (conj eq_refl eq_refl)) Eb El) as [->|[-> ->]]; [reflexivity|].
      unfold read_part, rd. cbn [r_blob blob_row w_blobs]. rewrite get_blob_app_new. reflexivity.
  - destruct (take d) as [d0 d1].
    destruct (store_blob key (FLocal (p_content p)) (w_blobs w) (p_enc p) (p_content p) d0) as [r bl'] eqn:Eb.
    destruct (link_or_inline p r bl' None) as [row0 bl''] eqn:El.
    inversion E; subst.
    destruct (New _ _ _ _ _ _ _ (or_introl (conj eq_refl eq_refl)) Eb El) as [->|[-> ->]]; [reflexivity|].
    unfold read_part, rd. cbn [r_blob blob_row w_blobs]. rewrite get_blob_app_new. reflexivity.
Qed.

Lemma run_objs_ok evs : objs_ok okey (w_objs (run key okey evs)).
Proof. exact (i_objs _ _ _ _ _ (run_inv key okey okey_ne evs)). Qed.

End Main.
