(** C05: store isolation of the connection transition system, for ANY facts
    table satisfying [c05_facts_ok]. *)
From Coq Require Import String List Bool Arith Lia.
From Raven Require Import Model.ProtoFacts Model.Protocol Proof.Protocol.
Import ListNotations.
Local Open Scope string_scope.
Local Open Scope list_scope.

(** the selected mailbox id always belongs to the store GetSelectedDB returns *)
Definition Inv5 (st : cstate) : Prop :=
  Inv st /\ (c_sel st = true -> c_origin st = selected_store st).

(** stores a command of this session may open, relative to the state before
    the command line: the shared tables, the personal store of the bound user
    (or of the identity the backend just verified, during a login on TLS), a
    role store the user is assigned to now (checked at SELECT), was assigned to
    at login (LIST/LSUB), or the role store the selected mailbox lives in. *)
Definition allowed (st0 : cstate) (e : env) (s : store) : Prop :=
  s = SharedStore \/ s = Personal (c_user st0)
  \/ (s = Personal (e_verified e) /\ c_tls st0 = true /\ e_ok200 e = true)
  \/ exists r, s = RoleStore r /\
       (e_assigned e (c_user st0) r = true \/ In r (c_roles st0) \/ In r (e_login_roles e)
        \/ (c_sel st0 = true /\ c_origin st0 = RoleStore r)).

Definition ev5_ok (t : facts) (w : string) (st0 : cstate) (e : env) (ev : event) : Prop :=
  match ev with
  | Touch s => allowed st0 e s /\
               (uses_sel t w = true -> s = SharedStore \/ (c_sel st0 = true /\ s = c_origin st0))
  | _ => True
  end.

Definition acc_row (t : facts) (s : site) : bool :=
  match s_kind s with
  | AccUserOther => false
  | AccUserSelf => negb (uses_sel t (s_cmd s))
  | AccSelected => s_sel s
  | AccRole => (is_select (s_cmd s) && s_assigned s)
               || (String.eqb (s_arg s) ranged && negb (uses_sel t (s_cmd s)))
  | SetAuth => s_unauth s
  | _ => true
  end.

Lemma access_ok_row t : access_ok t = true -> forall s, In s (f_sites t) -> acc_row t s = true.
Proof. unfold access_ok. rewrite forallb_forall. intros H s Hs. exact (H s Hs). Qed.

Definition During5 (t : facts) (w : string) (e : env) (st0 st : cstate) : Prop :=
  During e st0 st /\ c_isrole st = c_isrole st0 /\ c_role st = c_role st0 /\ c_origin st = c_origin st0 /\
  ((c_user st = c_user st0 /\ c_roles st = c_roles st0) \/
   (c_user st = e_verified e /\ c_roles st = e_login_roles e /\ c_tls st0 = true /\ e_ok200 e = true
    /\ c_sel st0 = false)).

Lemma During5_refl t w e st : During5 t w e st st.
Proof. unfold During5. split; [apply During_refl|]. tauto. Qed.

Lemma existsb_nat_in n l : existsb (Nat.eqb n) l = true -> In n l.
Proof. rewrite existsb_exists. intros [x [Hx E]]. apply Nat.eqb_eq in E. subst. exact Hx. Qed.

Lemma visit5_ok t w e st0 st evs s st' evs' :
  Inv5 st0 -> During5 t w e st0 st -> row_ok s = true -> acc_row t s = true ->
  s_cmd s = w -> is_select w = false ->
  visit e (Some (st, evs)) s = Some (st', evs') ->
  During5 t w e st0 st' /\ exists new, evs' = evs ++ new /\ Forall (ev5_ok t w st0 e) new.
Proof.
  intros [HI HO] (HD & Hir & Hro & Hor & Hus) Hrow Hacc Hw Hns Hv.
  destruct (visit_ok e st0 st evs s st' evs' HI HD Hrow Hv) as [HD' _].
  pose proof HD as (Htls & Hsel & Hup & Hdown).
  unfold visit in Hv. destruct (enabled st e s) eqn:En; [|discriminate].
  unfold enabled in En. rewrite !andb_true_iff in En.
  destruct En as [[[[[[Ea Es] Et] Eo] _] Eu] Er].
  pose proof (implb_true _ _ Es) as Es'. pose proof (implb_true _ _ Et) as Et'.
  pose proof (implb_true _ _ Eo) as Eo'.
  unfold acc_row in Hacc. unfold row_ok in Hrow. rewrite Hw in Hacc.
  destruct (s_kind s) eqn:K; simpl in Hv; inversion Hv; subst st' evs'; clear Hv.
  all: try (split; [unfold During5; repeat split; try tauto; exact HD|]).
  all: try (exists []; rewrite app_nil_r; split; [reflexivity|constructor]).
  - (* AccUserSelf *)
    eexists; split; [reflexivity|]. constructor; [|constructor]. simpl. split.
    + destruct Hus as [[U _]|[U [_ [T [O _]]]]]; rewrite U; unfold allowed; tauto.
    + intro Hu. rewrite Hu in Hacc. discriminate.
  - (* AccUserOther *) discriminate.
  - (* AccSelected *)
    assert (S0 : c_sel st0 = true) by (rewrite <- Hsel; apply Es'; exact Hacc).
    specialize (HO S0).
    eexists; split; [reflexivity|]. constructor; [|constructor]. simpl.
    unfold selected_store in *. rewrite Hir, Hro.
    destruct (c_isrole st0) eqn:IR.
    + split.
      * unfold allowed. right. right. right. exists (c_role st0). split; [reflexivity|]. right. right. right. split; assumption.
      * intros _. right. split; [exact S0 | symmetry; exact HO].
    + destruct Hus as [[U _]|[U [_ [T [O NU]]]]]; [rewrite U | rewrite S0 in NU; discriminate].
      split; [unfold allowed; tauto|]. intros _. right. split; [exact S0 | symmetry; exact HO].
  - (* AccRole *)
    rewrite Hns in Hacc. simpl in Hacc. apply andb_true_iff in Hacc. destruct Hacc as [Hrg Hnu].
    simpl in Er. rewrite Hrg in Er. simpl in Er. apply existsb_nat_in in Er.
    eexists; split; [reflexivity|]. constructor; [|constructor]. simpl. split.
    + unfold allowed. right. right. right. exists (e_role e). split; [reflexivity|].
      destruct Hus as [[_ R]|[_ [R _]]]; rewrite R in Er; tauto.
    + intro Hu. rewrite Hu in Hnu. discriminate.
  - (* AccShared *)
    eexists; split; [reflexivity|]. constructor; [|constructor]. simpl. unfold allowed. tauto.
  - (* Backend *) eexists; split; [reflexivity|]. constructor; [|constructor]. exact I.
  - (* SetAuth *)
    apply andb_true_iff in Hrow. destruct Hrow as [Hrow _].
    apply andb_true_iff in Hrow. destruct Hrow as [H1 H2].
    assert (T : c_tls st0 = true) by (rewrite <- Htls; apply Et'; exact H1).
    assert (O : e_ok200 e = true) by (apply Eo'; exact H2).
    split.
    + assert (A0 : c_auth st0 = false).
      { pose proof (implb_true _ _ Eu Hacc) as NA. apply negb_true_iff in NA.
        destruct (c_auth st0) eqn:A0; [|reflexivity]. rewrite (Hup eq_refl) in NA. discriminate. }
      assert (S0 : c_sel st0 = false).
      { destruct HI as [Hsa _]. destruct (c_sel st0) eqn:S0; [|reflexivity]. rewrite (Hsa eq_refl) in A0. discriminate. }
      unfold During5. split; [exact HD'|]. simpl. repeat split; try assumption.
      right. repeat split; assumption.
    + eexists; split; [reflexivity|]. constructor; [|constructor]. exact I.
  - (* UseSel *) eexists; split; [reflexivity|]. constructor; [|constructor]. exact I.
Qed.

Lemma visits5_ok t w e st0 : Inv5 st0 -> is_select w = false ->
  forall vs st evs st' evs',
  During5 t w e st0 st ->
  (forall v, In v vs -> row_ok v = true /\ acc_row t v = true /\ s_cmd v = w) ->
  fold_left (visit e) vs (Some (st, evs)) = Some (st', evs') ->
  During5 t w e st0 st' /\ exists new, evs' = evs ++ new /\ Forall (ev5_ok t w st0 e) new.
Proof.
  intros HI Hns vs. induction vs as [|v vs IH]; intros st evs st' evs' HD Hrows Hf.
  - simpl in Hf. inversion Hf; subst. split; [exact HD|]. exists []. rewrite app_nil_r. split; [reflexivity|constructor].
  - cbn [fold_left] in Hf.
    destruct (visit e (Some (st, evs)) v) as [[st1 evs1]|] eqn:V.
    + destruct (Hrows v (or_introl eq_refl)) as [R1 [R2 R3]].
      destruct (visit5_ok t w e st0 st evs v st1 evs1 HI HD R1 R2 R3 Hns V) as [HD1 [n1 [E1 F1]]].
      destruct (IH st1 evs1 st' evs' HD1 (fun x Hx => Hrows x (or_intror Hx)) Hf) as [HD2 [n2 [E2 F2]]].
      split; [exact HD2|]. exists (n1 ++ n2). subst. rewrite app_assoc. split; [reflexivity|].
      apply Forall_app. split; assumption.
    + exfalso. clear -Hf. induction vs as [|x xs IHx]; cbn [fold_left] in Hf; [discriminate|]. apply IHx. exact Hf.
Qed.

Lemma select_no_usesel t w : select_sites_ok t = true -> is_select w = true -> uses_sel t w = false.
Proof.
  intros H W. unfold uses_sel. apply not_true_is_false. intro E.
  rewrite existsb_exists in E. destruct E as [s [Hs K]]. apply kind_eqb_eq in K.
  apply sites_of_in in Hs. destruct Hs as [Hin Hc].
  unfold select_sites_ok in H. rewrite forallb_forall in H. specialize (H s Hin).
  rewrite Hc, W, K in H. discriminate.
Qed.

Lemma do_select5_ok t w st e st' evs :
  uses_sel t w = false -> Inv5 st -> do_select true st e = (st', evs) ->
  Inv5 st' /\ Forall (ev5_ok t w st e) evs.
Proof.
  intros NU [HI HO] H.
  destruct (do_select_ok true st e st' evs HI H) as [HI' _].
  split.
  - split; [exact HI'|]. unfold do_select in H.
    destruct (c_auth st) eqn:A; simpl in H; [|inversion H; subst; exact HO].
    destruct (e_target e) as [found| | |r|r found]; simpl in H;
      try destruct (e_assigned e (c_user st) r); try destruct found; simpl in H; inversion H; subst; simpl;
      intro; try discriminate; reflexivity.
  - unfold do_select in H.
    destruct (c_auth st) eqn:A; simpl in H; [|inversion H; subst; constructor].
    assert (SH : ev5_ok t w st e (Touch SharedStore)).
    { simpl. split; [unfold allowed; tauto | intros _; tauto]. }
    assert (PE : ev5_ok t w st e (Touch (Personal (c_user st)))).
    { simpl. split; [unfold allowed; tauto | intro U; rewrite U in NU; discriminate]. }
    destruct (e_target e) as [found| | |r|r found]; simpl in H.
    + destruct found; inversion H; subst; (constructor; [exact PE | constructor]).
    + inversion H; subst; constructor.
    + inversion H; subst; (constructor; [exact SH | constructor]).
    + inversion H; subst; (constructor; [exact SH | constructor]).
    + destruct (e_assigned e (c_user st) r) eqn:AS.
      * assert (RO : ev5_ok t w st e (Touch (RoleStore r))).
        { simpl. split; [|intro U; rewrite U in NU; discriminate].
          unfold allowed. right. right. right. exists r. split; [reflexivity|]. left. exact AS. }
        destruct found; inversion H; subst; (constructor; [exact SH | constructor; [exact RO | constructor]]).
      * inversion H; subst; (constructor; [exact SH | constructor]).
Qed.

Lemma step5_ok t st w e st' evs :
  c05_facts_ok t = true -> Inv5 st -> step t st w e = Some (st', evs) ->
  Inv5 st' /\ Forall (ev5_ok t w st e) evs.
Proof.
  unfold c05_facts_ok. rewrite !andb_true_iff. intros [[[G AC] SS] CL] HI5 Hs.
  pose proof HI5 as [HI HO].
  unfold step in Hs.
  destruct (visits_in_table t w e) eqn:VT; simpl in Hs; [|discriminate].
  destruct (is_select w) eqn:SEL.
  { rewrite CL in Hs. destruct (do_select true st e) as [s1 e1] eqn:D. inversion Hs; subst.
    eapply do_select5_ok; try eassumption. apply select_no_usesel; assumption. }
  destruct (String.eqb w "STARTTLS") eqn:ST.
  { destruct (c_tls st) eqn:T; [inversion Hs; subst; split; [exact HI5 | constructor]|].
    destruct (e_handshake e); simpl in Hs; [|inversion Hs; subst; split; [exact HI5 | constructor]].
    destruct (find _ _) as [s|]; [|inversion Hs; subst; split; [exact HI5 | constructor]].
    destruct (String.eqb (s_arg s) "fresh,tlsConn").
    { inversion Hs; subst. split; [split; [apply Inv_init | simpl; intro; discriminate] | constructor]. }
    destruct (String.eqb (s_arg s) "stale,tlsConn").
    { inversion Hs; subst. split; [|constructor]. destruct HI as [Hsa Hat].
      split; [split; simpl; intros; auto | exact HO]. }
    inversion Hs; subst; split; [exact HI5 | constructor]. }
  destruct (fold_left (visit e) (e_visits e) (Some (st, []))) as [[s1 e1]|] eqn:F; [|discriminate].
  destruct (f_auth_final t && existsb _ e1 && negb (e_reply_ok e)); [discriminate|].
  inversion Hs; subst; clear Hs.
  assert (Rows : forall v, In v (e_visits e) -> row_ok v = true /\ acc_row t v = true /\ s_cmd v = w).
  { intros v Hv. destruct (visits_in_table_in t w e VT v Hv) as [Hin Hc].
    split; [apply (guards_ok_row t G); exact Hin|]. split; [apply (access_ok_row t AC); exact Hin | exact Hc]. }
  destruct (visits5_ok t w e st HI5 SEL (e_visits e) st [] s1 evs (During5_refl t w e st) Rows F) as [HD5 [new [E Fa]]].
  simpl in E. subst evs. split; [|exact Fa].
  destruct HD5 as (HD & Hir & Hro & Hor & Hus).
  pose proof (Inv_of_During e st s1 HI HD) as HI1.
  assert (O1 : c_sel s1 = true -> c_origin s1 = selected_store s1).
  { intro S1. destruct HD as (_ & Hsel & _ & _). rewrite Hsel in S1. specialize (HO S1).
    rewrite Hor, HO. unfold selected_store. rewrite Hir, Hro.
    destruct (c_isrole st); [reflexivity|].
    destruct Hus as [[U _]|[_ [_ [_ [_ NU]]]]]; [rewrite U; reflexivity|].
    rewrite S1 in NU. discriminate. }
  destruct (is_unselect w && c_auth st && c_sel st).
  - split; [|simpl; intro; discriminate]. destruct HI1 as [I1 I2]. split; simpl; [intro; discriminate | exact I2].
  - split; assumption.
Qed.

Lemma Inv5_init tls : Inv5 (init_state tls).
Proof. split; [apply Inv_init | simpl; intro; discriminate]. Qed.

Definition obs5_ok (t : facts) (o : obs) : Prop :=
  Inv5 (o_pre o) /\ Forall (ev5_ok t (o_word o) (o_pre o) (o_env o)) (o_events o).

Lemma run5_ok t : c05_facts_ok t = true ->
  forall cmds st stf tr, Inv5 st -> run t st cmds = Some (stf, tr) -> Inv5 stf /\ Forall (obs5_ok t) tr.
Proof.
  intros G cmds. induction cmds as [|[w e] rest IH]; intros st stf tr HI Hr; simpl in Hr.
  - inversion Hr; subst. split; [exact HI|constructor].
  - destruct (step t st w e) as [[st1 evs]|] eqn:S; [|discriminate].
    destruct (run t st1 rest) as [[sf tr1]|] eqn:R; [|discriminate].
    inversion Hr; subst; clear Hr.
    destruct (step5_ok t st w e st1 evs G HI S) as [I1 F1].
    destruct (IH st1 stf tr1 I1 R) as [If Ft].
    split; [exact If|]. constructor; [split; assumption | exact Ft].
Qed.

Lemma isolation_of_table t : c05_facts_ok t = true ->
  forall tls cmds stf tr, run t (init_state tls) cmds = Some (stf, tr) ->
  Inv5 stf /\ Forall (obs5_ok t) tr.
Proof. intros G tls cmds stf tr. apply run5_ok; [exact G | apply Inv5_init]. Qed.

(** Regression witnesses of the defects repaired in /repo (they show that the
    hypotheses of [isolation_of_table] are not idle):

    (1) if a selected-state handler opens the PERSONAL store while a role
    mailbox is selected (the old STORE/COPY/EXPUNGE/CLOSE/NOOP/IDLE/CHECK),
    a command using the selected id touches a store other than the one the id
    came from; *)
Definition old_store_table : facts :=
  mk_facts [("STORE", "message.HandleStore")]
    [mk_site "STORE" "message.HandleStore" AccUserSelf "state.UserID" true true false false false false "w1";
     mk_site "STORE" "message.HandleStore" UseSel "userDB.Exec" true true false false false false "w2"]
    [("STORE", "message.HandleStore", (1, 1))] true true true true.

Lemma old_accessor_breaks_isolation :
  let st := mk_c true true true 7 true 3 (RoleStore 3) [3] in
  let e := mk_env false 0 [] (fun _ _ => true) 0 0 (f_sites old_store_table) (TPersonal false) false true in
  access_ok old_store_table = false /\
  exists st' evs, step old_store_table st "STORE" e = Some (st', evs) /\
    In (Touch (Personal 7)) evs /\ In UseSelId evs /\ c_origin st = RoleStore 3.
Proof. split; [vm_compute; reflexivity|]. eexists; eexists. split; [vm_compute; reflexivity|]. simpl. tauto. Qed.

(** (2) without the clearing in HandleSelect a failed SELECT of a personal
    name while a role mailbox is selected leaves a selection whose id belongs
    to another store than GetSelectedDB returns. *)
Lemma unfixed_failed_select_breaks_origin :
  let st := mk_c true true true 7 true 3 (RoleStore 3) [3] in
  let e := mk_env false 0 [] (fun _ _ => true) 0 0 [] (TPersonal false) false true in
  let st' := fst (do_select false st e) in
  c_sel st' = true /\ c_origin st' <> selected_store st'.
Proof. vm_compute. split; [reflexivity | discriminate]. Qed.
