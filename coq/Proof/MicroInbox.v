(** C07 — the mailbox-table part of the crash invariant: mailbox row ids are
    unique and, once the default mailboxes exist, INBOX exists at every crash
    point (nothing deletes or renames the INBOX row).  Together with the
    repaired GetUserDB (initUserDB runs at every open, default mailboxes are
    created in one transaction while the table is empty) this makes every
    crash state recoverable: after the next open all tables and INBOX exist. *)
From Coq Require Import String Ascii List Bool ZArith Arith Lia.
From Raven Require Import Base.GoStr Base.GoStrFacts Model.Store Model.Ops Model.Micro Spec.UidSpec
  Proof.StoreInv Proof.MicroRefine Proof.MicroBase.
Import ListNotations.
Local Open Scope Z_scope.

Definition ids (s : store) : list Z := map mb_id (mboxes s).
Definition names (s : store) : list str := map mb_name (mboxes s).
Definition HasI (d : dstore) : Prop := In INBOX (names (d_st d)).

Record MB (d : dstore) : Prop := mkMB {
  mb_ids : NoDup (ids (d_st d));
  mb_inbox : mboxes (d_st d) = [] \/ HasI d;
  mb_nofile : d_file d = false -> mboxes (d_st d) = []    (* no rows where there is no file *)
}.

(** the file, once there, stays *)
Lemma exec_file d st : d_file d = true -> d_file (exec d st) = true.
Proof.
  intros F. destruct st; cbn [exec]; auto; unfold opt_st, with_st, with_msgs;
    repeat match goal with
           | |- context [if ?c then _ else _] => destruct c
           | |- context [match ?o with Some _ => _ | None => _ end] => destruct o
           | |- context [match ?o with [] => _ | _ :: _ => _ end] => destruct o
           | |- context [let '(_, _) := ?p in _] => destruct p
           end; cbn; auto.
Qed.

Lemma run_file l : forall d, d_file d = true -> d_file (run_steps d l) = true.
Proof. induction l as [|st r IH]; intros d F; [exact F|]. unfold run_steps. cbn [fold_left]. apply IH. now apply exec_file. Qed.

(** ---- steps that keep the id and name columns ------------------------------------ *)

Definition SameMb (s s' : store) : Prop := ids s' = ids s /\ names s' = names s.

Lemma SameMb_refl s : SameMb s s.
Proof. split; reflexivity. Qed.
Lemma SameMb_trans a b c : SameMb a b -> SameMb b c -> SameMb a c.
Proof. intros [A1 A2] [B1 B2]. split; congruence. Qed.
Lemma SameMb_mboxes s s' : mboxes s' = mboxes s -> SameMb s s'.
Proof. intros E. unfold SameMb, ids, names. now rewrite E. Qed.

Lemma SameMb_bump s mb : SameMb s (bump s mb).
Proof.
  unfold SameMb, ids, names, bump. cbn. rewrite !map_map. split; apply map_ext; intros.
  - apply bump_row_id. - apply bump_row_name.
Qed.
Lemma SameMb_set_next s mb n : SameMb s (set_next s mb n).
Proof.
  unfold SameMb, ids, names, set_next. cbn. rewrite !map_map. split; apply map_ext; intros.
  - apply next_row_id. - apply next_row_name.
Qed.
Lemma SameMb_insert s msg mb uid fl s' : insert_link s msg mb uid fl = Some s' -> SameMb s s'.
Proof.
  unfold insert_link. destruct (existsb _ _); [discriminate|]. intros E. inversion E. now apply SameMb_mboxes.
Qed.
Lemma SameMb_delete s p : SameMb s (delete_links s p).
Proof. now apply SameMb_mboxes. Qed.
Lemma SameMb_set_flags s mb u fl : SameMb s (set_flags s mb u fl).
Proof. now apply SameMb_mboxes. Qed.
Lemma SameMb_reparent s old new s' : reparent s old new = Some s' -> SameMb s s'.
Proof.
  unfold reparent. destruct (old =? new); [intros E; inversion E; apply SameMb_refl|].
  destruct (existsb _ _); [discriminate|]. intros E. inversion E. now apply SameMb_mboxes.
Qed.

Lemma SameMb_uidcopy uids : forall s sel dest next s',
  uidcopy_loop s sel dest uids next = Some s' -> SameMb s s'.
Proof.
  induction uids as [|u r IH]; intros s sel dest next s' H; simpl in H.
  - inversion H. apply SameMb_set_next.
  - destruct (find_link s sel u) as [l|]; [|eauto].
    destruct (insert_link s (lk_msg l) dest next _) as [s1|] eqn:I; [|discriminate].
    eapply SameMb_trans; [eapply SameMb_insert; eauto|eauto].
Qed.
Lemma SameMb_copy seqs : forall s sel dest next s',
  copy_loop s sel dest seqs next = Some s' -> SameMb s s'.
Proof.
  induction seqs as [|n r IH]; intros s sel dest next s' H; simpl in H.
  - inversion H. apply SameMb_set_next.
  - destruct (nth_error _ _) as [l|]; [|discriminate].
    destruct (insert_link s (lk_msg l) dest next _) as [s1|] eqn:I; [|discriminate].
    eapply SameMb_trans; [eapply SameMb_insert; eauto|eauto].
Qed.
Lemma SameMb_move s msg src su dn fl : SameMb s (fst (move_message s msg src su dn fl)).
Proof.
  unfold move_message. destruct (find_name s dn) as [dm|]; [|apply SameMb_refl].
  destruct (mb_id dm =? src); [apply SameMb_refl|].
  destruct (insert_link s msg (mb_id dm) _ fl) as [s1|] eqn:I; [|apply SameMb_refl].
  cbn [fst]. eapply SameMb_trans; [eapply SameMb_insert; eauto|].
  eapply SameMb_trans; [apply SameMb_set_next|apply SameMb_delete].
Qed.
Lemma SameMb_uidstore_one s sel mode new u : SameMb s (uidstore_one s sel mode new u).
Proof.
  unfold uidstore_one. destruct (find_link s sel u) as [l|]; [|apply SameMb_refl].
  destruct (negb _ && _).
  - pose proof (SameMb_move s (lk_msg l) sel u SPAM (fremove NONJUNK (calc_flags (lk_flags l) new mode))) as X.
    destruct (move_message _ _ _ _ _ _) as [s1 ok]. destruct ok; [exact X|apply SameMb_set_flags].
  - destruct (negb _ && _).
    + pose proof (SameMb_move s (lk_msg l) sel u INBOX (fremove JUNK (calc_flags (lk_flags l) new mode))) as X.
      destruct (move_message _ _ _ _ _ _) as [s1 ok]. destruct ok; [exact X|apply SameMb_set_flags].
    + apply SameMb_set_flags.
Qed.

Lemma mboxes_nil_ids s : mboxes s = [] <-> ids s = [].
Proof. unfold ids. split; [intros ->; reflexivity|apply map_eq_nil]. Qed.

Lemma MB_same d s' : MB d -> SameMb (d_st d) s' -> MB (with_st d s') /\ (HasI d -> HasI (with_st d s')).
Proof.
  intros [M1 M2 M3] [E1 E2]. unfold HasI in *. cbn [d_st with_st]. split; [constructor|]; cbn [d_st d_file with_st].
  - now rewrite E1.
  - destruct M2 as [M2|M2]; [left|right].
    + apply mboxes_nil_ids. rewrite E1. now apply mboxes_nil_ids.
    + unfold HasI. cbn [d_st with_st]. now rewrite E2.
  - intros F. apply mboxes_nil_ids. rewrite E1. apply mboxes_nil_ids. auto.
  - now rewrite E2.
Qed.

(** ---- guards ---------------------------------------------------------------------- *)

Definition guardm (d : dstore) (st : mstep) : Prop :=
  match st with
  | MCreateFile => ~ HasI d                       (* a file is created only where none exists *)
  | MInsMailbox _ _ => HasI d                     (* ordinary mailboxes are created in an initialized store *)
  | MTxDelete mb =>                               (* the row addressed is not the INBOX row *)
      forall m, In m (mboxes (d_st d)) -> mb_id m = mb -> mb_name m <> INBOX
  | MTxRename mb _ _ ps _ =>                      (* in an initialised store; no parent is INBOX; the row renamed is not INBOX *)
      HasI d /\ Forall (fun p => p <> INBOX) ps /\
      forall m, In m (mboxes (d_st d)) -> mb_id m = mb -> mb_name m <> INBOX
  | _ => True
  end.

Lemma default_rows_cols s t1 t2 t3 t4 t5 :
  mboxes s = [] ->
  ids (default_rows s t1 t2 t3 t4 t5) = [1; 2; 3; 4; 5] /\
  names (default_rows s t1 t2 t3 t4 t5) = DEFAULTS.
Proof. destruct s as [mb lk nm gl gu gs]. cbn [mboxes]. intros ->. split; vm_compute; reflexivity. Qed.

Lemma NoDup_12345 : NoDup [1; 2; 3; 4; 5].
Proof. repeat constructor; simpl; intuition discriminate. Qed.

Lemma slash_not_in_inbox (old : str) : has_prefix INBOX (old ++ [SLASH]) = false.
Proof.
  apply not_true_is_false. intros H. apply has_prefix_spec in H. destruct H as [r E].
  assert (X : In SLASH INBOX) by (rewrite E; apply in_or_app; left; apply in_or_app; right; now left).
  vm_compute in X. intuition discriminate.
Qed.

Lemma in_names s m : In m (mboxes s) -> In (mb_name m) (names s).
Proof. apply in_map. Qed.

(** a row-wise rename that leaves INBOX rows alone keeps INBOX *)
Lemma rename_row_keeps s mb new s' :
  rename_row s mb new = Some s' ->
  (forall m, In m (mboxes s) -> mb_id m = mb -> mb_name m <> INBOX) ->
  ids s' = ids s /\ (In INBOX (names s) -> In INBOX (names s')) /\
  (forall m, In m (mboxes s) -> mb_id m <> mb -> In m (mboxes s')).
Proof.
  unfold rename_row. destruct (find_id s mb) as [fm|]; [|intros E G; inversion E; subst; auto].
  destruct (existsb _ _); [discriminate|]. intros E G. inversion E. clear E. unfold ids, names. cbn [mboxes].
  assert (K : forall m, In m (mboxes s) -> mb_id m <> mb ->
              In m (map (fun m' => if mb_id m' =? mb then mkMbox (mb_id m') new (mb_validity m') (mb_next m') else m') (mboxes s))).
  { intros m Hm N. apply in_map_iff. exists m. split; [|exact Hm].
    destruct (mb_id m =? mb) eqn:X; [apply Z.eqb_eq in X; contradiction|reflexivity]. }
  split; [|split; [|exact K]].
  - rewrite map_map. apply map_ext. intros m. destruct (mb_id m =? mb); reflexivity.
  - intros HI. apply in_map_iff in HI. destruct HI as (m & En & Hm).
    apply in_map_iff. exists m. split; [exact En|]. apply K; auto.
    intros X. exact (G m Hm X En).
Qed.

Lemma rename_fold_keeps (new old : str) cs : forall s0 s' (m0 : mbox),
  fold_left (fun acc c => match acc with
                          | None => None
                          | Some s' => rename_row s' (mb_id c) (new ++ skipn (length old) (mb_name c))
                          end) cs (Some s0) = Some s' ->
  In m0 (mboxes s0) -> (forall c, In c cs -> mb_id c <> mb_id m0) -> NoDup (ids s0) ->
  ids s' = ids s0 /\ In m0 (mboxes s').
Proof.
  induction cs as [|c r IH]; intros s0 s' m0 H Hm Hc N; simpl in H.
  - inversion H; subst. split; [reflexivity|assumption].
  - destruct (rename_row s0 (mb_id c) _) as [s1|] eqn:R.
    + assert (G : forall m, In m (mboxes s0) -> mb_id m = mb_id c -> mb_name m <> INBOX -> True) by auto.
      (* ids are unique: the only row with id (mb_id c) is not m0 *)
      pose proof R as R'. unfold rename_row in R'.
      assert (Hk : ids s1 = ids s0 /\ In m0 (mboxes s1)).
      { destruct (find_id s0 (mb_id c)) as [fm|]; [|inversion R'; subst; auto].
        destruct (existsb _ _); [discriminate|]. inversion R'. unfold ids. cbn [mboxes]. split.
        - rewrite map_map. apply map_ext. intros m. destruct (mb_id m =? mb_id c); reflexivity.
        - apply in_map_iff. exists m0. split; [|exact Hm].
          destruct (mb_id m0 =? mb_id c) eqn:X; [|reflexivity]. apply Z.eqb_eq in X.
          exfalso. apply (Hc c); [now left|congruence]. }
      destruct Hk as [Ei Hm1].
      destruct (IH s1 s' m0 H Hm1) as [E2 H2]; [intros c' Hc'; apply Hc; now right|now rewrite Ei|].
      split; [congruence|exact H2].
    + exfalso. clear -H. induction r; simpl in H; [discriminate|auto].
Qed.

(** ---- one step ------------------------------------------------------------------------ *)

Lemma rename_part_ids (old new : str) s1 mb cs s' :
  match rename_row s1 mb new with
  | None => None
  | Some s2 => fold_left (fun acc c => match acc with
                                       | None => None
                                       | Some s0 => rename_row s0 (mb_id c) (new ++ skipn (length old) (mb_name c))
                                       end) cs (Some s2)
  end = Some s' -> ids s' = ids s1.
Proof.
  assert (R1 : forall s mb new s', rename_row s mb new = Some s' -> ids s' = ids s).
  { intros s0 mb0 new0 s0' R. unfold rename_row in R. destruct (find_id s0 mb0) as [fm|]; [|inversion R; reflexivity].
    destruct (existsb _ _); [discriminate|]. inversion R. unfold ids. cbn [mboxes]. rewrite map_map.
    apply map_ext. intros m. destruct (mb_id m =? mb0); reflexivity. }
  destruct (rename_row s1 mb new) as [s2|] eqn:R; [|discriminate].
  rewrite <- (R1 _ _ _ _ R). clear R. revert s2.
  induction cs as [|c r IH]; intros s2 H; simpl in H.
  - inversion H. reflexivity.
  - destruct (rename_row s2 (mb_id c) _) as [s3|] eqn:R2.
    + rewrite (IH s3 H). eapply R1; eauto.
    + exfalso. clear -H. induction r; simpl in H; [discriminate|auto].
Qed.

(** the parents created by CREATE / RENAME: fresh ids, names from [ps], old rows kept *)
Lemma after_parents_facts ps t : forall s,
  NoDup (ids s) ->
  NoDup (ids (after_parents s ps t)) /\ incl (mboxes s) (mboxes (after_parents s ps t)) /\
  (forall m, In m (mboxes (after_parents s ps t)) -> In m (mboxes s) \/ In (mb_name m) ps).
Proof.
  induction ps as [|p r IH]; intros s N; [repeat split; auto; apply incl_refl|].
  unfold after_parents in *. cbn [fold_left].
  destruct (find_name s p) as [fm|].
  - destruct (IH s N) as (A & B & C). repeat split; auto. intros m Hm. destruct (C m Hm); [now left|right; now right].
  - destruct (create_mailbox_row s p t) as [[s' i]|] eqn:Cr.
    + destruct (create_row_shape _ _ _ _ _ Cr) as (_ & Ei & Es).
      assert (N' : NoDup (ids s')).
      { subst s'. unfold ids. cbn [mboxes]. rewrite map_app. cbn [map mb_id]. apply NoDup_app_one; auto.
        intros X. subst i. apply fresh_id_gt in X. lia. }
      destruct (IH s' N') as (A & B & C). repeat split; auto.
      * eapply incl_tran; [|exact B]. subst s'. cbn [mboxes]. apply incl_appl, incl_refl.
      * intros m Hm. destruct (C m Hm) as [H|H]; [|right; now right].
        subst s'. cbn [mboxes] in H. apply in_app_or in H. destruct H as [H|[<-|[]]]; [now left|right; now left].
    + destruct (IH s N) as (A & B & C). repeat split; auto. intros m Hm. destruct (C m Hm); [now left|right; now right].
Qed.

(** without a file nothing creates rows *)
Lemma exec_nil d st : d_file d = false -> mboxes (d_st d) = [] -> mboxes (d_st (exec d st)) = [].
Proof.
  intros F Mb.
  assert (Same : forall s', SameMb (d_st d) s' -> mboxes s' = []).
  { intros s' [E _]. apply mboxes_nil_ids. rewrite E. now apply mboxes_nil_ids. }
  assert (Opt : forall o, (forall s', o = Some s' -> SameMb (d_st d) s') -> mboxes (d_st (opt_st d o)) = []).
  { intros [s'|] H; cbn [opt_st d_st with_st]; auto. }
  destruct st; cbn [exec]; rewrite ?F; cbn [andb];
    try exact Mb; try reflexivity;
    try (apply Opt; intros s' E;
         first [solve [eapply SameMb_insert; exact E] | solve [eapply SameMb_uidcopy; exact E]
               | solve [eapply SameMb_copy; exact E]
               | solve [unfold reparent_max in E; eapply SameMb_trans; [apply SameMb_set_next|eapply SameMb_reparent; exact E]]]);
    try (cbn [d_st with_st with_msgs];
         first [exact Mb | apply Same, SameMb_bump | apply Same, SameMb_uidstore_one | apply Same, SameMb_delete]).
  all: try (unfold store_message; cbn; exact Mb).
  all: try (cbn; rewrite Mb; reflexivity).
  all: try (destruct (existsb _ _); cbn; exact Mb).
Qed.

Definition P2 (d : dstore) : Prop := NoDup (ids (d_st d)) /\ (mboxes (d_st d) = [] \/ HasI d).

Lemma exec_MB d st : MB d -> guardm d st -> MB (exec d st) /\ (HasI d -> HasI (exec d st)).
Proof.
  intros M G.
  assert (NF : d_file (exec d st) = false -> mboxes (d_st (exec d st)) = []).
  { intros X. destruct (d_file d) eqn:Fd; [rewrite exec_file in X by auto; discriminate|].
    apply exec_nil; auto. exact (mb_nofile d M Fd). }
  enough (E : P2 (exec d st) /\ (HasI d -> HasI (exec d st))).
  { destruct E as [[E1 E2] E3]. split; [constructor|]; auto. }
  clear NF.
  assert (Same : forall s', SameMb (d_st d) s' -> P2 (with_st d s') /\ (HasI d -> HasI (with_st d s'))).
  { intros s' S. destruct (MB_same d s' M S) as [[A B _] C]. repeat split; auto. }
  assert (Opt : forall o, (forall s', o = Some s' -> SameMb (d_st d) s') ->
                          P2 (opt_st d o) /\ (HasI d -> HasI (opt_st d o))).
  { intros [s'|] H; cbn [opt_st]; [apply Same; auto|]. destruct M as [M1 M2 _]. repeat split; auto. }
  assert (Keep : forall d', mboxes (d_st d') = mboxes (d_st d) -> P2 d' /\ (HasI d -> HasI d')).
  { intros d' E. unfold P2, HasI, ids, names. destruct M as [M1 M2 _]. unfold HasI, ids, names in *. rewrite E.
    repeat split; auto. }
  assert (Self : P2 d /\ (HasI d -> HasI d)) by (apply Keep; reflexivity).
  destruct M as [M1 M2 M3].
  destruct st; cbn [exec guardm] in *.
  - (* create file *) split; [split; cbn; [constructor|now left]|intros H; contradiction].
  - destruct (_ && _); [apply Keep; reflexivity|exact Self].
  - (* allocator statement *) destruct (_ && _); [apply Keep; reflexivity|exact Self].
  - (* INSERT INTO mailboxes *)
    destruct (_ && _); [|exact Self].
    destruct (insert_mailbox_row (d_st d) name v) as [s1|] eqn:Cr; cbn [opt_st]; [|exact Self].
    unfold insert_mailbox_row in Cr. destruct name as [|c0 r0]; [discriminate|].
    destruct (find_name (d_st d) (c0 :: r0)); [discriminate|]. inversion Cr as [Es]. clear Cr.
    unfold P2, HasI, names, ids in *. cbn [d_st with_st mboxes]. repeat split.
    + rewrite map_app. cbn [map mb_id]. apply NoDup_app_one; auto.
      intros C. apply fresh_id_gt in C. lia.
    + right. rewrite map_app. apply in_or_app. now left.
    + intros H. rewrite map_app. apply in_or_app. now left.
  - (* default mailboxes *)
    destruct (_ && _); [|exact Self]. destruct (mboxes (d_st d)) eqn:Mb; [|exact Self].
    destruct (default_rows_cols (d_st d) t1 t2 t3 t4 t5 Mb) as [Ei En].
    assert (HI : HasI (with_st d (default_rows (d_st d) t1 t2 t3 t4 t5))).
    { unfold HasI. cbn [d_st with_st]. rewrite En. now left. }
    unfold P2. cbn [d_st with_st]. repeat split; auto. rewrite Ei. apply NoDup_12345.
  - unfold store_message. apply Keep. reflexivity.
  - apply Keep. reflexivity.
  - apply Keep. reflexivity.
  - exact Self.
  - apply Keep. reflexivity.
  - apply Same. apply SameMb_bump.
  - apply Opt. intros s' E. eapply SameMb_insert; eauto.
  - apply Keep. reflexivity.
  - apply Opt. intros s' E. eapply SameMb_uidcopy; eauto.
  - apply Opt. intros s' E. eapply SameMb_copy; eauto.
  - apply Same. apply SameMb_uidstore_one.
  - apply Same. apply SameMb_delete.
  - (* DELETE mailbox *)
    assert (K : In INBOX (names (d_st d)) ->
                In INBOX (map mb_name (filter (fun m' => negb (mb_id m' =? mb)) (mboxes (d_st d))))).
    { intros HI. apply in_map_iff in HI. destruct HI as (m & En & Hm). apply in_map_iff. exists m. split; auto.
      apply filter_In. split; auto. apply negb_true_iff. apply Z.eqb_neq. intros X. exact (G m Hm X En). }
    unfold P2, HasI, names, ids in *. cbn [d_st with_st mboxes set_mboxes delete_links set_links]. repeat split.
    + now apply NoDup_map_filter.
    + destruct M2 as [M2|M2]; [left; now rewrite M2|right; auto].
    + exact K.
  - (* RENAME transaction, parents included *)
    destruct (_ && _); [|exact Self].
    destruct (rename_tx7 (d_st d) mb old new ps t) as [s'|] eqn:R; cbn [opt_st]; [|exact Self].
    destruct G as (GI & Gp & Gm).
    unfold rename_tx7 in R. set (s1 := after_parents (d_st d) ps t) in *.
    destruct (after_parents_facts ps t (d_st d) M1) as (N1 & Inc & Orig). fold s1 in N1, Inc, Orig.
    pose proof (rename_part_ids old new s1 mb (children s1 old) s' R) as Ei.
    destruct (rename_row s1 mb new) as [s2|] eqn:R1; [|discriminate].
    assert (G1 : forall m, In m (mboxes s1) -> mb_id m = mb -> mb_name m <> INBOX).
    { intros m Hm E. destruct (Orig m Hm) as [H|H]; [now apply Gm|].
      intros X. rewrite X in H. rewrite Forall_forall in Gp. exact (Gp INBOX H eq_refl). }
    destruct (rename_row_keeps _ _ _ _ R1 G1) as (Ei1 & _ & K1).
    (* the INBOX row m0 of s1: its id is not mb, so the rename leaves it alone *)
    assert (HI0 : exists m0, In m0 (mboxes s1) /\ mb_name m0 = INBOX).
    { unfold HasI, names in GI. apply in_map_iff in GI. destruct GI as (m & En & Hm). exists m. split; auto. }
    destruct HI0 as (m0 & Hm0s1 & En0).
    assert (Nmb : mb_id m0 <> mb) by (intros X; exact (G1 m0 Hm0s1 X En0)).
    assert (Hm0 : In m0 (mboxes s2)) by (apply K1; auto).
    assert (N2 : NoDup (ids s2)) by now rewrite Ei1.
    destruct (rename_fold_keeps new old (children s1 old) s2 s' m0 R Hm0) as [_ Hm']; auto.
    { intros c Hc X. unfold children in Hc. apply filter_In in Hc. destruct Hc as [Hc P].
      assert (c = m0) by (apply (NoDup_map_inj mb_id (mboxes s1)); auto).
      subst c. rewrite En0, slash_not_in_inbox in P. discriminate. }
    unfold P2, HasI in *. cbn [d_st with_st]. repeat split.
    + now rewrite Ei.
    + right. unfold HasI. cbn [d_st with_st]. apply in_map_iff. exists m0. auto.
    + intros _. apply in_map_iff. exists m0. auto.
  - apply Opt. intros s' E. unfold reparent_max in E. eapply SameMb_trans; [apply SameMb_set_next|eapply SameMb_reparent; eauto].
  - destruct (existsb _ _); [exact Self|apply Keep; reflexivity].
  - apply Keep. reflexivity.
Qed.

Fixpoint guardsm_along (d : dstore) (l : list mstep) : Prop :=
  match l with
  | [] => True
  | st :: r => guardm d st /\ guardsm_along (exec d st) r
  end.

Lemma guardsm_app d a b : guardsm_along d (a ++ b) <-> guardsm_along d a /\ guardsm_along (run_steps d a) b.
Proof.
  revert d. induction a as [|x a IH]; intros d; simpl; [tauto|]. rewrite IH. unfold run_steps. simpl. tauto.
Qed.

Lemma prefix_MB l : forall d k, MB d -> guardsm_along d l -> MB (run_steps d (firstn k l)).
Proof.
  induction l as [|st r IH]; intros d k M G.
  - destruct k; exact M.
  - destruct k; [exact M|]. destruct G as [G1 G2]. unfold run_steps. cbn [firstn fold_left].
    apply IH; auto. now apply exec_MB.
Qed.

Lemma run_MB l : forall d, MB d -> guardsm_along d l -> MB (run_steps d l) /\ (HasI d -> HasI (run_steps d l)).
Proof.
  induction l as [|st r IH]; intros d M G; [split; auto|].
  destruct G as [G1 G2]. destruct (exec_MB d st M G1) as [M' H']. unfold run_steps. cbn [fold_left].
  destruct (IH (exec d st) M' G2) as [M'' H'']. split; auto.
Qed.

Definition plainm (st : mstep) : bool :=
  match st with
  | MCreateFile | MInsMailbox _ _ | MTxDelete _ | MTxRename _ _ _ _ _ => false
  | _ => true
  end.

Lemma guardsm_plain l : forall d, forallb plainm l = true -> guardsm_along d l.
Proof.
  induction l as [|st r IH]; intros d H; simpl; [exact I|].
  simpl in H. apply andb_true_iff in H. destruct H as [H1 H2]. split; [|now apply IH].
  destruct st; try discriminate; exact I.
Qed.

(** a run of mailbox INSERTs in an initialized store *)
Definition is_create (st : mstep) : Prop := exists n t, st = MInsMailbox n t \/ st = MAllocV n t.

Lemma guardsm_inserts l : forall d,
  Forall is_create l -> MB d -> HasI d -> guardsm_along d l.
Proof.
  induction l as [|st r IH]; intros d F M H; simpl; [exact I|].
  inversion F as [|? ? (n & t & [->| ->]) F']; subst.
  - split; [exact H|]. destruct (exec_MB d (MInsMailbox n t) M H) as [M' H']. apply IH; auto.
  - split; [exact I|]. destruct (exec_MB d (MAllocV n t) M I) as [M' H']. apply IH; auto.
Qed.

Lemma create_steps_inserts s n t : Forall is_create (create_steps s n t).
Proof. unfold create_steps, is_create. repeat constructor; eauto. Qed.

Lemma parent_steps_inserts ps t : forall s, Forall is_create (parent_steps s ps t).
Proof.
  induction ps as [|p r IH]; intros s; cbn [parent_steps]; [constructor|].
  destruct (find_name s p); [apply IH|]. destruct (create_mailbox_row s p t) as [[s' i]|]; [|apply IH].
  apply Forall_app. split; [apply create_steps_inserts|apply IH].
Qed.

Lemma after_parents_incl ps t : forall s, incl (mboxes s) (mboxes (after_parents s ps t)).
Proof.
  induction ps as [|p r IH]; intros s; [apply incl_refl|].
  unfold after_parents in *. cbn [fold_left]. destruct (find_name s p); [apply IH|].
  destruct (create_mailbox_row s p t) as [[s' i]|] eqn:Cr; [|apply IH].
  destruct (create_row_shape _ _ _ _ _ Cr) as (_ & _ & Es).
  eapply incl_tran; [|apply IH]. subst s'. cbn [mboxes]. apply incl_appl, incl_refl.
Qed.

Lemma msg_steps_plainm id sh : forallb plainm (msg_steps id sh) = true.
Proof.
  unfold msg_steps. cbn [forallb plainm andb]. rewrite !forallb_app. repeat (apply andb_true_iff; split).
  - apply forallb_forall. intros x H. apply repeat_spec in H. now subst.
  - apply forallb_forall. intros x H. apply repeat_spec in H. now subst.
  - apply forallb_forall. intros x H. apply in_flat_map in H. destruct H as (b & _ & H).
    destruct b; simpl in H; intuition; subst; reflexivity.
Qed.

Lemma add_steps_plainm s msg mb fl : forallb plainm (add_steps s msg mb fl) = true.
Proof. unfold add_steps. destruct (find_id s mb); reflexivity. Qed.

Lemma upper_not_inbox (n : str) : str_eqb (to_upper n) INBOX = false -> n <> INBOX.
Proof. intros H E. subst n. vm_compute in H. discriminate. Qed.

(** ---- one operation ---------------------------------------------------------------------- *)

(** what holds between operations (not inside GetUserDB): a store that is
    ready has its INBOX; where there is no file there are no rows *)
Record BI (d : dstore) : Prop := mkBI {
  bi_mb : MB d;
  bi_ready : ready d = true -> HasI d
}.

Lemma open_guards d t1 t2 t3 t4 t5 : BI d -> guardsm_along d (open_steps d t1 t2 t3 t4 t5).
Proof.
  intros [M R]. pose proof (mb_nofile d M) as F. unfold open_steps. apply guardsm_app. split.
  - destruct (d_file d) eqn:Fd; [exact I|]. split; [|exact I]. cbn [guardm]. unfold HasI, names.
    rewrite (F eq_refl). intros [].
  - apply guardsm_plain. rewrite forallb_app. apply andb_true_iff. split.
    + apply forallb_forall. intros x H. apply in_map_iff in H. destruct H as (i & <- & _). reflexivity.
    + destruct (mboxes (d_st (file_of d))); reflexivity.
Qed.

Lemma find_name_in s n m : find_name s n = Some m -> In m (mboxes s) /\ mb_name m = n.
Proof. apply find_name_some. Qed.

Lemma micro_guardsm d o : BI d -> guardsm_along d (micro d o).
Proof.
  intros B. pose proof B as [M R].
  destruct o as [t1 t2 t3 t4 t5|f t sh|f fl sh|o|n|n]; cbn [micro].
  - now apply open_guards.
  - destruct (ready d) eqn:Hr; [|exact I]. specialize (R eq_refl).
    unfold deliver_steps. destruct (find_name (d_st d) f) as [m|].
    + cbn [app]. apply guardsm_plain. rewrite !forallb_app, msg_steps_plainm, add_steps_plainm.
      destruct (add_ok _ _); reflexivity.
    + destruct (create_mailbox_row (d_st d) f t) as [[s' id]|]; [|exact I].
      apply guardsm_app. split; [apply guardsm_inserts; auto; apply create_steps_inserts|].
      apply guardsm_plain. rewrite !forallb_app, msg_steps_plainm, add_steps_plainm.
      destruct (add_ok _ _); reflexivity.
  - destruct (ready d); [|exact I]. unfold append_steps.
    destruct (find_name (d_st d) f) as [m|]; [|exact I].
    apply guardsm_plain. now rewrite forallb_app, msg_steps_plainm, add_steps_plainm.
  - destruct (ready d) eqn:Hr; [|exact I]. specialize (R eq_refl). set (s := d_st d) in *.
    destruct o as [f t|f fl|sel set dest|sel set dest|sel set mode fl|sel|sel|n t|n|a b t]; cbn [base_steps]; try exact I.
    + destruct (resolve_uids s sel set); [exact I|]. destruct (find_name s dest); [|exact I]. split; exact I.
    + destruct (resolve_seqs s sel set); [exact I|]. destruct (find_name s dest); [|exact I]. split; exact I.
    + apply guardsm_plain. apply forallb_forall. intros x H. apply in_map_iff in H. destruct H as (i & <- & _). reflexivity.
    + apply guardsm_plain. apply forallb_forall. intros x H. apply in_map_iff in H. destruct H as (i & <- & _). reflexivity.
    + apply guardsm_plain. apply forallb_forall. intros x H. apply in_map_iff in H. destruct H as (i & <- & _). reflexivity.
    + (* create *)
      destruct (trim_suffix n [SLASH]) as [|c r]; [exact I|]. destruct (str_eqb _ _); [exact I|].
      destruct (is_role_ns _); [exact I|].
      destruct (find_name s _); [exact I|]. apply guardsm_inserts; auto.
      apply Forall_app. split; [apply parent_steps_inserts|].
      destruct (create_mailbox_row _ _ _); [apply create_steps_inserts|constructor].
    + (* delete *)
      destruct n as [|c r]; [exact I|]. destruct (str_eqb (to_upper (c :: r)) INBOX) eqn:U; [exact I|].
      destruct (find_name s (c :: r)) as [m|] eqn:Fn; [|exact I]. destruct (children s _); [|exact I].
      destruct (existsb _ _); [exact I|]. split; [|exact I]. cbn [guardm].
      apply find_name_in in Fn. destruct Fn as [Hm En]. intros m' Hm' Ei.
      assert (m' = m) by (apply (NoDup_map_inj mb_id (mboxes s)); auto; apply (mb_ids d M)).
      subst m'. rewrite En. now apply upper_not_inbox.
    + (* rename *)
      destruct a as [|ca ra]; [exact I|]. destruct b as [|cb rb]; [exact I|].
      destruct (is_role_ns (cb :: rb)); [exact I|].
      destruct (str_eqb (to_upper (cb :: rb)) INBOX); [exact I|].
      destruct (str_eqb (to_upper (ca :: ra)) INBOX) eqn:U.
      * destruct (find_name s (cb :: rb)); [exact I|]. destruct (find_name s INBOX); [|exact I].
        assert (Gp : guardsm_along d (parent_steps s (parents_of (cb :: rb)) t))
          by (apply guardsm_inserts; auto; apply parent_steps_inserts).
        apply guardsm_app. split; [exact Gp|].
        destruct (create_mailbox_row _ _ _) as [[? ?]|]; [|exact I].
        destruct (run_MB _ d M Gp) as [Mp H].
        apply guardsm_app. split; [apply guardsm_inserts; auto; apply create_steps_inserts|].
        split; exact I.
      * destruct (find_name s (ca :: ra)) as [m|] eqn:Fn; [|exact I]. destruct (find_name s (cb :: rb)); [exact I|].
        split; [|exact I]. cbn [guardm]. split; [exact R|]. split.
        -- apply Forall_forall. intros p Hp. unfold parents_of in Hp. apply filter_In in Hp. destruct Hp as [_ Hp].
           intros X. subst p. vm_compute in Hp. discriminate.
        -- apply find_name_in in Fn. destruct Fn as [Hm En]. intros m' Hm' Ei.
           assert (m' = m) by (apply (NoDup_map_inj mb_id (mboxes s)); auto; apply (mb_ids d M)).
           subst m'. rewrite En. now apply upper_not_inbox.
  - destruct (ready d); [|exact I]. split; exact I.
  - destruct (ready d); [|exact I]. split; exact I.
Qed.

Lemma opened_HasI d t1 t2 t3 t4 t5 : MB d ->
  HasI (opened d t1 t2 t3 t4 t5) /\ ready (opened d t1 t2 t3 t4 t5) = true /\ d_file (opened d t1 t2 t3 t4 t5) = true.
Proof.
  intros [M1 M2 F]. unfold opened, HasI, ready. cbn [d_st d_file d_schema]. split; [|split; [|reflexivity]].
  - destruct (mboxes (d_st (file_of d))) eqn:Mb.
    + destruct (default_rows_cols (d_st (file_of d)) t1 t2 t3 t4 t5 Mb) as [_ En]. rewrite En. now left.
    + unfold file_of in *. destruct (d_file d) eqn:Fd; [|discriminate].
      destruct M2 as [M2|M2]; [congruence|exact M2].
  - cbn [andb]. apply Nat.leb_le. unfold NTABLES, NSCHEMA. lia.
Qed.

Lemma op_BI d o : BI d -> BI (run_steps d (micro d o)).
Proof.
  intros B. pose proof (micro_guardsm d o B) as G. pose proof B as [M R].
  destruct (run_MB _ d M G) as [M' H'].
  destruct o as [t1 t2 t3 t4 t5|f t sh|f fl sh|o|n|n]; cbn [micro] in *.
  - rewrite open_refines in *. destruct (opened_HasI d t1 t2 t3 t4 t5 M) as (HI & _). constructor; auto.
  - destruct (ready d) eqn:Hr; [|exact B]. constructor; auto.
  - destruct (ready d) eqn:Hr; [|exact B]. constructor; auto.
  - destruct (ready d) eqn:Hr; [|exact B]. constructor; auto.
  - destruct (ready d) eqn:Hr; [|exact B]. constructor; auto.
  - destruct (ready d) eqn:Hr; [|exact B]. constructor; auto.
Qed.

Lemma BI_absent : BI absent.
Proof. constructor; [constructor; cbn; [constructor|now left|reflexivity]|discriminate]. Qed.

(** ---- workloads --------------------------------------------------------------------------- *)

Lemma all_steps_guardsm h : forall d, BI d -> guardsm_along d (all_steps d h).
Proof.
  induction h as [|o r IH]; intros d B; cbn [all_steps]; [exact I|].
  apply guardsm_app. split; [now apply micro_guardsm|]. apply IH. now apply op_BI.
Qed.

(** at every crash point: mailbox ids unique, and INBOX exists unless the
    mailbox table is still empty *)
Lemma crash_MB h k d : BI d -> MB (crash_at d h k).
Proof. intros B. unfold crash_at. apply prefix_MB; [apply (bi_mb d B)|now apply all_steps_guardsm]. Qed.


(** THE RECOVERY THEOREM: whatever the workload and wherever the process dies,
    the next GetUserDB (login or delivery) leaves a store with all tables and
    an INBOX *)
Lemma crash_reopens h k t1 t2 t3 t4 t5 :
  let d1 := fst (big (crash_at absent h k) (COpen t1 t2 t3 t4 t5)) in
  snd (big (crash_at absent h k) (COpen t1 t2 t3 t4 t5)) = ROk /\
  ready d1 = true /\ HasI d1 /\ d_file d1 = true.
Proof.
  cbn [big fst snd]. destruct (opened_HasI (crash_at absent h k) t1 t2 t3 t4 t5 (crash_MB h k absent BI_absent)) as (A & B & C).
  auto.
Qed.
