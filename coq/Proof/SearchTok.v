(** C19 — the tokenizer on printed programs, trimming and unquoting. *)
From Coq Require Import String Ascii List Bool Arith NArith ZArith Lia.
From Raven Require Import Base.GoStr Base.GoStrFacts Model.Search.
Import ListNotations.
Local Open Scope Z_scope.

(** a token the tokenizer returns unchanged: balanced quotes, balanced
    parentheses outside quotes, and white space only inside quotes or inside
    parentheses.  [d] is the parenthesis depth (the tokenizer's inParens). *)
Fixpoint tok_scan (t : str) (inq : bool) (d : Z) : bool :=
  match t with
  | [] => negb inq && (d =? 0)
  | c :: t' =>
      if Ascii.eqb c dq then tok_scan t' (negb inq) d
      else if inq then tok_scan t' inq d
      else if Ascii.eqb c lpar then tok_scan t' inq (d + 1)
      else if Ascii.eqb c rpar then (1 <=? d) && tok_scan t' inq (d - 1)
      else if is_space c then (0 <? d) && tok_scan t' inq d
      else tok_scan t' inq d
  end.
Definition tok_ok (t : str) : bool := match t with [] => false | _ => tok_scan t false 0 end.

Lemma not_space_sp c : is_space c = false -> Ascii.eqb c sp || Ascii.eqb c tab = false.
Proof.
  intros H. assert (K : is_space c || negb (Ascii.eqb c sp || Ascii.eqb c tab) = true).
  { revert c H. intros c _. revert c. ascii_sweep (fun c => is_space c || negb (Ascii.eqb c sp || Ascii.eqb c tab)). }
  rewrite H in K. simpl in K. now apply negb_true_iff in K.
Qed.

Lemma pst_tok t : forall rest cur inq d,
  tok_scan t inq d = true -> pst (t ++ rest) cur inq d = pst rest (rev t ++ cur) false 0.
Proof.
  induction t as [|c t IH]; intros rest cur inq d H; cbn [tok_scan] in H.
  - apply andb_true_iff in H as [H1 H2]. apply negb_true_iff in H1. apply Z.eqb_eq in H2. subst. reflexivity.
  - cbn [app pst]. destruct (Ascii.eqb c dq) eqn:Edq.
    + rewrite IH by exact H. cbn [rev]. now rewrite <- app_assoc.
    + destruct inq.
      * (* inside quotes: everything is appended, the paren counter stays *)
        destruct (Ascii.eqb c lpar); [rewrite IH by exact H; cbn [rev]; now rewrite <- app_assoc|].
        destruct (Ascii.eqb c rpar); [rewrite IH by exact H; cbn [rev]; now rewrite <- app_assoc|].
        destruct (Ascii.eqb c sp || Ascii.eqb c tab); cbn [orb]; rewrite IH by exact H; cbn [rev]; now rewrite <- app_assoc.
      * destruct (Ascii.eqb c lpar) eqn:El; [rewrite IH by exact H; cbn [rev]; now rewrite <- app_assoc|].
        destruct (Ascii.eqb c rpar) eqn:Er.
        { apply andb_true_iff in H as [_ H]. rewrite IH by exact H. cbn [rev]. now rewrite <- app_assoc. }
        destruct (is_space c) eqn:Es.
        { apply andb_true_iff in H as [Hd H]. cbn [orb]. rewrite Hd.
          destruct (Ascii.eqb c sp || Ascii.eqb c tab); rewrite IH by exact H; cbn [rev]; now rewrite <- app_assoc. }
        rewrite (not_space_sp _ Es). rewrite IH by exact H. cbn [rev]. now rewrite <- app_assoc.
Qed.

Lemma tok_ok_nonempty t : tok_ok t = true -> t <> [].
Proof. destruct t; [discriminate | discriminate]. Qed.

Lemma tok_ok_scan t : tok_ok t = true -> tok_scan t false 0 = true.
Proof. destruct t; [discriminate | trivial]. Qed.

Lemma pst_join toks : forallb tok_ok toks = true -> pst (join toks [sp]) [] false 0 = toks.
Proof.
  induction toks as [|t toks IH]; intros H; [reflexivity|].
  simpl in H. apply andb_true_iff in H as [Ht H].
  destruct toks as [|t2 toks].
  - simpl join. rewrite <- (app_nil_r t) at 1. rewrite pst_tok by (now apply tok_ok_scan).
    simpl. rewrite app_nil_r. destruct (rev t) eqn:E.
    + apply (f_equal (@rev _)) in E. rewrite rev_involutive in E. simpl in E. subst. discriminate.
    + rewrite <- E, rev_involutive. reflexivity.
  - change (join (t :: t2 :: toks) [sp]) with (t ++ sp :: join (t2 :: toks) [sp]).
    rewrite pst_tok by (now apply tok_ok_scan). rewrite app_nil_r.
    simpl pst. destruct (rev t) eqn:E.
    + apply (f_equal (@rev _)) in E. rewrite rev_involutive in E. simpl in E. subst. discriminate.
    + rewrite <- E, rev_involutive. f_equal. apply IH. exact H.
Qed.

(** scanning a complete token leaves the state where it was *)
Lemma scan_app t : forall r inq d e, 0 <= e ->
  tok_scan t inq d = true -> tok_scan (t ++ r) inq (d + e) = tok_scan r false e.
Proof.
  induction t as [|c t IH]; intros r inq d e He H; cbn [tok_scan] in H.
  - apply andb_true_iff in H as [H1 H2]. apply negb_true_iff in H1. apply Z.eqb_eq in H2. subst. reflexivity.
  - cbn [app tok_scan]. destruct (Ascii.eqb c dq); [now apply IH|].
    destruct inq; [now apply IH|].
    destruct (Ascii.eqb c lpar).
    { replace (d + e + 1) with (d + 1 + e) by lia. now apply IH. }
    destruct (Ascii.eqb c rpar).
    { apply andb_true_iff in H as [Hd H]. apply Z.leb_le in Hd.
      replace (1 <=? d + e) with true by (symmetry; apply Z.leb_le; lia).
      replace (d + e - 1) with (d - 1 + e) by lia. now apply IH. }
    destruct (is_space c).
    { apply andb_true_iff in H as [Hd H]. apply Z.ltb_lt in Hd.
      replace (0 <? d + e) with true by (symmetry; apply Z.ltb_lt; lia). now apply IH. }
    now apply IH.
Qed.

Lemma scan_join toks : forall r e, 1 <= e -> forallb tok_ok toks = true ->
  tok_scan (join toks [sp] ++ r) false e = tok_scan r false e.
Proof.
  induction toks as [|t toks IH]; intros r e He H; [reflexivity|].
  cbn [forallb] in H. apply andb_true_iff in H as [Ht H]. apply tok_ok_scan in Ht.
  destruct toks as [|t2 toks].
  - cbn [join]. exact (scan_app t r false 0 e ltac:(lia) Ht).
  - change (join (t :: t2 :: toks) [sp]) with (t ++ sp :: join (t2 :: toks) [sp]).
    rewrite <- app_assoc. rewrite (scan_app t _ false 0 e ltac:(lia) Ht).
    cbn [app tok_scan]. replace (0 <? e) with true by (symmetry; apply Z.ltb_lt; lia).
    cbn. now apply IH.
Qed.

(** a parenthesised list of complete tokens is one complete token *)
Lemma group_tok toks : forallb tok_ok toks = true -> tok_ok (lpar :: join toks [sp] ++ [rpar]) = true.
Proof.
  intros H. unfold tok_ok. cbn [tok_scan]. cbn. rewrite (scan_join toks [rpar] 1 ltac:(lia) H). reflexivity.
Qed.

Lemma parse_print toks : forallb tok_ok toks = true -> parse_search_tokens (join toks [sp]) = toks.
Proof. exact (pst_join toks). Qed.

(** ** trimming *)
Lemma drop_while_last (f : ascii -> bool) l c : f c = false -> drop_while f (l ++ [c]) <> [].
Proof. intros H. induction l as [|d l IH]; simpl; [now rewrite H | destruct (f d); [exact IH | discriminate]]. Qed.

Lemma trim_space_id s :
  match s with c :: _ => is_space c = false | [] => True end ->
  match rev s with c :: _ => is_space c = false | [] => True end ->
  trim_space s = s.
Proof.
  intros H1 H2. unfold trim_space, trim_f, trim_left_f, trim_right_f.
  assert (E : drop_while is_space s = s) by (destruct s; simpl; [reflexivity | now rewrite H1]).
  rewrite E. destruct (rev s) eqn:R.
  - apply (f_equal (@rev _)) in R. rewrite rev_involutive in R. now subst.
  - simpl. rewrite H2. rewrite <- R. apply rev_involutive.
Qed.

Lemma trim_space_nonempty c s : is_space c = false -> trim_space (c :: s) <> [].
Proof.
  intros H. unfold trim_space, trim_f, trim_left_f, trim_right_f. simpl drop_while at 2. rewrite H.
  simpl rev at 2. intros E. apply (f_equal (@rev _)) in E. rewrite rev_involutive in E. simpl in E.
  now apply (drop_while_last is_space (rev s) c H).
Qed.

Lemma rev_head_forall (P : ascii -> bool) s : forallb P s = true ->
  match rev s with c :: _ => P c = true | [] => True end.
Proof.
  intros H. destruct (rev s) eqn:R; [trivial|].
  rewrite forallb_forall in H. apply H. apply in_rev. rewrite R. now left.
Qed.

Lemma trim_space_all s : forallb (fun c => negb (is_space c)) s = true -> trim_space s = s.
Proof.
  intros H. apply trim_space_id.
  - destruct s; [trivial|]. simpl in H. apply andb_true_iff in H as [H _]. now apply negb_true_iff.
  - pose proof (rev_head_forall _ _ H) as K. destruct (rev s); [trivial|]. now apply negb_true_iff.
Qed.

(** ** unquote *)
Lemma unquote_plain s :
  forallb (fun c => negb (is_space c)) s = true ->
  match s with c :: _ => Ascii.eqb c dq = false | [] => True end ->
  unquote s = s.
Proof.
  intros H1 H2. unfold unquote. rewrite trim_space_all by exact H1.
  destruct s as [|q r]; [reflexivity|]. destruct (rev r); [reflexivity|]. now rewrite H2.
Qed.

Lemma unquote_quote v : unquote (dq :: v ++ [dq]) = v.
Proof.
  unfold unquote. rewrite trim_space_id.
  - rewrite rev_app_distr. simpl. apply rev_involutive.
  - reflexivity.
  - simpl. rewrite rev_app_distr. reflexivity.
Qed.
