(** C19 — the tokenizer on printed programs, trimming and unquoting. *)
From Coq Require Import String Ascii List Bool Arith NArith ZArith Lia.
From Raven Require Import Base.GoStr Base.GoStrFacts Model.Search.
Import ListNotations.
Local Open Scope Z_scope.

(** a token the tokenizer returns unchanged: balanced quotes, and outside
    quotes neither white space nor parentheses *)
Fixpoint tok_scan (t : str) (inq : bool) : bool :=
  match t with
  | [] => negb inq
  | c :: t' =>
      if Ascii.eqb c dq then tok_scan t' (negb inq)
      else if inq then tok_scan t' inq
      else negb (Ascii.eqb c lpar) && negb (Ascii.eqb c rpar) && negb (is_space c) && tok_scan t' inq
  end.
Definition tok_ok (t : str) : bool := match t with [] => false | _ => tok_scan t false end.

Lemma not_space_sp c : is_space c = false -> Ascii.eqb c sp || Ascii.eqb c tab = false.
Proof.
  intros H. assert (K : is_space c || negb (Ascii.eqb c sp || Ascii.eqb c tab) = true).
  { revert c H. intros c _. revert c. ascii_sweep (fun c => is_space c || negb (Ascii.eqb c sp || Ascii.eqb c tab)). }
  rewrite H in K. simpl in K. now apply negb_true_iff in K.
Qed.

Lemma pst_tok t : forall rest cur inq,
  tok_scan t inq = true -> pst (t ++ rest) cur inq 0 = pst rest (rev t ++ cur) false 0.
Proof.
  induction t as [|c t IH]; intros rest cur inq H; simpl in H.
  - apply negb_true_iff in H. subst. reflexivity.
  - simpl app. simpl pst. destruct (Ascii.eqb c dq) eqn:Edq.
    + rewrite IH by exact H. simpl. now rewrite <- app_assoc.
    + destruct inq.
      * (* inside quotes: everything is appended, the paren counter stays *)
        destruct (Ascii.eqb c lpar); [rewrite IH by exact H; simpl; now rewrite <- app_assoc|].
        destruct (Ascii.eqb c rpar); [rewrite IH by exact H; simpl; now rewrite <- app_assoc|].
        destruct (Ascii.eqb c sp || Ascii.eqb c tab); simpl; rewrite IH by exact H; simpl; now rewrite <- app_assoc.
      * apply andb_true_iff in H as [H H4]. apply andb_true_iff in H as [H H3].
        apply andb_true_iff in H as [H1 H2].
        apply negb_true_iff in H1, H2, H3. rewrite H1, H2, (not_space_sp _ H3).
        rewrite IH by exact H4. simpl. now rewrite <- app_assoc.
Qed.

Lemma tok_ok_nonempty t : tok_ok t = true -> t <> [].
Proof. destruct t; [discriminate | discriminate]. Qed.

Lemma tok_ok_scan t : tok_ok t = true -> tok_scan t false = true.
Proof. destruct t; [discriminate | trivial]. Qed.

Lemma pst_join toks : forallb tok_ok toks = true -> pst (join toks [sp]) [] false 0 = toks.
Proof.
  induction toks as [|t toks IH]; intros H; [reflexivity|].
  simpl in H. apply andb_true_iff in H as [Ht H].
  destruct toks as [|t2 toks].
  - simpl join. rewrite <- (app_nil_r t) at 1. rewrite pst_tok by (now apply tok_ok_scan).
    simpl. rewrite app_nil_r. destruct (rev t) eqn:E.
    + apply (f_equal (@rev _)) in E. rewrite rev_involutive in E. simpl in E. subst. discriminate.
    + rewrite <- E, rev_involutive. reflexivity.
  - change (join (t :: t2 :: toks) [sp]) with (t ++ sp :: join (t2 :: toks) [sp]).
    rewrite pst_tok by (now apply tok_ok_scan). rewrite app_nil_r.
    simpl pst. destruct (rev t) eqn:E.
    + apply (f_equal (@rev _)) in E. rewrite rev_involutive in E. simpl in E. subst. discriminate.
    + rewrite <- E, rev_involutive. f_equal. apply IH. exact H.
Qed.

Lemma parse_print toks : forallb tok_ok toks = true -> parse_search_tokens (join toks [sp]) = toks.
Proof. exact (pst_join toks). Qed.

(** ** trimming *)
Lemma drop_while_last (f : ascii -> bool) l c : f c = false -> drop_while f (l ++ [c]) <> [].
Proof. intros H. induction l as [|d l IH]; simpl; [now rewrite H | destruct (f d); [exact IH | discriminate]]. Qed.

Lemma trim_space_id s :
  match s with c :: _ => is_space c = false | [] => True end ->
  match rev s with c :: _ => is_space c = false | [] => True end ->
  trim_space s = s.
Proof.
  intros H1 H2. unfold trim_space, trim_f, trim_left_f, trim_right_f.
  assert (E : drop_while is_space s = s) by (destruct s; simpl; [reflexivity | now rewrite H1]).
  rewrite E. destruct (rev s) eqn:R.
  - apply (f_equal (@rev _)) in R. rewrite rev_involutive in R. now subst.
  - simpl. rewrite H2. rewrite <- R. apply rev_involutive.
Qed.

Lemma trim_space_nonempty c s : is_space c = false -> trim_space (c :: s) <> [].
Proof.
  intros H. unfold trim_space, trim_f, trim_left_f, trim_right_f. simpl drop_while at 2. rewrite H.
  simpl rev at 2. intros E. apply (f_equal (@rev _)) in E. rewrite rev_involutive in E. simpl in E.
  now apply (drop_while_last is_space (rev s) c H).
Qed.

Lemma rev_head_forall (P : ascii -> bool) s : forallb P s = true ->
  match rev s with c :: _ => P c = true | [] => True end.
Proof.
  intros H. destruct (rev s) eqn:R; [trivial|].
  rewrite forallb_forall in H. apply H. apply in_rev. rewrite R. now left.
Qed.

Lemma trim_space_all s : forallb (fun c => negb (is_space c)) s = true -> trim_space s = s.
Proof.
  intros H. apply trim_space_id.
  - destruct s; [trivial|]. simpl in H. apply andb_true_iff in H as [H _]. now apply negb_true_iff.
  - pose proof (rev_head_forall _ _ H) as K. destruct (rev s); [trivial|]. now apply negb_true_iff.
Qed.

(** ** unquote *)
Lemma unquote_plain s :
  forallb (fun c => negb (is_space c)) s = true ->
  match s with c :: _ => Ascii.eqb c dq = false | [] => True end ->
  unquote s = s.
Proof.
  intros H1 H2. unfold unquote. rewrite trim_space_all by exact H1.
  destruct s as [|q r]; [reflexivity|]. destruct (rev r); [reflexivity|]. now rewrite H2.
Qed.

Lemma unquote_quote v : unquote (dq :: v ++ [dq]) = v.
Proof.
  unfold unquote. rewrite trim_space_id.
  - rewrite rev_app_distr. simpl. apply rev_involutive.
  - reflexivity.
  - simpl. rewrite rev_app_distr. reflexivity.
Qed.
